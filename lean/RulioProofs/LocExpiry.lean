import RulioModel.LocInv
import RulioProofs.LocState

namespace LocP

/-! # Expiry: what `setExpires` / `prepareFact` / `checkExpiration` compute -/

theorem lookupKey_eq_amGet (o : Obj) (k : String) : lookupKey k o = amGet o k := by
  induction o with
  | nil => rfl
  | cons p o ih => obtain ⟨k', v⟩ := p; simp only [lookupKey, amGet, ih]

theorem Obj.get?_eq (o : Obj) (k : String) : o.get? k = amGet o k := lookupKey_eq_amGet o k
theorem Obj.set_eq (o : Obj) (k : String) (v : J) : Obj.set o k v = amSet o k v := rfl
theorem Obj.erase_eq (o : Obj) (k : String) : Obj.erase o k = amErase o k := rfl

theorem Obj.get?_set_self (o : Obj) (k : String) (v : J) : (Obj.set o k v).get? k = some v := by
  rw [Obj.get?_eq, Obj.set_eq, amGet_amSet_self]
theorem Obj.get?_set_ne (o : Obj) (k : String) (v : J) {k' : String} (h : k' ≠ k) :
    (Obj.set o k v).get? k' = o.get? k' := by
  rw [Obj.get?_eq, Obj.set_eq, amGet_amSet_ne _ _ _ h, Obj.get?_eq]
theorem Obj.get?_erase_self (o : Obj) (k : String) : (Obj.erase o k).get? k = none := by
  rw [Obj.get?_eq, Obj.erase_eq, amGet_amErase_self]
theorem Obj.get?_erase_ne (o : Obj) (k : String) {k' : String} (h : k' ≠ k) :
    (Obj.erase o k).get? k' = o.get? k' := by
  rw [Obj.get?_eq, Obj.erase_eq, amGet_amErase_ne _ h, Obj.get?_eq]

/-- the second half of `setExpires`: reading `expires` (the `ttl` is already resolved) -/
def expiresPart (fact : Obj) : Except LErr (Obj × Bool × Int) :=
  match fact.get? "expires" with
  | none => pure (fact, false, 0)
  | some exp => do
    let (fact, expires) ← (match exp with
      | .num n => pure (fact, n)
      | .str s =>
        match parseRFC3339 s with
        | some t => pure (fact.set "expires" (.num t), t)
        | none => .error "badExpires"
      | _ => .error "badExpires" : Except LErr (Obj × Int))
    match fact.get? "rule" with
    | none => pure (fact, true, expires)
    | some (.obj r) => pure (fact.set "rule" (.obj (Obj.set r "expires" (.num expires))), true, expires)
    | some _ => .error "ruleNotRule"

theorem setExpires_eq (fact : Obj) (now : Int) :
    setExpires fact now =
      match fact.get? "ttl" with
      | none => expiresPart fact
      | some (.num n) => expiresPart ((fact.erase "ttl").set "expires" (.num (now + n)))
      | some (.str s) =>
        (match parseDurationSecs s with
         | some d => expiresPart ((fact.erase "ttl").set "expires" (.num (now + d)))
         | none => .error "badTTL")
      | some _ => .error "badTTL" := by
  unfold setExpires expiresPart
  cases fact.get? "ttl" with
  | none => rfl
  | some ttl =>
    cases ttl with
    | num n => rfl
    | str s => dsimp only; cases parseDurationSecs s <;> rfl
    | null => rfl
    | bool b => rfl
    | arr a => rfl
    | obj a => rfl

/-- the last step of `setExpires`: the expiry is mirrored into a rule body -/
def mirrorRule (f : Obj) (e : Int) : Except LErr (Obj × Bool × Int) :=
  match f.get? "rule" with
  | none => pure (f, true, e)
  | some (.obj r) => pure (f.set "rule" (.obj (Obj.set r "expires" (.num e))), true, e)
  | some _ => .error "ruleNotRule"

theorem mirrorRule_ok {f m : Obj} {b : Bool} {e e' : Int} (h : mirrorRule f e = .ok (m, b, e')) :
    b = true ∧ e' = e ∧ m.get? "expires" = f.get? "expires" ∧ m.get? "ttl" = f.get? "ttl" ∧
    (m.get? "rule" = none ∨ ∃ r, m.get? "rule" = some (.obj r)) := by
  unfold mirrorRule at h
  cases hr : f.get? "rule" with
  | none =>
    rw [hr] at h; cases h
    exact ⟨rfl, rfl, rfl, rfl, Or.inl hr⟩
  | some v =>
    rw [hr] at h
    cases v with
    | obj r =>
      cases h
      exact ⟨rfl, rfl, Obj.get?_set_ne _ _ _ (by decide), Obj.get?_set_ne _ _ _ (by decide),
        Or.inr ⟨_, Obj.get?_set_self _ _ _⟩⟩
    | null => cases h
    | bool _ => cases h
    | num _ => cases h
    | str _ => cases h
    | arr _ => cases h

theorem expiresPart_eq (f : Obj) :
    expiresPart f =
      match f.get? "expires" with
      | none => .ok (f, false, 0)
      | some (.num n) => mirrorRule f n
      | some (.str s) =>
        (match parseRFC3339 s with
         | some t => mirrorRule (f.set "expires" (.num t)) t
         | none => .error "badExpires")
      | some _ => .error "badExpires" := by
  unfold expiresPart mirrorRule
  cases f.get? "expires" with
  | none => rfl
  | some v =>
    cases v with
    | num n => rfl
    | str s => dsimp only; cases parseRFC3339 s <;> rfl
    | null => rfl
    | bool _ => rfl
    | arr _ => rfl
    | obj _ => rfl

/-- the instant at which a fact written at `now` expires, per encoding (`none`: it does not expire) -/
def expiryOf (x : Obj) (now : Int) : Option Int :=
  match x.get? "ttl" with
  | some (.num n) => some (now + n)
  | some (.str s) => (parseDurationSecs s).map (fun d => now + d)
  | some _ => none
  | none =>
    match x.get? "expires" with
    | some (.num n) => some n
    | some (.str s) => parseRFC3339 s
    | _ => none

/-- `x` carries an expiry (a `ttl` or an `expires`) -/
def Expiring (x : Obj) : Prop := x.get? "ttl" ≠ none ∨ x.get? "expires" ≠ none

theorem expiresPart_ok {f m : Obj} {b : Bool} {e : Int} (h : expiresPart f = .ok (m, b, e)) :
    m.get? "ttl" = f.get? "ttl" ∧
    (f.get? "expires" = none → b = false ∧ e = 0 ∧ m = f) ∧
    (f.get? "expires" ≠ none → b = true ∧ m.get? "expires" = some (.num e) ∧
      (m.get? "rule" = none ∨ ∃ r, m.get? "rule" = some (.obj r)) ∧
      (∀ n, f.get? "expires" = some (.num n) → e = n) ∧
      (∀ s, f.get? "expires" = some (.str s) → parseRFC3339 s = some e)) := by
  rw [expiresPart_eq] at h
  cases hx : f.get? "expires" with
  | none =>
    rw [hx] at h; cases h
    exact ⟨rfl, fun _ => ⟨rfl, rfl, rfl⟩, fun h => absurd rfl h⟩
  | some v =>
    rw [hx] at h
    cases v with
    | num n =>
      obtain ⟨hb, he, h1, h2, h3⟩ := mirrorRule_ok h
      subst he
      exact ⟨h2, fun h => (by cases h), fun _ => ⟨hb, h1.trans hx, h3, fun n' hn => (by cases hn; rfl), fun s hs => (by cases hs)⟩⟩
    | str s =>
      dsimp only at h
      cases hp : parseRFC3339 s with
      | none => rw [hp] at h; cases h
      | some t =>
        rw [hp] at h
        obtain ⟨hb, he, h1, h2, h3⟩ := mirrorRule_ok h
        subst he
        refine ⟨h2.trans (Obj.get?_set_ne _ _ _ (by decide)), fun h => (by cases h), fun _ =>
          ⟨hb, h1.trans (Obj.get?_set_self _ _ _), h3, fun n' hn => (by cases hn), fun s' hs => (by cases hs; exact hp)⟩⟩
    | null => cases h
    | bool _ => cases h
    | arr _ => cases h
    | obj _ => cases h

/-- **what `setExpires` computes**: the fact leaves without `ttl`; when it carries an expiry the canonical
`expires` is the number `expiryOf` (now + ttl, or the given instant), otherwise nothing changes -/
theorem setExpires_ok {x m : Obj} {now : Int} {b : Bool} {e : Int} (h : setExpires x now = .ok (m, b, e)) :
    m.get? "ttl" = none ∧
    (¬ Expiring x → b = false ∧ e = 0 ∧ m = x) ∧
    (Expiring x → b = true ∧ expiryOf x now = some e ∧ m.get? "expires" = some (.num e) ∧
      (m.get? "rule" = none ∨ ∃ r, m.get? "rule" = some (.obj r))) := by
  rw [setExpires_eq] at h
  have viaTtl : ∀ d : Int, expiresPart ((x.erase "ttl").set "expires" (.num (now + d))) = .ok (m, b, e) →
      m.get? "ttl" = none ∧ b = true ∧ e = now + d ∧ m.get? "expires" = some (.num e) ∧
      (m.get? "rule" = none ∨ ∃ r, m.get? "rule" = some (.obj r)) := by
    intro d hd
    obtain ⟨h1, _, h3⟩ := expiresPart_ok hd
    have hex : ((x.erase "ttl").set "expires" (.num (now + d))).get? "expires" = some (.num (now + d)) :=
      Obj.get?_set_self _ _ _
    obtain ⟨hb, hm, hr, hn, _⟩ := h3 (by rw [hex]; simp)
    refine ⟨?_, hb, hn _ hex, hm, hr⟩
    rw [h1, Obj.get?_set_ne _ _ _ (by decide), Obj.get?_erase_self]
  cases ht : x.get? "ttl" with
  | none =>
    rw [ht] at h
    obtain ⟨h1, h2, h3⟩ := expiresPart_ok h
    refine ⟨h1.trans ht, ?_, ?_⟩
    · intro hne
      have : x.get? "expires" = none := by
        cases hx : x.get? "expires" with
        | none => rfl
        | some v => exact absurd (Or.inr (by rw [hx]; simp)) hne
      exact h2 this
    · intro hex
      have hx : x.get? "expires" ≠ none := by
        rcases hex with h' | h'
        · exact absurd ht h'
        · exact h'
      obtain ⟨hb, hm, hr, hn, hs⟩ := h3 hx
      refine ⟨hb, ?_, hm, hr⟩
      simp only [expiryOf, ht]
      cases hv : x.get? "expires" with
      | none => exact absurd hv hx
      | some v =>
        cases v with
        | num n => simp [hn n hv]
        | str s => simpa using hs s hv
        | null => rw [expiresPart_eq, hv] at h; cases h
        | bool _ => rw [expiresPart_eq, hv] at h; cases h
        | arr _ => rw [expiresPart_eq, hv] at h; cases h
        | obj _ => rw [expiresPart_eq, hv] at h; cases h
  | some v =>
    rw [ht] at h
    have hE : Expiring x := Or.inl (by rw [ht]; simp)
    cases v with
    | num n =>
      obtain ⟨h1, hb, he, hm, hr⟩ := viaTtl n h
      exact ⟨h1, fun hn => absurd hE hn, fun _ => ⟨hb, by simp [expiryOf, ht, he], hm, hr⟩⟩
    | str s =>
      dsimp only at h
      cases hp : parseDurationSecs s with
      | none => rw [hp] at h; cases h
      | some d =>
        rw [hp] at h
        obtain ⟨h1, hb, he, hm, hr⟩ := viaTtl d h
        exact ⟨h1, fun hn => absurd hE hn, fun _ => ⟨hb, by simp [expiryOf, ht, hp, he], hm, hr⟩⟩
    | null => cases h
    | bool _ => cases h
    | arr _ => cases h
    | obj _ => cases h

/-- preparing an already prepared, expiring fact again (at any later time) finds the same instant: the
stored `expires` is absolute -/
theorem setExpires_again {m : Obj} {e : Int} (ht : m.get? "ttl" = none) (he : m.get? "expires" = some (.num e))
    (hr : m.get? "rule" = none ∨ ∃ r, m.get? "rule" = some (.obj r)) (now' : Int) :
    ∃ m', setExpires m now' = .ok (m', true, e) ∧ m'.get? "expires" = some (.num e) ∧ m'.get? "ttl" = none := by
  rw [setExpires_eq, ht]
  dsimp only
  rw [expiresPart_eq, he]
  dsimp only
  unfold mirrorRule
  rcases hr with hr | ⟨r, hr⟩
  · rw [hr]; exact ⟨m, rfl, he, ht⟩
  · rw [hr]
    exact ⟨_, rfl, (Obj.get?_set_ne _ _ _ (by decide)).trans he, (Obj.get?_set_ne _ _ _ (by decide)).trans ht⟩

/-- … and a fact without expiry stays without -/
theorem setExpires_again_none {m : Obj} (ht : m.get? "ttl" = none) (he : m.get? "expires" = none) (now' : Int) :
    setExpires m now' = .ok (m, false, 0) := by
  rw [setExpires_eq, ht]
  dsimp only
  rw [expiresPart_eq, he]

theorem mirrorRule_err {f : Obj} {e : Int} {err : LErr} (h : mirrorRule f e = .error err) : err = "ruleNotRule" := by
  unfold mirrorRule at h
  split at h
  · cases h
  · cases h
  · cases h; rfl

theorem expiresPart_err {f : Obj} {err : LErr} (h : expiresPart f = .error err) :
    err = "badExpires" ∨ err = "ruleNotRule" := by
  rw [expiresPart_eq] at h
  split at h
  · cases h
  · exact Or.inr (mirrorRule_err h)
  · split at h
    · exact Or.inr (mirrorRule_err h)
    · cases h; exact Or.inl rfl
  · cases h; exact Or.inl rfl

theorem setExpires_err {x : Obj} {now : Int} {err : LErr} (h : setExpires x now = .error err) :
    err = "badTTL" ∨ err = "badExpires" ∨ err = "ruleNotRule" := by
  rw [setExpires_eq] at h
  split at h
  · exact Or.inr (expiresPart_err h)
  · exact Or.inr (expiresPart_err h)
  · split at h
    · exact Or.inr (expiresPart_err h)
    · cases h; exact Or.inl rfl
  · cases h; exact Or.inl rfl

theorem genId_err {x : Obj} {given fresh : String} {err : LErr} (h : genId x given fresh = .error err) :
    err = "badId" ∨ err = "multiProp" ∨ err = "badIdVar" := by
  unfold genId at h
  cases hp : parseProp x with
  | error e =>
    rw [hp] at h
    simp only [bind, Except.bind] at h
    cases h
    unfold parseProp at hp
    split at hp
    · cases hp
    · split at hp
      · cases hp
      · cases hp
      · cases hp; exact Or.inl rfl
    · cases hp; exact Or.inr (Or.inl rfl)
  | ok o =>
    rw [hp] at h
    simp only [bind, Except.bind] at h
    cases o with
    | some t => obtain ⟨a, b, c⟩ := t; cases h
    | none =>
      dsimp only at h
      generalize (if (given == "") = true then fresh else given) = id0 at h
      by_cases hv : isVar id0 = true
      · rw [if_pos hv] at h; cases h; exact Or.inr (Or.inr rfl)
      · rw [if_neg hv] at h; cases h

theorem prepareFact_eq (given fresh : String) (x : Obj) (now : Int) :
    prepareFact given fresh x now =
      match genId x given fresh with
      | .error e => .error e
      | .ok id =>
        match setExpires x now with
        | .error e => .error e
        | .ok (m, expiring, expires) =>
          if expiring && notAfter expires now then .error "expired" else
          .ok (id, m, match x.get? "rule", m.get? "rule" with
            | some (.obj _), some (.obj r') => x.set "rule" (.obj r')
            | _, _ => x) := by
  unfold prepareFact
  cases genId x given fresh with
  | error e => rfl
  | ok id =>
    simp only [bind, Except.bind]
    cases setExpires x now with
    | error e => rfl
    | ok t => obtain ⟨m, b, e⟩ := t; rfl

/-- `PrepareFact` succeeds with the canonical fact of `setExpires`, which is not yet expired -/
theorem prepareFact_ok {given fresh id : String} {x m x' : Obj} {now : Int}
    (h : prepareFact given fresh x now = .ok (id, m, x')) :
    genId x given fresh = .ok id ∧ ∃ b e, setExpires x now = .ok (m, b, e) ∧ ¬ (b = true ∧ notAfter e now = true) := by
  rw [prepareFact_eq] at h
  cases hg : genId x given fresh with
  | error e => rw [hg] at h; cases h
  | ok id' =>
    rw [hg] at h
    cases hs : setExpires x now with
    | error e => rw [hs] at h; cases h
    | ok t =>
      obtain ⟨m', b, e⟩ := t
      rw [hs] at h
      dsimp only at h
      split at h
      · cases h
      · rename_i hc
        cases h
        exact ⟨rfl, b, e, rfl, by simpa using hc⟩

/-- `PrepareFact` answers "expired" exactly when the fact carries an expiry that is not after `now` -/
theorem prepareFact_expired_iff (given fresh : String) (x : Obj) (now : Int) :
    prepareFact given fresh x now = .error "expired" ↔
      (∃ id, genId x given fresh = .ok id) ∧ ∃ m e, setExpires x now = .ok (m, true, e) ∧ notAfter e now = true := by
  rw [prepareFact_eq]
  constructor
  · intro h
    cases hg : genId x given fresh with
    | error e =>
      rw [hg] at h
      simp only [Except.error.injEq] at h
      rcases genId_err hg with h1 | h1 | h1 <;> rw [h1] at h <;> exact absurd h (by decide)
    | ok id' =>
      rw [hg] at h
      cases hs : setExpires x now with
      | error e =>
        rw [hs] at h
        simp only [Except.error.injEq] at h
        rcases setExpires_err hs with h1 | h1 | h1 <;> rw [h1] at h <;> exact absurd h (by decide)
      | ok t =>
        obtain ⟨m', b, e⟩ := t
        rw [hs] at h
        dsimp only at h
        split at h
        · rename_i hc
          simp only [Bool.and_eq_true] at hc
          refine ⟨⟨id', rfl⟩, m', e, ?_, hc.2⟩
          rw [hc.1]
        · cases h
  · rintro ⟨⟨id, hg⟩, m, e, hs, hn⟩
    rw [hg, hs]
    simp [hn]

/-! ## the parsers on concrete inputs (core `String` functions do not reduce in the kernel; they are first
rewritten to their `List Char` versions) -/

theorem isNat_eq_list (s : String) : s.isNat = (Id.run do
  let mut lastWasDigit := false
  for c in s.toList do
    if c = '_' then
      if !lastWasDigit then
        return false
      lastWasDigit := false
    else if c.isDigit then
      lastWasDigit := true
    else
      return false
  return lastWasDigit) := by
  unfold String.isNat String.Slice.isNat
  simp only [String.Slice.forIn_eq_forIn_toList, String.copy_toSlice]

theorem toNat?_eq_list (s : String) : s.toNat? =
    if s.isNat then some (s.toList.foldl (fun n c => if c = '_' then n else n * 10 + (c.toNat - '0'.toNat)) 0)
    else none := by
  unfold String.toNat? String.Slice.toNat?
  simp only [String.Slice.foldl_eq_foldl_toList, String.copy_toSlice]
  rfl

/-- `digitsToNat?` on the characters -/
def digitsL (l : List Char) : Option Nat :=
  if l.isEmpty || !l.all Char.isDigit then none else
  if (String.ofList l).isNat then some (l.foldl (fun n c => if c = '_' then n else n * 10 + (c.toNat - '0'.toNat)) 0)
  else none

theorem digitsToNat?_ofList (l : List Char) : digitsToNat? (String.ofList l) = digitsL l := by
  unfold digitsToNat? digitsL
  rw [toNat?_eq_list]
  simp [String.all_bool_eq]

/-- `parseRFC3339` on the characters -/
def rfc3339L (cs : List Char) : Option Int :=
  if cs.length != 20 then none else
  let sub (a b : Nat) : List Char := (cs.drop a).take (b - a)
  let ch (i : Nat) : Char := cs.getD i ' '
  if ch 4 != '-' || ch 7 != '-' || ch 10 != 'T' || ch 13 != ':' || ch 16 != ':' || ch 19 != 'Z' then none else
  match digitsL (sub 0 4), digitsL (sub 5 7), digitsL (sub 8 10),
        digitsL (sub 11 13), digitsL (sub 14 16), digitsL (sub 17 19) with
  | some y, some mo, some d, some h, some mi, some sec =>
    if mo < 1 || mo > 12 || d < 1 || d > 31 || h > 23 || mi > 59 || sec > 59 then none
    else some (daysFromCivil y mo d * 86400 + h * 3600 + mi * 60 + sec)
  | _, _, _, _, _, _ => none

theorem parseRFC3339_eq_list (s : String) : parseRFC3339 s = rfc3339L s.toList := by
  unfold parseRFC3339 rfc3339L
  simp only [digitsToNat?_ofList]
  rfl

theorem isNat_digits4 : (String.ofList ['1', '9', '7', '0']).isNat = true := by rw [isNat_eq_list]; decide

theorem parseRFC3339_epoch : parseRFC3339 "1970-01-01T00:00:00Z" = some 0 := by
  rw [parseRFC3339_eq_list]
  simp only [rfc3339L, digitsL, isNat_eq_list]
  decide

theorem endsWith_eq_suffix (s pat : String) : s.endsWith pat = decide (pat.toList <:+ s.toList) := by
  rw [Bool.eq_iff_iff]
  simp only [String.endsWith, String.Slice.endsWith_string_iff, String.copy_toSlice, decide_eq_true_eq]

theorem digitsToNat?_toList (s : String) : digitsToNat? s = digitsL s.toList := by
  have := digitsToNat?_ofList s.toList
  simpa using this

theorem parseRFC3339_today : parseRFC3339 "2026-09-29T05:00:00Z" = some 1790658000 := by
  rw [parseRFC3339_eq_list]
  simp only [rfc3339L, digitsL, isNat_eq_list]
  decide

theorem parseRFC3339_rejects : parseRFC3339 "2026-09-29 05:00:00Z" = none ∧ parseRFC3339 "2026-13-01T00:00:00Z" = none := by
  rw [parseRFC3339_eq_list, parseRFC3339_eq_list]
  simp only [rfc3339L, digitsL, isNat_eq_list]
  decide

theorem parseDurationSecs_examples :
    parseDurationSecs "90m" = some 5400 ∧ parseDurationSecs "2s" = some 2 ∧ parseDurationSecs "1h" = some 3600 ∧
    parseDurationSecs "-5s" = some (-5) ∧ parseDurationSecs "5ms" = none ∧ parseDurationSecs "soon" = none := by
  refine ⟨?_, ?_, ?_, ?_, ?_, ?_⟩ <;>
  · simp [parseDurationSecs, endsWith_eq_suffix, digitsToNat?_toList]
    try (simp only [digitsL, isNat_eq_list]; decide)

end LocP

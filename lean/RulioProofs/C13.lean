import RulioModel.C13

/-! # C13 — helper lemmas (lock discipline of the wrapper model; validated paths; the repaired paths) -/

namespace C13

/-! ## A small Hoare logic for `KM`: state invariants that the lock-aware calls maintain -/

/-- an invariant of the wrapped location, with what the calls need to know about it -/
structure GoodSpec where
  P : KLoc → Prop
  /-- must the invariant also hold after an operation that panicked? -/
  onPanic : Bool
  /-- does the invariant exclude faults (then no State call panics)? -/
  strict : Bool
  /-- the panics that may still happen under a fault-excluding invariant -/
  allowed : PanicSite → Prop
  free : ∀ k, P k → k.lock = .free
  stable : ∀ k s, P k → P (withSt k s)
  panicOK : onPanic = true → strict = false → ∀ k m, P k → leakIn k.locks k.loc.st.kind m = none
  strictOK : strict = true → ∀ k, P k → ∀ m s, k.fault m s = none
  relock : ∀ k k', P k → P k' → P { k with lock := k'.lock, wwait := k'.wwait }

/-- what is asked of the outcome `x` of a call started in the invariant: it did not block, it panicked only at an
allowed site when the invariant excludes faults, and the invariant holds again (always, or unless it panicked) -/
def Post (S : GoodSpec) {α : Type} (x : KLoc × Res α) : Prop :=
  x.2.isHang = false ∧ (S.strict = true → ∀ s, x.2 = .panic s → S.allowed s) ∧
    ((x.2.isPanic = false ∨ S.onPanic = true) → S.P x.1)

def Sat (S : GoodSpec) {α : Type} (m : KM α) : Prop := ∀ k, S.P k → Post S (m k)

variable (S : GoodSpec)

/-- `Post` looks at the class of the result only -/
theorem post_congr {α β} {k : KLoc} {r : Res α} {r' : Res β} (hp : Post S (k, r)) (h : r.void = r'.void := by rfl) :
    Post S (k, r') := by
  obtain ⟨h1, h2, h3⟩ := hp
  cases r <;> cases r' <;> simp [Res.void] at h
  · exact ⟨rfl, fun _ s hs => by simp at hs, h3⟩
  · exact ⟨rfl, fun _ s hs => by simp at hs, h3⟩
  · subst h
    refine ⟨rfl, fun hs s' hs' => ?_, h3⟩
    rename_i site
    have : site = s' := by simpa using hs'
    exact this ▸ h2 hs site rfl
  · exact absurd h1 (by simp [Res.isHang])

/-- an outcome that is `ok` or `err` with the invariant in place -/
theorem post_plain {α} {k : KLoc} {r : Res α} (hk : S.P k) (h1 : r.isHang = false := by rfl) (h2 : r.isPanic = false := by rfl) :
    Post S (k, r) := by
  refine ⟨h1, fun _ s hs => ?_, fun _ => hk⟩
  have hs' : r = .panic s := hs
  rw [hs'] at h2; cases h2

theorem sat_pure {α} (a : α) : Sat S (pure a : KM α) := fun _ hk => post_plain S hk
theorem sat_fail {α} (e : LErr) : Sat S (KM.fail e : KM α) := fun _ hk => post_plain S hk
theorem sat_get : Sat S KM.get := fun _ hk => post_plain S hk

/-- an explicit panic outside every lock: fine for the lock; under a fault-excluding invariant it must be an allowed one -/
theorem sat_panicAt {α} (s : PanicSite) (hs : S.strict = false ∨ S.allowed s) : Sat S (KM.panicAt s : KM α) := by
  intro k hk
  refine ⟨rfl, fun h s' hs' => ?_, fun _ => hk⟩
  rcases hs with hs | hs
  · rw [hs] at h; cases h
  · have : s = s' := by simpa [KM.panicAt] using hs'
    exact this ▸ hs

theorem sat_bind {α β} {m : KM α} {f : α → KM β} (hm : Sat S m) (hf : ∀ a, Sat S (f a)) : Sat S (m >>= f) := by
  intro k hk
  have h := hm k hk
  show Post S ((KM.bind m f) k)
  unfold KM.bind
  rcases hmk : m k with ⟨k1, r⟩
  rw [hmk] at h
  cases r with
  | ok a => exact hf a k1 (h.2.2 (Or.inl rfl))
  | err e => exact post_congr S h
  | panic s => exact post_congr S h
  | hang => exact post_congr S h

theorem sat_seq {α β} {m : KM α} {n : KM β} (hm : Sat S m) (hn : Sat S n) : Sat S (m >>= fun _ => n) :=
  sat_bind S hm (fun _ => hn)

theorem sat_attempt {α} {m : KM α} (hm : Sat S m) : Sat S (KM.attempt m) := by
  intro k hk
  have h := hm k hk
  unfold KM.attempt
  rcases hmk : m k with ⟨k1, r⟩
  rw [hmk] at h
  cases r with
  | ok a => exact post_congr S h
  | err e => exact post_plain S (h.2.2 (Or.inl rfl))
  | panic s => exact post_congr S h
  | hang => exact post_congr S h

theorem sat_handle {α} {m : KM α} {h : LErr → KM α} (hm : Sat S m) (hh : ∀ e, Sat S (h e)) : Sat S (KM.handle m h) := by
  intro k hk
  have h0 := hm k hk
  unfold KM.handle
  rcases hmk : m k with ⟨k1, r⟩
  rw [hmk] at h0
  cases r with
  | ok a => exact h0
  | err e => exact hh e k1 (h0.2.2 (Or.inl rfl))
  | panic s => exact h0
  | hang => exact h0

theorem sat_void {α} {m : KM α} (hm : Sat S m) : Sat S (KM.void m) := by
  intro k hk
  have h := hm k hk
  unfold KM.void
  rcases hmk : m k with ⟨k1, r⟩
  rw [hmk] at h
  cases r <;> exact post_congr S h

theorem blocked_free (k : KLoc) (w : Bool) (h : k.lock = .free) : blocked k w = false := by
  simp [blocked, h]

/-- the heart: one call of a State method, whatever its body `f` computes and whether or not the fault oracle makes it panic -/
theorem sat_kCall {α} (m : Meth) (f : St → St × Except LErr α) : Sat S (kCall m f) := by
  intro k hk
  have hfree := S.free k hk
  unfold kCall
  rw [blocked_free k _ hfree]
  simp only [Bool.false_eq_true, if_false]
  cases hfault : k.fault m k.loc.st with
  | some s =>
    simp only
    cases hst : S.strict with
    | true =>
      have := S.strictOK hst k hk m k.loc.st
      rw [hfault] at this; cases this
    | false =>
      refine ⟨rfl, ?_, fun h => ?_⟩
      · intro hs; rw [hst] at hs; cases hs
      · rcases h with h | h
        · exact absurd h (by simp [Res.isPanic])
        · have hl := S.panicOK h hst k m hk
          simp only [hl]
          exact S.stable k s hk
  | none =>
    simp only
    rcases hf : f k.loc.st with ⟨s, r⟩
    cases r with
    | ok a => exact post_plain S (S.stable k s hk)
    | error e => exact post_plain S (S.stable k s hk)

theorem sat_kGet (id : String) (now : Int) : Sat S (kGet id now) := sat_kCall S _ _
theorem sat_kCount : Sat S kCount := sat_kCall S _ _
theorem sat_kSearch (p : Obj) (now : Int) : Sat S (kSearch p now) := sat_kCall S _ _
theorem sat_kFindRules (ev : Obj) (now : Int) : Sat S (kFindRules ev now) := sat_kCall S _ _

theorem sat_kAdd (id : String) (x : Obj) (now : Int) : Sat S (kAdd id x now) := by
  intro k hk
  have h := sat_kCall S .add (fun s => addK s id x now) k hk
  unfold kAdd
  cases hh : k.hooks with
  | false => simpa using h
  | true =>
    simp only [Bool.not_true, Bool.false_eq_true, if_false]
    rcases hc : kCall .add (fun s => addK s id x now) k with ⟨k1, r⟩
    rw [hc] at h
    cases r with
    | ok a =>
      simp only []
      split
      · split
        · exact post_plain S (S.stable k _ hk)
        · exact h
      · exact h
    | err e => exact h
    | panic s => exact h
    | hang => exact h

theorem sat_kRem (id : String) (now : Int) : Sat S (kRem id now) := by
  intro k hk
  unfold kRem
  cases hh : k.hooks with
  | false => simpa using sat_kCall S .rem (fun s => remK s id now) k hk
  | true =>
    simp only [Bool.not_true, Bool.false_eq_true, if_false]
    have h := sat_kCall S .get (fun s => getK s id now) k hk
    rcases hc : kCall .get (fun s => getK s id now) k with ⟨k1, r⟩
    rw [hc] at h
    cases r with
    | ok fact =>
      simp only []
      split
      · exact post_plain S (h.2.2 (Or.inl rfl))
      · exact sat_kCall S .rem _ k1 (h.2.2 (Or.inl rfl))
    | err e => exact post_congr S h
    | panic s => exact post_congr S h
    | hang => exact post_congr S h

theorem sat_kGetProp (id prop : String) (dflt : J) (now : Int) : Sat S (kGetProp id prop dflt now) := by
  unfold kGetProp
  refine sat_bind S (sat_attempt S (sat_kGet S _ _)) (fun x => ?_)
  split
  · exact sat_pure S _
  · exact sat_fail S _
  · split
    · exact sat_pure S _
    · exact sat_fail S _

theorem sat_kGetPropStringD (prop : String) (now : Int) : Sat S (kGetPropStringD prop now) := by
  unfold kGetPropStringD
  refine sat_bind S (sat_attempt S (sat_kGetProp S _ _ _ _)) (fun x => ?_)
  split <;> exact sat_pure S _

theorem sat_kSetProp (id prop : String) (v : J) (now : Int) : Sat S (kSetProp id prop v now) := sat_kAdd S _ _ _
theorem sat_kRemProp (id prop : String) (now : Int) : Sat S (kRemProp id prop now) := sat_kRem S _ _

theorem sat_kRunGuard (c : Ctx) (now : Int) (g : Guard) : Sat S (kRunGuard c now g) := by
  cases g with
  | enabled =>
    unfold kRunGuard
    refine sat_bind S (sat_kGetPropStringD S _ _) (fun e => ?_)
    split
    · exact sat_pure S _
    · exact sat_fail S _
  | checkRead =>
    unfold kRunGuard
    refine sat_bind S (sat_kGetPropStringD S _ _) (fun e => ?_)
    split
    · exact sat_pure S _
    · exact sat_fail S _
  | checkWrite =>
    unfold kRunGuard
    refine sat_bind S (sat_get S) (fun k => ?_)
    split
    · exact sat_fail S _
    · refine sat_bind S (sat_kGetPropStringD S _ _) (fun e => ?_)
      split
      · exact sat_pure S _
      · exact sat_fail S _
  | atCapacity =>
    unfold kRunGuard
    refine sat_bind S (sat_get S) (fun k => ?_)
    refine sat_bind S (sat_kCount S) (fun n => ?_)
    split
    · exact sat_fail S _
    · exact sat_pure S _

theorem sat_kRunGuards (c : Ctx) (now : Int) (gs : List Guard) : Sat S (kRunGuards c now gs) := by
  induction gs with
  | nil => exact sat_pure S _
  | cons g gs ih =>
    unfold kRunGuards
    exact sat_bind S (sat_kRunGuard S c now g) (fun _ => ih)

theorem sat_kAddFact (c : Ctx) (id : String) (fact : Obj) (now : Int) : Sat S (kAddFact c id fact now) := by
  unfold kAddFact
  exact sat_bind S (sat_kRunGuards S _ _ _) (fun _ => sat_kAdd S _ _ _)

theorem sat_kRemFact (c : Ctx) (id : String) (now : Int) : Sat S (kRemFact c id now) := by
  unfold kRemFact
  exact sat_bind S (sat_kRunGuards S _ _ _) (fun _ => sat_bind S (sat_kRem S _ _) (fun _ => sat_pure S _))

theorem sat_kGetFact (c : Ctx) (id : String) (now : Int) : Sat S (kGetFact c id now) := by
  unfold kGetFact
  exact sat_bind S (sat_kRunGuards S _ _ _) (fun _ => sat_kGet S _ _)

theorem sat_kAddRule (c : Ctx) (id : String) (rule : Obj) (now : Int) : Sat S (kAddRule c id rule now) := by
  unfold kAddRule
  refine sat_bind S (sat_kRunGuards S _ _ _) (fun _ => ?_)
  split
  · exact sat_fail S _
  · split
    · exact sat_fail S _
    · exact sat_kAdd S _ _ _

theorem sat_kRemRule (c : Ctx) (id : String) (now : Int) : Sat S (kRemRule c id now) := by
  unfold kRemRule
  refine sat_bind S (sat_kRunGuards S _ _ _) (fun _ => ?_)
  refine sat_bind S (sat_kRem S _ _) (fun _ => ?_)
  refine sat_bind S (sat_kGetProp S _ _ _ _) (fun x => ?_)
  split
  split
  · exact sat_bind S (sat_kRemProp S _ _ _) (fun _ => sat_pure S _)
  · exact sat_pure S _

theorem sat_kEnableRule (c : Ctx) (id : String) (en : Bool) (now : Int) : Sat S (kEnableRule c id en now) := by
  unfold kEnableRule
  refine sat_bind S (sat_kRunGuards S _ _ _) (fun _ => ?_)
  split
  · exact sat_bind S (sat_kRemProp S _ _ _) (fun _ => sat_pure S _)
  · exact sat_bind S (sat_kSetProp S _ _ _ _) (fun _ => sat_pure S _)

theorem sat_kRuleEnabled (c : Ctx) (id : String) (now : Int) : Sat S (kRuleEnabled c id now) := by
  unfold kRuleEnabled
  refine sat_bind S (sat_kRunGuards S _ _ _) (fun _ => ?_)
  refine sat_bind S (sat_kGetProp S _ _ _ _) (fun x => ?_)
  split
  split <;> exact sat_pure S _

theorem sat_kGetRule (c : Ctx) (id : String) (now : Int) : Sat S (kGetRule c id now) := by
  unfold kGetRule
  refine sat_bind S (sat_kRunGuards S _ _ _) (fun _ => ?_)
  refine sat_bind S (sat_kGet S _ _) (fun f => ?_)
  split
  · exact sat_pure S _
  · exact sat_fail S _
  · exact sat_fail S _

theorem sat_kGetParentsRaw (now : Int) : Sat S (kGetParentsRaw now) := by
  unfold kGetParentsRaw
  refine sat_bind S (sat_kGetProp S _ _ _ _) (fun x => ?_)
  split
  split
  · exact sat_pure S _
  · split
    · exact sat_pure S _
    · exact sat_fail S _

theorem sat_klocSearchFacts (c : Ctx) (p : Obj) (now : Int) : Sat S (klocSearchFacts c p now) := by
  unfold klocSearchFacts
  exact sat_bind S (sat_kRunGuards S _ _ _) (fun _ => sat_kSearch S _ _)

theorem sat_kSearchFacts (c : Ctx) (p : Obj) (inh : Bool) (now : Int) : Sat S (kSearchFacts c p inh now) := by
  unfold kSearchFacts
  split
  · refine sat_bind S (sat_kGetParentsRaw S _) (fun ps => ?_)
    split
    · exact sat_fail S _
    · exact sat_klocSearchFacts S _ _ _
  · exact sat_klocSearchFacts S _ _ _

theorem sat_klocSearchRules (c : Ctx) (ev : Obj) (now : Int) : Sat S (klocSearchRules c ev now) := by
  unfold klocSearchRules
  refine sat_bind S (sat_kRunGuards S _ _ _) (fun _ => ?_)
  refine sat_bind S (sat_kFindRules S _ _) (fun cands => ?_)
  split
  · exact sat_pure S _
  · exact sat_fail S _

theorem sat_kSearchRulesAnc (c : Ctx) (ev : Obj) (now : Int) : Sat S (kSearchRulesAnc c ev now) := by
  unfold kSearchRulesAnc
  refine sat_bind S (sat_kGetParentsRaw S _) (fun ps => ?_)
  split
  · exact sat_fail S _
  · exact sat_klocSearchRules S _ _ _

theorem sat_kSearchRules (c : Ctx) (ev : Obj) (inh : Bool) (now : Int) : Sat S (kSearchRules c ev inh now) := by
  unfold kSearchRules
  refine sat_bind S (sat_kRunGuards S _ _ _) (fun _ => ?_)
  split
  · exact sat_kSearchRulesAnc S _ _ _
  · exact sat_klocSearchRules S _ _ _

theorem sat_kListRules (c : Ctx) (inh : Bool) (now : Int) (hs : S.strict = false ∨ S.allowed .listRulesNil ∨ inh = true) :
    Sat S (kListRules c inh now) := by
  unfold kListRules
  refine sat_bind S (sat_kRunGuards S _ _ _) (fun _ => ?_)
  refine sat_handle S (sat_bind S (sat_kSearchFacts S _ _ _ _) (fun _ => sat_pure S _)) (fun e => ?_)
  split
  · exact sat_pure S _
  · rename_i hinh
    rcases hs with hs | hs | hs
    · exact sat_panicAt S _ (Or.inl hs)
    · exact sat_panicAt S _ (Or.inr hs)
    · exact absurd hs hinh


/-- what a nested search that panicked leaves behind is covered by the invariant of the search itself -/
theorem leakNested_ok (c : Ctx) (now : Int) (k : KLoc) (hk : S.P k) (h : S.onPanic = true) : S.P (leakNested k c now) := by
  unfold leakNested
  exact S.relock k _ hk ((sat_kSearchFacts S c [] true now k hk).2.2 (Or.inr h))

theorem nestedPanic_some {k : KLoc} {c : Ctx} {now : Int} {s : PanicSite} (h : nestedPanic k c now = some s) :
    (kSearchFacts c [] true now k).2 = .panic s := by
  unfold nestedPanic at h
  rcases hr : (kSearchFacts c [] true now k).2 with _ | _ | s' | _ <;> rw [hr] at h <;> simp [Res.site] at h
  rw [h]

theorem sat_kExecQuery (c : Ctx) (q : J) (now : Int) : Sat S (kExecQuery c q now) := by
  intro k hk
  unfold kExecQuery
  simp only []
  split
  · exact post_plain S hk
  · rename_i e _
    split
    · rename_i site hsite
      have hnp : nestedPanic k c now = some site := by
        split at hsite
        · exact hsite
        · cases hsite
      refine ⟨rfl, fun hs s' hs' => ?_, fun h => ?_⟩
      · have : site = s' := by simpa using hs'
        exact this ▸ (sat_kSearchFacts S c [] true now k hk).2.1 hs site (nestedPanic_some hnp)
      · rcases h with h | h
        · exact absurd h (by simp [Res.isPanic])
        · exact leakNested_ok S c now k hk h
    · simp only [blocked_free k _ (S.free k hk)]
      exact post_plain S hk

theorem sat_kQuery (c : Ctx) (q : J) (now : Int) : Sat S (kQuery c q now) := by
  unfold kQuery
  exact sat_bind S (sat_kRunGuards S _ _ _) (fun _ => sat_kExecQuery S _ _ _)

theorem sat_kEnabledFlags (c : Ctx) (now : Int) (l : List (String × RuleM)) : Sat S (kEnabledFlags c now l) := by
  induction l with
  | nil => exact sat_pure S _
  | cons x rest ih =>
    rcases x with ⟨id, r⟩
    unfold kEnabledFlags
    refine sat_bind S (sat_attempt S (sat_kRuleEnabled S _ _ _)) (fun e => ?_)
    exact sat_bind S ih (fun _ => sat_pure S _)

theorem sat_kCandidates (c : Ctx) (ev : Obj) (now : Int) : Sat S (kCandidates c ev now) := by
  unfold kCandidates
  split
  · refine sat_bind S (sat_kGetRule S _ _ _) (fun body => ?_)
    split
    · exact sat_kEnabledFlags S _ _ _
    · exact sat_fail S _
  · exact sat_fail S _
  · split
    · split
      · exact sat_pure S _
      · exact sat_fail S _
    · exact sat_fail S _
    · exact sat_bind S (sat_kSearchRulesAnc S _ _ _) (fun _ => sat_kEnabledFlags S _ _ _)

theorem sat_kWalk (c : Ctx) (ev : Obj) (now : Int) (cands : List (String × RuleM × Bool)) : Sat S (kWalk c ev now cands) := by
  intro k hk
  unfold kWalk
  simp only []
  split
  · rename_i site hsite
    have hnp : nestedPanic k c now = some site := by
      split at hsite
      · exact hsite
      · cases hsite
    refine ⟨rfl, fun hs s' hs' => ?_, fun h => ?_⟩
    · have : site = s' := by simpa using hs'
      exact this ▸ (sat_kSearchFacts S c [] true now k hk).2.1 hs site (nestedPanic_some hnp)
    · rcases h with h | h
      · exact absurd h (by simp [Res.isPanic])
      · exact leakNested_ok S c now k hk h
  · simp only [blocked_free k _ (S.free k hk)]
    exact post_plain S hk

theorem sat_kProcessEvent (c : Ctx) (ev : Obj) (now : Int) : Sat S (kProcessEvent c ev now) := by
  unfold kProcessEvent
  refine sat_bind S (sat_attempt S (sat_kCandidates S _ _ _)) (fun x => ?_)
  split
  · exact sat_pure S _
  · exact sat_kWalk S _ _ _ _

/-- the one operation with a panic of its own: the non-inherited `ListRules` -/
def PubOp.localList : PubOp → Bool
  | .listRules _ inh _ => !inh
  | _ => false

theorem sat_run (op : PubOp) (hs : S.strict = false ∨ S.allowed .listRulesNil ∨ op.localList = false) : Sat S (run op) := by
  cases op <;> unfold run <;> apply sat_void
  · exact sat_kAddFact S _ _ _ _
  · exact sat_kRemFact S _ _ _
  · exact sat_kGetFact S _ _ _
  · exact sat_kSearchFacts S _ _ _ _
  · exact sat_kAddRule S _ _ _ _
  · exact sat_kRemRule S _ _ _
  · exact sat_kGetRule S _ _ _
  · exact sat_kEnableRule S _ _ _ _
  · exact sat_kRuleEnabled S _ _ _
  · refine sat_kListRules S _ _ _ ?_
    rcases hs with hs | hs | hs
    · exact Or.inl hs
    · exact Or.inr (Or.inl hs)
    · exact Or.inr (Or.inr (by simpa [PubOp.localList] using hs))
  · exact sat_kSearchRules S _ _ _ _
  · exact sat_kQuery S _ _ _
  · exact sat_kProcessEvent S _ _ _

/-! ## The three invariants -/

/-- `Serving`: the state lock is free -/
def servingSpec : GoodSpec where
  P := fun k => k.lock = .free
  onPanic := false
  strict := false
  allowed := fun _ => True
  free := fun _ h => h
  stable := fun _ _ h => h
  panicOK := fun h => by simp at h
  strictOK := fun h => by simp at h
  relock := fun _ _ _ h => h

/-- every method of both states, under the lock discipline of the current source: a panic inside it leaves no lock behind -/
theorem leakIn_source_none (kind : Kind) (m : Meth) : leakIn C13Gen.lockUses kind m = none := by
  cases kind <;> cases m <;> decide +kernel

/-- a location (either state) under the lock discipline of the current source: serving, also after a panic -/
def poisonSpec : GoodSpec where
  P := fun k => k.lock = .free ∧ k.locks = C13Gen.lockUses
  onPanic := true
  strict := false
  allowed := fun _ => True
  free := fun _ h => h.1
  stable := fun _ _ h => h
  panicOK := fun _ _ k m h => by rw [h.2]; exact leakIn_source_none _ m
  strictOK := fun h => by simp at h
  relock := fun _ _ h h' => ⟨h'.1, h.2⟩

/-- a serving location none of whose State method bodies panics (kept also by the one panic that is left, which
happens outside every lock); `sites` = the panics to be shown the only possible ones -/
def cleanSpec (sites : PanicSite → Prop) : GoodSpec where
  P := fun k => k.lock = .free ∧ FaultFree k
  onPanic := true
  strict := true
  allowed := sites
  free := fun _ h => h.1
  stable := fun _ _ h => h
  panicOK := fun _ h => by simp at h
  strictOK := fun _ _ h => h.2
  relock := fun _ _ h h' => ⟨h'.1, h.2⟩

theorem run_serving (op : PubOp) (k : KLoc) (h : Serving k) :
    (run op k).2.isHang = false ∧ ((run op k).2.isPanic = false → Serving (run op k).1) := by
  have := sat_run servingSpec op (Or.inl rfl) k h
  exact ⟨this.1, fun hp => this.2.2 (Or.inl hp)⟩

theorem run_never_poisons (op : PubOp) (k : KLoc) (hl : k.locks = C13Gen.lockUses) (h : Serving k) :
    (run op k).2.isHang = false ∧ Serving (run op k).1 ∧ (run op k).1.locks = C13Gen.lockUses := by
  have := sat_run poisonSpec op (Or.inl rfl) k ⟨h, hl⟩
  exact ⟨this.1, this.2.2 (Or.inr rfl)⟩

theorem run_serving_linear (op : PubOp) (k : KLoc) (_hk : k.loc.st.kind = .linear) (hl : k.locks = C13Gen.lockUses)
    (h : Serving k) : Serving (run op k).1 :=
  (run_never_poisons op k hl h).2.1

theorem runAll_serving (ops : List PubOp) (k : KLoc) (h : Serving k)
    (hp : ∀ r ∈ (runAll ops k).2, r.2.isPanic = false) :
    (∀ r ∈ (runAll ops k).2, r.2.isHang = false) ∧ Serving (runAll ops k).1 := by
  induction ops generalizing k with
  | nil => exact ⟨by intro r hr; simp [runAll] at hr, h⟩
  | cons op ops ih =>
    have h1 := run_serving op k h
    simp only [runAll] at hp ⊢
    have hp1 : (run op k).2.isPanic = false := hp (op, (run op k).2) (by simp)
    have ih' := ih (run op k).1 (h1.2 hp1) (fun r hr => hp r (by simp [hr]))
    refine ⟨?_, ih'.2⟩
    intro r hr
    simp only [List.mem_cons] at hr
    rcases hr with hr | hr
    · rw [hr]; exact h1.1
    · exact ih'.1 r hr

theorem runAll_never_poisons (ops : List PubOp) (k : KLoc) (hl : k.locks = C13Gen.lockUses) (h : Serving k) :
    (∀ r ∈ (runAll ops k).2, r.2.isHang = false) ∧ Serving (runAll ops k).1 := by
  induction ops generalizing k with
  | nil => exact ⟨by intro r hr; simp [runAll] at hr, h⟩
  | cons op ops ih =>
    have h1 := run_never_poisons op k hl h
    simp only [runAll]
    have ih' := ih (run op k).1 h1.2.2 h1.2.1
    refine ⟨?_, ih'.2⟩
    intro r hr
    simp only [List.mem_cons] at hr
    rcases hr with hr | hr
    · rw [hr]; exact h1.1
    · exact ih'.1 r hr

/-! ## The classified table and the model's panic results -/

theorem modelled_sites_ok :
    (∀ s : PanicSite, s ≠ .listRulesNil → s ≠ .unlisted → ∃ row ∈ accounted, row.1.func = s.name ∧ row.2.isModelled = true) ∧
    (∀ row ∈ accounted, row.2.isModelled = true → ∃ s : PanicSite, row.1.func = s.name) := by
  constructor
  · intro s hs hu
    have key : ∀ s : PanicSite, s ≠ .listRulesNil → s ≠ .unlisted →
        (accounted.any (fun row => row.1.func == s.name && row.2.isModelled)) = true := by
      intro s hs hu; cases s <;> first | exact absurd rfl hs | exact absurd rfl hu | decide +kernel
    have := key s hs hu
    rw [List.any_eq_true] at this
    rcases this with ⟨row, hmem, hrow⟩
    simp only [Bool.and_eq_true, beq_iff_eq] at hrow
    exact ⟨row, hmem, hrow.1, hrow.2⟩
  · have key : (accounted.all (fun row => !row.2.isModelled ||
        [PanicSite.unlisted, .listRulesNil].any (fun s => row.1.func == s.name))) = true := by
      decide +kernel
    intro row hmem hm
    rw [List.all_eq_true] at key
    have := key row hmem
    simp only [hm, Bool.not_true, Bool.false_or, List.any_eq_true, beq_iff_eq] at this
    rcases this with ⟨s, _, hs⟩
    exact ⟨s, hs⟩

/-! ## Validated paths: what `RuleFromMap` and `setExpires` guarantee about `when` -/


theorem lookupKey_map_ne (o : Obj) (k k' : String) (v : J) (h : (k == k') = false) :
    lookupKey k (o.map (fun p => if p.1 == k' then (k', v) else p)) = lookupKey k o := by
  induction o with
  | nil => rfl
  | cons p r ih =>
    rcases p with ⟨a, b⟩
    by_cases hak : (a == k') = true
    · have : a = k' := by simpa using hak
      subst this
      simp only [List.map, hak, if_true, lookupKey, h]
      simpa using ih
    · simp only [List.map, hak]
      simp only [lookupKey, ih]
      simp

theorem get?_set_ne (o : Obj) (k k' : String) (v : J) (h : (k == k') = false) : Obj.get? (Obj.set o k' v) k = Obj.get? o k := by
  unfold Obj.get? Obj.set
  split
  · exact lookupKey_map_ne o k k' v h
  · rename_i hany; clear hany
    induction o with
    | nil => simp [lookupKey, h]
    | cons p r ih =>
      rcases p with ⟨a, b⟩
      simp only [List.cons_append, lookupKey]
      split
      · rfl
      · exact ih

theorem get?_erase_ne (o : Obj) (k k' : String) (h : (k == k') = false) : Obj.get? (Obj.erase o k') k = Obj.get? o k := by
  unfold Obj.get? Obj.erase
  induction o with
  | nil => rfl
  | cons p r ih =>
    rcases p with ⟨a, b⟩
    by_cases hak : (a != k') = true
    · simp only [List.filter, hak, lookupKey, ih]
    · have : a = k' := by simpa using hak
      subst this
      simp only [List.filter, hak, lookupKey, h]
      simpa using ih

theorem get?_append_ne (o : Obj) (k k' : String) (v : J) (h : (k == k') = false) : Obj.get? (o ++ [(k', v)]) k = Obj.get? o k := by
  unfold Obj.get?
  induction o with
  | nil => simp [lookupKey, h]
  | cons p r ih =>
    rcases p with ⟨a, b⟩
    simp only [List.cons_append, lookupKey, ih]

/-- what `RuleFromMap` guarantees about `when` -/
theorem ruleFromMap_when (r : Obj) (rm : RuleM) (h : ruleFromMap r = .ok rm) :
    r.get? "when" = none ∨ r.get? "when" = some .null ∨
    ∃ w, r.get? "when" = some (.obj w) ∧
      (Obj.get? w "pattern" = none ∨ Obj.get? w "pattern" = some .null ∨ ∃ p, Obj.get? w "pattern" = some (.obj p)) := by
  unfold ruleFromMap at h
  simp only [bind, Except.bind] at h
  split at h
  · simp at h
  · rename_i v hw
    clear h
    split at hw
    · exact Or.inl (by assumption)
    · exact Or.inr (Or.inl (by assumption))
    · rename_i w hget
      refine Or.inr (Or.inr ⟨w, hget, ?_⟩)
      split at hw
      · exact Or.inl (by assumption)
      · exact Or.inr (Or.inl (by assumption))
      · exact Or.inr (Or.inr ⟨_, by assumption⟩)
      · simp at hw
    · simp at hw

theorem wrapper_rule (rule' : Obj) (e : Bool) (x : Int) : (ruleWrapper rule' e x).get? "rule" = some (.obj rule') := by
  unfold ruleWrapper Obj.get?
  cases e <;> simp only [Bool.false_eq_true, if_false, if_true] <;> split <;> simp [lookupKey]

end C13

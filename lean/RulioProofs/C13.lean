import RulioModel.C13

/-! # C13 — helper lemmas (lock discipline of the wrapper model; validated paths; witnesses) -/

namespace C13

/-! ## A small Hoare logic for `KM`: state invariants that the lock-aware calls maintain -/

/-- an invariant of the wrapped location, with what the calls need to know about it -/
structure GoodSpec where
  P : KLoc → Prop
  /-- must the invariant also hold after an operation that panicked? -/
  onPanic : Bool
  free : ∀ k, P k → k.lock = .free
  stable : ∀ k s, P k → P (withSt k s)
  panicOK : onPanic = true → ∀ k m, P k → leakIn k.locks k.loc.st.kind m = none

/-- `m` never blocks when started in the invariant, and re-establishes it (always, or unless it panics) -/
def Sat (S : GoodSpec) {α : Type} (m : KM α) : Prop :=
  ∀ k, S.P k → (m k).2.isHang = false ∧ (((m k).2.isPanic = false ∨ S.onPanic = true) → S.P (m k).1)

variable (S : GoodSpec)

theorem sat_pure {α} (a : α) : Sat S (pure a : KM α) := by
  intro k hk; exact ⟨rfl, fun _ => hk⟩

theorem sat_fail {α} (e : LErr) : Sat S (KM.fail e : KM α) := by
  intro k hk; exact ⟨rfl, fun _ => hk⟩

theorem sat_get : Sat S KM.get := by
  intro k hk; exact ⟨rfl, fun _ => hk⟩

theorem sat_panicAt {α} (s : PanicSite) : Sat S (KM.panicAt s : KM α) := by
  intro k hk; exact ⟨rfl, fun _ => hk⟩

theorem sat_bind {α β} {m : KM α} {f : α → KM β} (hm : Sat S m) (hf : ∀ a, Sat S (f a)) : Sat S (m >>= f) := by
  intro k hk
  have h := hm k hk
  show ((KM.bind m f) k).2.isHang = false ∧ ((((KM.bind m f) k).2.isPanic = false ∨ S.onPanic = true) → S.P ((KM.bind m f) k).1)
  unfold KM.bind
  rcases hmk : m k with ⟨k1, r⟩
  rw [hmk] at h
  cases r with
  | ok a => exact hf a k1 (h.2 (Or.inl rfl))
  | err e => exact h
  | panic s => exact h
  | hang => exact h

theorem sat_seq {α β} {m : KM α} {n : KM β} (hm : Sat S m) (hn : Sat S n) : Sat S (m >>= fun _ => n) :=
  sat_bind S hm (fun _ => hn)

theorem sat_attempt {α} {m : KM α} (hm : Sat S m) : Sat S (KM.attempt m) := by
  intro k hk
  have h := hm k hk
  unfold KM.attempt
  rcases hmk : m k with ⟨k1, r⟩
  rw [hmk] at h
  cases r with
  | ok a => exact h
  | err e => exact ⟨rfl, fun _ => h.2 (Or.inl rfl)⟩
  | panic s => exact h
  | hang => exact h

theorem sat_handle {α} {m : KM α} {h : LErr → KM α} (hm : Sat S m) (hh : ∀ e, Sat S (h e)) : Sat S (KM.handle m h) := by
  intro k hk
  have h0 := hm k hk
  unfold KM.handle
  rcases hmk : m k with ⟨k1, r⟩
  rw [hmk] at h0
  cases r with
  | ok a => exact h0
  | err e => exact hh e k1 (h0.2 (Or.inl rfl))
  | panic s => exact h0
  | hang => exact h0

theorem sat_void {α} {m : KM α} (hm : Sat S m) : Sat S (KM.void m) := by
  intro k hk
  have h := hm k hk
  unfold KM.void
  rcases hmk : m k with ⟨k1, r⟩
  rw [hmk] at h
  cases r <;> exact h

theorem blocked_free (k : KLoc) (w : Bool) (h : k.lock = .free) : blocked k w = false := by
  simp [blocked, h]

/-- the heart: one call of a State method -/
theorem sat_kCall {α} (m : Meth) (f : St → St × Except LErr α) : Sat S (kCall m f) := by
  intro k hk
  have hfree := S.free k hk
  unfold kCall
  rw [blocked_free k _ hfree]
  simp only [Bool.false_eq_true, if_false]
  rcases hf : f k.loc.st with ⟨s, r⟩
  cases r with
  | ok a => exact ⟨rfl, fun _ => S.stable k s hk⟩
  | error e =>
    by_cases he : (e == "panic") = true
    · simp only [he, if_true]
      refine ⟨rfl, fun h => ?_⟩
      rcases h with h | h
      · exact absurd h (by simp [Res.isPanic])
      · have hl := S.panicOK h k m hk
        have : (withSt k s).locks = k.locks := rfl
        simp only [hl]
        exact S.stable k s hk
    · simp only [he]
      exact ⟨rfl, fun _ => S.stable k s hk⟩

theorem sat_kGet (id : String) (now : Int) : Sat S (kGet id now) := sat_kCall S _ _
theorem sat_kCount : Sat S kCount := sat_kCall S _ _
theorem sat_kSearch (p : Obj) (now : Int) : Sat S (kSearch p now) := sat_kCall S _ _
theorem sat_kFindRules (ev : Obj) (now : Int) : Sat S (kFindRules ev now) := sat_kCall S _ _

theorem sat_kAdd (id : String) (x : Obj) (now : Int) : Sat S (kAdd id x now) := by
  intro k hk
  have h := sat_kCall S .add (fun s => s.add id x now) k hk
  unfold kAdd
  cases hh : k.hooks with
  | false => simpa using h
  | true =>
    simp only [Bool.not_true, Bool.false_eq_true, if_false]
    rcases hc : kCall .add (fun s => s.add id x now) k with ⟨k1, r⟩
    rw [hc] at h
    cases r with
    | ok a =>
      simp only []
      split
      · split
        · exact ⟨rfl, fun _ => hk⟩
        · exact h
      · exact h
    | err e => exact h
    | panic s => exact h
    | hang => exact h

theorem sat_kRem (id : String) (now : Int) : Sat S (kRem id now) := by
  intro k hk
  unfold kRem
  cases hh : k.hooks with
  | false => simpa using sat_kCall S .rem (fun s => s.rem id now) k hk
  | true =>
    simp only [Bool.not_true, Bool.false_eq_true, if_false]
    have h := sat_kCall S .get (fun s => s.get id now) k hk
    rcases hc : kCall .get (fun s => s.get id now) k with ⟨k1, r⟩
    rw [hc] at h
    cases r with
    | ok fact =>
      simp only []
      split
      · exact ⟨rfl, fun _ => h.2 (Or.inl rfl)⟩
      · exact sat_kCall S .rem _ k1 (h.2 (Or.inl rfl))
    | err e => exact h
    | panic s => exact h
    | hang => exact h

theorem sat_kGetProp (id prop : String) (dflt : J) (now : Int) : Sat S (kGetProp id prop dflt now) := by
  unfold kGetProp
  refine sat_bind S (sat_attempt S (sat_kGet S _ _)) (fun x => ?_)
  split
  · exact sat_pure S _
  · exact sat_fail S _
  · split
    · exact sat_pure S _
    · exact sat_fail S _

theorem sat_kGetPropStringD (prop : String) (now : Int) : Sat S (kGetPropStringD prop now) := by
  unfold kGetPropStringD
  refine sat_bind S (sat_attempt S (sat_kGetProp S _ _ _ _)) (fun x => ?_)
  split <;> exact sat_pure S _

theorem sat_kSetProp (id prop : String) (v : J) (now : Int) : Sat S (kSetProp id prop v now) := sat_kAdd S _ _ _
theorem sat_kRemProp (id prop : String) (now : Int) : Sat S (kRemProp id prop now) := sat_kRem S _ _

theorem sat_kRunGuard (c : Ctx) (now : Int) (g : Guard) : Sat S (kRunGuard c now g) := by
  cases g with
  | enabled =>
    unfold kRunGuard
    refine sat_bind S (sat_kGetPropStringD S _ _) (fun e => ?_)
    split
    · exact sat_pure S _
    · exact sat_fail S _
  | checkRead =>
    unfold kRunGuard
    refine sat_bind S (sat_kGetPropStringD S _ _) (fun e => ?_)
    split
    · exact sat_pure S _
    · exact sat_fail S _
  | checkWrite =>
    unfold kRunGuard
    refine sat_bind S (sat_get S) (fun k => ?_)
    split
    · exact sat_fail S _
    · refine sat_bind S (sat_kGetPropStringD S _ _) (fun e => ?_)
      split
      · exact sat_pure S _
      · exact sat_fail S _
  | atCapacity =>
    unfold kRunGuard
    refine sat_bind S (sat_get S) (fun k => ?_)
    refine sat_bind S (sat_kCount S) (fun n => ?_)
    split
    · exact sat_fail S _
    · exact sat_pure S _

theorem sat_kRunGuards (c : Ctx) (now : Int) (gs : List Guard) : Sat S (kRunGuards c now gs) := by
  induction gs with
  | nil => exact sat_pure S _
  | cons g gs ih =>
    unfold kRunGuards
    exact sat_bind S (sat_kRunGuard S c now g) (fun _ => ih)

theorem sat_kAddFact (c : Ctx) (id : String) (fact : Obj) (now : Int) : Sat S (kAddFact c id fact now) := by
  unfold kAddFact
  exact sat_bind S (sat_kRunGuards S _ _ _) (fun _ => sat_kAdd S _ _ _)

theorem sat_kRemFact (c : Ctx) (id : String) (now : Int) : Sat S (kRemFact c id now) := by
  unfold kRemFact
  exact sat_bind S (sat_kRunGuards S _ _ _) (fun _ => sat_bind S (sat_kRem S _ _) (fun _ => sat_pure S _))

theorem sat_kGetFact (c : Ctx) (id : String) (now : Int) : Sat S (kGetFact c id now) := by
  unfold kGetFact
  exact sat_bind S (sat_kRunGuards S _ _ _) (fun _ => sat_kGet S _ _)

theorem sat_kAddRule (c : Ctx) (id : String) (rule : Obj) (now : Int) : Sat S (kAddRule c id rule now) := by
  unfold kAddRule
  refine sat_bind S (sat_kRunGuards S _ _ _) (fun _ => ?_)
  split
  · exact sat_fail S _
  · split
    · exact sat_fail S _
    · exact sat_kAdd S _ _ _

theorem sat_kRemRule (c : Ctx) (id : String) (now : Int) : Sat S (kRemRule c id now) := by
  unfold kRemRule
  refine sat_bind S (sat_kRunGuards S _ _ _) (fun _ => ?_)
  refine sat_bind S (sat_kRem S _ _) (fun _ => ?_)
  refine sat_bind S (sat_kGetProp S _ _ _ _) (fun x => ?_)
  split
  split
  · exact sat_bind S (sat_kRemProp S _ _ _) (fun _ => sat_pure S _)
  · exact sat_pure S _

theorem sat_kEnableRule (c : Ctx) (id : String) (en : Bool) (now : Int) : Sat S (kEnableRule c id en now) := by
  unfold kEnableRule
  refine sat_bind S (sat_kRunGuards S _ _ _) (fun _ => ?_)
  split
  · exact sat_bind S (sat_kRemProp S _ _ _) (fun _ => sat_pure S _)
  · exact sat_bind S (sat_kSetProp S _ _ _ _) (fun _ => sat_pure S _)

theorem sat_kRuleEnabled (c : Ctx) (id : String) (now : Int) : Sat S (kRuleEnabled c id now) := by
  unfold kRuleEnabled
  refine sat_bind S (sat_kRunGuards S _ _ _) (fun _ => ?_)
  refine sat_bind S (sat_kGetProp S _ _ _ _) (fun x => ?_)
  split
  split <;> exact sat_pure S _

theorem sat_kGetRule (c : Ctx) (id : String) (now : Int) : Sat S (kGetRule c id now) := by
  unfold kGetRule
  refine sat_bind S (sat_kRunGuards S _ _ _) (fun _ => ?_)
  refine sat_bind S (sat_kGet S _ _) (fun f => ?_)
  split
  · exact sat_pure S _
  · exact sat_fail S _
  · exact sat_fail S _

theorem sat_kGetParentsRaw (now : Int) : Sat S (kGetParentsRaw now) := by
  unfold kGetParentsRaw
  refine sat_bind S (sat_kGetProp S _ _ _ _) (fun x => ?_)
  split
  split
  · exact sat_pure S _
  · split
    · exact sat_pure S _
    · exact sat_fail S _

theorem sat_klocSearchFacts (c : Ctx) (p : Obj) (now : Int) : Sat S (klocSearchFacts c p now) := by
  unfold klocSearchFacts
  exact sat_bind S (sat_kRunGuards S _ _ _) (fun _ => sat_kSearch S _ _)

theorem sat_kSearchFacts (c : Ctx) (p : Obj) (inh : Bool) (now : Int) : Sat S (kSearchFacts c p inh now) := by
  unfold kSearchFacts
  split
  · refine sat_bind S (sat_kGetParentsRaw S _) (fun ps => ?_)
    split
    · exact sat_fail S _
    · exact sat_klocSearchFacts S _ _ _
  · exact sat_klocSearchFacts S _ _ _

theorem sat_klocSearchRules (c : Ctx) (ev : Obj) (now : Int) : Sat S (klocSearchRules c ev now) := by
  unfold klocSearchRules
  refine sat_bind S (sat_kRunGuards S _ _ _) (fun _ => ?_)
  refine sat_bind S (sat_kFindRules S _ _) (fun cands => ?_)
  split
  · exact sat_pure S _
  · exact sat_fail S _

theorem sat_kSearchRulesAnc (c : Ctx) (ev : Obj) (now : Int) : Sat S (kSearchRulesAnc c ev now) := by
  unfold kSearchRulesAnc
  refine sat_bind S (sat_kGetParentsRaw S _) (fun ps => ?_)
  split
  · exact sat_fail S _
  · exact sat_klocSearchRules S _ _ _

theorem sat_kSearchRules (c : Ctx) (ev : Obj) (inh : Bool) (now : Int) : Sat S (kSearchRules c ev inh now) := by
  unfold kSearchRules
  refine sat_bind S (sat_kRunGuards S _ _ _) (fun _ => ?_)
  split
  · exact sat_kSearchRulesAnc S _ _ _
  · exact sat_klocSearchRules S _ _ _

theorem sat_kListRules (c : Ctx) (inh : Bool) (now : Int) : Sat S (kListRules c inh now) := by
  unfold kListRules
  refine sat_bind S (sat_kRunGuards S _ _ _) (fun _ => ?_)
  refine sat_handle S (sat_bind S (sat_kSearchFacts S _ _ _ _) (fun _ => sat_pure S _)) (fun e => ?_)
  split
  · exact sat_pure S _
  · exact sat_panicAt S _

/-- a nested search can only leak what `Search` leaks -/
theorem leakNested_of_none (k : KLoc) (h : leakIn k.locks k.loc.st.kind .search = none) : leakNested k = k := by
  unfold leakNested
  simp [h]

theorem sat_kExecQuery (c : Ctx) (q : J) (now : Int) : Sat S (kExecQuery c q now) := by
  intro k hk
  unfold kExecQuery
  simp only []
  split
  · exact ⟨rfl, fun _ => hk⟩
  · rename_i e _
    by_cases he : (e == "panic") = true
    · simp only [he, if_true]
      refine ⟨rfl, fun h => ?_⟩
      rcases h with h | h
      · exact absurd h (by simp [Res.isPanic])
      · rw [leakNested_of_none k (S.panicOK h k .search hk)]; exact hk
    · simp only [he, blocked_free k _ (S.free k hk)]
      exact ⟨rfl, fun _ => hk⟩

theorem sat_kQuery (c : Ctx) (q : J) (now : Int) : Sat S (kQuery c q now) := by
  unfold kQuery
  exact sat_bind S (sat_kRunGuards S _ _ _) (fun _ => sat_kExecQuery S _ _ _)

theorem sat_kEnabledFlags (c : Ctx) (now : Int) (l : List (String × RuleM)) : Sat S (kEnabledFlags c now l) := by
  induction l with
  | nil => exact sat_pure S _
  | cons x rest ih =>
    rcases x with ⟨id, r⟩
    unfold kEnabledFlags
    refine sat_bind S (sat_attempt S (sat_kRuleEnabled S _ _ _)) (fun e => ?_)
    exact sat_bind S ih (fun _ => sat_pure S _)

theorem sat_kCandidates (c : Ctx) (ev : Obj) (now : Int) : Sat S (kCandidates c ev now) := by
  unfold kCandidates
  split
  · refine sat_bind S (sat_kGetRule S _ _ _) (fun body => ?_)
    split
    · exact sat_kEnabledFlags S _ _ _
    · exact sat_fail S _
  · exact sat_fail S _
  · split
    · split
      · exact sat_pure S _
      · exact sat_fail S _
    · exact sat_fail S _
    · exact sat_bind S (sat_kSearchRulesAnc S _ _ _) (fun _ => sat_kEnabledFlags S _ _ _)

theorem sat_kWalk (c : Ctx) (ev : Obj) (now : Int) (cands : List (String × RuleM × Bool)) : Sat S (kWalk c ev now cands) := by
  intro k hk
  unfold kWalk
  simp only []
  split
  · refine ⟨rfl, fun h => ?_⟩
    rcases h with h | h
    · exact absurd h (by simp [Res.isPanic])
    · rw [leakNested_of_none k (S.panicOK h k .search hk)]; exact hk
  · simp only [blocked_free k _ (S.free k hk)]
    exact ⟨rfl, fun _ => hk⟩

theorem sat_kProcessEvent (c : Ctx) (ev : Obj) (now : Int) : Sat S (kProcessEvent c ev now) := by
  unfold kProcessEvent
  refine sat_bind S (sat_attempt S (sat_kCandidates S _ _ _)) (fun x => ?_)
  split
  · exact sat_pure S _
  · exact sat_kWalk S _ _ _ _

theorem sat_run (op : PubOp) : Sat S (run op) := by
  cases op <;> unfold run <;> apply sat_void
  · exact sat_kAddFact S _ _ _ _
  · exact sat_kRemFact S _ _ _
  · exact sat_kGetFact S _ _ _
  · exact sat_kSearchFacts S _ _ _ _
  · exact sat_kAddRule S _ _ _ _
  · exact sat_kRemRule S _ _ _
  · exact sat_kGetRule S _ _ _
  · exact sat_kEnableRule S _ _ _ _
  · exact sat_kRuleEnabled S _ _ _
  · exact sat_kListRules S _ _ _
  · exact sat_kSearchRules S _ _ _ _
  · exact sat_kQuery S _ _ _
  · exact sat_kProcessEvent S _ _ _

/-! ## The two invariants -/

/-- `Serving`: the state lock is free -/
def servingSpec : GoodSpec where
  P := fun k => k.lock = .free
  onPanic := false
  free := fun _ h => h
  stable := fun _ _ h => h
  panicOK := fun h => by simp at h

/-- a linear location under the lock discipline of the current source: serving, also after a panic -/
def linearSpec : GoodSpec where
  P := fun k => k.lock = .free ∧ k.loc.st.kind = .linear ∧ k.locks = C13Gen.lockUses
  onPanic := true
  free := fun _ h => h.1
  stable := fun _ _ h => h
  panicOK := fun _ k m h => by
    rw [h.2.1, h.2.2]
    cases m <;> decide +kernel

theorem run_serving (op : PubOp) (k : KLoc) (h : Serving k) :
    (run op k).2.isHang = false ∧ ((run op k).2.isPanic = false → Serving (run op k).1) := by
  have := sat_run servingSpec op k h
  exact ⟨this.1, fun hp => this.2 (Or.inl hp)⟩

theorem run_serving_linear (op : PubOp) (k : KLoc) (hk : k.loc.st.kind = .linear) (hl : k.locks = C13Gen.lockUses)
    (h : Serving k) : Serving (run op k).1 :=
  ((sat_run linearSpec op k ⟨h, hk, hl⟩).2 (Or.inr rfl)).1

theorem runAll_serving (ops : List PubOp) (k : KLoc) (h : Serving k)
    (hp : ∀ r ∈ (runAll ops k).2, r.2.isPanic = false) :
    (∀ r ∈ (runAll ops k).2, r.2.isHang = false) ∧ Serving (runAll ops k).1 := by
  induction ops generalizing k with
  | nil => exact ⟨by intro r hr; simp [runAll] at hr, h⟩
  | cons op ops ih =>
    have h1 := run_serving op k h
    simp only [runAll] at hp ⊢
    have hp1 : (run op k).2.isPanic = false := hp (op, (run op k).2) (by simp)
    have ih' := ih (run op k).1 (h1.2 hp1) (fun r hr => hp r (by simp [hr]))
    refine ⟨?_, ih'.2⟩
    intro r hr
    simp only [List.mem_cons] at hr
    rcases hr with hr | hr
    · rw [hr]; exact h1.1
    · exact ih'.1 r hr

/-! ## The classified table and the model's panic results -/

theorem modelled_sites_ok :
    (∀ s : PanicSite, s ≠ .listRulesNil → ∃ row ∈ accounted, row.1.func = s.name ∧ row.2.isModelled = true) ∧
    (∀ row ∈ accounted, row.2.isModelled = true → ∃ s : PanicSite, row.1.func = s.name) := by
  constructor
  · intro s hs
    have key : ∀ s : PanicSite, s ≠ .listRulesNil →
        (accounted.any (fun row => row.1.func == s.name && row.2.isModelled)) = true := by
      intro s hs; cases s <;> first | exact absurd rfl hs | decide +kernel
    have := key s hs
    rw [List.any_eq_true] at this
    rcases this with ⟨row, hmem, hrow⟩
    simp only [Bool.and_eq_true, beq_iff_eq] at hrow
    exact ⟨row, hmem, hrow.1, hrow.2⟩
  · have key : (accounted.all (fun row => !row.2.isModelled ||
        [PanicSite.getRulePatterns, .linearFindRules, .listRulesNil, .serviceUriNotString].any (fun s => row.1.func == s.name))) = true := by
      decide +kernel
    intro row hmem hm
    rw [List.all_eq_true] at key
    have := key row hmem
    simp only [hm, Bool.not_true, Bool.false_or, List.any_eq_true, beq_iff_eq] at this
    rcases this with ⟨s, _, hs⟩
    exact ⟨s, hs⟩

/-! ## Validated paths: what `RuleFromMap` and `setExpires` guarantee about `when` -/


theorem lookupKey_map_ne (o : Obj) (k k' : String) (v : J) (h : (k == k') = false) :
    lookupKey k (o.map (fun p => if p.1 == k' then (k', v) else p)) = lookupKey k o := by
  induction o with
  | nil => rfl
  | cons p r ih =>
    rcases p with ⟨a, b⟩
    by_cases hak : (a == k') = true
    · have : a = k' := by simpa using hak
      subst this
      simp only [List.map, hak, if_true, lookupKey, h]
      simpa using ih
    · simp only [List.map, hak]
      simp only [lookupKey, ih]
      simp

theorem get?_set_ne (o : Obj) (k k' : String) (v : J) (h : (k == k') = false) : Obj.get? (Obj.set o k' v) k = Obj.get? o k := by
  unfold Obj.get? Obj.set
  split
  · exact lookupKey_map_ne o k k' v h
  · rename_i hany; clear hany
    induction o with
    | nil => simp [lookupKey, h]
    | cons p r ih =>
      rcases p with ⟨a, b⟩
      simp only [List.cons_append, lookupKey]
      split
      · rfl
      · exact ih

theorem get?_erase_ne (o : Obj) (k k' : String) (h : (k == k') = false) : Obj.get? (Obj.erase o k') k = Obj.get? o k := by
  unfold Obj.get? Obj.erase
  induction o with
  | nil => rfl
  | cons p r ih =>
    rcases p with ⟨a, b⟩
    by_cases hak : (a != k') = true
    · simp only [List.filter, hak, lookupKey, ih]
    · have : a = k' := by simpa using hak
      subst this
      simp only [List.filter, hak, lookupKey, h]
      simpa using ih

theorem get?_append_ne (o : Obj) (k k' : String) (v : J) (h : (k == k') = false) : Obj.get? (o ++ [(k', v)]) k = Obj.get? o k := by
  unfold Obj.get?
  induction o with
  | nil => simp [lookupKey, h]
  | cons p r ih =>
    rcases p with ⟨a, b⟩
    simp only [List.cons_append, lookupKey, ih]

theorem ttlPhase_when (fact : Obj) (now : Int) (v : Obj × Int)
    (h : (match fact.get? "ttl" with
      | none => Except.ok (fact, (0 : Int))
      | some ttl =>
        match ttl with
        | J.num n => Except.ok ((fact.erase "ttl").set "expires" (J.num (now + n)), now + n)
        | J.str s =>
          match parseDurationSecs s with
          | some n => Except.ok ((fact.erase "ttl").set "expires" (J.num (now + n)), now + n)
          | none => Except.error "badTTL"
        | _ => Except.error "badTTL" : Except LErr (Obj × Int)) = Except.ok v) :
    v.1.get? "when" = fact.get? "when" := by
  repeat' split at h
  all_goals (try (simp at h))
  all_goals (subst h; simp only [])
  · rw [get?_set_ne _ _ _ _ (by decide), get?_erase_ne _ _ _ (by decide)]
  · rw [get?_set_ne _ _ _ _ (by decide), get?_erase_ne _ _ _ (by decide)]

theorem expPhase_when (o : Obj) (exp : J) (v : Obj × Int)
    (h : (match exp with
      | J.num n => Except.ok (o, n)
      | J.str s =>
        match parseRFC3339 s with
        | some t => Except.ok (o.set "expires" (J.num t), t)
        | none => Except.error "badExpires"
      | _ => Except.error "badExpires" : Except LErr (Obj × Int)) = Except.ok v) :
    v.1.get? "when" = o.get? "when" := by
  repeat' split at h
  all_goals (try (simp at h))
  all_goals (subst h; simp only [])
  · rw [get?_set_ne _ _ _ _ (by decide)]

theorem setExpires_when (fact : Obj) (now : Int) (f' : Obj) (e : Bool) (x : Int)
    (h : setExpires fact now = .ok (f', e, x)) : f'.get? "when" = fact.get? "when" := by
  unfold setExpires at h
  simp only [bind, Except.bind, pure, Except.pure] at h
  repeat' split at h
  all_goals (try (simp at h))
  · rename_i v h1 _ _
    rw [← h.1]; exact ttlPhase_when fact now v h1
  · rename_i v1 h1 _ _ _ _ v2 h2 _ _
    rw [← h.1, expPhase_when _ _ v2 h2]; exact ttlPhase_when fact now v1 h1
  · rename_i v1 h1 _ _ _ _ v2 h2 _ _ _
    rw [← h.1, get?_set_ne _ _ _ _ (by decide), expPhase_when _ _ v2 h2]; exact ttlPhase_when fact now v1 h1

/-- what `RuleFromMap` guarantees about `when` -/
theorem ruleFromMap_when (r : Obj) (rm : RuleM) (h : ruleFromMap r = .ok rm) :
    r.get? "when" = none ∨ r.get? "when" = some .null ∨
    ∃ w, r.get? "when" = some (.obj w) ∧
      (Obj.get? w "pattern" = none ∨ Obj.get? w "pattern" = some .null ∨ ∃ p, Obj.get? w "pattern" = some (.obj p)) := by
  unfold ruleFromMap at h
  simp only [bind, Except.bind] at h
  split at h
  · simp at h
  · rename_i v hw
    clear h
    split at hw
    · exact Or.inl (by assumption)
    · exact Or.inr (Or.inl (by assumption))
    · rename_i w hget
      refine Or.inr (Or.inr ⟨w, hget, ?_⟩)
      split at hw
      · exact Or.inl (by assumption)
      · exact Or.inr (Or.inl (by assumption))
      · exact Or.inr (Or.inr ⟨_, by assumption⟩)
      · simp at hw
    · simp at hw

theorem wrapper_rule (rule' : Obj) (e : Bool) (x : Int) : (ruleWrapper rule' e x).get? "rule" = some (.obj rule') := by
  unfold ruleWrapper Obj.get?
  cases e <;> simp only [Bool.false_eq_true, if_false, if_true] <;> split <;> simp [lookupKey]

theorem wrapper_whenOK_partial (rule : Obj) (now : Int) (rm : RuleM) (rule' : Obj) (expiring : Bool) (expires : Int)
    (hv : ruleFromMap rule = .ok rm) (he : setExpires rule now = .ok (rule', expiring, expires))
    (hn1 : rule.get? "when" ≠ some .null)
    (hn2 : ∀ w, rule.get? "when" = some (.obj w) → Obj.get? w "pattern" ≠ some .null) :
    whenOK (ruleWrapper rule' expiring expires) = true := by
  unfold whenOK
  rw [wrapper_rule]
  simp only []
  have hw := setExpires_when rule now rule' expiring expires he
  unfold getRulePattern
  rw [hw]
  rcases ruleFromMap_when rule rm hv with h | h | ⟨w, h, hp⟩
  · simp [h]
  · exact absurd h hn1
  · rcases hp with hp | hp | ⟨p, hp⟩
    · simp [h, hp]
    · exact absurd hp (hn2 w h)
    · simp [h, hp]

/-! ## The linear state and a `rule` value that is not a map -/


def firstFactBadRule (s : St) : Bool :=
  match s.facts with
  | (_, f) :: _ =>
    (match f.get? "rule" with
     | some (.obj _) => false
     | some _ => (f.get? "expires").isNone
     | none => false)
  | [] => false

theorem lFindRules_bad (s : St) (h : firstFactBadRule s = true) (ev : Obj) (now : Int) :
    s.lFindRules ev now = (s, .error "panic") := by
  unfold firstFactBadRule at h
  split at h
  · rename_i id f rest hf
    split at h
    · simp at h
    · rename_i _ rule hnot hr
      have hexp : f.get? "expires" = none := by simpa using h
      unfold St.lFindRules
      simp only [hf, List.length_cons, List.map_cons]
      have hget : amGet s.facts id = some f := by rw [hf]; simp [amGet]
      unfold St.lFindRules.go
      simp only [hget, hr, checkExpiration, hexp]
    · simp at h
  · simp at h

end C13

import RulioModel.SysInv
import RulioProofs.SysAm

open AM

set_option linter.unusedSimpArgs false
set_option linter.unusedVariables false

/-! # State operations only ever (a) touch the indexes, (b) erase an id from facts *and* store together,
(c) set an id in facts *and* store together. Generic invariant lemmas over the mutual recursion groups. -/

/-- a relation between the state before and after that is closed under the primitive steps of the
removal/search groups -/
structure StRelL (Q : St → St → Prop) : Prop where
  refl : ∀ s, Q s s
  trans : ∀ {a b c}, Q a b → Q b c → Q a c
  erase : ∀ s id, Q s { s with facts := amErase s.facts id, store := amErase s.store id }

/-- … and under index updates (the indexed state) -/
structure StRel (Q : St → St → Prop) : Prop extends StRelL Q where
  idx : ∀ s ri ti, Q s { s with ri := ri, ti := ti }

theorem St.unindexRule_ri {s s1 : St} {id : String} {rule : Obj} (h : s.unindexRule id rule = .ok s1) :
    ∃ ri, s1 = { s with ri := ri } := by
  unfold St.unindexRule at h
  cases hp : getRulePattern rule with
  | error e => rw [hp] at h; cases h
  | ok po =>
    rw [hp] at h
    cases po with
    | none => exact ⟨s.ri, by cases h; rfl⟩
    | some pat =>
      simp only [bind, Except.bind, pure, Except.pure] at h
      cases hr : piRem s.ri pat id with
      | mk ri e =>
        rw [hr] at h
        cases e with
        | some e => cases h
        | none => exact ⟨ri, by cases h; rfl⟩

theorem St.indexRule_ri (s : St) (id : String) (rule : Obj) :
    ∃ ri, (s.indexRule id rule).1 = { s with ri := ri } := by
  unfold St.indexRule
  cases hp : getRulePattern rule with
  | error e => exact ⟨s.ri, rfl⟩
  | ok po =>
    cases po with
    | none => exact ⟨s.ri, rfl⟩
    | some pat => exact ⟨(piAdd s.ri pat id).1, rfl⟩

theorem St.unindexPrevious_ri {s s1 : St} {id : String} {o : Option Obj} (h : s.unindexPrevious id = .ok (s1, o)) :
    ∃ ri, s1 = { s with ri := ri } := by
  unfold St.unindexPrevious at h
  cases hg : amGet s.facts id with
  | none => rw [hg] at h; cases h; exact ⟨s.ri, rfl⟩
  | some prev =>
    rw [hg] at h
    simp only at h
    cases he : extractRule prev false with
    | error e => rw [he] at h; cases h; exact ⟨s.ri, rfl⟩
    | ok p =>
      obtain ⟨ro, f⟩ := p
      rw [he] at h
      cases ro with
      | none => cases h; exact ⟨s.ri, rfl⟩
      | some old =>
        simp only at h
        cases hu : s.unindexRule id old with
        | error e => rw [hu] at h; cases h
        | ok s' =>
          rw [hu] at h
          cases h
          exact St.unindexRule_ri hu

theorem rel_match_snd {Q : St → St → Prop} {α β} {s : St} {x : St × Except LErr α} {b : β} (h : Q s x.1) :
    Q s (match x with | (s3, .error e) => (s3, (.error e : Except LErr β)) | (s3, .ok _) => (s3, .ok b)).1 := by
  obtain ⟨s3, r⟩ := x
  cases r <;> exact h

section Indexed
variable {Q : St → St → Prop} (hQ : StRel Q)
include hQ

theorem irem_group (fuel : Nat) :
    (∀ s id now, Q s (St.irem fuel s id now).1) ∧
    (∀ s id now, Q s (St.ideps fuel s id now).1) ∧
    (∀ s ids now, Q s (St.iremAll fuel s ids now).1) ∧
    (∀ s p now, Q s (St.isearch fuel s p now).1) ∧
    (∀ s p ids now acc, Q s (St.isearchLoop fuel s p ids now acc).1) := by
  induction fuel with
  | zero =>
    refine ⟨?_, ?_, ?_, ?_, ?_⟩ <;> intros <;> simp only [St.irem, St.ideps, St.iremAll, St.isearch, St.isearchLoop] <;> exact hQ.refl _
  | succ fuel ih =>
    obtain ⟨ihrem, ihdeps, ihall, ihsearch, ihloop⟩ := ih
    refine ⟨?_, ?_, ?_, ?_, ?_⟩
    · intro s id now
      rw [St.irem.eq_2]
      cases hg : amGet s.facts id with
      | none =>
        simp only []
        have := ihdeps s id now
        cases hd : St.ideps fuel s id now with
        | mk s3 r => rw [hd] at this; cases r <;> exact this
      | some fact =>
        simp only []
        split
        · exact hQ.refl _
        · rename_i s1 hr1
          have hs1 : ∃ ri, s1 = { s with ri := ri } := by
            split at hr1
            · exact St.unindexRule_ri hr1
            · cases hr1; exact ⟨s.ri, rfl⟩
          obtain ⟨ri, rfl⟩ := hs1
          simp only []
          have q2 : Q s { kind := s.kind, facts := amErase s.facts id, store := amErase s.store id, ri := ri, ti := List.foldl (fun ti t => ti.rem t id) s.ti (extractTerms fact), fresh := s.fresh } :=
            hQ.trans (hQ.erase s id) (hQ.idx _ ri _)
          split
          · rename_i s3 e heq
            have q3 := ihdeps { kind := s.kind, facts := amErase s.facts id, store := amErase s.store id, ri := ri, ti := List.foldl (fun ti t => ti.rem t id) s.ti (extractTerms fact), fresh := s.fresh } id now
            rw [heq] at q3
            exact hQ.trans q2 q3
          · rename_i s3 a heq
            have q3 := ihdeps { kind := s.kind, facts := amErase s.facts id, store := amErase s.store id, ri := ri, ti := List.foldl (fun ti t => ti.rem t id) s.ti (extractTerms fact), fresh := s.fresh } id now
            rw [heq] at q3
            exact hQ.trans q2 q3
    · intro s id now
      rw [St.ideps.eq_2]
      by_cases hv : isVar id = true
      · simp only [hv, if_true]; exact hQ.refl _
      · simp only [hv, if_false, Bool.false_eq_true]
        have q1 := ihsearch s [("deleteWith", J.arr [J.str id])] now
        cases hd : St.isearch fuel s [("deleteWith", J.arr [J.str id])] now with
        | mk s1 r =>
          rw [hd] at q1
          cases r with
          | error e => exact q1
          | ok found => exact hQ.trans q1 (ihall s1 _ now)
    · intro s ids now
      cases ids with
      | nil => rw [St.iremAll.eq_2]; exact hQ.refl _
      | cons t ts =>
        rw [St.iremAll.eq_3]
        have q1 := ihrem s t now
        cases hd : St.irem fuel s t now with
        | mk s1 r =>
          rw [hd] at q1
          cases r with
          | error e => exact q1
          | ok a => exact hQ.trans q1 (ihall s1 ts now)
    · intro s p now
      rw [St.isearch.eq_2]
      cases hc : (if (extractTerms p).isEmpty = true then Except.ok (List.map (fun x => x.fst) s.facts)
          else s.ti.search (extractTerms p)) with
      | error e => exact hQ.refl _
      | ok ids => exact ihloop s p ids now []
    · intro s p ids now acc
      cases ids with
      | nil => rw [St.isearchLoop.eq_2]; exact hQ.refl _
      | cons t ts =>
        rw [St.isearchLoop.eq_3]
        cases hg : amGet s.facts t with
        | none => exact ihloop s p ts now acc
        | some fact =>
          simp only []
          cases hce : checkExpiration fact now with
          | error e =>
            simp only [Bool.false_eq_true, if_false]
            cases hm : matchesJ (J.obj p) (J.obj fact) with
            | error e => exact hQ.refl _
            | ok bss => exact ihloop s p ts now _
          | ok b =>
            cases b with
            | true =>
              simp only [if_true]
              exact hQ.trans (ihrem s t now) (ihloop _ p ts now acc)
            | false =>
              simp only [Bool.false_eq_true, if_false]
              cases hm : matchesJ (J.obj p) (J.obj fact) with
              | error e => exact hQ.refl _
              | ok bss => exact ihloop s p ts now _

theorem irem_rel (fuel : Nat) (s : St) (id : String) (now : Int) : Q s (St.irem fuel s id now).1 :=
  (irem_group hQ fuel).1 s id now
theorem isearch_rel (fuel : Nat) (s : St) (p : Obj) (now : Int) : Q s (St.isearch fuel s p now).1 :=
  (irem_group hQ fuel).2.2.2.1 s p now

theorem iGet_rel (s : St) (id : String) (now : Int) : Q s (s.iGet id now).1 := by
  unfold St.iGet
  cases hg : amGet s.facts id with
  | none => exact hQ.refl _
  | some fact =>
    simp only []
    cases hce : checkExpiration fact now with
    | error e => exact hQ.refl _
    | ok b =>
      cases b with
      | false => exact hQ.refl _
      | true =>
        simp only []
        have := irem_rel hQ s.fuel s id now
        cases hd : St.irem s.fuel s id now with
        | mk s1 r => rw [hd] at this; cases r <;> exact this

theorem iFindRules_go_rel (now : Int) (fuel : Nat) : ∀ (s : St) (ids : List String) (acc : List (String × Obj)),
    Q s (St.iFindRules.go now fuel s ids acc).1 := by
  induction fuel with
  | zero => intro s ids acc; rw [St.iFindRules.go.eq_1]; exact hQ.refl _
  | succ fuel ih =>
    intro s ids acc
    cases ids with
    | nil => rw [St.iFindRules.go.eq_2]; exact hQ.refl _
    | cons t ts =>
      rw [St.iFindRules.go.eq_3]
      cases hce : checkExpiration ((amGet s.facts t).getD []) now with
      | error e =>
        simp only [Bool.false_eq_true, if_false]
        cases hg : amGet s.facts t with
        | none => exact hQ.refl _
        | some f =>
          simp only []
          cases he : extractRule f true with
          | error e => exact hQ.refl _
          | ok pr =>
            obtain ⟨bo, f'⟩ := pr
            cases bo with
            | none => exact hQ.refl _
            | some body => exact ih _ _ _
      | ok b =>
        cases b with
        | true =>
          simp only [if_true]
          exact hQ.trans (irem_rel hQ s.fuel s t now) (ih _ _ _)
        | false =>
          simp only [Bool.false_eq_true, if_false]
          cases hg : amGet s.facts t with
          | none => exact hQ.refl _
          | some f =>
            simp only []
            cases he : extractRule f true with
            | error e => exact hQ.refl _
            | ok pr =>
              obtain ⟨bo, f'⟩ := pr
              cases bo with
              | none => exact hQ.refl _
              | some body => exact ih _ _ _

theorem iFindRules_rel (s : St) (ev : Obj) (now : Int) : Q s (s.iFindRules ev now).1 := by
  rw [St.iFindRules.eq_1]
  cases hp : piSearch s.ri ev with
  | error e => exact hQ.refl _
  | ok ids => exact iFindRules_go_rel hQ now _ s ids []

end Indexed

section Linear
variable {Q : St → St → Prop} (hQ : StRelL Q)
include hQ

theorem lrem_group (fuel : Nat) :
    (∀ s id now, Q s (St.lrem fuel s id now).1) ∧
    (∀ s ids now, Q s (St.lremAll fuel s ids now).1) ∧
    (∀ s p now, Q s (St.lsearch fuel s p now).1) ∧
    (∀ s p ids now acc, Q s (St.lsearchLoop fuel s p ids now acc).1) := by
  induction fuel with
  | zero =>
    refine ⟨?_, ?_, ?_, ?_⟩ <;> intros <;> simp only [St.lrem, St.lremAll, St.lsearch, St.lsearchLoop] <;> exact hQ.refl _
  | succ fuel ih =>
    obtain ⟨ihrem, ihall, ihsearch, ihloop⟩ := ih
    refine ⟨?_, ?_, ?_, ?_⟩
    · intro s id now
      rw [St.lrem.eq_2]
      have q1 : Q s { kind := s.kind, facts := amErase s.facts id, store := amErase s.store id, ri := s.ri, ti := s.ti, fresh := s.fresh } := hQ.erase s id
      by_cases hv : isVar id = true
      · simp only [hv, if_true]; exact q1
      · simp only [hv, if_false, Bool.false_eq_true]
        split
        · rename_i s2 e heq
          have q2 := ihsearch { kind := s.kind, facts := amErase s.facts id, store := amErase s.store id, ri := s.ri, ti := s.ti, fresh := s.fresh } [("deleteWith", J.arr [J.str id])] now
          rw [heq] at q2
          exact hQ.trans q1 q2
        · rename_i s2 found heq
          have q2 := ihsearch { kind := s.kind, facts := amErase s.facts id, store := amErase s.store id, ri := s.ri, ti := s.ti, fresh := s.fresh } [("deleteWith", J.arr [J.str id])] now
          rw [heq] at q2
          have q3 := ihall s2 (List.filter (fun x => x != id) (List.map (fun x => x.fst) found)) now
          split
          · rename_i s3 e heq3; rw [heq3] at q3; exact hQ.trans q1 (hQ.trans q2 q3)
          · rename_i s3 a heq3; rw [heq3] at q3; exact hQ.trans q1 (hQ.trans q2 q3)
    · intro s ids now
      cases ids with
      | nil => rw [St.lremAll.eq_2]; exact hQ.refl _
      | cons t ts =>
        rw [St.lremAll.eq_3]
        have q1 := ihrem s t now
        cases hd : St.lrem fuel s t now with
        | mk s1 r =>
          rw [hd] at q1
          cases r with
          | error e => exact q1
          | ok a => exact hQ.trans q1 (ihall s1 ts now)
    · intro s p now
      rw [St.lsearch.eq_2]
      exact ihloop s p _ now []
    · intro s p ids now acc
      cases ids with
      | nil => rw [St.lsearchLoop.eq_2]; exact hQ.refl _
      | cons t ts =>
        rw [St.lsearchLoop.eq_3]
        cases hg : amGet s.facts t with
        | none => exact ihloop s p ts now acc
        | some fact =>
          simp only []
          cases hce : checkExpiration fact now with
          | error e => exact hQ.refl _
          | ok b =>
            cases b with
            | true =>
              simp only []
              have q1 := ihrem s t now
              cases hd : St.lrem fuel s t now with
              | mk s1 r =>
                rw [hd] at q1
                cases r with
                | error e => exact q1
                | ok a => exact hQ.trans q1 (ihloop s1 p ts now acc)
            | false =>
              simp only []
              cases hm : matchesJ (J.obj p) (J.obj fact) with
              | error e => exact hQ.refl _
              | ok bss => exact ihloop s p ts now _

theorem lrem_rel (fuel : Nat) (s : St) (id : String) (now : Int) : Q s (St.lrem fuel s id now).1 :=
  (lrem_group hQ fuel).1 s id now
theorem lsearch_rel (fuel : Nat) (s : St) (p : Obj) (now : Int) : Q s (St.lsearch fuel s p now).1 :=
  (lrem_group hQ fuel).2.2.1 s p now

theorem lGet_rel (s : St) (id : String) (now : Int) : Q s (s.lGet id now).1 := by
  unfold St.lGet
  cases hg : amGet s.facts id with
  | none => exact hQ.refl _
  | some fact =>
    simp only []
    cases hce : checkExpiration fact now with
    | error e => exact hQ.refl _
    | ok b =>
      cases b with
      | false => exact hQ.refl _
      | true =>
        simp only []
        have := lrem_rel hQ s.fuel s id now
        cases hd : St.lrem s.fuel s id now with
        | mk s1 r => rw [hd] at this; cases r <;> exact this

theorem lFindRules_go_rel (ev : Obj) (now : Int) (fuel : Nat) : ∀ (s : St) (ids : List String) (acc : List (String × Obj)),
    Q s (St.lFindRules.go ev now fuel s ids acc).1 := by
  induction fuel with
  | zero => intro s ids acc; rw [St.lFindRules.go.eq_1]; exact hQ.refl _
  | succ fuel ih =>
    intro s ids acc
    cases ids with
    | nil => rw [St.lFindRules.go.eq_2]; exact hQ.refl _
    | cons t ts =>
      rw [St.lFindRules.go.eq_3]
      cases hg : amGet s.facts t with
      | none => exact ih _ _ _
      | some fact =>
        simp only []
        cases hr : fact.get? "rule" with
        | none => exact ih _ _ _
        | some rule =>
          simp only []
          cases hce : checkExpiration fact now with
          | error e => exact hQ.refl _
          | ok b =>
            cases b with
            | true =>
              simp only []
              have q1 := lrem_rel hQ s.fuel s t now
              cases hd : St.lrem s.fuel s t now with
              | mk s1 r =>
                rw [hd] at q1
                cases r with
                | error e => exact q1
                | ok a => exact hQ.trans q1 (ih _ _ _)
            | false =>
              simp only []
              split
              · split
                · split
                  · exact hQ.refl _
                  · exact ih _ _ _
                · exact ih _ _ _
              · exact hQ.refl _

theorem lFindRules_rel (s : St) (ev : Obj) (now : Int) : Q s (s.lFindRules ev now).1 := by
  unfold St.lFindRules
  exact lFindRules_go_rel hQ ev now _ s _ []

end Linear

/-! ## `add` -/

theorem SameData.refl (s : St) : SameData s s := ⟨rfl, rfl, rfl⟩
theorem SameData.trans {a b c : St} (h1 : SameData a b) (h2 : SameData b c) : SameData a c :=
  ⟨h2.1.trans h1.1, h2.2.1.trans h1.2.1, h2.2.2.trans h1.2.2⟩

/-- the index-maintenance block of `IndexedState.add` -/
def iaddIndex (s : St) (id : String) (rule replaced : Option Obj) : St × Option LErr :=
  match rule with
  | some r =>
    if Obj.has r "schedule" then (s, none) else
    match s.indexRule id r with
    | (s1, none) => (s1, none)
    | (s1, some e) =>
      (match replaced with
       | some old => if Obj.has old "schedule" then (s1, some e) else ((s1.indexRule id old).1, some e)
       | none => (s1, some e))
  | none => (s, none)

def iaddFresh (s : St) (given id : String) : St :=
  if given == "" && id == s.freshId then { s with fresh := s.fresh + 1 } else s

theorem St.iadd_eq (s : St) (given : String) (x : Obj) (now : Int) :
    s.iadd given x now =
      match prepareFact given s.freshId x now with
      | .error e => (s, .error e)
      | .ok (id, fact, x') =>
        match extractRule fact false with
        | .error e => (iaddFresh s given id, .error e)
        | .ok (rule, fact) =>
          match (iaddFresh s given id).unindexPrevious id with
          | .error e => (iaddFresh s given id, .error e)
          | .ok (s2, replaced) =>
            match iaddIndex s2 id rule replaced with
            | (s3, err) =>
              match err with
              | some e => (s3, .error e)
              | none =>
              ({ s3 with ti := (extractTerms fact).foldl (fun ti t => TI.add ti t id) s3.ti,
                         facts := amSet s3.facts id fact }, .ok (id, x')) := by
  unfold St.iadd iaddIndex iaddFresh
  rfl

theorem iaddFresh_same (s : St) (given id : String) : SameData s (iaddFresh s given id) := by
  unfold iaddFresh; split <;> exact ⟨rfl, rfl, rfl⟩

theorem iaddIndex_ri (s : St) (id : String) (rule replaced : Option Obj) :
    ∃ ri, (iaddIndex s id rule replaced).1 = { s with ri := ri } := by
  unfold iaddIndex
  cases rule with
  | none => exact ⟨s.ri, rfl⟩
  | some r =>
    simp only []
    by_cases hs : Obj.has r "schedule" = true
    · simp only [hs, if_true]; exact ⟨s.ri, rfl⟩
    · simp only [hs, if_false, Bool.false_eq_true]
      obtain ⟨ri1, h1⟩ := St.indexRule_ri s id r
      cases hi : s.indexRule id r with
      | mk s1 e =>
        rw [hi] at h1; simp only at h1; subst h1
        cases e with
        | none => exact ⟨ri1, rfl⟩
        | some e =>
          simp only []
          cases replaced with
          | none => exact ⟨ri1, rfl⟩
          | some old =>
            simp only []
            by_cases ho : Obj.has old "schedule" = true
            · simp only [ho, if_true]; exact ⟨ri1, rfl⟩
            · simp only [ho, if_false, Bool.false_eq_true]
              obtain ⟨ri2, h2⟩ := St.indexRule_ri { s with ri := ri1 } id old
              exact ⟨ri2, h2⟩

/-- what `IndexedState.add` does to facts and storage -/
theorem St.iadd_spec {s : St} {given : String} {x : Obj} {now : Int} {s1 : St} {r : Except LErr (String × Obj)}
    (h : s.iadd given x now = (s1, r)) :
    match r with
    | .error _ => SameData s s1
    | .ok (id, x') => ∃ m, prepareFact given s.freshId x now = .ok (id, m, x') ∧
        s1.facts = amSet s.facts id (indexedForm m) ∧ s1.store = s.store ∧ s1.kind = s.kind := by
  rw [St.iadd_eq] at h
  cases hp : prepareFact given s.freshId x now with
  | error e => rw [hp] at h; cases h; exact SameData.refl s
  | ok p =>
    obtain ⟨id, fact, x'⟩ := p
    rw [hp] at h; simp only at h
    have hf := iaddFresh_same s given id
    cases he : extractRule fact false with
    | error e => rw [he] at h; cases h; exact hf
    | ok q =>
      obtain ⟨rule, fact2⟩ := q
      rw [he] at h; simp only at h
      cases hu : (iaddFresh s given id).unindexPrevious id with
      | error e => rw [hu] at h; cases h; exact hf
      | ok q2 =>
        obtain ⟨s2, replaced⟩ := q2
        rw [hu] at h; simp only at h
        obtain ⟨ri2, rfl⟩ := St.unindexPrevious_ri hu
        obtain ⟨ri3, h3⟩ := iaddIndex_ri { iaddFresh s given id with ri := ri2 } id rule replaced
        cases hi : iaddIndex { iaddFresh s given id with ri := ri2 } id rule replaced with
        | mk s3 err =>
          rw [hi] at h h3; simp only at h h3; subst h3
          cases err with
          | some e => cases h; exact ⟨hf.1, hf.2.1, hf.2.2⟩
          | none =>
            cases h
            refine ⟨fact, rfl, ?_, hf.2.1, hf.2.2⟩
            simp only [indexedForm, he, hf.1]

theorem St.iAdd_spec {s : St} {given : String} {x : Obj} {now : Int} {s1 : St} {r : Except LErr String}
    (h : s.iAdd given x now = (s1, r)) :
    match r with
    | .error _ => SameData s s1
    | .ok id => ∃ m x', prepareFact given s.freshId x now = .ok (id, m, x') ∧
        s1.facts = amSet s.facts id (indexedForm m) ∧
        s1.store = amSet s.store id (.obj (indexedForm m)) ∧ s1.kind = s.kind := by
  unfold St.iAdd at h
  cases hi : s.iadd given x now with
  | mk s0 r0 =>
    have sp := St.iadd_spec hi
    rw [hi] at h
    cases r0 with
    | error e => cases h; exact sp
    | ok p =>
      obtain ⟨id, x'⟩ := p
      cases h
      obtain ⟨m, hm, hf, hs, hk⟩ := sp
      refine ⟨m, x', hm, hf, ?_, hk⟩
      simp only [hf, hs, amGet_amSet_self, Option.getD_some]

theorem St.lAdd_spec {s : St} {given : String} {x : Obj} {now : Int} {s1 : St} {r : Except LErr String}
    (h : s.lAdd given x now = (s1, r)) :
    match r with
    | .error _ => SameData s s1
    | .ok id => ∃ m x', prepareFact given s.freshId x now = .ok (id, m, x') ∧
        s1.facts = amSet s.facts id m ∧ s1.store = amSet s.store id (.obj m) ∧ s1.kind = s.kind := by
  unfold St.lAdd at h
  cases hp : prepareFact given s.freshId x now with
  | error e => rw [hp] at h; cases h; exact SameData.refl s
  | ok p =>
    obtain ⟨id, m, x'⟩ := p
    rw [hp] at h; cases h
    refine ⟨m, x', rfl, ?_, ?_, ?_⟩ <;> (split <;> rfl)

/-- **what `Add` does**, both kinds: a failed add changes neither facts nor storage; a successful one sets
the same id in both, to the in-memory form of the prepared fact -/
theorem St.add_spec {s : St} {given : String} {x : Obj} {now : Int} {s1 : St} {r : Except LErr String}
    (h : s.add given x now = (s1, r)) :
    match r with
    | .error _ => SameData s s1
    | .ok id => ∃ m x', prepareFact given s.freshId x now = .ok (id, m, x') ∧
        s1.facts = amSet s.facts id (memForm s.kind m) ∧
        s1.store = amSet s.store id (.obj (memForm s.kind m)) ∧ s1.kind = s.kind := by
  unfold St.add at h
  cases hk : s.kind with
  | indexed =>
    rw [hk] at h; simp only at h
    have := St.iAdd_spec h
    cases r with
    | error e => exact this
    | ok id => simpa [memForm, hk] using this
  | linear =>
    rw [hk] at h; simp only at h
    have := St.lAdd_spec h
    cases r with
    | error e => exact this
    | ok id => simpa [memForm, hk] using this

/-! ## the shrinking relation and the storage invariant -/

theorem Shrinks.refl (s : St) : Shrinks s s :=
  ⟨rfl, rfl, List.Sublist.refl _, List.Sublist.refl _, fun _ => .inl ⟨rfl, rfl⟩⟩

theorem Shrinks.trans {a b c : St} (h1 : Shrinks a b) (h2 : Shrinks b c) : Shrinks a c := by
  obtain ⟨k1, f1, sf1, ss1, p1⟩ := h1
  obtain ⟨k2, f2, sf2, ss2, p2⟩ := h2
  refine ⟨k2.trans k1, f2.trans f1, sf2.trans sf1, ss2.trans ss1, ?_⟩
  intro id
  rcases p2 id with ⟨hf, hs⟩ | ⟨hf, hs⟩
  · rcases p1 id with ⟨hf1, hs1⟩ | ⟨hf1, hs1⟩
    · exact .inl ⟨hf.trans hf1, hs.trans hs1⟩
    · exact .inr ⟨hf.trans hf1, hs.trans hs1⟩
  · exact .inr ⟨hf, hs⟩

theorem shrinks_stRel : StRel Shrinks where
  refl := Shrinks.refl
  trans := Shrinks.trans
  idx := fun s ri ti => ⟨rfl, rfl, List.Sublist.refl _, List.Sublist.refl _, fun _ => .inl ⟨rfl, rfl⟩⟩
  erase := fun s id => by
    refine ⟨rfl, rfl, List.filter_sublist, List.filter_sublist, ?_⟩
    intro k
    by_cases hk : k = id
    · subst hk; exact .inr ⟨amGet_amErase_self _ _, amGet_amErase_self _ _⟩
    · exact .inl ⟨amGet_amErase_ne _ hk, amGet_amErase_ne _ hk⟩

theorem Shrinks.storeOK {s s' : St} (h : Shrinks s s') (ok : StoreOK s) : StoreOK s' := by
  obtain ⟨_, _, sf, ss, p⟩ := h
  refine ⟨?_, ?_, ?_⟩
  · intro id
    rcases p id with ⟨hf, hs⟩ | ⟨hf, hs⟩
    · rw [hf, hs]; exact ok.mirror id
    · rw [hf, hs]; rfl
  · exact (sf.map _).nodup ok.factsNodup
  · exact (ss.map _).nodup ok.storeNodup

theorem St.fuel_succ (s : St) : s.fuel = (6 * s.facts.length + 11 + tiWidth s.ti) + 1 := by unfold St.fuel; omega

/-- `Rem` (either kind), whatever its result: facts and storage shrink together -/
theorem St.rem_shrinks (s : St) (id : String) (now : Int) : Shrinks s (s.rem id now).1 := by
  unfold St.rem
  cases s.kind
  · exact irem_rel shrinks_stRel _ _ _ _
  · exact lrem_rel shrinks_stRel.toStRelL _ _ _ _

theorem St.get_shrinks (s : St) (id : String) (now : Int) : Shrinks s (s.get id now).1 := by
  unfold St.get
  cases s.kind
  · exact iGet_rel shrinks_stRel _ _ _
  · exact lGet_rel shrinks_stRel.toStRelL _ _ _

theorem St.search_shrinks (s : St) (p : Obj) (now : Int) : Shrinks s (s.search p now).1 := by
  unfold St.search
  cases s.kind
  · exact isearch_rel shrinks_stRel _ _ _ _
  · exact lsearch_rel shrinks_stRel.toStRelL _ _ _ _

theorem St.findRules_shrinks (s : St) (ev : Obj) (now : Int) : Shrinks s (s.findRules ev now).1 := by
  unfold St.findRules
  cases s.kind
  · exact iFindRules_rel shrinks_stRel _ _ _
  · exact lFindRules_rel shrinks_stRel.toStRelL _ _ _

theorem SameData.storeOK {s s' : St} (h : SameData s s') (ok : StoreOK s) : StoreOK s' := by
  obtain ⟨hf, hs, _⟩ := h
  refine ⟨?_, ?_, ?_⟩
  · intro id; rw [hf, hs]; exact ok.mirror id
  · rw [hf]; exact ok.factsNodup
  · rw [hs]; exact ok.storeNodup

theorem St.add_storeOK {s : St} (ok : StoreOK s) (given : String) (x : Obj) (now : Int) :
    StoreOK (s.add given x now).1 := by
  cases h : s.add given x now with
  | mk s1 r =>
    have sp := St.add_spec h
    cases r with
    | error e => exact SameData.storeOK sp ok
    | ok id =>
      obtain ⟨m, x', _, hf, hs, _⟩ := sp
      refine ⟨?_, ?_, ?_⟩
      · intro k
        simp only [hf, hs, amGet_amSet]
        by_cases hk : k = id
        · simp [hk]
        · simp [hk]; exact ok.mirror k
      · simp only [hf]; exact amKeys_amSet_nodup _ _ _ ok.factsNodup
      · simp only [hs]; exact amKeys_amSet_nodup _ _ _ ok.storeNodup

theorem St.clear_storeOK (s : St) : StoreOK s.clear :=
  ⟨fun _ => rfl, List.nodup_nil, List.nodup_nil⟩

theorem St.empty_storeOK (k : Kind) : StoreOK (St.empty k) :=
  ⟨fun _ => rfl, List.nodup_nil, List.nodup_nil⟩

theorem St.stepOp_storeOK {s : St} (ok : StoreOK s) (op : ROp) : StoreOK (s.stepOp op).1 := by
  cases op with
  | add g x now => exact St.add_storeOK ok g x now
  | rem id now => exact (St.rem_shrinks s id now).storeOK ok
  | get id now => exact (St.get_shrinks s id now).storeOK ok
  | search p now => exact (St.search_shrinks s p now).storeOK ok
  | findRules ev now => exact (St.findRules_shrinks s ev now).storeOK ok
  | clear => exact St.clear_storeOK s

theorem St.runOps_storeOK (ops : List ROp) : ∀ {s : St}, StoreOK s → StoreOK (s.runOps ops) := by
  induction ops with
  | nil => intro s ok; exact ok
  | cons op rest ih => intro s ok; exact ih (St.stepOp_storeOK ok op)

/-! ## acknowledged operations are in storage -/

theorem St.add_ack {s : St} {given : String} {x : Obj} {now : Int} {s' : St} {id : String}
    (h : s.add given x now = (s', .ok id)) :
    ∃ fact, amGet s'.facts id = some fact ∧ amGet s'.store id = some (.obj fact) := by
  obtain ⟨m, x', _, hf, hs, _⟩ := St.add_spec h
  exact ⟨memForm s.kind m, by rw [hf]; exact amGet_amSet_self _ _ _, by rw [hs]; exact amGet_amSet_self _ _ _⟩

theorem St.irem_ack {s : St} (hm : Mirror s) {id : String} {now : Int} {s' : St} {b : Bool} {fuel : Nat}
    (h : St.irem (fuel + 1) s id now = (s', .ok b)) :
    amGet s'.facts id = none ∧ amGet s'.store id = none := by
  have key : ∀ (s2 : St), amGet s2.facts id = none → amGet s2.store id = none →
      Shrinks s2 s' → amGet s'.facts id = none ∧ amGet s'.store id = none := by
    intro s2 h1 h2 sh
    rcases sh.2.2.2.2 id with ⟨hf, hs⟩ | ⟨hf, hs⟩
    · exact ⟨hf.trans h1, hs.trans h2⟩
    · exact ⟨hf, hs⟩
  rw [St.irem.eq_2] at h
  cases hg : amGet s.facts id with
  | none =>
    rw [hg] at h; simp only at h
    have sh := (irem_group shrinks_stRel fuel).2.1 s id now
    cases hd : St.ideps fuel s id now with
    | mk s3 r =>
      rw [hd] at h sh
      cases r with
      | error e => cases h
      | ok u =>
        cases h
        exact key s hg (by rw [hm id, hg]; rfl) sh
  | some fact =>
    rw [hg] at h; simp only at h
    split at h
    · cases h
    · rename_i s1 hr1
      split at h
      · cases h
      · rename_i s3 u heq
        cases h
        have sh := (irem_group shrinks_stRel fuel).2.1 { kind := s1.kind, facts := amErase s1.facts id, store := amErase s1.store id, ri := s1.ri, ti := List.foldl (fun ti t => ti.rem t id) s1.ti (extractTerms fact), fresh := s1.fresh } id now
        rw [heq] at sh
        exact key _ (amGet_amErase_self _ _) (amGet_amErase_self _ _) sh

theorem St.lrem_ack {s : St} {id : String} {now : Int} {s' : St} {b : Bool} {fuel : Nat}
    (h : St.lrem (fuel + 1) s id now = (s', .ok b)) :
    amGet s'.facts id = none ∧ amGet s'.store id = none := by
  have key : ∀ (s2 : St), amGet s2.facts id = none → amGet s2.store id = none →
      Shrinks s2 s' → amGet s'.facts id = none ∧ amGet s'.store id = none := by
    intro s2 h1 h2 sh
    rcases sh.2.2.2.2 id with ⟨hf, hs⟩ | ⟨hf, hs⟩
    · exact ⟨hf.trans h1, hs.trans h2⟩
    · exact ⟨hf, hs⟩
  rw [St.lrem.eq_2] at h
  by_cases hv : isVar id = true
  · simp only [hv, if_true] at h
    cases h
    exact ⟨amGet_amErase_self _ _, amGet_amErase_self _ _⟩
  · simp only [hv, if_false, Bool.false_eq_true] at h
    have q1 := (lrem_group shrinks_stRel.toStRelL fuel).2.2.1 { kind := s.kind, facts := amErase s.facts id, store := amErase s.store id, ri := s.ri, ti := s.ti, fresh := s.fresh } [("deleteWith", J.arr [J.str id])] now
    split at h
    · cases h
    · rename_i s2 found heq
      rw [heq] at q1
      have q2 := (lrem_group shrinks_stRel.toStRelL fuel).2.1 s2 (List.filter (fun x => x != id) (List.map (fun x => x.fst) found)) now
      split at h
      · cases h
      · rename_i s3 u heq3
        rw [heq3] at q2
        cases h
        exact key _ (amGet_amErase_self _ _) (amGet_amErase_self _ _) (q1.trans q2)

/-- an acknowledged `Rem` leaves the id neither in memory nor in storage -/
theorem St.rem_ack {s : St} (hm : Mirror s) {id : String} {now : Int} {s' : St} {b : Bool}
    (h : s.rem id now = (s', .ok b)) : amGet s'.facts id = none ∧ amGet s'.store id = none := by
  unfold St.rem at h
  rw [St.fuel_succ] at h
  cases hk : s.kind with
  | indexed => rw [hk] at h; exact St.irem_ack hm h
  | linear => rw [hk] at h; exact St.lrem_ack h

theorem St.stepOp_kind (s : St) (op : ROp) : (s.stepOp op).1.kind = s.kind := by
  cases op with
  | add g x now =>
    cases hh : s.add g x now with
    | mk s1 r =>
      have sp := St.add_spec hh
      simp only [St.stepOp, hh]
      cases r with
      | error e => exact sp.2.2
      | ok id => obtain ⟨_, _, _, _, _, hk⟩ := sp; exact hk
  | rem id now => exact (St.rem_shrinks s id now).1
  | get id now => exact (St.get_shrinks s id now).1
  | search p now => exact (St.search_shrinks s p now).1
  | findRules ev now => exact (St.findRules_shrinks s ev now).1
  | clear => rfl

theorem St.runOps_kind (ops : List ROp) : ∀ (s : St), (s.runOps ops).kind = s.kind := by
  induction ops with
  | nil => intro s; rfl
  | cons op rest ih => intro s; exact (ih _).trans (St.stepOp_kind s op)

import RulioProofs.Breaker

/-! # Consequences of the repairs of `core/breaker.go` for breakers made by `NewOutboundBreaker`

* an accepted breaker has a positive resolution, so `Do` cannot divide by zero (`accepted_never_panics`);
* the window `ticks·⌊interval/ticks⌋` is at most `interval`, so recovery can be stated with the interval itself
  (`recovers_init`). -/

open Gen.C20

/-- with a positive resolution and a non-empty `counts`, `Do` cannot panic -/
theorem callE_ok (b : OB) (hr : 0 < b.res) (ht : 0 < b.ticks) (hl : 0 < b.counts.length) (now : Nat) :
    b.callE now = .ok (b.call now) := by
  unfold OB.callE
  have h1 : ¬ (b.ticks = 0 ∨ b.res = 0) := by omega
  have h2 : incrIndex < b.counts.length := hl
  simp [h1, h2]

/-- a breaker that `NewOutboundBreaker` returned never panics in `Do`, after any calls and polls -/
theorem accepted_never_panics (limit interval : Int) (b : OB) (h : OB.initE limit interval = some b)
    (pre : List BEv) (now : Nat) : (b.afterEv pre).callE now = .ok ((b.afterEv pre).call now) := by
  obtain ⟨hr, ht, _, _, hlen⟩ := init_res_pos limit interval b h
  obtain ⟨e1, e2, _, e4⟩ := afterEv_fields b pre
  apply callE_ok
  · rw [e2]; exact hr
  · rw [e4]; exact ht
  · rw [e1, hlen]; decide

/-- the enforced window is never longer than the interval -/
theorem window_le_interval (limit interval : Nat) :
    (OB.init limit interval).ticks * (OB.init limit interval).res ≤ interval := by
  obtain ⟨_, _, hticks, hres, _, _⟩ := init_fields limit interval
  rw [hticks, hres]
  exact Nat.mul_div_le interval breakerTicks

theorem pairwise_zero_cons (l : List Nat) (h : l.Pairwise (· ≤ ·)) : ((0 : Nat) :: l).Pairwise (· ≤ ·) :=
  List.pairwise_cons.mpr ⟨fun _ _ => Nat.zero_le _, h⟩

/-- recovery of a breaker made by `NewOutboundBreaker(limit, interval)`, measured in the interval itself -/
theorem recovers_init (limit interval : Nat) (hl : 0 < limit) (hi : breakerTicks ≤ interval)
    (pre : List BEv) (now : Nat) (hmono : (pre.map BEv.time ++ [now]).Pairwise (· ≤ ·))
    (hidle : ∀ t ∈ (OB.init limit interval).admittedEv pre, t + interval ≤ now) :
    (((OB.init limit interval).afterEv pre).call now).2 = true := by
  obtain ⟨hz, _, hticks, hres, hlim, hupd⟩ := init_fields limit interval
  have hw := window_le_interval limit interval
  apply recovers_counts (OB.init limit interval) hz (by rw [hticks]; decide)
    (by rw [hres]; exact Nat.div_pos hi (by decide)) (by rw [hlim]; exact hl) pre now
    (by rw [hupd]; exact pairwise_zero_cons _ hmono)
  intro t ht
  have := hidle t ht
  omega

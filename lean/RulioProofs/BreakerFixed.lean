import RulioProofs.Breaker

/-! # The repaired `slide` (`updated` advances by whole ticks): ghost model, invariant, refinement

Everything here is about `OB.slideFixed` / `OB.callFixed` of `RulioModel/Breaker.lean`, the patch proposed for the
recovery defect.  With it the age of an admission is known up to one tick from *both* sides, which gives
* recovery after exactly one window (`fixed_recovers`), for every arrival pattern, and
* the rate bound over windows of `(ticks-1)·res` (`fixed_window`) — one tick shorter than today's bound. -/

open Gen.C20

structure GF where
  limit : Nat
  res : Nat
  ticks : Nat
  all : List (Nat × Nat)   -- (admission time, shift), newest first
  updated : Nat
  last : Nat               -- time of the last call

namespace GF
def W (g : GF) : Nat := g.ticks * g.res
def W' (g : GF) : Nat := (g.ticks - 1) * g.res
def adm (g : GF) : List Nat := g.all.map (·.1)
def total (g : GF) : Nat := (g.all.filter (fun p => p.2 < g.ticks)).length

def slide (g : GF) (now : Nat) : GF :=
  let raw := (now - g.updated) / g.res
  let k := min raw g.ticks
  { g with all := g.all.map (fun p => (p.1, p.2 + k)),
           updated := if g.ticks < raw then now else g.updated + k * g.res, last := now }

def call (g : GF) (now : Nat) : GF :=
  let g := g.slide now
  if g.total < g.limit then { g with all := (now, 0) :: g.all } else g

def run (g : GF) : List Nat → GF
  | [] => g
  | t :: ts => (g.call t).run ts
end GF

structure FInv (g : GF) : Prop where
  res_pos : 0 < g.res
  tpos : 0 < g.ticks
  clk : g.updated ≤ g.last ∧ g.last < g.updated + g.res
  lb : ∀ p ∈ g.all, p.1 + p.2 * g.res < g.updated + g.res
  ub : ∀ p ∈ g.all, p.2 < g.ticks → g.updated ≤ p.1 + p.2 * g.res
  le_last : ∀ p ∈ g.all, p.1 ≤ g.last
  sorted : g.adm.Pairwise (· ≥ ·)
  suff : ∀ newer t older, g.adm = newer ++ t :: older → windowCount g.W' (t :: older) t ≤ g.limit

theorem GF.slide_adm (g : GF) (now : Nat) : (g.slide now).adm = g.adm := by
  simp [GF.slide, GF.adm, List.map_map, Function.comp_def]

theorem fslide_inv (g : GF) (now : Nat) (h : FInv g) (hn : g.last ≤ now) : FInv (g.slide now) := by
  have hr := h.res_pos
  have hu : g.updated ≤ now := Nat.le_trans h.clk.1 hn
  have hdm := Nat.div_add_mod (now - g.updated) g.res
  have hml := Nat.mod_lt (now - g.updated) hr
  rw [Nat.mul_comm] at hdm
  refine ⟨hr, h.tpos, ?_, ?_, ?_, ?_, ?_, ?_⟩
  · -- clk
    simp only [GF.slide]
    generalize (now - g.updated) / g.res = raw at *
    generalize (now - g.updated) % g.res = r at *
    by_cases hc : g.ticks < raw
    · simp only [hc, if_true]; omega
    · simp only [hc, if_false]
      have hk : min raw g.ticks = raw := Nat.min_eq_left (Nat.le_of_not_lt hc)
      rw [hk]
      generalize raw * g.res = B at *
      omega
  · -- lb
    intro p hp
    simp only [GF.slide, List.mem_map] at hp
    obtain ⟨q, hq, rfl⟩ := hp
    have hold := h.lb q hq
    show q.1 + (q.2 + min ((now - g.updated) / g.res) g.ticks) * g.res <
      (if g.ticks < (now - g.updated) / g.res then now else g.updated + min ((now - g.updated) / g.res) g.ticks * g.res) + g.res
    generalize (now - g.updated) / g.res = raw at *
    generalize (now - g.updated) % g.res = r at *
    rw [Nat.add_mul]
    by_cases hc : g.ticks < raw
    · simp only [hc, if_true]
      have hk : min raw g.ticks = g.ticks := Nat.min_eq_right (Nat.le_of_lt hc)
      rw [hk]
      have h1 : (g.ticks + 1) * g.res ≤ raw * g.res := Nat.mul_le_mul_right _ hc
      rw [Nat.add_mul, Nat.one_mul] at h1
      generalize raw * g.res = B at *
      generalize g.ticks * g.res = T at *
      generalize q.2 * g.res = A at *
      omega
    · simp only [hc, if_false]
      have hk : min raw g.ticks = raw := Nat.min_eq_left (Nat.le_of_not_lt hc)
      rw [hk]
      generalize raw * g.res = B at *
      generalize q.2 * g.res = A at *
      omega
  · -- ub
    intro p hp hlt
    simp only [GF.slide, List.mem_map] at hp
    obtain ⟨q, hq, rfl⟩ := hp
    have hlt' : q.2 + min ((now - g.updated) / g.res) g.ticks < g.ticks := hlt
    show (if g.ticks < (now - g.updated) / g.res then now else g.updated + min ((now - g.updated) / g.res) g.ticks * g.res) ≤
      q.1 + (q.2 + min ((now - g.updated) / g.res) g.ticks) * g.res
    clear hlt
    generalize (now - g.updated) / g.res = raw at *
    generalize (now - g.updated) % g.res = r at *
    have hkk : min raw g.ticks = raw ∧ ¬ g.ticks < raw := by
      rw [Nat.min_def] at hlt' ⊢; split at hlt' <;> simp_all <;> omega
    rw [hkk.1] at hlt' ⊢
    simp only [hkk.2, if_false]
    have hold := h.ub q hq (by omega)
    rw [Nat.add_mul]
    generalize raw * g.res = B at *
    generalize q.2 * g.res = A at *
    omega
  · -- le_last
    intro p hp
    simp only [GF.slide, List.mem_map] at hp
    obtain ⟨q, hq, rfl⟩ := hp
    have := h.le_last q hq
    show q.1 ≤ now
    omega
  · rw [GF.slide_adm]; exact h.sorted
  · intro newer t older he
    rw [GF.slide_adm] at he
    exact h.suff newer t older he

/-- after a slide, every admission younger than `W'` is still counted -/
theorem frecent_le_total (g : GF) (h : FInv g) :
    windowCount g.W' g.adm g.last ≤ g.total := by
  unfold windowCount GF.total GF.adm
  rw [List.filter_map, List.length_map]
  apply filter_len_mono
  intro p hp hrecent
  have hlb := h.lb p hp
  have hclk := h.clk
  have htp := h.tpos
  simp only [Function.comp_apply, decide_eq_true_eq, GF.W'] at hrecent ⊢
  have hr := of_decide_eq_true hrecent
  clear hrecent
  apply Classical.byContradiction
  intro hge
  have hge' : g.ticks ≤ p.2 := Nat.le_of_not_lt hge
  have h1 : g.ticks * g.res ≤ p.2 * g.res := Nat.mul_le_mul_right _ hge'
  have h2 : g.ticks * g.res = (g.ticks - 1) * g.res + g.res := by
    have : g.ticks = (g.ticks - 1) + 1 := by omega
    conv => lhs; rw [this, Nat.add_mul, Nat.one_mul]
  generalize p.2 * g.res = A at *
  generalize (g.ticks - 1) * g.res = B at *
  generalize g.ticks * g.res = T at *
  omega

/-- after a slide, every admission still counted is younger than one window -/
theorem ftotal_le_recent (g : GF) (h : FInv g) :
    g.total ≤ windowCount g.W g.adm g.last := by
  unfold windowCount GF.total GF.adm
  rw [List.filter_map, List.length_map]
  apply filter_len_mono
  intro p hp hlt
  simp only [decide_eq_true_eq] at hlt
  have hub := h.ub p hp hlt
  have hclk := h.clk
  simp only [Function.comp_apply, GF.W]
  refine decide_eq_true ?_
  have h1 : p.2 * g.res + g.res ≤ g.ticks * g.res := by
    have : (p.2 + 1) * g.res ≤ g.ticks * g.res := Nat.mul_le_mul_right _ hlt
    rw [Nat.add_mul] at this; omega
  generalize p.2 * g.res = A at *
  generalize g.ticks * g.res = T at *
  omega

theorem fcall_inv (g : GF) (now : Nat) (h : FInv g) (hn : g.last ≤ now) : FInv (g.call now) := by
  have hs := fslide_inv g now h hn
  have hlast : (g.slide now).last = now := rfl
  unfold GF.call
  simp only []
  split
  · rename_i hlt
    refine ⟨hs.res_pos, hs.tpos, hs.clk, ?_, ?_, ?_, ?_, ?_⟩
    · intro p hp
      simp only [List.mem_cons] at hp
      rcases hp with rfl | hp
      · have := hs.clk; rw [hlast] at this
        show now + 0 * _ < _
        simp; exact this.2
      · exact hs.lb p hp
    · intro p hp hpl
      simp only [List.mem_cons] at hp
      rcases hp with rfl | hp
      · have := hs.clk; rw [hlast] at this
        show _ ≤ now + 0 * _
        simp; exact this.1
      · exact hs.ub p hp hpl
    · intro p hp
      simp only [List.mem_cons] at hp
      rcases hp with rfl | hp
      · show now ≤ (g.slide now).last
        rw [hlast]; exact Nat.le_refl _
      · exact hs.le_last p hp
    · simp only [GF.adm, List.map_cons, List.pairwise_cons]
      refine ⟨?_, hs.sorted⟩
      intro t ht
      simp only [List.mem_map] at ht
      obtain ⟨q, hq, rfl⟩ := ht
      have := hs.le_last q hq
      rw [hlast] at this
      exact this
    · intro newer t older he
      simp only [GF.adm, List.map_cons] at he
      cases newer with
      | nil =>
        simp only [List.nil_append, List.cons.injEq] at he
        obtain ⟨rfl, rfl⟩ := he
        have hr := frecent_le_total _ hs
        rw [hlast] at hr
        unfold windowCount at *
        simp only [List.filter_cons]
        have hW : ({ (g.slide now) with all := (now, 0) :: (g.slide now).all } : GF).W' = (g.slide now).W' := rfl
        rw [hW]
        unfold GF.adm at hr
        split
        · simp only [List.length_cons]; omega
        · omega
      | cons n newer' =>
        simp only [List.cons_append, List.cons.injEq] at he
        exact hs.suff newer' t older he.2
  · exact hs

theorem fcall_fields (g : GF) (now : Nat) :
    (g.call now).last = now ∧ (g.call now).res = g.res ∧ (g.call now).ticks = g.ticks ∧ (g.call now).limit = g.limit := by
  unfold GF.call; simp only []; split <;> exact ⟨rfl, rfl, rfl, rfl⟩

theorem frun_inv (g : GF) (ts : List Nat) (h : FInv g) (hmono : (g.last :: ts).Pairwise (· ≤ ·)) : FInv (g.run ts) := by
  induction ts generalizing g with
  | nil => exact h
  | cons t ts ih =>
    have hp := List.pairwise_cons.mp hmono
    have ht : g.last ≤ t := hp.1 t (List.mem_cons_self ..)
    apply ih (g.call t) (fcall_inv g t h ht)
    rw [(fcall_fields g t).1]
    exact hp.2

theorem frun_fields (g : GF) (ts : List Nat) :
    (g.run ts).res = g.res ∧ (g.run ts).ticks = g.ticks ∧ (g.run ts).limit = g.limit := by
  induction ts generalizing g with
  | nil => exact ⟨rfl, rfl, rfl⟩
  | cons t ts ih =>
    obtain ⟨_, e2, e3, e4⟩ := fcall_fields g t
    have := ih (g.call t)
    simp only [GF.run]
    exact ⟨this.1.trans e2, this.2.1.trans e3, this.2.2.trans e4⟩

/-! ## refinement of the concrete `slideFixed` -/

structure RefinesF (b : OB) (g : GF) : Prop where
  counts : b.counts = countsOf g.all g.ticks
  res : b.res = g.res
  limit : b.limit = g.limit
  updated : b.updated = g.updated
  tpos : 0 < g.ticks

theorem fslide_refines (b : OB) (g : GF) (h : RefinesF b g) (now : Nat) : RefinesF (b.slideFixed now) (g.slide now) := by
  have hlen : b.counts.length = g.ticks := by rw [h.counts, countsOf_length]
  refine ⟨?_, ?_, ?_, ?_, h.tpos⟩
  · show goZeroWhile (goCopySelf b.counts (copyDst _) (copySrc _)) (zeroLo _) (fun i => zeroCond i _) = _
    rw [slide_counts_eq, clampTicks_eq_min, hlen, h.counts, shiftL_countsOf]
    simp only [rawTicks, elapsed, h.res, h.updated]
    rfl
  · show b.res = g.res
    exact h.res
  · exact h.limit
  · show (if b.counts.length < rawTicks (elapsed now b.updated) b.res then now
        else b.updated + clampTicks b.counts.length (rawTicks (elapsed now b.updated) b.res) * b.res) = _
    rw [clampTicks_eq_min, hlen]
    simp only [rawTicks, elapsed, h.res, h.updated]
    rfl

theorem ftotal_refines (b : OB) (g : GF) (h : RefinesF b g) : b.total = g.total := by
  unfold OB.total GF.total
  rw [h.counts, countsOf_sum, List.countP_eq_length_filter]

theorem fcall_refines (b : OB) (g : GF) (h : RefinesF b g) (now : Nat) :
    RefinesF (b.callFixed now).1 (g.call now) ∧
    (b.callFixed now).2 = decide ((g.slide now).total < (g.slide now).limit) := by
  have hs := fslide_refines b g h now
  have ht := ftotal_refines _ _ hs
  have hdec : admitTest (b.slideFixed now).total (b.slideFixed now).limit =
      decide ((g.slide now).total < (g.slide now).limit) := by
    simp [admitTest, ht, hs.limit]
  unfold OB.callFixed GF.call
  simp only [hdec]
  by_cases hc : (g.slide now).total < (g.slide now).limit
  · simp only [hc, decide_true, if_true, and_true]
    refine ⟨?_, hs.res, hs.limit, hs.updated, hs.tpos⟩
    show goIncrAt (b.slideFixed now).counts incrIndex = countsOf ((now, 0) :: (g.slide now).all) (g.slide now).ticks
    rw [hs.counts]
    exact goIncrAt_countsOf _ _ _
  · simp only [hc, decide_false, if_false, and_true]
    exact hs

theorem fgcall_adm (g : GF) (now : Nat) :
    (g.call now).adm = if (g.slide now).total < (g.slide now).limit then now :: g.adm else g.adm := by
  unfold GF.call
  simp only []
  split
  · show now :: (g.slide now).adm = now :: g.adm
    rw [GF.slide_adm]
  · exact GF.slide_adm g now

theorem fadmitted_refines (b : OB) (g : GF) (h : RefinesF b g) (ts : List Nat) :
    OB.admittedFixed.go b ts g.adm = (g.run ts).adm := by
  induction ts generalizing b g with
  | nil => rfl
  | cons t ts ih =>
    have hc := fcall_refines b g h t
    simp only [OB.admittedFixed.go, GF.run]
    rw [← ih _ _ hc.1, fgcall_adm, hc.2]
    by_cases hlt : (g.slide t).total < (g.slide t).limit <;> simp [hlt]

def OB.afterFixed (b : OB) : List Nat → OB
  | [] => b
  | t :: ts => OB.afterFixed (b.callFixed t).1 ts

theorem fafter_refines (b : OB) (g : GF) (h : RefinesF b g) (ts : List Nat) : RefinesF (b.afterFixed ts) (g.run ts) := by
  induction ts generalizing b g with
  | nil => exact h
  | cons t ts ih => exact ih _ _ (fcall_refines b g h t).1

def fghost0 (b : OB) : GF :=
  { limit := b.limit, res := b.res, ticks := b.ticks, all := [], updated := b.updated, last := b.updated }

theorem frefines_zero (b : OB) (hz : b.counts = List.replicate b.ticks 0) (ht : 0 < b.ticks) : RefinesF b (fghost0 b) := by
  refine ⟨?_, rfl, rfl, rfl, ht⟩
  rw [hz]
  simp only [fghost0, countsOf, List.countP_nil]
  apply List.ext_getElem <;> simp

theorem finv_ghost0 (b : OB) (hr : 0 < b.res) (ht : 0 < b.ticks) : FInv (fghost0 b) := by
  refine ⟨hr, ht, ⟨Nat.le_refl _, ?_⟩, ?_, ?_, ?_, ?_, ?_⟩
  · show b.updated < b.updated + b.res
    omega
  · intro p hp; simp [fghost0] at hp
  · intro p hp; simp [fghost0] at hp
  · intro p hp; simp [fghost0] at hp
  · simp [fghost0, GF.adm]
  · intro newer t older he
    simp [fghost0, GF.adm] at he

/-- rate bound of the repaired breaker: windows of `(ticks-1)·res` -/
theorem fixed_window_counts (b : OB) (hz : b.counts = List.replicate b.ticks 0) (ht : 0 < b.ticks) (hr : 0 < b.res)
    (ts : List Nat) (hmono : (b.updated :: ts).Pairwise (· ≤ ·)) (a : Nat) :
    ((b.admittedFixed ts).filter (fun t => a ≤ t ∧ t < a + (b.ticks - 1) * b.res)).length ≤ b.limit := by
  have h := fadmitted_refines b (fghost0 b) (frefines_zero b hz ht) ts
  have hi := frun_inv (fghost0 b) ts (finv_ghost0 b hr ht) hmono
  obtain ⟨e1, e2, e3⟩ := frun_fields (fghost0 b) ts
  have hw := window_of_suff ((fghost0 b).run ts).W' ((fghost0 b).run ts).limit ((fghost0 b).run ts).adm hi.sorted hi.suff a
  have hW : ((fghost0 b).run ts).W' = (b.ticks - 1) * b.res := by
    show (((fghost0 b).run ts).ticks - 1) * ((fghost0 b).run ts).res = _
    rw [e1, e2]; rfl
  rw [hW, e3] at hw
  unfold OB.admittedFixed
  have : (fghost0 b).adm = [] := rfl
  rw [this] at h
  rw [h]
  exact hw

/-- recovery of the repaired breaker: whatever the arrival pattern, a call is admitted as soon as fewer than `limit`
earlier admissions are younger than one window -/
theorem fixed_recovers_counts (b : OB) (hz : b.counts = List.replicate b.ticks 0) (ht : 0 < b.ticks) (hr : 0 < b.res)
    (pre : List Nat) (now : Nat) (hmono : (b.updated :: (pre ++ [now])).Pairwise (· ≤ ·))
    (hfew : ((b.admittedFixed pre).filter (fun t => now < t + b.ticks * b.res)).length < b.limit) :
    ((b.afterFixed pre).callFixed now).2 = true := by
  have hR := frefines_zero b hz ht
  have hA := fafter_refines b _ hR pre
  have hc := (fcall_refines _ _ hA now).2
  have hadm := fadmitted_refines b _ hR pre
  have hm1 : ((fghost0 b).last :: pre).Pairwise (· ≤ ·) := by
    have := hmono.sublist (List.Sublist.cons_cons b.updated (List.sublist_append_left pre [now]))
    exact this
  have hi := frun_inv (fghost0 b) pre (finv_ghost0 b hr ht) hm1
  have hlast : ((fghost0 b).run pre).last ≤ now := by
    -- the last call time is an element of (updated :: pre), all of which are ≤ now
    have hall : ∀ x ∈ b.updated :: pre, x ≤ now := by
      intro x hx
      have hp := List.pairwise_append.mp (by simpa using hmono : ((b.updated :: pre) ++ [now]).Pairwise (· ≤ ·))
      exact hp.2.2 x hx now (List.mem_singleton.mpr rfl)
    have hmem : ((fghost0 b).run pre).last ∈ b.updated :: pre := by
      clear hm1 hi hadm hc hA hR hfew hmono hall
      have : ∀ (g : GF) (ts : List Nat), (g.run ts).last ∈ g.last :: ts := by
        intro g ts
        induction ts generalizing g with
        | nil => simp [GF.run]
        | cons t ts ih =>
          have := ih (g.call t)
          rw [(fcall_fields g t).1] at this
          simp only [GF.run]
          exact List.mem_cons_of_mem _ this
      exact this (fghost0 b) pre
    exact hall _ hmem
  have hs := fslide_inv _ now hi hlast
  have hg := ftotal_le_recent _ hs
  obtain ⟨e1, e2, e3⟩ := frun_fields (fghost0 b) pre
  rw [hc]
  simp only [decide_eq_true_eq]
  have hl : (((fghost0 b).run pre).slide now).limit = b.limit := e3
  rw [hl]
  have hW : (((fghost0 b).run pre).slide now).W = b.ticks * b.res := by
    show ((fghost0 b).run pre).ticks * ((fghost0 b).run pre).res = _
    rw [e1, e2]; rfl
  have hlast' : (((fghost0 b).run pre).slide now).last = now := rfl
  rw [hW, hlast', GF.slide_adm] at hg
  have h0 : (fghost0 b).adm = [] := rfl
  rw [h0] at hadm
  unfold OB.admittedFixed at hfew
  rw [hadm] at hfew
  exact Nat.lt_of_le_of_lt hg hfew

import RulioModel.ConcC12
import RulioProofs.ConcC12

/-! # Memory = storage under any number of writers, when both are updated inside one exclusive section

`secPend`: the values the memory cell `cm` and the storage cell `cs` will hold at the end of the section a thread is
in (its steps up to the next `rel`). `Good`: a thread program writes `cm` / `cs` only inside exclusive sections, with
constants, and every section it will ever open ends with `cm` = `cs` when it starts with `cm` = `cs`.
`AgreeInv` is then an invariant of every schedule (`agreeInv_exec`): whenever nobody holds the lock exclusively the two
cells agree, and while a writer is inside its section they will agree again at its `rel`. -/

namespace Conc

def secPend (cm cs : Cell) : List Step → Val → Val → Val × Val
  | [], m, s => (m, s)
  | .rel :: _, m, s => (m, s)
  | .wr d f :: r, m, s => secPend cm cs r (if d = cm then f [] else m) s
  | .uwr d f :: r, m, s => secPend cm cs r m (if d = cs then f [] else s)
  | .acq _ :: r, m, s => secPend cm cs r m s
  | .rd _ :: r, m, s => secPend cm cs r m s
  | .io :: r, m, s => secPend cm cs r m s

def Good (cm cs : Cell) : Option Bool → List Step → Prop
  | _, [] => True
  | _, .acq w :: r => (∀ v, (secPend cm cs r v v).1 = (secPend cm cs r v v).2) ∧ Good cm cs (some w) r
  | _, .rel :: r => Good cm cs none r
  | m, .wr d f :: r => (d = cm → m = some true ∧ ∀ l, f l = f []) ∧ Good cm cs m r
  | m, .uwr d f :: r => (d = cs → m = some true ∧ ∀ l, f l = f []) ∧ Good cm cs m r
  | m, .rd _ :: r => Good cm cs m r
  | m, .io :: r => Good cm cs m r

structure AgreeInv (cm cs : Cell) (C : Config) : Prop where
  good : ∀ t, Good cm cs (C.th t).mode (C.th t).todo
  idle : C.writer = none → C.mem cm = C.aux cs
  busy : ∀ w, C.writer = some w →
    (secPend cm cs (C.th w).todo (C.mem cm) (C.aux cs)).1 = (secPend cm cs (C.th w).todo (C.mem cm) (C.aux cs)).2

theorem upd_self {α} (f : Nat → α) (k : Nat) (v : α) : upd f k v k = v := by simp [upd]

theorem agreeInv_step {cm cs : Cell} {C : Config} (hI : LockInv C) (h : AgreeInv cm cs C) (t : Tid) :
    AgreeInv cm cs (step C t) := by
  have hgt := h.good t
  cases hT : (C.th t).todo with
  | nil => rw [step_nil hT]; exact h
  | cons s rest =>
    rw [hT] at hgt
    cases s with
    | acq w =>
      by_cases hc : ((C.th t).mode.isNone && canAcq C w) = true
      · have hwn : C.writer = none := by
          simp only [Bool.and_eq_true, canAcq] at hc
          cases hw : C.writer with
          | none => rfl
          | some x => rw [hw] at hc; simp at hc
        have hag := h.idle hwn
        cases w with
        | true =>
          have hs : step C t = { C with writer := some t, th := upd C.th t { C.th t with todo := rest, mode := some true } } := by
            simp [step, hT, hc]
          rw [hs]
          refine ⟨?_, (by intro hn; cases hn), ?_⟩
          · intro u
            by_cases hu : u = t
            · subst hu; simp only [upd_self]; exact hgt.2
            · simp only [upd_other _ _ hu]; exact h.good u
          · intro x hx
            have : x = t := by simpa using hx.symm
            subst this
            simp only [upd_self]
            rw [← hag]
            exact hgt.1 (C.mem cm)
        | false =>
          have hs : step C t = { C with readers := t :: C.readers, th := upd C.th t { C.th t with todo := rest, mode := some false } } := by
            simp [step, hT, hc]
          rw [hs]
          refine ⟨?_, fun _ => hag, ?_⟩
          · intro u
            by_cases hu : u = t
            · subst hu; simp only [upd_self]; exact hgt.2
            · simp only [upd_other _ _ hu]; exact h.good u
          · intro x hx
            simp only at hx
            rw [hwn] at hx; cases hx
      · have hs : step C t = C := by simp [step, hT, hc]
        rw [hs]; exact h
    | rel =>
      cases hm : (C.th t).mode with
      | none =>
        have hs : step C t = C := by simp [step, hT, hm]
        rw [hs]; exact h
      | some b =>
        cases b with
        | true =>
          have hs : step C t = { C with writer := none, th := upd C.th t { C.th t with todo := rest, mode := none } } := by
            simp [step, hT, hm]
          have hw : C.writer = some t := (hI.wr t).2 hm
          have hb := h.busy t hw
          rw [hT] at hb
          simp only [secPend] at hb
          rw [hs]
          refine ⟨?_, fun _ => hb, by intro x hx; cases hx⟩
          intro u
          by_cases hu : u = t
          · subst hu; simp only [upd_self]; exact hgt
          · simp only [upd_other _ _ hu]; exact h.good u
        | false =>
          have hs : step C t = { C with readers := C.readers.erase t, th := upd C.th t { C.th t with todo := rest, mode := none } } := by
            simp [step, hT, hm]
          rw [hs]
          refine ⟨?_, h.idle, ?_⟩
          · intro u
            by_cases hu : u = t
            · subst hu; simp only [upd_self]; exact hgt
            · simp only [upd_other _ _ hu]; exact h.good u
          · intro x hx
            have hxt : x ≠ t := by
              intro e; subst e
              have := (hI.wr x).1 hx
              rw [hm] at this; cases this
            simp only [upd_other _ _ hxt]
            exact h.busy x hx
    | rd c =>
      have hs : step C t = { C with th := upd C.th t { C.th t with todo := rest, log := (C.th t).log ++ [C.mem c] } } := by
        simp [step, hT]
      rw [hs]
      refine ⟨?_, h.idle, ?_⟩
      · intro u
        by_cases hu : u = t
        · subst hu; simp only [upd_self]; exact hgt
        · simp only [upd_other _ _ hu]; exact h.good u
      · intro x hx
        by_cases hxt : x = t
        · subst hxt
          have hb := h.busy x hx
          rw [hT] at hb
          simpa only [upd_self, secPend] using hb
        · simp only [upd_other _ _ hxt]; exact h.busy x hx
    | io =>
      have hs : step C t = { C with th := upd C.th t { C.th t with todo := rest } } := by
        simp [step, hT]
      rw [hs]
      refine ⟨?_, h.idle, ?_⟩
      · intro u
        by_cases hu : u = t
        · subst hu; simp only [upd_self]; exact hgt
        · simp only [upd_other _ _ hu]; exact h.good u
      · intro x hx
        by_cases hxt : x = t
        · subst hxt
          have hb := h.busy x hx
          rw [hT] at hb
          simpa only [upd_self, secPend] using hb
        · simp only [upd_other _ _ hxt]; exact h.busy x hx
    | wr c f =>
      have hs : step C t = { C with mem := upd C.mem c (f (C.th t).log), th := upd C.th t { C.th t with todo := rest } } := by
        simp [step, hT]
      rw [hs]
      have hgood : ∀ u, Good cm cs ((upd C.th t { C.th t with todo := rest }) u).mode ((upd C.th t { C.th t with todo := rest }) u).todo := by
        intro u
        by_cases hu : u = t
        · subst hu; simp only [upd_self]; exact hgt.2
        · simp only [upd_other _ _ hu]; exact h.good u
      by_cases hcc : c = cm
      · subst hcc
        obtain ⟨hmode, hconst⟩ := hgt.1 rfl
        have hw : C.writer = some t := (hI.wr t).2 hmode
        have hb := h.busy t hw
        rw [hT] at hb
        simp only [secPend, if_true] at hb
        refine ⟨hgood, ?_, ?_⟩
        · intro hn; simp only at hn; rw [hw] at hn; cases hn
        · intro x hx
          simp only at hx
          have : x = t := by rw [hw] at hx; exact (Option.some.inj hx).symm
          subst this
          simp only [upd_self, hconst (C.th x).log]
          exact hb
      · have hne : cm ≠ c := fun e => hcc e.symm
        refine ⟨hgood, ?_, ?_⟩
        · intro hn; simp only [upd_other _ _ hne]; exact h.idle hn
        · intro x hx
          simp only [upd_other _ _ hne]
          by_cases hxt : x = t
          · subst hxt
            have hb := h.busy x hx
            rw [hT] at hb
            simp only [secPend, hcc, if_false] at hb
            simpa only [upd_self] using hb
          · simp only [upd_other _ _ hxt]; exact h.busy x hx
    | uwr c f =>
      have hs : step C t = { C with aux := upd C.aux c (f (C.th t).log), th := upd C.th t { C.th t with todo := rest } } := by
        simp [step, hT]
      rw [hs]
      have hgood : ∀ u, Good cm cs ((upd C.th t { C.th t with todo := rest }) u).mode ((upd C.th t { C.th t with todo := rest }) u).todo := by
        intro u
        by_cases hu : u = t
        · subst hu; simp only [upd_self]; exact hgt.2
        · simp only [upd_other _ _ hu]; exact h.good u
      by_cases hcc : c = cs
      · subst hcc
        obtain ⟨hmode, hconst⟩ := hgt.1 rfl
        have hw : C.writer = some t := (hI.wr t).2 hmode
        have hb := h.busy t hw
        rw [hT] at hb
        simp only [secPend, if_true] at hb
        refine ⟨hgood, ?_, ?_⟩
        · intro hn; simp only at hn; rw [hw] at hn; cases hn
        · intro x hx
          simp only at hx
          have : x = t := by rw [hw] at hx; exact (Option.some.inj hx).symm
          subst this
          simp only [upd_self, hconst (C.th x).log]
          exact hb
      · have hne : cs ≠ c := fun e => hcc e.symm
        refine ⟨hgood, ?_, ?_⟩
        · intro hn; simp only [upd_other _ _ hne]; exact h.idle hn
        · intro x hx
          simp only [upd_other _ _ hne]
          by_cases hxt : x = t
          · subst hxt
            have hb := h.busy x hx
            rw [hT] at hb
            simp only [secPend, hcc, if_false] at hb
            simpa only [upd_self] using hb
          · simp only [upd_other _ _ hxt]; exact h.busy x hx

/-- **the invariant holds after every schedule** -/
theorem agreeInv_exec {cm cs : Cell} {F A : Config} (hI : LockInv F) (hC : Completes F A) (h : AgreeInv cm cs F)
    (σ : List Tid) : AgreeInv cm cs (exec F σ) := by
  induction σ generalizing F A with
  | nil => exact h
  | cons t σ ih =>
    obtain ⟨hI', hC'⟩ := step_sim hI hC t
    simpa [exec] using ih hI' hC' (agreeInv_step hI h t)

theorem agreeInv_init {cm cs : Cell} (P : Tid → List Step) (m0 : Cell → Val) (h0 : m0 cm = m0 cs)
    (hg : ∀ t, Good cm cs none (P t)) : AgreeInv cm cs (init P m0) where
  good := by intro t; simpa [init] using hg t
  idle := by intro _; simpa [init] using h0
  busy := by intro w hw; simp [init] at hw

/-! ### composing programs -/

theorem secPend_append_of_wf (cm cs : Cell) (w : Bool) (a b : List Step) (h : wf (some w) a = true) (m s : Val) :
    secPend cm cs (a ++ b) m s = secPend cm cs a m s := by
  induction a generalizing m s w with
  | nil => simp [wf] at h
  | cons x r ih =>
    cases x with
    | acq w' => simp [wf] at h
    | rel => simp [secPend]
    | rd c => simp only [wf] at h; simpa [secPend] using ih w h m s
    | wr c f =>
      cases w with
      | true => simp only [wf] at h; simpa [secPend] using ih true h _ s
      | false => simp [wf] at h
    | uwr c f => simp only [wf] at h; simpa [secPend] using ih w h m _
    | io => simp only [wf] at h; simpa [secPend] using ih w h m s

theorem Good_append (cm cs : Cell) (m : Option Bool) (a b : List Step) (hw : wf m a = true) (ha : Good cm cs m a)
    (hb : Good cm cs none b) : Good cm cs m (a ++ b) := by
  induction a generalizing m with
  | nil =>
    cases m with
    | none => simpa using hb
    | some x => simp [wf] at hw
  | cons x r ih =>
    cases x with
    | acq w =>
      cases m with
      | some x => simp [wf] at hw
      | none =>
        simp only [wf] at hw
        simp only [List.cons_append, Good] at ha ⊢
        refine ⟨fun v => ?_, ih (some w) hw ha.2⟩
        rw [secPend_append_of_wf cm cs w r b hw]
        exact ha.1 v
    | rel =>
      cases m with
      | none => simp [wf] at hw
      | some x =>
        simp only [wf] at hw
        simp only [List.cons_append, Good] at ha ⊢
        exact ih none hw ha
    | rd c =>
      cases m with
      | none => simp [wf] at hw
      | some x =>
        simp only [wf] at hw
        simp only [List.cons_append, Good] at ha ⊢
        exact ih _ hw ha
    | wr c f =>
      cases m with
      | none => simp [wf] at hw
      | some x =>
        cases x with
        | false => simp [wf] at hw
        | true =>
          simp only [wf] at hw
          simp only [List.cons_append, Good] at ha ⊢
          exact ⟨ha.1, ih _ hw ha.2⟩
    | uwr c f =>
      simp only [wf] at hw
      simp only [List.cons_append, Good] at ha ⊢
      exact ⟨ha.1, ih _ hw ha.2⟩
    | io =>
      simp only [wf] at hw
      simp only [List.cons_append, Good] at ha ⊢
      exact ih _ hw ha

theorem Good_flatten (cm cs : Cell) (l : List (List Step)) (hw : ∀ p ∈ l, wf none p = true)
    (hg : ∀ p ∈ l, Good cm cs none p) : Good cm cs none l.flatten := by
  induction l with
  | nil => simp [Good]
  | cons p r ih =>
    simp only [List.flatten_cons]
    exact Good_append cm cs none p _ (hw p (by simp)) (hg p (by simp))
      (ih (fun q hq => hw q (by simp [hq])) (fun q hq => hg q (by simp [hq])))

end Conc

/-! ### rows of the regenerated table -/

namespace Conc.C12
open Conc

/-- does the rest of the current section (up to the next unlock) write the fact's memory / its stored document? -/
def secWrM : List Acc → Bool
  | [] => false
  | .unlock _ :: _ => false
  | .wr f :: r => f == .mem || secWrM r
  | _ :: r => secWrM r

def secWrS : List Acc → Bool
  | [] => false
  | .unlock _ :: _ => false
  | .store _ :: r => true || secWrS r
  | _ :: r => secWrS r

/-- a flattened row writes the fact's memory and its stored document only inside exclusive sections, and every
section that writes one of them writes the other too -/
def goodAcc : Option Bool → List Acc → Bool
  | _, [] => true
  | _, .lock w :: r => (secWrM r == secWrS r) && goodAcc (some w) r
  | _, .unlock _ :: r => goodAcc none r
  | m, .wr f :: r => (f != .mem || m == some true) && goodAcc m r
  | m, .store _ :: r => (m == some true) && goodAcc m r
  | m, .rd _ :: r => goodAcc m r
  | m, .call _ :: r => goodAcc m r
  | m, .hook _ :: r => goodAcc m r
  | m, .lock2 _ :: r => goodAcc m r
  | m, .unlock2 _ :: r => goodAcc m r

theorem secPend_inst (v : Val) (drop : List Field) (hd : drop.contains Field.mem = false) (l : List Acc) (m s : Val) :
    secPend memC storeC (l.map (inst (interp v) drop)) m s = (cond (secWrM l) v m, cond (secWrS l) v s) := by
  induction l generalizing m s with
  | nil => rfl
  | cons a r ih =>
    simp only [List.map_cons]
    generalize List.map (inst (interp v) drop) r = L at ih ⊢
    cases a with
    | lock w => exact ih m s
    | unlock w => rfl
    | rd f =>
      by_cases h : drop.contains f = true
      · simp only [inst, h, if_true]; exact ih m s
      · simp only [inst, h, if_false]; exact ih m s
    | wr f =>
      by_cases h : drop.contains f = true
      · have hf : (f == Field.mem) = false := by
          cases hfm : (f == Field.mem) with
          | false => rfl
          | true => have := eq_of_beq hfm; subst this; rw [hd] at h; cases h
        simp only [inst, h, if_true]
        show secPend memC storeC L m s = (cond (f == Field.mem || secWrM r) v m, cond (secWrS r) v s)
        rw [hf, Bool.false_or]; exact ih m s
      · simp only [inst, h, if_false]
        cases f with
        | mem =>
          show secPend memC storeC L (if memC = memC then v else m) s = (cond (true || secWrM r) v m, cond (secWrS r) v s)
          rw [if_pos rfl, ih, Bool.true_or]
          cases secWrM r <;> rfl
        | factIndex => exact ih m s
        | ruleIndex => exact ih m s
        | cachedRules => exact ih m s
        | loaded => exact ih m s
        | ruleObj => exact ih m s
    | call c => exact ih m s
    | store op =>
      show secPend memC storeC L m (if storeC = storeC then v else s) = (cond (secWrM r) v m, cond (true || secWrS r) v s)
      rw [if_pos rfl, ih, Bool.true_or]
      cases secWrS r <;> rfl
    | hook k => exact ih m s
    | lock2 k => exact ih m s
    | unlock2 k => exact ih m s

theorem good_inst (v : Val) (drop : List Field) (hd : drop.contains Field.mem = false) (m : Option Bool) (l : List Acc)
    (h : goodAcc m l = true) : Good memC storeC m (l.map (inst (interp v) drop)) := by
  induction l generalizing m with
  | nil => simp [Good]
  | cons a r ih =>
    cases a with
    | lock w =>
      simp only [goodAcc, Bool.and_eq_true, beq_iff_eq] at h
      simp only [List.map_cons, inst, Good]
      refine ⟨fun x => ?_, ih _ h.2⟩
      rw [secPend_inst v drop hd r x x, h.1]
    | unlock w => simp only [goodAcc] at h; simpa [inst, Good] using ih _ h
    | rd f =>
      simp only [goodAcc] at h
      simp only [List.map_cons, inst]
      by_cases hc : drop.contains f = true
      · rw [if_pos hc]; exact ih _ h
      · rw [if_neg hc]; exact ih _ h
    | wr f =>
      simp only [goodAcc, Bool.and_eq_true, Bool.or_eq_true, bne_iff_ne, beq_iff_eq] at h
      simp only [List.map_cons, inst]
      by_cases hc : drop.contains f = true
      · rw [if_pos hc]; exact ih _ h.2
      · rw [if_neg hc]
        refine ⟨fun hcell => ?_, ih _ h.2⟩
        have hf : f = .mem := by
          cases f with
          | mem => rfl
          | factIndex => exact absurd (show fidxC = memC from hcell) (by decide)
          | ruleIndex => exact absurd (show ridxC = memC from hcell) (by decide)
          | cachedRules => exact absurd (show cacheC = memC from hcell) (by decide)
          | loaded => exact absurd (show loadedC = memC from hcell) (by decide)
          | ruleObj => exact absurd (show ruleC = memC from hcell) (by decide)
        rcases h.1 with h1 | h1
        · exact absurd hf h1
        · exact ⟨h1, fun _ => rfl⟩
    | call c => simp only [goodAcc] at h; simpa [inst, Good] using ih _ h
    | store op =>
      simp only [goodAcc, Bool.and_eq_true, beq_iff_eq] at h
      simp only [List.map_cons, inst, Good]
      exact ⟨fun _ => ⟨h.1, fun _ => rfl⟩, ih _ h.2⟩
    | hook k => simp only [goodAcc] at h; simpa [inst, Good] using ih _ h
    | lock2 k => simp only [goodAcc] at h; simpa [inst, Good] using ih _ h
    | unlock2 k => simp only [goodAcc] at h; simpa [inst, Good] using ih _ h

end Conc.C12

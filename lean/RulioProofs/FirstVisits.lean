import RulioModel.Loc

/-! # `firstVisits`: of the visits an ancestor walk makes, the first per location counts -/

/-- the kept visits with their labels -/
def firstVisitsT {β} : List (String × β) → List String → List (String × β)
  | [], _ => []
  | (m, b) :: rest, seen => if seen.contains m then firstVisitsT rest seen else (m, b) :: firstVisitsT rest (m :: seen)

theorem firstVisits_eq_map {β} (ls : List (String × β)) (seen : List String) :
    firstVisits ls seen = (firstVisitsT ls seen).map (·.2) := by
  induction ls generalizing seen with
  | nil => simp [firstVisits, firstVisitsT]
  | cons x rest ih =>
    obtain ⟨m, b⟩ := x
    simp only [firstVisits, firstVisitsT]
    split
    · exact ih seen
    · simp [ih]

/-- kept visits are visits, in the order of the walk -/
theorem firstVisitsT_sublist {β} (ls : List (String × β)) (seen : List String) :
    (firstVisitsT ls seen).Sublist ls := by
  induction ls generalizing seen with
  | nil => simp [firstVisitsT]
  | cons x rest ih =>
    obtain ⟨m, b⟩ := x
    simp only [firstVisitsT]
    split
    · exact (ih seen).cons _
    · exact (ih (m :: seen)).cons₂ _

/-- no kept visit is of a location already seen -/
theorem firstVisitsT_not_seen {β} (ls : List (String × β)) (seen : List String) :
    ∀ x ∈ firstVisitsT ls seen, x.1 ∉ seen := by
  induction ls generalizing seen with
  | nil => simp [firstVisitsT]
  | cons x rest ih =>
    obtain ⟨m, b⟩ := x
    simp only [firstVisitsT]
    split
    · exact ih seen
    · rename_i hc
      intro y hy
      rcases List.mem_cons.mp hy with rfl | hy
      · simpa using hc
      · intro hmem
        exact ih (m :: seen) y hy (List.mem_cons_of_mem _ hmem)

/-- **one visit per location**: the labels of the kept visits are pairwise distinct -/
theorem firstVisitsT_nodup {β} (ls : List (String × β)) (seen : List String) :
    ((firstVisitsT ls seen).map (·.1)).Nodup := by
  induction ls generalizing seen with
  | nil => simp [firstVisitsT]
  | cons x rest ih =>
    obtain ⟨m, b⟩ := x
    simp only [firstVisitsT]
    split
    · exact ih seen
    · simp only [List.map_cons, List.nodup_cons]
      refine ⟨?_, ih (m :: seen)⟩
      intro hm
      obtain ⟨y, hy, hym⟩ := List.mem_map.mp hm
      exact firstVisitsT_not_seen rest (m :: seen) y hy (by rw [hym]; exact List.mem_cons_self)

/-- **no location is lost**: every location the walk visited (and that was not seen before) has a kept visit -/
theorem firstVisitsT_covers {β} (ls : List (String × β)) (seen : List String) :
    ∀ x ∈ ls, x.1 ∉ seen → ∃ y ∈ firstVisitsT ls seen, y.1 = x.1 := by
  induction ls generalizing seen with
  | nil => intro x hx; cases hx
  | cons z rest ih =>
    obtain ⟨m, b⟩ := z
    intro x hx hns
    simp only [firstVisitsT]
    split
    · rename_i hc
      rcases List.mem_cons.mp hx with rfl | hx
      · exact absurd (by simpa using hc) hns
      · exact ih seen x hx hns
    · rcases List.mem_cons.mp hx with rfl | hx
      · exact ⟨(m, b), List.mem_cons_self, rfl⟩
      · by_cases hxm : x.1 = m
        · exact ⟨(m, b), List.mem_cons_self, hxm.symm⟩
        · obtain ⟨y, hy, hyx⟩ := ih (m :: seen) x hx (by
            intro h; rcases List.mem_cons.mp h with h | h
            · exact hxm h
            · exact hns h)
          exact ⟨y, List.mem_cons_of_mem _ hy, hyx⟩

/-- the kept visit of a location is its FIRST visit: a walk whose labels are already pairwise distinct is kept whole -/
theorem firstVisitsT_of_nodup {β} (ls : List (String × β)) (seen : List String)
    (hnd : (ls.map (·.1)).Nodup) (hdis : ∀ x ∈ ls, x.1 ∉ seen) : firstVisitsT ls seen = ls := by
  induction ls generalizing seen with
  | nil => simp [firstVisitsT]
  | cons z rest ih =>
    obtain ⟨m, b⟩ := z
    simp only [List.map_cons, List.nodup_cons] at hnd
    simp only [firstVisitsT]
    have hm : ¬ seen.contains m = true := by
      have := hdis (m, b) List.mem_cons_self
      simpa using this
    rw [if_neg hm]
    congr 1
    apply ih (m :: seen) hnd.2
    intro x hx hmem
    rcases List.mem_cons.mp hmem with h | h
    · exact hnd.1 (List.mem_map.mpr ⟨x, hx, h⟩)
    · exact hdis x (List.mem_cons_of_mem _ hx) h

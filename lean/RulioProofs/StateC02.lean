import RulioProofs.StateSearchSpec
import RulioProofs.StateC08

set_option linter.unusedSimpArgs false
set_option linter.unusedVariables false

/-! # C02 assembly: the public `search`, `get`, ids -/

/-! ## search with the corrected budget -/

theorem isearch_eq_ispec {s : St} {now : Int} (hne : NoneExpired s now) (p : Obj) {g : Nat} (hg : s.fuelOK ≤ g) :
    St.isearch g s p now = (s, s.ispec p) := by
  apply (isearch_spec hne p g).2
  simp only [St.fuelOK] at hg
  have : s.candsLen p ≤ s.facts.length + tiWidth s.ti := by
    simp only [St.candsLen]
    cases hc : s.cands p with
    | error e => simp
    | ok c => simp only; exact cands_length hc
  omega

theorem lsearch_eq_lspec {s : St} {now : Int} (hne : NoneExpired s now) (p : Obj) {g : Nat} (hg : s.fuelOK ≤ g) :
    St.lsearch g s p now = (s, s.lspec p) := by
  apply (lsearch_spec hne p g).2
  simp only [St.fuelOK] at hg
  omega

theorem lsearch_fuel_eq_lspec {s : St} {now : Int} (hne : NoneExpired s now) (p : Obj) :
    St.lsearch s.fuel s p now = (s, s.lspec p) := by
  apply (lsearch_spec hne p _).2
  simp only [St.fuel]
  omega

/-! ## get -/

theorem get_of_present {s : St} {id : String} {fact : Obj} {now : Int} (hg : amGet s.facts id = some fact)
    (hx : checkExpiration fact now = .ok false) : s.get id now = (s, .ok fact) := by
  simp only [St.get]
  cases s.kind <;> simp [St.iGet, St.lGet, hg, hx]

theorem get_of_absent {s : St} {id : String} {now : Int} (hg : amGet s.facts id = none) :
    s.get id now = (s, .error "notFound") := by
  simp only [St.get]
  cases s.kind <;> simp [St.iGet, St.lGet, hg]

theorem irem_gone {g : Nat} {s s' : St} {i : String} {now : Int} {b : Bool} (h : St.irem g s i now = (s', .ok b)) :
    amGet s'.facts i = none := by
  cases g with
  | zero => rw [St.irem_zero] at h; cases h
  | succ f =>
    rw [St.irem_succ] at h
    rw [amGet_none_iff]
    cases hg : amGet s.facts i with
    | some fact =>
      rw [hg] at h
      simp only at h
      cases hu : s.unindexOf i fact with
      | error e => rw [hu] at h; cases h
      | ok s1 =>
        rw [hu] at h
        simp only at h
        injection h with h1 h2
        have hle : StLe (s1.idel i fact) s' := h1 ▸ (iframe now f).2.1 _ i
        intro hk
        have := (hle.facts.map (·.1)).subset hk
        simp only [St.idel] at this
        rw [amErase_eq_filterOut] at this
        have := (mem_keysOf_filterOut.1 this).2
        simp at this
    | none =>
      rw [hg] at h
      simp only at h
      injection h with h1 h2
      have hle : StLe s s' := h1 ▸ (iframe now f).2.1 _ i
      intro hk
      exact amGet_none_iff.1 hg ((hle.facts.map (·.1)).subset hk)

theorem lrem_gone {g : Nat} {s s' : St} {i : String} {now : Int} {b : Bool} (h : St.lrem g s i now = (s', .ok b)) :
    amGet s'.facts i = none := by
  cases g with
  | zero => rw [St.lrem_zero] at h; cases h
  | succ f =>
    have hle : StLe (s.ldel i) s' := by
      rw [St.lrem_succ] at h
      split at h
      · injection h with h1 h2; rw [← h1]; exact StLe.refl _
      · split at h
        · cases h
        · injection h with h1 h2
          rw [← h1]
          exact ((lframe now f).2.2.1 _ _).trans ((lframe now f).2.1 _ _)
    rw [amGet_none_iff]
    intro hk
    exact not_mem_keys_ldel s i ((hle.facts.map (·.1)).subset hk)

/-! ## ids -/

theorem add_id_genId {s : St} {given : String} {x : Obj} {now : Int} {id : String}
    (h : (s.add given x now).2 = .ok id) : genId x given s.freshId = .ok id := by
  rcases add_shape s given x now with ⟨e, he, _⟩ | ⟨id', fact, hok, ha⟩
  · rw [he] at h; cases h
  · rw [hok] at h; injection h with h; subst h
    obtain ⟨m, x', hp, _⟩ := ha.prep
    exact prepareFact_genId hp

theorem freshId_not_stored {s : St} (h : FreshOK s) : amGet s.facts s.freshId = none := by
  rw [amGet_none_iff]
  intro hk
  obtain ⟨e, he, hke⟩ := List.mem_map.1 hk
  exact h e he s.fresh (Nat.le_refl _) hke

/-! ## the matcher-soundness hypothesis is satisfiable: the cascade pattern -/

theorem sPmA_nil (σ : Bs) (ds : List J) : pmA σ [] ds = true := by rw [pmA]

theorem sPmO_nil (σ : Bs) (dm rest : List (String × J)) : pmO σ [] dm rest = true := by rw [pmO.eq_def]

theorem pmPick_of_mem (σ : Bs) (x : J) : ∀ (post pre : List J) (d : J), d ∈ post → pmv σ x d = true →
    pmPick σ x [] pre post = true := by
  intro post
  induction post with
  | nil => intro pre d hd; simp at hd
  | cons e post ih =>
    intro pre d hd hp
    rw [sPmPick_cons]
    rcases List.mem_cons.1 hd with h | h
    · subst h; simp [hp, sPmA_nil]
    · simp [ih (pre ++ [e]) d h hp]

theorem matcherSound_depPat (id : String) (hid : isVar id = false) : MatcherSound (depPat id) := by
  intro f bss hm hne
  rw [matchesJ_depPat id hid f] at hm
  injection hm with hm
  have hdep : depOn f id = true := by
    cases h : depOn f id with
    | true => rfl
    | false => rw [h] at hm; simp at hm; exact absurd hm hne
  refine ⟨[], ?_⟩
  rw [deleteWithOf_contains] at hdep
  rw [sPmv_obj]
  simp only [depPat]
  rw [sPmO_cons_const _ _ _ _ _ _ isVar_deleteWith, sPmO_nil]
  cases hl : lookupKey "deleteWith" f with
  | none => rw [hl] at hdep; simp at hdep
  | some v =>
    rw [hl] at hdep
    cases v with
    | arr xs =>
      simp only [List.contains_iff_mem] at hdep
      simp only [Bool.and_true]
      rw [sPmv_arr]
      simp only
      rw [sPmA_cons]
      apply pmPick_of_mem _ _ _ _ (.str id) hdep
      rw [sPmv_str]
      have hne : id ≠ "?" := by rintro rfl; rw [isVar_anon_st] at hid; cases hid
      simp [pmStr, hne, hid]
    | _ => simp at hdep

theorem MatcherSound.on {p : Obj} (h : MatcherSound p) (F : List (String × Obj)) : MatcherSoundOn F p :=
  fun e _ bss hm hne => h e.2 bss hm hne

/-! ## helper statements behind the C02 property theorems -/

theorem specSearch_depPat_ok (F : List (String × Obj)) (id : String) (hid : isVar id = false) (now : Int) :
    ∃ R, specSearch F (depPat id) now = .ok R := by
  rw [specSearch_eq]
  generalize F.filter (fun f => unexpired f.2 now) = l
  have : ∃ pers, l.mapM (specStep (depPat id)) = .ok pers := by
    induction l with
    | nil => exact ⟨[], rfl⟩
    | cons e r ih =>
      obtain ⟨pers, hp⟩ := ih
      obtain ⟨i, f⟩ := e
      simp only [List.mapM_cons, specStep, matchesJ_depPat id hid f, bind, Except.bind, pure, Except.pure]
      rw [show r.mapM (specStep (depPat id)) = .ok pers from hp]
      exact ⟨_, rfl⟩
  obtain ⟨pers, hp⟩ := this
  rw [hp]; exact ⟨_, rfl⟩

theorem searchWith_linear {s : St} {now : Int} (hk : s.kind = .linear) (hwf : WF s) (hne : NoneExpired s now)
    (p : Obj) {g : Nat} (hg : s.fuelOK ≤ g) :
    ∃ r, s.searchWith g p now = (s, r) ∧ r.map projRes = specSearch s.facts p now := by
  refine ⟨s.lspec p, ?_, lspec_eq_spec hwf.keys hne p⟩
  simp only [St.searchWith, hk]
  exact lsearch_eq_lspec hne p hg

theorem search_linear_fuel {s : St} {now : Int} (hk : s.kind = .linear) (hwf : WF s) (hne : NoneExpired s now)
    (p : Obj) : ∃ r, s.search p now = (s, r) ∧ r.map projRes = specSearch s.facts p now := by
  refine ⟨s.lspec p, ?_, lspec_eq_spec hwf.keys hne p⟩
  simp only [St.search, hk]
  exact lsearch_fuel_eq_lspec hne p

theorem searchWith_indexed {s : St} {now : Int} (hk : s.kind = .indexed) (hwf : WF s) (hne : NoneExpired s now)
    {p : Obj} (hterm : TermOK p = true) (hsound : MatcherSoundOn s.facts p) {R : List (String × List Bs)}
    (hspec : specSearch s.facts p now = .ok R) {g : Nat} (hg : s.fuelOK ≤ g) :
    ∃ R', s.searchWith g p now = (s, .ok R') ∧ (projRes R').Perm R := by
  have hnv : noVarKeysO p = true := by
    simp only [TermOK, Bool.and_eq_true] at hterm; exact hterm.1
  obtain ⟨R', h1, h2⟩ := ispec_perm_spec hwf.keys (hwf.tiok hk) (hwf.tinodup hk) hne hnv hsound hspec
  refine ⟨R', ?_, h2⟩
  simp only [St.searchWith, hk]
  rw [isearch_eq_ispec hne p hg, h1]

theorem searchWith_indexed_err {s : St} {now : Int} (hk : s.kind = .indexed) (hwf : WF s) (hne : NoneExpired s now)
    {p : Obj} (hterm : TermOK p = true) (hsound : MatcherSoundOn s.facts p) {g : Nat} (hg : s.fuelOK ≤ g)
    {e : LErr} (herr : (s.searchWith g p now).2 = .error e) : ∃ e', specSearch s.facts p now = .error e' := by
  cases hspec : specSearch s.facts p now with
  | error e' => exact ⟨e', rfl⟩
  | ok R =>
    obtain ⟨R', h1, _⟩ := searchWith_indexed hk hwf hne hterm hsound hspec hg
    rw [h1] at herr; cases herr

theorem remWith_gone {g : Nat} {s s' : St} {i : String} {now : Int} {b : Bool}
    (h : s.remWith g i now = (s', .ok b)) : amGet s'.facts i = none := by
  simp only [St.remWith] at h
  cases hk : s.kind with
  | indexed => rw [hk] at h; exact irem_gone h
  | linear => rw [hk] at h; exact lrem_gone h

theorem rem_gone {s s' : St} {i : String} {now : Int} {b : Bool}
    (h : s.rem i now = (s', .ok b)) : amGet s'.facts i = none :=
  remWith_gone (g := s.fuel) h

import RulioProofs.ReloadPrepare

open AM

set_option linter.unusedSimpArgs false
set_option linter.unusedVariables false

/-! # Reload of the indexed state: re-adding canonical stored documents reproduces the unexpired facts -/

theorem expired_iff_not_unexpired (f : Obj) (now : Int) :
    ((expOf f).1 && notAfter (expOf f).2 now) = !unexpired f now := by
  unfold expOf unexpired checkExpiration
  cases h : f.get? "expires" with
  | none => simp
  | some v =>
    cases v with
    | num n => cases hn : notAfter n now <;> simp [hn]
    | _ => simp

/-- **prepare_idempotent**: preparing a canonical fact again under its own id, at any later time, either
reports it expired (exactly when it is) or returns the same id and the same fact -/
theorem prepare_canon {id : String} {f : Obj} (hc : CanonFact id f) (fresh : String) (now : Int) :
    (unexpired f now = false ∧ prepareFact id fresh f now = .error "expired") ∨
    (unexpired f now = true ∧ ∃ x', prepareFact id fresh f now = .ok (id, f, x')) := by
  have he := expired_iff_not_unexpired f now
  unfold prepareFact
  simp only [bind, Except.bind, pure, Except.pure, hc.genId fresh, hc.setExp now]
  cases hu : unexpired f now with
  | false =>
    left
    rw [hu] at he
    simp only [Bool.not_false] at he
    refine ⟨rfl, ?_⟩
    rw [he]; rfl
  | true =>
    right
    rw [hu] at he
    simp only [Bool.not_true] at he
    refine ⟨rfl, ?_⟩
    rw [he]
    exact ⟨_, rfl⟩

theorem unindexPrevious_absent {s : St} {id : String} (h : amGet s.facts id = none) :
    s.unindexPrevious id = .ok (s, none) := by
  unfold St.unindexPrevious; rw [h]

theorem amSet_absent {α} (m : List (String × α)) {k : String} (v : α) (h : amGet m k = none) :
    amSet m k v = m ++ [(k, v)] := by
  unfold amSet
  have : (m.any (fun p => p.1 == k)) = false := by
    have := amHas_eq m k; unfold amHas at this; rw [this, h]; rfl
  rw [this]; simp

/-- re-adding a canonical, indexable fact whose id is not yet in memory -/
theorem iadd_canon {s : St} {id : String} {f : Obj} (hc : CanonFact id f) (hi : IndexableFact id f)
    (habs : amGet s.facts id = none) (now : Int) :
    (unexpired f now = false ∧ s.iadd id f now = (s, .error "expired")) ∨
    (unexpired f now = true ∧ ∃ s1 x', s.iadd id f now = (s1, .ok (id, x')) ∧
      s1.facts = s.facts ++ [(id, f)] ∧ s1.store = s.store ∧ s1.kind = s.kind) := by
  rcases prepare_canon hc s.freshId now with ⟨hu, hp⟩ | ⟨hu, x', hp⟩
  · left
    refine ⟨hu, ?_⟩
    rw [St.iadd_eq, hp]
  · right
    refine ⟨hu, ?_⟩
    obtain ⟨r, hr⟩ := hc.extract
    have hfr := iaddFresh_same s id id
    have habs' : amGet (iaddFresh s id id).facts id = none := by rw [hfr.1]; exact habs
    rw [St.iadd_eq, hp]
    simp only [hr, unindexPrevious_absent habs']
    have hidx : (iaddIndex (iaddFresh s id id) id r none).2 = none := by
      unfold iaddIndex
      cases r with
      | none => rfl
      | some rb =>
        simp only []
        cases hs : Obj.has rb "schedule" with
        | true => simp
        | false =>
          simp only [Bool.false_eq_true, if_false]
          have := hi rb hr hs (iaddFresh s id id)
          cases hx : (iaddFresh s id id).indexRule id rb with
          | mk s1 e =>
            rw [hx] at this; simp only at this; subst this
            rfl
    obtain ⟨ri, hri⟩ := iaddIndex_ri (iaddFresh s id id) id r none
    cases hx : iaddIndex (iaddFresh s id id) id r none with
    | mk s3 err =>
      rw [hx] at hidx hri
      simp only at hidx hri
      subst hidx
      subst hri
      simp only []
      refine ⟨_, x', rfl, ?_, hfr.2.1, hfr.2.2⟩
      show amSet (iaddFresh s id id).facts id f = s.facts ++ [(id, f)]
      rw [hfr.1]
      exact amSet_absent _ _ habs

theorem iLoad_go_spec (now : Int) (facts : List (String × Obj)) : ∀ (s : St),
    (∀ p ∈ facts, CanonFact p.1 p.2) → (∀ p ∈ facts, IndexableFact p.1 p.2) → (facts.map (·.1)).Nodup →
    (∀ p ∈ facts, amGet s.facts p.1 = none) →
    ∃ t, St.iLoad.go now s (facts.map (fun p => (p.1, J.obj p.2))) = .ok t ∧
      t.facts = s.facts ++ facts.filter (fun p => unexpired p.2 now) ∧ t.kind = s.kind := by
  induction facts with
  | nil => intro s _ _ _ _; exact ⟨s, rfl, by simp, rfl⟩
  | cons p rest ih =>
    intro s hc hi hnd hdisj
    obtain ⟨id, f⟩ := p
    simp only [List.map_cons, List.nodup_cons] at hnd
    have hc' : ∀ q ∈ rest, CanonFact q.1 q.2 := fun q hq => hc q (by simp [hq])
    have hi' : ∀ q ∈ rest, IndexableFact q.1 q.2 := fun q hq => hi q (by simp [hq])
    simp only [List.map_cons]
    rw [St.iLoad.go.eq_2]
    rcases iadd_canon (hc (id, f) (by simp)) (hi (id, f) (by simp)) (hdisj (id, f) (by simp)) now with
      ⟨hu, hadd⟩ | ⟨hu, s1, x', hadd, hf1, _, hk1⟩
    · rw [hadd]
      simp only []
      obtain ⟨t, ht, hft, hkt⟩ := ih { kind := s.kind, facts := s.facts, store := amErase s.store id, ri := s.ri, ti := s.ti, fresh := s.fresh } hc' hi' hnd.2
        (fun q hq => hdisj q (by simp [hq]))
      refine ⟨t, ht, ?_, hkt⟩
      rw [hft]
      simp [List.filter_cons, hu]
    · rw [hadd]
      simp only []
      obtain ⟨t, ht, hft, hkt⟩ := ih s1 hc' hi' hnd.2 (by
        intro q hq
        rw [hf1, amGet_append_single, hdisj q (by simp [hq])]
        have : q.1 ≠ id := by
          intro h; apply hnd.1; rw [← h]; exact List.mem_map.2 ⟨q, hq, rfl⟩
        simp [this])
      refine ⟨t, ht, ?_, hkt.trans hk1⟩
      rw [hft, hf1]
      simp [List.filter_cons, hu]

/-- **reload_facts_indexed**: for a state whose storage is the list image of its facts, whose facts are
canonical, indexable and have unique ids, the indexed `Load` succeeds and its facts are exactly the unexpired
facts of the live state, in the same order -/
theorem iLoad_spec {s : St} (he : StoreEq s) (hc : AllCanon s) (hi : AllIndexable s)
    (hnd : (s.facts.map (·.1)).Nodup) (now : Int) :
    ∃ t, St.iLoad s.store now = .ok t ∧ t.kind = .indexed ∧
      t.facts = s.facts.filter (fun p => unexpired p.2 now) := by
  unfold St.iLoad
  have := iLoad_go_spec now s.facts { kind := .indexed, store := s.store } hc hi hnd (fun _ _ => rfl)
  rw [← he] at this
  obtain ⟨t, ht, hft, hkt⟩ := this
  exact ⟨t, ht, hkt, by simpa using hft⟩

/-! ## stored rules are indexable: whether a pattern can be indexed does not depend on the index -/

theorem PI.mod_err_indep_r (fuel : Nat) : ∀ (idx idx' : PI) (pairs : List (String × J)) (id : String) (add : Bool),
    (PI.mod fuel idx pairs id add).2 = (PI.mod fuel idx' pairs id add).2 := by
  induction fuel with
  | zero => intro idx idx' pairs id add; simp [PI.mod]
  | succ fuel ih =>
    intro idx idx' pairs id add
    cases pairs with
    | nil => simp [PI.mod]
    | cons p rest =>
      obtain ⟨k, v⟩ := p
      simp only [PI.mod]
      cases hc : picast v with
      | s x => simp only []; exact ih _ _ _ _ _
      | v => simp only []; exact ih _ _ _ _ _
      | m kvs => simp only []; exact ih _ _ _ _ _
      | a xs =>
        simp only []
        cases hs : sortValues xs with
        | error e => rfl
        | ok sorted => simp only []; exact ih _ _ _ _ _

theorem indexRule_err_indep (s s' : St) (id : String) (r : Obj) : (s.indexRule id r).2 = (s'.indexRule id r).2 := by
  unfold St.indexRule
  cases getRulePattern r with
  | error e => rfl
  | ok po =>
    cases po with
    | none => rfl
    | some pat =>
      simp only [piAdd]
      rw [PI.mod_err_indep_r _ s.ri s'.ri]

theorem mem_amSet_r {α} {m : List (String × α)} {k : String} {v : α} {p : String × α} (h : p ∈ amSet m k v) :
    p = (k, v) ∨ p ∈ m := by
  unfold amSet at h
  split at h
  · obtain ⟨q, hq, hqp⟩ := List.mem_map.1 h
    by_cases hk : q.1 = k
    · simp [hk] at hqp; exact .inl hqp.symm
    · simp [hk] at hqp; rw [← hqp]; exact .inr hq
  · rcases List.mem_append.1 h with h | h
    · exact .inr h
    · simp at h; exact .inl h

theorem freshId_ne (s : St) : s.freshId ≠ "" := by
  unfold St.freshId
  intro h
  have := congrArg String.length h
  simp [String.length_append] at this

/-- a successful indexed `add` stores a fact whose rule can be re-indexed in any state -/
theorem St.iadd_ok_indexable {s : St} {given : String} {x : Obj} {now : Int} {s1 : St} {id : String} {x' m : Obj}
    (h : s.iadd given x now = (s1, .ok (id, x'))) (hp : prepareFact given s.freshId x now = .ok (id, m, x')) :
    IndexableFact id m := by
  obtain ⟨hform, hcanon⟩ := canon_of_prepare hp (freshId_ne s)
  rw [St.iadd_eq, hp] at h
  simp only at h
  intro r hr hs s'
  rw [hr] at h
  simp only at h
  cases hu : (iaddFresh s given id).unindexPrevious id with
  | error e => rw [hu] at h; cases h
  | ok q2 =>
    obtain ⟨s2, replaced⟩ := q2
    rw [hu] at h; simp only at h
    cases hi : iaddIndex s2 id (some r) replaced with
    | mk s3 err =>
      rw [hi] at h; simp only at h
      cases err with
      | some e => cases h
      | none =>
        unfold iaddIndex at hi
        simp only [hs, Bool.false_eq_true, if_false] at hi
        rw [indexRule_err_indep s' s2]
        cases hx : s2.indexRule id r with
        | mk s4 e4 =>
          rw [hx] at hi
          cases e4 with
          | none => rfl
          | some e =>
            simp only at hi
            cases replaced with
            | none => cases hi
            | some old =>
              simp only at hi
              split at hi <;> cases hi

/-! ## the invariant of indexed histories -/

structure IdxInv (s : St) : Prop where
  kind : s.kind = .indexed
  storeEq : StoreEq s
  canon : AllCanon s
  indexable : AllIndexable s
  nodup : (s.facts.map (·.1)).Nodup

theorem IdxInv.of_shrinks {s s' : St} (h : IdxInv s) (hs : Shrinks s s') (he : StoreEq s') : IdxInv s' :=
  ⟨hs.1.trans h.kind, he, fun p hp => h.canon p (hs.2.2.1.subset hp), fun p hp => h.indexable p (hs.2.2.1.subset hp),
   (hs.2.2.1.map _).nodup h.nodup⟩

theorem IdxInv.add {s : St} (h : IdxInv s) (given : String) (x : Obj) (now : Int) : IdxInv (s.add given x now).1 := by
  have hse := St.add_storeEq h.storeEq given x now
  cases hh : s.add given x now with
  | mk s1 r =>
    rw [hh] at hse
    have sp := St.add_spec hh
    cases r with
    | error e =>
      obtain ⟨hf, _, hk⟩ := sp
      exact ⟨hk.trans h.kind, hse, by intro p hp; rw [hf] at hp; exact h.canon p hp,
        by intro p hp; rw [hf] at hp; exact h.indexable p hp, by rw [hf]; exact h.nodup⟩
    | ok id =>
      obtain ⟨m, x', hp, hf, _, hk⟩ := sp
      obtain ⟨hform, hcanon⟩ := canon_of_prepare hp (freshId_ne s)
      have hmem : memForm s.kind m = m := by rw [h.kind]; exact hform
      rw [hmem] at hf
      have hidx : IndexableFact id m := by
        unfold St.add at hh
        rw [h.kind] at hh
        simp only [St.iAdd] at hh
        cases hi : s.iadd given x now with
        | mk s0 r0 =>
          rw [hi] at hh
          cases r0 with
          | error e => cases hh
          | ok q =>
            obtain ⟨id', x''⟩ := q
            simp only at hh
            have hid : id' = id := by injection hh with _ h2; injection h2
            subst hid
            have sp0 := St.iadd_spec hi
            obtain ⟨m0, hp0, _⟩ := sp0
            rw [hp] at hp0
            have : x' = x'' := by injection hp0 with h1; injection h1 with _ h2; injection h2 with _ h3
            subst this
            exact St.iadd_ok_indexable hi hp
      refine ⟨hk.trans h.kind, hse, ?_, ?_, ?_⟩
      · intro p hp'
        rw [hf] at hp'
        rcases mem_amSet_r hp' with rfl | hm
        · exact hcanon
        · exact h.canon p hm
      · intro p hp'
        rw [hf] at hp'
        rcases mem_amSet_r hp' with rfl | hm
        · exact hidx
        · exact h.indexable p hm
      · rw [hf]; exact amKeys_amSet_nodup _ _ _ h.nodup

theorem IdxInv.empty : IdxInv (St.empty .indexed) :=
  ⟨rfl, rfl, fun _ hp => (by cases hp), fun _ hp => (by cases hp), List.nodup_nil⟩

theorem IdxInv.stepOp {s : St} (h : IdxInv s) (op : ROp) : IdxInv (s.stepOp op).1 := by
  have hse := St.stepOp_storeEq h.storeEq op
  cases op with
  | add g x now => exact h.add g x now
  | rem id now => exact h.of_shrinks (St.rem_shrinks s id now) hse
  | get id now => exact h.of_shrinks (St.get_shrinks s id now) hse
  | search p now => exact h.of_shrinks (St.search_shrinks s p now) hse
  | findRules ev now => exact h.of_shrinks (St.findRules_shrinks s ev now) hse
  | clear => exact ⟨h.kind, rfl, fun _ hp => (by cases hp), fun _ hp => (by cases hp), List.nodup_nil⟩

theorem IdxInv.runOps (ops : List ROp) : ∀ {s : St}, IdxInv s → IdxInv (s.runOps ops) := by
  induction ops with
  | nil => intro s h; exact h
  | cons op rest ih => intro s h; exact ih (h.stepOp op)

import RulioProofs.SysBasic

open AM

set_option linter.unusedSimpArgs false
set_option linter.unusedVariables false

/-! # The ancestor walk `doAncestors`: unfolding, invariants, fuel -/

theorem loop_eq_walkList {α} (n : String) (now : Int) (fn : String → LM α) (path : List String) (fuel : Nat)
    (ps : List String) : ∀ (fuel' : Nat) (sys : Sys) (acc : List α), ps.length + 1 ≤ fuel' →
    doAncestors.loop n now fn path fuel fuel' sys ps acc =
      walkList (fun s p a => doAncestors fuel s p now fn a (n :: path)) n sys ps acc := by
  induction ps with
  | nil =>
    intro fuel' sys acc h
    obtain ⟨f, rfl⟩ : ∃ f, fuel' = f + 1 := ⟨fuel' - 1, by omega⟩
    rw [doAncestors.loop.eq_2, walkList]
  | cons p rest ih =>
    intro fuel' sys acc h
    obtain ⟨f, rfl⟩ : ∃ f, fuel' = f + 1 := ⟨fuel' - 1, by omega⟩
    rw [doAncestors.loop.eq_3, walkList]
    by_cases hpn : (p == n) = true
    · simp only [hpn, if_true]
    · simp only [hpn, if_false, Bool.false_eq_true]
      cases hg : sys.get? p with
      | none => rfl
      | some l =>
        simp only []
        cases hd : doAncestors fuel sys p now fn acc (n :: path) with
        | mk s2 r =>
          cases r with
          | error e => rfl
          | ok a2 =>
            simp only []
            apply ih
            simp at h; omega

theorem loop_eq_walkList0 {α} (n : String) (now : Int) (fn : String → LM α) (path : List String) (fuel : Nat)
    (ps : List String) (sys : Sys) (acc : List α) :
    doAncestors.loop n now fn path fuel (ps.length + 1) sys ps acc =
      walkList (fun s p a => doAncestors fuel s p now fn a (n :: path)) n sys ps acc :=
  loop_eq_walkList n now fn path fuel ps _ sys acc (Nat.le_refl _)

/-- one level of `DoAncestors`, with the parent loop in list-recursive form -/
theorem doAncestors_succ {α} (fuel : Nat) (sys : Sys) (n : String) (now : Int) (fn : String → LM α)
    (acc : List α) (path : List String) :
    doAncestors (fuel + 1) sys n now fn acc path =
      if path.contains n then (sys, .error "loop") else
      match sys.at n (locGetParentsRaw now) with
      | (sys1, .error e) => (sys1, .error e)
      | (sys1, .ok parents) =>
        if noProv sys1 n parents then (sys1, .error "noProvider") else
        match walkList (fun s p a => doAncestors fuel s p now fn a (n :: path)) n sys1 parents acc with
        | (sys2, .error e) => (sys2, .error e)
        | (sys2, .ok acc2) =>
          match sys2.at n (fn n) with
          | (sys3, .error e) => (sys3, .error e)
          | (sys3, .ok a) => (sys3, .ok (acc2 ++ [a])) := by
  rw [doAncestors.eq_2]
  simp only [loop_eq_walkList0, noProv]
  rfl

/-! ## generic invariants -/

theorem walkList_inv {α} (I : Sys → Prop) {step : Sys → String → List α → Sys × Except LErr (List α)} {n : String}
    (hstep : ∀ s p a, I s → I (step s p a).1) (ps : List String) :
    ∀ (sys : Sys) (acc : List α), I sys → I (walkList step n sys ps acc).1 := by
  induction ps with
  | nil => intro sys acc h; simpa [walkList] using h
  | cons p rest ih =>
    intro sys acc h
    rw [walkList]
    by_cases hpn : (p == n) = true
    · simp only [hpn, if_true]; exact h
    · simp only [hpn, if_false, Bool.false_eq_true]
      cases hg : sys.get? p with
      | none => exact h
      | some l =>
        have h2 := hstep sys p acc h
        cases hd : step sys p acc with
        | mk s2 r =>
          rw [hd] at h2
          cases r with
          | error e => exact h2
          | ok a2 => exact ih _ _ h2

/-- any property of systems preserved by the two kinds of single-location steps the walk makes
is preserved by the whole walk -/
theorem doAncestors_inv {α} (I : Sys → Prop) {now : Int} {fn : String → LM α}
    (hget : ∀ s n, I s → I (s.at n (locGetParentsRaw now)).1)
    (hfn : ∀ s n, I s → I (s.at n (fn n)).1) (fuel : Nat) :
    ∀ (sys : Sys) (n : String) (acc : List α) (path : List String), I sys →
      I (doAncestors fuel sys n now fn acc path).1 := by
  induction fuel with
  | zero => intro sys n acc path h; simpa [doAncestors] using h
  | succ fuel ih =>
    intro sys n acc path h
    rw [doAncestors_succ]
    by_cases hc : path.contains n = true
    · simp only [hc, if_true]; exact h
    · simp only [hc, if_false, Bool.false_eq_true]
      have h1 := hget sys n h
      cases heq : sys.at n (locGetParentsRaw now) with
      | mk sys1 r =>
        rw [heq] at h1
        cases r with
        | error e => exact h1
        | ok parents =>
          simp only []
          cases hnp : noProv sys1 n parents with
          | true => exact h1
          | false =>
            simp only [Bool.false_eq_true, if_false]
            have h2 := walkList_inv I (step := fun s p a => doAncestors fuel s p now fn a (n :: path)) (n := n)
              (fun s p a hs => ih s p a (n :: path) hs) parents sys1 acc h1
            cases hw : walkList (fun s p a => doAncestors fuel s p now fn a (n :: path)) n sys1 parents acc with
            | mk sys2 r2 =>
              rw [hw] at h2
              cases r2 with
              | error e => exact h2
              | ok acc2 =>
                simp only []
                have h3 := hfn sys2 n h2
                cases hf : sys2.at n (fn n) with
                | mk sys3 r3 =>
                  rw [hf] at h3
                  cases r3 with
                  | error e => exact h3
                  | ok a => exact h3

/-- the walk keeps the system a finite map over the same names -/
theorem doAncestors_wf_keys {α} {now : Int} {fn : String → LM α} (hfn : ∀ n, (fn n).KeepsName)
    (fuel : Nat) (sys : Sys) (n : String) (acc : List α) (path : List String) (wf : SysWF sys) :
    SysWF (doAncestors fuel sys n now fn acc path).1 ∧
      (doAncestors fuel sys n now fn acc path).1.keys = sys.keys := by
  apply doAncestors_inv (fun s => SysWF s ∧ s.keys = sys.keys)
  · intro s m ⟨w, k⟩
    exact ⟨Sys.at_wf w _ _, (Sys.at_keys w m (locGetParentsRaw_keeps now).keepsName).trans k⟩
  · intro s m ⟨w, k⟩
    exact ⟨Sys.at_wf w _ _, (Sys.at_keys w m (hfn m)).trans k⟩
  · exact ⟨wf, rfl⟩

/-! ## fuel -/

theorem PathOK.length_le {sys : Sys} {path : List String} (h : PathOK sys path) : path.length ≤ sys.length := by
  rw [Sys.length_eq_keys]; exact nodup_subset_length_le h.1 h.2

theorem walkList_congr_step {α} {step1 step2 : Sys → String → List α → Sys × Except LErr (List α)} {n : String}
    (I : Sys → Prop) (h1 : ∀ s p a, I s → I (step1 s p a).1)
    (heq : ∀ s p a, I s → step1 s p a = step2 s p a) (ps : List String) :
    ∀ (sys : Sys) (acc : List α), I sys → walkList step1 n sys ps acc = walkList step2 n sys ps acc := by
  induction ps with
  | nil => intro sys acc h; simp [walkList]
  | cons p rest ih =>
    intro sys acc h
    rw [walkList, walkList]
    by_cases hpn : (p == n) = true
    · simp only [hpn, if_true]
    · simp only [hpn, if_false, Bool.false_eq_true]
      cases hg : sys.get? p with
      | none => rfl
      | some l =>
        simp only []
        rw [← heq sys p acc h]
        have h2 := h1 sys p acc h
        cases hd : step1 sys p acc with
        | mk s2 r =>
          rw [hd] at h2
          cases r with
          | error e => rfl
          | ok a2 => exact ih _ _ h2

/-- **fuel independence**: once `fuel + path.length > sys.length`, more fuel changes nothing -/
theorem doAncestors_fuel_indep {α} {now : Int} {fn : String → LM α} (hfn : ∀ n, (fn n).KeepsName)
    (fuel : Nat) : ∀ (sys : Sys) (n : String) (acc : List α) (path : List String),
      SysWF sys → PathOK sys path → sys.length + 1 ≤ fuel + path.length →
      ∀ fuel', fuel ≤ fuel' →
        doAncestors fuel' sys n now fn acc path = doAncestors fuel sys n now fn acc path := by
  induction fuel with
  | zero =>
    intro sys n acc path wf hp hb
    have := hp.length_le; omega
  | succ fuel ih =>
    intro sys n acc path wf hp hb fuel' hle
    obtain ⟨f', rfl⟩ : ∃ f', fuel' = f' + 1 := ⟨fuel' - 1, by omega⟩
    rw [doAncestors_succ, doAncestors_succ]
    by_cases hnotin : path.contains n = true
    · simp only [hnotin, if_true]
    · simp only [hnotin, if_false, Bool.false_eq_true]
      have hk1 := Sys.at_keys wf n (locGetParentsRaw_keeps now).keepsName
      have hw1 := Sys.at_wf wf n (locGetParentsRaw now)
      cases heq : sys.at n (locGetParentsRaw now) with
      | mk sys1 r =>
      cases r with
      | error e => rfl
      | ok parents =>
        rw [heq] at hk1 hw1
        simp only at hk1 hw1
        obtain ⟨l, hl⟩ := Sys.at_ok_get? heq
        have hn : n ∈ sys.keys := Sys.mem_keys_of_get? hl
        have hp' : PathOK sys1 (n :: path) := by
          constructor
          · refine List.nodup_cons.2 ⟨?_, hp.1⟩
            intro hmem; apply hnotin; simpa using hmem
          · intro p hpm
            rw [hk1]
            rcases List.mem_cons.1 hpm with h | h
            · rw [h]; exact hn
            · exact hp.2 p h
        have hlen : sys1.length = sys.length := by
          rw [Sys.length_eq_keys, Sys.length_eq_keys, hk1]
        have hwl : walkList (fun s p a => doAncestors f' s p now fn a (n :: path)) n sys1 parents acc =
            walkList (fun s p a => doAncestors fuel s p now fn a (n :: path)) n sys1 parents acc := by
          apply walkList_congr_step (fun s => SysWF s ∧ s.keys = sys1.keys)
          · intro s p a ⟨w, k⟩
            have := doAncestors_wf_keys (now := now) hfn f' s p a (n :: path) w
            exact ⟨this.1, this.2.trans k⟩
          · intro s p a ⟨w, k⟩
            apply ih s p a (n :: path) w
            · exact ⟨hp'.1, by intro q hq; rw [k]; exact hp'.2 q hq⟩
            · have : s.length = sys.length := by
                rw [Sys.length_eq_keys, Sys.length_eq_keys, k, hk1]
              simp; omega
            · omega
          · exact ⟨hw1, rfl⟩
        simp only [hwl]

/-! ## the `diverge` branch is never taken -/

theorem Sys.at_err {α} {sys : Sys} {n : String} {m : LM α} {e : LErr} (h : (sys.at n m).2 = .error e) :
    e = "notFound" ∨ ∃ l, (m l).2 = .error e := by
  cases hg : sys.get? n with
  | none => rw [Sys.at_none m hg] at h; injection h with h; exact .inl h.symm
  | some l => rw [Sys.at_some m hg] at h; exact .inr ⟨l, h⟩

theorem walkList_no_diverge {α} {step : Sys → String → List α → Sys × Except LErr (List α)} {n : String}
    (I : Sys → Prop) (h1 : ∀ s p a, I s → I (step s p a).1)
    (hnd : ∀ s p a, I s → (step s p a).2 ≠ .error "diverge") (ps : List String) :
    ∀ (sys : Sys) (acc : List α), I sys → (walkList step n sys ps acc).2 ≠ .error "diverge" := by
  induction ps with
  | nil => intro sys acc h; simp [walkList]
  | cons p rest ih =>
    intro sys acc h
    rw [walkList]
    by_cases hpn : (p == n) = true
    · simp only [hpn, if_true]; intro hc; injection hc with hc; exact absurd hc (by decide)
    · simp only [hpn, if_false, Bool.false_eq_true]
      cases hg : sys.get? p with
      | none => intro hc; injection hc with hc; exact absurd hc (by decide)
      | some l =>
        simp only []
        have h2 := h1 sys p acc h
        have h3 := hnd sys p acc h
        cases hd : step sys p acc with
        | mk s2 r =>
          rw [hd] at h2 h3
          cases r with
          | error e => exact h3
          | ok a2 => exact ih _ _ h2

/-- with enough fuel the walk never answers `diverge` (unless `fn` or the parent read themselves do) -/
theorem doAncestors_no_diverge {α} {now : Int} {fn : String → LM α} (hfn : ∀ n, (fn n).KeepsName)
    (hfnd : ∀ m l, (fn m l).2 ≠ .error "diverge") (hrd : ∀ l, (locGetParentsRaw now l).2 ≠ .error "diverge")
    (fuel : Nat) : ∀ (sys : Sys) (n : String) (acc : List α) (path : List String),
      SysWF sys → PathOK sys path → sys.length + 1 ≤ fuel + path.length →
        (doAncestors fuel sys n now fn acc path).2 ≠ .error "diverge" := by
  induction fuel with
  | zero =>
    intro sys n acc path wf hp hb
    have := hp.length_le; omega
  | succ fuel ih =>
    intro sys n acc path wf hp hb
    rw [doAncestors_succ]
    by_cases hnotin : path.contains n = true
    · simp only [hnotin, if_true]; intro hc; injection hc with hc; exact absurd hc (by decide)
    · simp only [hnotin, if_false, Bool.false_eq_true]
      have hk1 := Sys.at_keys wf n (locGetParentsRaw_keeps now).keepsName
      have hw1 := Sys.at_wf wf n (locGetParentsRaw now)
      cases heq : sys.at n (locGetParentsRaw now) with
      | mk sys1 r =>
      cases r with
      | error e =>
        simp only []
        intro hc; injection hc with hc; subst hc
        have : (sys.at n (locGetParentsRaw now)).2 = .error "diverge" := by rw [heq]
        rcases Sys.at_err this with h | ⟨l, h⟩
        · exact absurd h (by decide)
        · exact hrd l h
      | ok parents =>
        rw [heq] at hk1 hw1
        simp only at hk1 hw1
        obtain ⟨l, hl⟩ := Sys.at_ok_get? heq
        have hn : n ∈ sys.keys := Sys.mem_keys_of_get? hl
        have hp' : PathOK sys1 (n :: path) := by
          constructor
          · refine List.nodup_cons.2 ⟨?_, hp.1⟩
            intro hmem; apply hnotin; simpa using hmem
          · intro p hpm
            rw [hk1]
            rcases List.mem_cons.1 hpm with h | h
            · rw [h]; exact hn
            · exact hp.2 p h
        simp only []
        cases hnp : noProv sys1 n parents with
        | true => simp only [if_true]; intro hc; injection hc with hc; exact absurd hc (by decide)
        | false =>
          simp only [Bool.false_eq_true, if_false]
          have hI : ∀ s p a, (SysWF s ∧ s.keys = sys1.keys) →
              (SysWF (doAncestors fuel s p now fn a (n :: path)).1 ∧
                (doAncestors fuel s p now fn a (n :: path)).1.keys = sys1.keys) := by
            intro s p a ⟨w, k⟩
            have := doAncestors_wf_keys (now := now) hfn fuel s p a (n :: path) w
            exact ⟨this.1, this.2.trans k⟩
          have hwl := walkList_no_diverge (step := fun s p a => doAncestors fuel s p now fn a (n :: path)) (n := n)
            (fun s => SysWF s ∧ s.keys = sys1.keys) hI
            (by
              intro s p a ⟨w, k⟩
              apply ih s p a (n :: path) w
              · exact ⟨hp'.1, by intro q hq; rw [k]; exact hp'.2 q hq⟩
              · have : s.length = sys.length := by
                  rw [Sys.length_eq_keys, Sys.length_eq_keys, k, hk1]
                simp; omega)
            parents sys1 acc ⟨hw1, rfl⟩
          cases hw : walkList (fun s p a => doAncestors fuel s p now fn a (n :: path)) n sys1 parents acc with
          | mk sys2 r2 =>
            rw [hw] at hwl
            cases r2 with
            | error e => exact hwl
            | ok acc2 =>
              simp only []
              cases hf : sys2.at n (fn n) with
              | mk sys3 r3 =>
                cases r3 with
                | ok a => simp
                | error e =>
                  simp only []
                  intro hc; injection hc with hc; subst hc
                  have : (sys2.at n (fn n)).2 = .error "diverge" := by rw [hf]
                  rcases Sys.at_err this with h | ⟨l, h⟩
                  · exact absurd h (by decide)
                  · exact hfnd n l h

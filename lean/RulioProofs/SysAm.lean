import RulioModel.Loc

set_option linter.unusedSimpArgs false
set_option linter.unusedVariables false

namespace AM

/-! # Association-list finite maps (`amGet`/`amSet`/`amErase`): lookup laws, keys, key-uniqueness -/

def amKeys {α} (m : List (String × α)) : List String := m.map (·.1)

theorem amGet_eq_none_iff {α} (m : List (String × α)) (k : String) :
    amGet m k = none ↔ k ∉ amKeys m := by
  induction m with
  | nil => simp [amGet, amKeys]
  | cons p r ih =>
    obtain ⟨k', v⟩ := p
    by_cases h : k = k'
    · subst h; simp [amGet, amKeys]
    · simp [amGet, amKeys, h] at ih ⊢
      exact ih

theorem amGet_isSome_iff {α} (m : List (String × α)) (k : String) :
    (amGet m k).isSome ↔ k ∈ amKeys m := by
  have := amGet_eq_none_iff m k
  cases h : amGet m k with
  | none => simp [h] at this ⊢; exact this
  | some v => simp [h] at this ⊢; exact this

theorem amGet_mem {α} {m : List (String × α)} {k : String} {v : α} (h : amGet m k = some v) : (k, v) ∈ m := by
  induction m with
  | nil => simp [amGet] at h
  | cons p r ih =>
    obtain ⟨k', v'⟩ := p
    by_cases hk : k = k'
    · subst hk; simp [amGet] at h; subst h; simp
    · simp [amGet, hk] at h; exact List.mem_cons_of_mem _ (ih h)

theorem amHas_eq {α} (m : List (String × α)) (k : String) : amHas m k = (amGet m k).isSome := by
  induction m with
  | nil => simp [amHas, amGet]
  | cons p r ih =>
    obtain ⟨k', v'⟩ := p
    by_cases hk : k = k'
    · subst hk; simp [amHas, amGet]
    · have hk' : ¬ k' = k := fun h => hk h.symm
      have hb : (k' == k) = false := by simp [hk']
      simp [amHas, amGet, hk, hb] at ih ⊢; exact ih

theorem amGet_map_replace {α} (m : List (String × α)) (k k' : String) (v : α) :
    amGet (m.map (fun p => if p.1 == k then (k, v) else p)) k' =
      if k' == k then (if (amGet m k).isSome then some v else none) else amGet m k' := by
  induction m with
  | nil => simp [amGet]
  | cons p r ih =>
    obtain ⟨k0, v0⟩ := p
    by_cases h0 : k0 = k
    · subst h0
      by_cases h1 : k' = k0
      · subst h1; simp [amGet]
      · simp [amGet, h1] at ih ⊢; exact ih
    · by_cases h1 : k' = k
      · subst h1
        have h0' : ¬ k' = k0 := fun h => h0 h.symm
        simp [amGet, h0, h0'] at ih ⊢; exact ih
      · by_cases h2 : k' = k0
        · subst h2; simp [amGet, h0]
        · simp [amGet, h0, h1, h2] at ih ⊢; exact ih

theorem amGet_append_single {α} (m : List (String × α)) (k k' : String) (v : α) :
    amGet (m ++ [(k, v)]) k' = match amGet m k' with | some x => some x | none => if k' == k then some v else none := by
  induction m with
  | nil => simp [amGet]
  | cons p r ih =>
    obtain ⟨k0, v0⟩ := p
    by_cases h2 : k' = k0
    · subst h2; simp [amGet]
    · simp [amGet, h2]; simpa using ih

theorem amGet_amSet {α} (m : List (String × α)) (k k' : String) (v : α) :
    amGet (amSet m k v) k' = if k' == k then some v else amGet m k' := by
  unfold amSet
  have hany : (m.any (fun p => p.1 == k)) = (amGet m k).isSome := by
    have := amHas_eq m k; unfold amHas at this; exact this
  rw [hany]
  cases hk : (amGet m k).isSome
  · simp only [Bool.false_eq_true, ↓reduceIte]
    rw [amGet_append_single]
    by_cases h : k' = k
    · subst h
      have : amGet m k' = none := by simpa using hk
      simp [this]
    · simp [h]; cases amGet m k' <;> simp
  · simp only [↓reduceIte]
    rw [amGet_map_replace]; simp [hk]

theorem amGet_amSet_self {α} (m : List (String × α)) (k : String) (v : α) :
    amGet (amSet m k v) k = some v := by simp [amGet_amSet]

theorem amGet_amSet_ne {α} (m : List (String × α)) {k k' : String} (v : α) (h : k' ≠ k) :
    amGet (amSet m k v) k' = amGet m k' := by simp [amGet_amSet, h]

theorem amGet_amErase {α} (m : List (String × α)) (k k' : String) :
    amGet (amErase m k) k' = if k' == k then none else amGet m k' := by
  induction m with
  | nil => simp [amGet, amErase]
  | cons p r ih =>
    obtain ⟨k0, v0⟩ := p
    unfold amErase at ih ⊢
    by_cases h0 : k0 = k
    · subst h0
      by_cases h1 : k' = k0
      · subst h1; simp [amGet] at ih ⊢; exact ih
      · simp [amGet, h1] at ih ⊢; exact ih
    · by_cases h1 : k' = k0
      · subst h1; simp [amGet, h0, List.filter_cons]
      · simp [amGet, h0, h1, List.filter_cons]; simpa using ih

theorem amGet_amErase_self {α} (m : List (String × α)) (k : String) :
    amGet (amErase m k) k = none := by simp [amGet_amErase]

theorem amGet_amErase_ne {α} (m : List (String × α)) {k k' : String} (h : k' ≠ k) :
    amGet (amErase m k) k' = amGet m k' := by simp [amGet_amErase, h]

/-! ## keys -/

theorem amKeys_amSet_of_mem {α} (m : List (String × α)) (k : String) (v : α) (h : k ∈ amKeys m) :
    amKeys (amSet m k v) = amKeys m := by
  unfold amSet
  have hany : (m.any (fun p => p.1 == k)) = true := by
    have := amHas_eq m k; unfold amHas at this; rw [this]; exact (amGet_isSome_iff m k).2 h
  rw [hany]; simp only [↓reduceIte]
  unfold amKeys
  rw [List.map_map]
  apply List.map_congr_left
  intro p _
  by_cases hp : p.1 = k <;> simp [hp]

theorem amKeys_amSet_of_not_mem {α} (m : List (String × α)) (k : String) (v : α) (h : k ∉ amKeys m) :
    amKeys (amSet m k v) = amKeys m ++ [k] := by
  unfold amSet
  have hany : (m.any (fun p => p.1 == k)) = false := by
    have := amHas_eq m k; unfold amHas at this; rw [this]
    have := (amGet_eq_none_iff m k).2 h; simp [this]
  rw [hany]; simp [amKeys]

theorem amKeys_amSet_length_of_mem {α} (m : List (String × α)) (k : String) (v : α) (h : k ∈ amKeys m) :
    (amSet m k v).length = m.length := by
  have := congrArg List.length (amKeys_amSet_of_mem m k v h)
  simpa [amKeys] using this

theorem mem_amKeys_amSet {α} (m : List (String × α)) (k k' : String) (v : α) :
    k' ∈ amKeys (amSet m k v) ↔ k' = k ∨ k' ∈ amKeys m := by
  rw [← amGet_isSome_iff, ← amGet_isSome_iff, amGet_amSet]
  by_cases h : k' = k <;> simp [h]

theorem amKeys_amSet_nodup {α} (m : List (String × α)) (k : String) (v : α) (h : (amKeys m).Nodup) :
    (amKeys (amSet m k v)).Nodup := by
  by_cases hk : k ∈ amKeys m
  · rw [amKeys_amSet_of_mem m k v hk]; exact h
  · rw [amKeys_amSet_of_not_mem m k v hk]
    rw [List.nodup_append]
    refine ⟨h, by simp, ?_⟩
    intro a ha b hb
    simp at hb; subst hb
    intro hab; subst hab; exact hk ha

theorem amKeys_amErase {α} (m : List (String × α)) (k : String) :
    amKeys (amErase m k) = (amKeys m).filter (· != k) := by
  unfold amKeys amErase
  rw [List.filter_map]; rfl

theorem amKeys_amErase_nodup {α} (m : List (String × α)) (k : String) (h : (amKeys m).Nodup) :
    (amKeys (amErase m k)).Nodup := by
  rw [amKeys_amErase]; exact h.filter _

theorem mem_amKeys_amErase {α} (m : List (String × α)) (k k' : String) :
    k' ∈ amKeys (amErase m k) ↔ k' ≠ k ∧ k' ∈ amKeys m := by
  rw [amKeys_amErase]; simp [List.mem_filter, and_comm]

/-- with unique keys every entry is what `amGet` finds -/
theorem amGet_of_mem_nodup {α} {m : List (String × α)} (h : (amKeys m).Nodup) {k : String} {v : α}
    (hm : (k, v) ∈ m) : amGet m k = some v := by
  induction m with
  | nil => simp at hm
  | cons p r ih =>
    obtain ⟨k0, v0⟩ := p
    simp only [amKeys, List.map_cons, List.nodup_cons] at h
    rcases List.mem_cons.1 hm with heq | hr
    · cases heq; simp [amGet]
    · have hne : k ≠ k0 := by
        intro hk; subst hk
        exact h.1 (List.mem_map.2 ⟨(k, v), hr, rfl⟩)
      simp [amGet, hne]; exact ih h.2 hr

/-- a duplicate-free list of names all of which are keys of `m` is no longer than `m` -/
theorem nodup_subset_length_le {l m : List String} (hl : l.Nodup) (hs : ∀ x ∈ l, x ∈ m) : l.length ≤ m.length := by
  induction l generalizing m with
  | nil => simp
  | cons a l ih =>
    have ha : a ∈ m := hs a (by simp)
    have hl' := List.nodup_cons.1 hl
    have : l.length ≤ (m.erase a).length := by
      apply ih hl'.2
      intro x hx
      have hxm := hs x (by simp [hx])
      have hxa : x ≠ a := by intro h; subst h; exact hl'.1 hx
      exact (List.mem_erase_of_ne hxa).2 hxm
    rw [List.length_erase_of_mem ha] at this
    have hpos : 0 < m.length := List.length_pos_of_mem ha
    simp; omega

end AM

import RulioProofs.PatIndexSearch
import Mathlib.Data.List.Perm.Subperm

/-! # Pattern index: sorting facts (`isort`, `mapToPairs`, `sortValues`), `path` of an append, `Emb` of an append -/

open List

namespace PI

/-! ## insertion sort -/
section isort
variable {α : Type} (lt : α → α → Bool)

theorem insSorted_perm (x : α) : ∀ l : List α, (insSorted lt x l).Perm (x :: l)
  | [] => .refl _
  | y :: ys => by
    simp only [insSorted]; split
    · exact .refl _
    · exact ((insSorted_perm x ys).cons y).trans (.swap x y ys)

theorem isort_perm : ∀ l : List α, (isort lt l).Perm l
  | [] => .refl _
  | x :: xs => by
    simp only [isort]
    exact (insSorted_perm lt x _).trans ((isort_perm xs).cons x)

variable {lt}
variable (htr : ∀ a b c, lt a b = true → lt b c = true → lt a c = true)
variable (hasym : ∀ a b, lt a b = true → lt b a = false)
include htr hasym

theorem insSorted_pairwise (x : α) : ∀ l : List α, l.Pairwise (fun a b => lt b a = false) →
    (insSorted lt x l).Pairwise (fun a b => lt b a = false)
  | [], _ => by simp [insSorted]
  | y :: ys, h => by
    obtain ⟨h1, h2⟩ := List.pairwise_cons.1 h
    simp only [insSorted]; split
    · next hxy =>
      refine List.pairwise_cons.2 ⟨?_, h⟩
      intro z hz
      rcases List.mem_cons.1 hz with rfl | hz
      · exact hasym _ _ hxy
      · have := h1 z hz
        cases hzx : lt z x with
        | false => rfl
        | true => rw [htr z x y hzx hxy] at this; cases this
    · next hxy =>
      have hxy' : lt x y = false := Bool.eq_false_iff.mpr hxy
      refine List.pairwise_cons.2 ⟨?_, insSorted_pairwise x ys h2⟩
      intro z hz
      rcases List.mem_cons.1 ((insSorted_perm lt x ys).mem_iff.1 hz) with rfl | hz
      · exact hxy'
      · exact h1 z hz

theorem isort_pairwise : ∀ l : List α, (isort lt l).Pairwise (fun a b => lt b a = false)
  | [] => by simp [isort]
  | x :: xs => by
    simp only [isort]
    exact insSorted_pairwise htr hasym x _ (isort_pairwise xs)

end isort

/-- two sorted permutations of each other are equal (antisymmetry needed on the members only) -/
theorem eq_of_perm_of_pairwise {α : Type} {R : α → α → Prop} : ∀ {l l' : List α}, l.Perm l' →
    l.Pairwise R → l'.Pairwise R → (∀ a ∈ l, ∀ b ∈ l, R a b → R b a → a = b) → l = l'
  | [], l', hp, _, _, _ => (hp.symm.eq_nil).symm
  | a :: l, [], hp, _, _, _ => by simpa using hp.length_eq
  | a :: l, b :: l', hp, h1, h2, has => by
    obtain ⟨ha, hl⟩ := List.pairwise_cons.1 h1
    obtain ⟨hb, hl'⟩ := List.pairwise_cons.1 h2
    have hab : a = b := by
      have ha' : a ∈ b :: l' := hp.mem_iff.1 List.mem_cons_self
      have hb' : b ∈ a :: l := hp.mem_iff.2 List.mem_cons_self
      rcases List.mem_cons.1 ha' with h | h
      · exact h
      · rcases List.mem_cons.1 hb' with h' | h'
        · exact h'.symm
        · exact has a List.mem_cons_self b hb' (ha b h') (hb a h)
    subst hab
    rw [eq_of_perm_of_pairwise hp.cons_inv hl hl'
      (fun x hx y hy => has x (List.mem_cons_of_mem _ hx) y (List.mem_cons_of_mem _ hy))]

/-- a sorted sub-multiset of a sorted list is a sublist -/
theorem sublist_of_subperm_of_pairwise {α : Type} {R : α → α → Prop} {l1 l2 : List α} (h : l1 <+~ l2)
    (h1 : l1.Pairwise R) (h2 : l2.Pairwise R) (has : ∀ a ∈ l2, ∀ b ∈ l2, R a b → R b a → a = b) : l1 <+ l2 := by
  obtain ⟨l, hl, hsub⟩ := h
  have hpl : l.Pairwise R := h2.sublist hsub
  have : l = l1 := eq_of_perm_of_pairwise hl hpl h1
    (fun a ha b hb => has a (hsub.subset ha) b (hsub.subset hb))
  rw [← this]; exact hsub

/-! ## `mapToPairs` -/
theorem mapToPairs_perm (l : List (String × J)) : (mapToPairs l).Perm l := isort_perm _ l

theorem mapToPairs_sorted (l : List (String × J)) :
    (mapToPairs l).Pairwise (fun a b => ¬ b.1 < a.1) := by
  have := isort_pairwise (lt := fun (a b : String × J) => decide (a.1 < b.1))
    (fun a b c h1 h2 => by
      simp only [decide_eq_true_eq] at *; exact String.lt_trans h1 h2)
    (fun a b h => by
      simp only [decide_eq_true_eq, decide_eq_false_iff_not] at *; exact String.lt_asymm h) l
  refine this.imp ?_
  intro a b h; simpa using h

/-! ## `sortValues` -/

/-- the order `SortValues` uses for type code `k` -/
def ltOf (k : Nat) : J → J → Bool :=
  match k with
  | 1 => (fun a b => match a, b with | .str x, .str y => x < y | _, _ => false)
  | 2 => (fun a b => match a, b with | .num x, .num y => x < y | _, _ => false)
  | _ => (fun a b => match a, b with | .bool x, .bool y => !x && y | _, _ => false)

theorem sortValues_short {xs : List J} (h : xs.length ≤ 1) : sortValues xs = .ok xs := by
  unfold sortValues; simp [h]

theorem sortValues_long {xs : List J} (h : ¬ xs.length ≤ 1) :
    sortValues xs =
      if typeCode xs.head! == 0 || xs.any (fun x => typeCode x != typeCode xs.head!) then .error .notSortable
      else .ok (isort (ltOf (typeCode xs.head!)) xs) := by
  unfold sortValues
  simp only [h, if_false]
  split
  · rfl
  · generalize typeCode xs.head! = k
    unfold ltOf
    match k with
    | 0 => rfl
    | 1 => rfl
    | 2 => rfl
    | n + 3 => rfl

theorem sortValues_perm {xs s : List J} (h : sortValues xs = .ok s) : s.Perm xs := by
  by_cases hl : xs.length ≤ 1
  · rw [sortValues_short hl] at h; cases h; exact .refl _
  · rw [sortValues_long hl] at h
    split at h
    · cases h
    · cases h; exact isort_perm _ _

theorem ltOf_trans (k : Nat) (a b c : J) : ltOf k a b = true → ltOf k b c = true → ltOf k a c = true := by
  unfold ltOf
  split
  · cases a <;> cases b <;> cases c <;> simp
    exact fun h1 h2 => String.lt_trans h1 h2
  · cases a <;> cases b <;> cases c <;> simp
    exact fun h1 h2 => Int.lt_trans h1 h2
  · cases a <;> cases b <;> cases c <;> simp
    rename_i x y z; cases x <;> cases y <;> cases z <;> simp

theorem ltOf_asymm (k : Nat) (a b : J) : ltOf k a b = true → ltOf k b a = false := by
  unfold ltOf
  split
  · cases a <;> cases b <;> simp
    exact fun h => String.lt_asymm h
  · cases a <;> cases b <;> simp
    exact fun h => Int.le_of_lt h
  · cases a <;> cases b <;> simp
    rename_i x y; cases x <;> cases y <;> simp

theorem ltOf_total {k : Nat} (hk : k ≠ 0) {a b : J} (ha : typeCode a = k) (hb : typeCode b = k) :
    ltOf k a b = false → ltOf k b a = false → a = b := by
  subst ha
  cases a <;> cases b <;> simp [typeCode] at hb hk ⊢ <;> simp [ltOf]
  · rename_i x y; cases x <;> cases y <;> simp
  · intro h1 h2; omega
  · intro h1 h2; exact String.le_antisymm (String.not_lt.1 h2) (String.not_lt.1 h1)

theorem isort_ltOf_pairwise (k : Nat) (l : List J) :
    (isort (ltOf k) l).Pairwise (fun a b => ltOf k b a = false) :=
  isort_pairwise (ltOf_trans k) (ltOf_asymm k) l

end PI

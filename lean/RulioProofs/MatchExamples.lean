import RulioProofs.MatchOrder

/-! # Concrete instances for C05: a non-trivial instance inside the fragment (evaluated on the model by
`simp`), used by the `example`s of `Props/C05.lean` -/

theorem J.beq_def (a b : J) : (a == b) = J.beq a b := rfl

theorem isVar_qx : isVar "?x" = true := by simp [isVar]
theorem isVar_qy : isVar "?y" = true := by simp [isVar]
theorem isOptVar_qx : isOptVar "?x" = false := by simp [isOptVar]
theorem isOptVar_qy : isOptVar "?y" = false := by simp [isOptVar]
theorem isVar_a : isVar "a" = false := by simp [isVar]
theorem isVar_b : isVar "b" = false := by simp [isVar]
theorem isVar_c : isVar "c" = false := by simp [isVar]
theorem isVar_e : isVar "e" = false := by simp [isVar]
theorem isVar_z : isVar "z" = false := by simp [isVar]

/-- pattern `{"a":"?x","b":["?y",1,{"c":"?x"}]}`: nested map, array with a variable, a scalar constant and
a structured element, and a variable (`?x`) that occurs twice -/
def exP : J := .obj [("a", .str "?x"), ("b", .arr [.str "?y", .num 1, .obj [("c", .str "?x")]])]
/-- the same pattern with the pairs of the outer map and the elements of the array permuted -/
def exP' : J := .obj [("b", .arr [.obj [("c", .str "?x")], .str "?y", .num 1]), ("a", .str "?x")]
/-- datum `{"a":2,"b":[1,{"c":2},"z"],"e":true}` -/
def exD : J := .obj [("a", .num 2), ("b", .arr [.num 1, .obj [("c", .num 2)], .str "z"]), ("e", .bool true)]
/-- the expected binding `{"?y":"z","?x":2}` -/
def exS : Bs := [("?y", .str "z"), ("?x", .num 2)]

set_option linter.unusedSimpArgs false

theorem exP_ok : patOK exP = true := by
  simp [exP, patOK, patOKO, patOKL, isVar_qx, isVar_qy, isOptVar_qx, isOptVar_qy, isVar_a, isVar_b, isVar_c,
    distinctJ, J.isScalar, List.filter_cons, J.beq_def, J.beq]
theorem exD_ok : dataOK exD = true := by
  simp [exD, dataOK, dataOKO, dataOKL, isVar_a, isVar_b, isVar_c, isVar_e, isVar_z, distinctJ, J.isScalar,
    List.filter_cons, J.beq_def, J.beq]
theorem ex_match : matchJ exP exD [] = .ok [exS] := by
  simp [exP, exD, exS, matchJ_obj, matchJ_str, matchJ_arr, matchJ_num, matchO, matchA, matchStr, getVariable,
    splitNth, lookupKey, Bs.get?, Bs.set, isVar_qx, isVar_qy, isOptVar_qx, isOptVar_qy, isVar_a, isVar_b,
    isVar_c, isVar_e, isVar_z, J.ground, J.isScalar, gmatch, bind, Except.bind, pure, Except.pure,
    List.filter_cons, List.eraseDups_cons, List.erase_cons, J.beq_def, J.beq]
theorem ex_scalar : scalarRepeatsIn exS exP [] = true := by
  simp [exS, exP, scalarRepeatsIn, critVars, scalarAt, varsOf, varsOfO, varsOfL, count, isVar_qx, isVar_qy,
    isVar_a, isVar_b, isVar_c, Bs.get?, J.isScalar, List.filter_cons]
theorem ex_pmv : pmv exS exP exD = true := by
  simp [exS, exP, exD, pmv_obj, pmv_arr, pmv_str, pmO, pmA, pmPick, pmStr, pmv, isVar_qx, isVar_qy, isVar_a,
    isVar_b, isVar_c, lookupKey, Bs.get?, J.beq_def, J.beq]
theorem ex_minimal : minimalFor exS exP [] = true := by
  simp [exS, exP, minimalFor, varsOf, varsOfO, varsOfL, isVar_qx, isVar_qy, isVar_a, isVar_b, isVar_c, Bs.get?]

/-- `exP'` is a deep permutation of `exP` -/
theorem ex_perm : PatPerm exP exP' := by
  have h1 : PatPerm exP (.obj [("b", .arr [.str "?y", .num 1, .obj [("c", .str "?x")]]), ("a", .str "?x")]) :=
    .obj (List.Perm.swap _ _ _)
  have h2 : PatPerm (.arr [.str "?y", .num 1, .obj [("c", .str "?x")]])
      (.arr [.obj [("c", .str "?x")], .str "?y", .num 1]) := by
    apply PatPerm.arr
    exact (List.perm_append_comm (l₁ := [J.str "?y", J.num 1]) (l₂ := [J.obj [("c", J.str "?x")]]))
  exact .trans h1 (.objIn "b" [] [("a", .str "?x")] h2)

theorem exD_keys : dataKeysOK exD = true := by
  simp [exD, dataKeysOK, dataKeysOKO, dataKeysOKL, distinctKeys]

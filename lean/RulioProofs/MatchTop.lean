import RulioProofs.MatchComplete
import RulioProofs.MatchGround

/-! # Bridges between the decidable hypotheses of `RulioModel/MatchFrag.lean` and the proof-side
predicates, and the remaining spec lemmas needed by the C05 property theorems -/

open List

theorem scalarRepeatsIn_iff (σ : Bs) (p : J) (bs : Bs) :
    scalarRepeatsIn σ p bs = true ↔ SC σ (varsOf p) bs := by
  unfold scalarRepeatsIn critVars SC
  simp only [List.all_eq_true, List.mem_filter, Bool.or_eq_true, decide_eq_true_eq, and_imp]
  constructor
  · intro h y hy hc
    apply h y hy
    rcases hc with hc | hc
    · left; omega
    · right; exact Option.isSome_iff_ne_none.2 hc
  · intro h y hy hc
    apply h y hy
    rcases hc with hc | hc
    · left; omega
    · right; exact Option.isSome_iff_ne_none.1 hc

theorem minimalFor_iff (σ : Bs) (p : J) (bs : Bs) :
    minimalFor σ p bs = true ↔ DomLe σ bs (varsOf p) := by
  unfold minimalFor DomLe
  simp only [List.all_eq_true, Bool.or_eq_true, List.contains_eq_mem, decide_eq_true_eq]
  constructor
  · intro h k hk
    cases hg : σ.get? k with
    | none => exact absurd hg hk
    | some v =>
      have := h (k, v) (Bs.get?_mem hg)
      exact this.imp (fun h => Option.isSome_iff_ne_none.1 h) id
  · intro h kv hkv
    have := h kv.1 (Bs.mem_get? (v := kv.2) hkv)
    exact this.imp (fun h => Option.isSome_iff_ne_none.2 h) id

theorem forall₂_exists_right {α β : Type} {R : α → β → Prop} {l1 : List α} {l2 : List β}
    (h : Forall₂ R l1 l2) : ∀ a ∈ l1, ∃ b, R a b := by
  induction h with
  | nil => intro a ha; cases ha
  | cons h1 _ ih =>
    intro a ha
    rcases List.mem_cons.1 ha with rfl | ha
    · exact ⟨_, h1⟩
    · exact ih a ha

/-- a specification binding binds every variable of the pattern -/
theorem pmv_vars_bound {σ : Bs} : ∀ (p : J), patOK p = true → ∀ d, pmv σ p d = true →
    ∀ y ∈ varsOf p, σ.get? y ≠ none := by
  intro p
  induction p using J.ind' with
  | hnull => intro _ d _ y hy; simp [varsOf] at hy
  | hbool b => intro _ d _ y hy; simp [varsOf] at hy
  | hnum n => intro _ d _ y hy; simp [varsOf] at hy
  | hstr s =>
    intro _ d h y hy
    rw [varsOf_str] at hy
    by_cases hc : (isVar s && s != "?") = true
    · simp only [hc, if_true, List.mem_singleton] at hy
      subst hy
      simp only [Bool.and_eq_true, bne_iff_ne, ne_eq] at hc
      rw [pmv_str] at h
      unfold pmStr at h
      have hq : (y == "?") = false := by simpa using hc.2
      simp only [hq, Bool.false_eq_true, if_false, hc.1, if_true] at h
      cases hg : σ.get? y with
      | none => simp [hg] at h
      | some b => simp
    · simp only [hc, Bool.false_eq_true, if_false] at hy; cases hy
  | harr xs ih =>
    intro hp d h y hy
    rw [pmv_arr] at h
    cases d with
    | arr ds =>
      simp only at h
      obtain ⟨ds', hf, _⟩ := (pmA_iff σ xs ds).1 h
      rw [varsOf_arr] at hy
      obtain ⟨x, hx, hyx⟩ := mem_varsOfL.1 hy
      have hpl : ∀ x ∈ xs, patOK x = true := by
        simp only [patOK, Bool.and_eq_true] at hp; exact patOKL_iff.1 hp.2
      have := forall₂_exists_right hf
      obtain ⟨dx, hdx⟩ := this x hx
      exact ih x hx (hpl x hx) dx hdx y hyx
    | _ => simp at h
  | hobj kvs ih =>
    intro hp d h y hy
    rw [pmv_obj] at h
    cases d with
    | obj dm =>
      simp only at h
      simp only [patOK, Bool.and_eq_true, List.all_eq_true, Bool.not_eq_true'] at hp
      have hpl := patOKO_iff.1 hp.2
      rw [pmO_const_iff σ dm kvs dm hp.1] at h
      rw [varsOf_obj] at hy
      have : ∃ kv ∈ kvs, y ∈ varsOf kv.2 := by
        have hk := hp.1
        clear h ih hpl hp
        induction kvs with
        | nil => simp [varsOfO] at hy
        | cons kv r ih2 =>
          obtain ⟨k, v⟩ := kv
          rw [varsOfO_cons_const (hk (k, v) List.mem_cons_self)] at hy
          rcases List.mem_append.1 hy with hy | hy
          · exact ⟨(k, v), List.mem_cons_self, hy⟩
          · obtain ⟨kv, hkv, h⟩ := ih2 hy (fun kv hkv => hk kv (List.mem_cons_of_mem _ hkv))
            exact ⟨kv, List.mem_cons_of_mem _ hkv, h⟩
      obtain ⟨kv, hkv, hykv⟩ := this
      obtain ⟨dv, _, hdv⟩ := h kv hkv
      exact ih kv hkv (hpl kv hkv) dv hdv y hykv
    | _ => simp at h

theorem groundO_iff : ∀ {kvs : List (String × J)},
    groundO kvs = true ↔ ∀ kv ∈ kvs, isVar kv.1 = false ∧ kv.2.ground = true
  | [] => by simp [groundO]
  | (k, v) :: r => by simp [groundO, groundO_iff (kvs := r), and_assoc]
theorem dataOKO_iff : ∀ {kvs : List (String × J)},
    dataOKO kvs = true ↔ ∀ kv ∈ kvs, isVar kv.1 = false ∧ dataOK kv.2 = true
  | [] => by simp [dataOKO]
  | (k, v) :: r => by simp [dataOKO, dataOKO_iff (kvs := r), and_assoc]

/-- well-formed data is ground -/
theorem dataOK_ground : ∀ (d : J), dataOK d = true → d.ground = true := by
  intro d
  induction d using J.ind' with
  | hnull => intro _; simp [J.ground]
  | hbool b => intro _; simp [J.ground]
  | hnum n => intro _; simp [J.ground]
  | hstr s => intro h; simpa [J.ground, dataOK] using h
  | harr xs ih =>
    intro h
    simp only [dataOK, Bool.and_eq_true] at h
    have := dataOKL_iff.1 h.2
    simp only [J.ground]
    exact groundL_iff.2 (fun x hx => ih x hx (this x hx))
  | hobj kvs ih =>
    intro h
    simp only [dataOK] at h
    have := dataOKO_iff.1 h
    simp only [J.ground]
    exact groundO_iff.2 (fun kv hkv => ⟨(this kv hkv).1, ih kv hkv (this kv hkv).2⟩)

/-- equality as finite maps from extension plus domain inclusion -/
theorem Bs.same_of_ext {σ' σ : Bs} (he : σ'.Ext σ) (hd : ∀ k, σ.get? k ≠ none → σ'.get? k ≠ none) :
    ∀ k, σ'.get? k = σ.get? k := by
  intro k
  cases hg : σ'.get? k with
  | some v => exact (he k v hg).symm
  | none =>
    cases hs : σ.get? k with
    | none => rfl
    | some w => exact absurd hg (hd k (by simp [hs]))

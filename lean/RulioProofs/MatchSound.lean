import RulioProofs.MatchUnfold
import Mathlib.Data.List.Perm.Basic

/-! # Soundness of the matcher model with respect to `pmv` (C05) -/

open List

/-- soundness statement for one pattern, in the form that threads through the recursion:
the unconditional part (`Ext`, `DomLe`) and the part that needs the scalar condition on the final bindings -/
def SoundJ (p : J) : Prop :=
  patOK p = true → ∀ (d : J) (bs : Bs) (bss : List Bs) (σ : Bs), dataOK d = true →
    matchJ p d bs = .ok bss → σ ∈ bss →
      bs.Ext σ ∧ DomLe σ bs (varsOf p) ∧ ∀ τ, σ.Ext τ → SC τ (varsOf p) bs → pmv τ p d = true

theorem matchStr_sound {s : String} {f : J} {bs : Bs} {out : List Bs} {σ : Bs}
    (h : matchStr s f bs = .ok out) (hσ : σ ∈ out) :
    bs.Ext σ ∧ DomLe σ bs (varsOf (.str s)) ∧
      ∀ τ, σ.Ext τ → SC τ (varsOf (.str s)) bs → pmStr τ s f = true := by
  unfold matchStr at h
  by_cases hv : isVar s = true
  · simp only [hv, Bool.not_true, Bool.false_eq_true, if_false] at h
    by_cases hq : (s == "?") = true
    · simp only [hq, if_true, Except.ok.injEq] at h
      subst h
      have : σ = bs := by simpa using hσ
      subst this
      exact ⟨Bs.Ext.refl _, DomLe.refl _ _, fun τ _ _ => by simp [pmStr, hq]⟩
    · simp only [hq, Bool.false_eq_true, if_false] at h
      have hq' : s ≠ "?" := by simpa using hq
      have hvs : varsOf (.str s) = [s] := by rw [varsOf_str]; simp [hv, hq']
      rw [hvs]
      cases hg : bs.get? s with
      | none =>
        simp only [hg, Except.ok.injEq] at h
        subst h
        have : σ = bs.set s f := by simpa using hσ
        subst this
        refine ⟨Bs.ext_set f hg, ?_, ?_⟩
        · intro k hk
          rw [Bs.get?_set] at hk
          by_cases hks : k = s
          · right; simp [hks]
          · left; simpa [hks] using hk
        · intro τ hτ _
          have : τ.get? s = some f := hτ s f (by rw [Bs.get?_set]; simp)
          simp [pmStr, hq, hv, this]
      | some b =>
        simp only [hg] at h
        by_cases hb : b.ground = true
        · simp only [hb, if_true, Except.ok.injEq] at h
          subst h
          obtain ⟨hn, rfl⟩ := List.mem_replicate.1 hσ
          refine ⟨Bs.Ext.refl _, DomLe.refl _ _, ?_⟩
          intro τ hτ hsc
          have hτs : τ.get? s = some b := hτ s b hg
          have hscal : scalarAt τ s = true := hsc s (List.mem_singleton.2 rfl) (Or.inr (by simp [hg]))
          have hbs : b.isScalar = true := by simpa [scalarAt, hτs] using hscal
          rw [gmatch_scalar hbs] at hn
          have : (b == f) = true := by
            by_cases hbf : (b == f) = true
            · exact hbf
            · simp [hbf] at hn
          simp [pmStr, hq, hv, hτs, this]
        · simp [hb] at h
  · have hv' : isVar s = false := by simpa using hv
    simp only [hv', Bool.not_false, if_true] at h
    have hvs : varsOf (.str s) = [] := by rw [varsOf_str]; simp [hv']
    cases f with
    | str t =>
      simp only at h
      by_cases hst : (s == t) = true
      · simp only [hst, if_true, Except.ok.injEq] at h
        subst h
        have : σ = bs := by simpa using hσ
        subst this
        refine ⟨Bs.Ext.refl _, DomLe.refl _ _, fun τ _ _ => ?_⟩
        rw [pmStr_const hv']
        have : s = t := by simpa using hst
        rw [this]
      · simp only [hst, Bool.false_eq_true, if_false, Except.ok.injEq] at h
        subst h; cases hσ
    | _ =>
      simp only [Except.ok.injEq] at h
      subst h; cases hσ

theorem lookupKey_dataOK : ∀ {fm : List (String × J)} {k : String} {fv : J},
    dataOKO fm = true → lookupKey k fm = some fv → dataOK fv = true
  | [], _, _, _, h => by simp [lookupKey] at h
  | (k', v) :: r, k, fv, hd, h => by
      simp only [dataOKO, Bool.and_eq_true] at hd
      simp only [lookupKey] at h
      by_cases hk : (k == k') = true
      · simp only [hk, if_true, Option.some.injEq] at h; subst h; exact hd.1.2
      · simp only [hk, Bool.false_eq_true, if_false] at h; exact lookupKey_dataOK hd.2 h

/-- members of the flattened per-binding results of a `mapM` over bindings -/
theorem mem_flat_mapM {f : Bs → Except MErr (List Bs)} {bss : List Bs} {accs : List (List Bs)}
    (h : bss.mapM f = .ok accs) {σ : Bs} (hσ : σ ∈ accs.flatMap id) :
    ∃ b ∈ bss, ∃ rb, f b = .ok rb ∧ σ ∈ rb := by
  obtain ⟨rb, hrb, hσ⟩ := List.mem_flatMap.1 hσ
  obtain ⟨b, hb, hf⟩ := mapM_ok_mem_right h hrb
  exact ⟨b, hb, rb, hf, hσ⟩

theorem flat_mapM_mem {f : Bs → Except MErr (List Bs)} {bss : List Bs} {accs : List (List Bs)}
    (h : bss.mapM f = .ok accs) {b : Bs} (hb : b ∈ bss) :
    ∃ rb, f b = .ok rb ∧ ∀ σ ∈ rb, σ ∈ accs.flatMap id := by
  obtain ⟨rb, hrb, hf⟩ := mapM_ok_mem_left h hb
  exact ⟨rb, hf, fun σ hσ => List.mem_flatMap.2 ⟨rb, hrb, hσ⟩⟩

theorem matchO_sound (fm : List (String × J)) (hfm : dataOKO fm = true) : ∀ (kvs : List (String × J)),
    (∀ kv ∈ kvs, isVar kv.1 = false) → (∀ kv ∈ kvs, patOK kv.2 = true) → (∀ kv ∈ kvs, SoundJ kv.2) →
    ∀ (bss out : List Bs) (σ : Bs), matchO kvs fm bss = .ok out → σ ∈ out →
      ∃ b ∈ bss, b.Ext σ ∧ DomLe σ b (varsOfO kvs) ∧
        ∀ τ, σ.Ext τ → SC τ (varsOfO kvs) b →
          ∀ kv ∈ kvs, ∃ dv, lookupKey kv.1 fm = some dv ∧ pmv τ kv.2 dv = true
  | [], _, _, _, bss, out, σ, h, hσ => by
      rw [matchO_nil] at h
      cases h
      exact ⟨σ, hσ, Bs.Ext.refl _, DomLe.refl _ _, fun τ _ _ kv hkv => by cases hkv⟩
  | (k, v) :: r, hk, hp, ih, bss, out, σ, h, hσ => by
      have hk0 : isVar k = false := hk (k, v) List.mem_cons_self
      have hpv : patOK v = true := hp (k, v) List.mem_cons_self
      rw [matchO_cons_const hk0] at h
      cases hl : lookupKey k fm with
      | none =>
        simp only [hl] at h
        cases v with
        | str s =>
          have : isOptVar s = false := by simpa [patOK] using hpv
          simp only [this, Bool.false_eq_true, if_false, Except.ok.injEq] at h
          subst h; cases hσ
        | _ => simp only [Except.ok.injEq] at h; subst h; cases hσ
      | some fv =>
        simp only [hl] at h
        obtain ⟨accs, hacc, h⟩ := (Except.bind_ok_iff _ _ _).1 h
        by_cases he : (accs.flatMap id).isEmpty = true
        · simp only [he, if_true, pure, Except.pure, Except.ok.injEq] at h
          subst h; cases hσ
        · simp only [he, Bool.false_eq_true, if_false] at h
          obtain ⟨σ1, hσ1, hext2, hdom2, hc2⟩ :=
            matchO_sound fm hfm r (fun kv hkv => hk kv (List.mem_cons_of_mem _ hkv))
              (fun kv hkv => hp kv (List.mem_cons_of_mem _ hkv))
              (fun kv hkv => ih kv (List.mem_cons_of_mem _ hkv)) _ out σ h hσ
          obtain ⟨b, hb, rb, hrb, hσ1⟩ := mem_flat_mapM hacc hσ1
          obtain ⟨hext1, hdom1, hc1⟩ :=
            ih (k, v) List.mem_cons_self hpv fv b rb σ1 (lookupKey_dataOK hfm hl) hrb hσ1
          refine ⟨b, hb, hext1.trans hext2, ?_, ?_⟩
          · rw [varsOfO_cons_const hk0]; exact hdom1.trans hdom2
          · intro τ hτ hsc
            rw [varsOfO_cons_const hk0] at hsc
            have h1 := hc1 τ (hext2.trans hτ) hsc.left
            have h2 := hc2 τ hτ (hsc.right_of_dom hdom1)
            intro kv hkv
            rcases List.mem_cons.1 hkv with rfl | hkv
            · exact ⟨fv, hl, h1⟩
            · exact h2 kv hkv

/-- the new branches produced by the structured-element step of `matchA` -/
theorem matchA_struct_nb {x : J} {branches : List (List Bs × List J × List J)}
    {nbs : List (List (List (List Bs × List J × List J)))}
    (h : branches.mapM (fun br =>
          (splitNth br.2.2).mapM (fun fr =>
            (br.1.mapM (fun b => matchJ x fr.1 b)) >>= fun acc =>
              pure (if (acc.flatMap id).isEmpty then [] else [(acc.flatMap id, br.2.1, fr.2)]))) = .ok nbs)
    (br1 : List Bs × List J × List J) :
    br1 ∈ nbs.flatMap (fun per => per.flatMap id) ↔
      ∃ br ∈ branches, ∃ fr ∈ splitNth br.2.2, ∃ accs, br.1.mapM (fun b => matchJ x fr.1 b) = .ok accs ∧
        (accs.flatMap id).isEmpty = false ∧ br1 = (accs.flatMap id, br.2.1, fr.2) := by
  constructor
  · intro hm
    obtain ⟨per, hper, hm⟩ := List.mem_flatMap.1 hm
    obtain ⟨one, hone, hm⟩ := List.mem_flatMap.1 hm
    obtain ⟨br, hbr, hf⟩ := mapM_ok_mem_right h hper
    obtain ⟨fr, hfr, hg⟩ := mapM_ok_mem_right hf hone
    obtain ⟨accs, hacc, hg⟩ := (Except.bind_ok_iff _ _ _).1 hg
    simp only [pure, Except.pure, Except.ok.injEq] at hg
    subst hg
    by_cases he : (accs.flatMap id).isEmpty = true
    · rw [if_pos he] at hm; simp at hm
    · rw [if_neg he] at hm
      simp only [id, List.mem_singleton] at hm
      exact ⟨br, hbr, fr, hfr, accs, hacc, by simpa using he, hm⟩
  · rintro ⟨br, hbr, fr, hfr, accs, hacc, he, rfl⟩
    obtain ⟨per, hper, hf⟩ := mapM_ok_mem_left h hbr
    obtain ⟨one, hone, hg⟩ := mapM_ok_mem_left hf hfr
    rw [hacc] at hg
    simp only [bind, Except.bind, pure, Except.pure, he, Bool.false_eq_true, if_false, Except.ok.injEq] at hg
    subst hg
    exact List.mem_flatMap.2 ⟨per, hper, List.mem_flatMap.2 ⟨_, hone, by simp⟩⟩

theorem matchA_sound : ∀ (cs : List J),
    (∀ x ∈ cs, isVarElem x = false) → (∀ x ∈ cs, patOK x = true) → (∀ x ∈ cs, SoundJ x) →
    ∀ (ns : Bool) (branches : List (List Bs × List J × List J)) (sc0 : List J)
      (out : List (List Bs × List J × List J)),
      (∀ br ∈ branches, br.2.1 = sc0) → (∀ br ∈ branches, ∀ y ∈ br.2.2, dataOK y = true) →
      matchA cs ns branches = .ok out →
      ∀ br' ∈ out, ∀ σ' ∈ br'.1,
        ∃ br ∈ branches, ∃ b ∈ br.1, b.Ext σ' ∧ DomLe σ' b (varsOfL cs) ∧
          ∃ used, (used ++ (br'.2.2 ++ br'.2.1)).Perm (br.2.2 ++ br.2.1) ∧
            ∀ τ, σ'.Ext τ → SC τ (varsOfL cs) b → Forall₂ (fun x d => pmv τ x d = true) cs used
  | [], _, _, _, ns, branches, sc0, out, _, _, h, br', hbr', σ', hσ' => by
      rw [matchA_nil] at h
      cases h
      exact ⟨br', hbr', σ', hσ', Bs.Ext.refl _, DomLe.refl _ _, [], by simp, fun _ _ _ => .nil⟩
  | x :: cs, hv, hp, ih, ns, branches, sc0, out, hsc, hdo, h, br', hbr', σ', hσ' => by
      have hvx : isVarElem x = false := hv x List.mem_cons_self
      have hpx : patOK x = true := hp x List.mem_cons_self
      have hv' : ∀ y ∈ cs, isVarElem y = false := fun y hy => hv y (List.mem_cons_of_mem _ hy)
      have hp' : ∀ y ∈ cs, patOK y = true := fun y hy => hp y (List.mem_cons_of_mem _ hy)
      have ih' : ∀ y ∈ cs, SoundJ y := fun y hy => ih y (List.mem_cons_of_mem _ hy)
      by_cases hx : x.isScalar = true
      · -- scalar constant: removed from the shared scalar set
        rw [matchA_cons_scalar hvx hx] at h
        cases branches with
        | nil => simp only [Except.ok.injEq] at h; subst h; cases hbr'
        | cons br0 tail =>
          obtain ⟨b0, sc, st0⟩ := br0
          simp only at h
          have hsc0 : sc = sc0 := hsc (b0, sc, st0) List.mem_cons_self
          subst hsc0
          by_cases hc : sc.contains x = true
          · simp only [hc, if_true] at h
            have hxm : x ∈ sc := by simpa using hc
            have hsc' : ∀ br ∈ ((b0, sc, st0) :: tail).map (fun br => (br.1, br.2.1.erase x, br.2.2)),
                br.2.1 = sc.erase x := by
              intro br hbr
              obtain ⟨br2, hbr2, rfl⟩ := List.mem_map.1 hbr
              simp [hsc br2 hbr2]
            have hdo' : ∀ br ∈ ((b0, sc, st0) :: tail).map (fun br => (br.1, br.2.1.erase x, br.2.2)),
                ∀ y ∈ br.2.2, dataOK y = true := by
              intro br hbr
              obtain ⟨br2, hbr2, rfl⟩ := List.mem_map.1 hbr
              exact hdo br2 hbr2
            obtain ⟨br1, hbr1, b, hb, hext, hdom, used, hperm, hc2⟩ :=
              matchA_sound cs hv' hp' ih' ns _ (sc.erase x) out hsc' hdo' h br' hbr' σ' hσ'
            obtain ⟨br, hbr, rfl⟩ := List.mem_map.1 hbr1
            have hbrsc : br.2.1 = sc := hsc br hbr
            have hvx0 : varsOf x = [] := varsOf_scalar_const hx hvx
            refine ⟨br, hbr, b, hb, hext, ?_, x :: used, ?_, ?_⟩
            · simp only [varsOfL, hvx0, List.nil_append]; exact hdom
            · simp only [hbrsc] at hperm ⊢
              have h1 : (x :: used ++ (br'.2.2 ++ br'.2.1)).Perm (x :: (br.2.2 ++ sc.erase x)) :=
                List.Perm.cons x hperm
              have h2 : (x :: (br.2.2 ++ sc.erase x)).Perm (br.2.2 ++ x :: sc.erase x) :=
                (List.perm_middle).symm
              have h3 : (br.2.2 ++ x :: sc.erase x).Perm (br.2.2 ++ sc) :=
                List.Perm.append_left _ (List.perm_cons_erase hxm).symm
              exact h1.trans (h2.trans h3)
            · intro τ hτ hsc2
              simp only [varsOfL, hvx0, List.nil_append] at hsc2
              exact .cons ((pmv_scalar_const hx hvx x).2 rfl) (hc2 τ hτ hsc2)
          · simp only [hc, Bool.false_eq_true, if_false, Except.ok.injEq] at h
            subst h; cases hbr'
      · -- structured element: every unused structured fact is tried
        have hx' : x.isScalar = false := by simpa using hx
        cases ns with
        | true => rw [matchA_cons_struct_ns hx'] at h; cases h; cases hbr'
        | false =>
          rw [matchA_cons_struct hx'] at h
          obtain ⟨nbs, hnbs, h⟩ := (Except.bind_ok_iff _ _ _).1 h
          by_cases he : (nbs.flatMap (fun per => per.flatMap id)).isEmpty = true
          · simp only [he, if_true, pure, Except.pure, Except.ok.injEq] at h
            subst h; cases hbr'
          · simp only [he, Bool.false_eq_true, if_false] at h
            have hnb := matchA_struct_nb hnbs
            have hsc' : ∀ br ∈ nbs.flatMap (fun per => per.flatMap id), br.2.1 = sc0 := by
              intro br1 hbr1
              obtain ⟨br, hbr, fr, _, accs, _, _, rfl⟩ := (hnb br1).1 hbr1
              exact hsc br hbr
            have hdo' : ∀ br ∈ nbs.flatMap (fun per => per.flatMap id), ∀ y ∈ br.2.2, dataOK y = true := by
              intro br1 hbr1
              obtain ⟨br, hbr, fr, hfr, accs, _, _, rfl⟩ := (hnb br1).1 hbr1
              intro y hy
              exact hdo br hbr y ((splitNth_perm (y := fr.1) (r := fr.2) hfr).mem_iff.2
                (List.mem_cons_of_mem _ hy))
            obtain ⟨br1, hbr1, σ1, hσ1, hext2, hdom2, used, hperm, hc2⟩ :=
              matchA_sound cs hv' hp' ih' false _ sc0 out hsc' hdo' h br' hbr' σ' hσ'
            obtain ⟨br, hbr, fr, hfr, accs, hacc, _, rfl⟩ := (hnb br1).1 hbr1
            obtain ⟨b, hb, rb, hrb, hσ1⟩ := mem_flat_mapM hacc hσ1
            have hfrp := splitNth_perm (y := fr.1) (r := fr.2) hfr
            have hdfact : dataOK fr.1 = true := hdo br hbr fr.1 (hfrp.mem_iff.2 List.mem_cons_self)
            obtain ⟨hext1, hdom1, hc1⟩ := ih x List.mem_cons_self hpx fr.1 b rb σ1 hdfact hrb hσ1
            refine ⟨br, hbr, b, hb, hext1.trans hext2, ?_, fr.1 :: used, ?_, ?_⟩
            · simp only [varsOfL]; exact hdom1.trans hdom2
            · simp only at hperm
              have h1 : (fr.1 :: used ++ (br'.2.2 ++ br'.2.1)).Perm (fr.1 :: (fr.2 ++ br.2.1)) :=
                List.Perm.cons _ hperm
              have h2 : (fr.1 :: (fr.2 ++ br.2.1)).Perm (br.2.2 ++ br.2.1) :=
                List.Perm.append_right _ hfrp.symm
              exact h1.trans h2
            · intro τ hτ hsc2
              simp only [varsOfL] at hsc2
              exact .cons (hc1 τ (hext2.trans hτ) hsc2.left) (hc2 τ hτ (hsc2.right_of_dom hdom1))

theorem pmA_perm {σ : Bs} {xs xs' ds : List J} (hp : xs.Perm xs') (h : pmA σ xs ds = true) :
    pmA σ xs' ds = true := by
  obtain ⟨ds', hf, hs⟩ := (pmA_iff σ xs ds).1 h
  obtain ⟨w, hw1, hw2⟩ := List.perm_comp_forall₂ hp.symm hf
  exact (pmA_iff σ xs' ds).2 ⟨w, hw1, hw2.subperm.trans hs⟩

theorem soundJ : ∀ p, SoundJ p := by
  intro p
  induction p using J.ind' with
  | hnull =>
    intro _ d bs bss σ _ h hσ
    rw [matchJ_null] at h
    cases d with
    | null =>
      simp only [Except.ok.injEq] at h; subst h
      have : σ = bs := by simpa using hσ
      subst this
      exact ⟨Bs.Ext.refl _, DomLe.refl _ _, fun τ _ _ => by rw [pmv.eq_def]⟩
    | _ => simp only [Except.ok.injEq] at h; subst h; cases hσ
  | hbool a =>
    intro _ d bs bss σ _ h hσ
    rw [matchJ_bool] at h
    cases d with
    | bool b =>
      simp only [Except.ok.injEq] at h; subst h
      by_cases hab : (a == b) = true
      · rw [if_pos hab] at hσ
        have : σ = bs := by simpa using hσ
        subst this
        exact ⟨Bs.Ext.refl _, DomLe.refl _ _, fun τ _ _ => by rw [pmv.eq_def]; exact hab⟩
      · rw [if_neg hab] at hσ; cases hσ
    | _ => simp only [Except.ok.injEq] at h; subst h; cases hσ
  | hnum a =>
    intro _ d bs bss σ _ h hσ
    rw [matchJ_num] at h
    cases d with
    | num b =>
      simp only [Except.ok.injEq] at h; subst h
      by_cases hab : (a == b) = true
      · rw [if_pos hab] at hσ
        have : σ = bs := by simpa using hσ
        subst this
        exact ⟨Bs.Ext.refl _, DomLe.refl _ _, fun τ _ _ => by rw [pmv.eq_def]; exact hab⟩
      · rw [if_neg hab] at hσ; cases hσ
    | _ => simp only [Except.ok.injEq] at h; subst h; cases hσ
  | hstr s =>
    intro _ d bs bss σ _ h hσ
    rw [matchJ_str] at h
    obtain ⟨h1, h2, h3⟩ := matchStr_sound h hσ
    exact ⟨h1, h2, fun τ hτ hsc => by rw [pmv_str]; exact h3 τ hτ hsc⟩
  | hobj kvs ih =>
    intro hp d bs bss σ hd h hσ
    rw [matchJ_obj] at h
    cases d with
    | obj fm =>
      simp only at h
      simp only [patOK, Bool.and_eq_true, List.all_eq_true, Bool.not_eq_true'] at hp
      have hdfm : dataOKO fm = true := by simpa [dataOK] using hd
      by_cases he : kvs.isEmpty = true
      · simp only [he, if_true, Except.ok.injEq] at h; subst h
        have : σ = bs := by simpa using hσ
        subst this
        have hk : kvs = [] := by simpa using he
        subst hk
        exact ⟨Bs.Ext.refl _, DomLe.refl _ _, fun τ _ _ => by rw [pmv_obj]; exact pmO_nil _ _ _⟩
      · have hany : (kvs.any fun kv => isVar kv.1) = false := by
          rw [List.any_eq_false]; intro kv hkv; simp [hp.1 kv hkv]
        simp only [he, hany, Bool.and_false, Bool.false_eq_true, if_false] at h
        obtain ⟨b, hb, hext, hdom, hc⟩ :=
          matchO_sound fm hdfm kvs hp.1 (patOKO_iff.1 hp.2) (fun kv hkv => ih kv hkv) [bs] bss σ h hσ
        have : b = bs := by simpa using hb
        subst this
        rw [varsOf_obj]
        refine ⟨hext, hdom, fun τ hτ hsc => ?_⟩
        rw [pmv_obj]
        exact (pmO_const_iff τ fm kvs fm hp.1).2 (hc τ hτ hsc)
    | _ => simp only [Except.ok.injEq] at h; subst h; cases hσ
  | harr xs ih =>
    intro hp d bs bss σ hd h hσ
    rw [matchJ_arr] at h
    cases hgv : getVariable xs none with
    | error e => rw [hgv] at h; cases h
    | ok vw =>
      obtain ⟨v, w⟩ := vw
      rw [hgv] at h
      cases d with
      | arr fa =>
        simp only at h
        obtain ⟨branches, hbr, h⟩ := (Except.bind_ok_iff _ _ _).1 h
        simp only [patOK, Bool.and_eq_true, decide_eq_true_eq] at hp
        obtain ⟨⟨_, _⟩, hp3⟩ := hp
        have hpl := patOKL_iff.1 hp3
        simp only [dataOK, Bool.and_eq_true] at hd
        have hdl := dataOKL_iff.1 hd.2
        rw [distinctJ_eraseDups hd.1, matchA_filter] at hbr
        have hfa : (fa.filter (fun y => !y.isScalar) ++ fa.filter J.isScalar).Perm fa :=
          List.perm_append_comm.trans (List.filter_append_perm J.isScalar fa)
        have hgs := (getVariable_spec xs none v w hgv).1 rfl
        have hxs : (xs.filter (fun x => !isVarElem x) ++ xs.filter isVarElem).Perm xs :=
          List.perm_append_comm.trans (List.filter_append_perm isVarElem xs)
        have hA := matchA_sound (xs.filter (fun x => !isVarElem x))
          (fun x hx => by simpa using (List.mem_filter.1 hx).2)
          (fun x hx => hpl x (List.mem_filter.1 hx).1)
          (fun x hx => ih x (List.mem_filter.1 hx).1)
          _ _ (fa.filter J.isScalar) branches (by simp)
          (by
            intro br hbr y hy
            have : br = _ := List.mem_singleton.1 hbr
            subst this
            exact hdl y (List.mem_filter.1 hy).1)
          hbr
        rw [varsOf_arr]
        cases v with
        | none =>
          simp only [pure, Except.pure, Except.ok.injEq] at h; subst h
          obtain ⟨br', hbr', hσ'⟩ := List.mem_flatMap.1 hσ
          obtain ⟨br, hbrm, b, hb, hext, hdom, used, hperm, hc⟩ := hA br' hbr' σ hσ'
          have : br = _ := List.mem_singleton.1 hbrm
          subst this
          have : b = bs := by simpa using hb
          subst this
          simp only at hgs
          have hcsxs : xs.filter (fun x => !isVarElem x) = xs := by
            apply List.filter_eq_self.2
            intro x hx
            have := List.filter_eq_nil_iff.1 hgs x hx
            simpa using this
          rw [hcsxs] at hdom hc
          refine ⟨hext, hdom, fun τ hτ hsc => ?_⟩
          rw [pmv_arr]
          apply (pmA_iff τ xs fa).2
          refine ⟨used, hc τ hτ hsc, ?_⟩
          exact (List.sublist_append_left used _).subperm.trans (hperm.trans hfa).subperm
        | some s =>
          obtain ⟨ext, hext, h⟩ := (Except.bind_ok_iff _ _ _).1 h
          have hsx := getVariable_some_isVar xs none (some s) w hgv rfl s rfl
          have hopt : isOptVar s = false := by
            have := hpl _ hsx.1; simpa [patOK] using this
          simp only [hopt, Bool.and_false, Bool.false_eq_true, if_false, pure, Except.pure,
            Except.ok.injEq] at h
          subst h
          obtain ⟨per, hper, hσ⟩ := List.mem_flatMap.1 hσ
          obtain ⟨r, hr, hσ⟩ := List.mem_flatMap.1 hσ
          obtain ⟨br', hbr', hf⟩ := mapM_ok_mem_right hext hper
          obtain ⟨fr, hfr, hg⟩ := mapM_ok_mem_right hf hr
          obtain ⟨σ', hσ', q, hq, hσq⟩ := mem_flat_mapM hg hσ
          obtain ⟨hextS, hdomS, hcS⟩ := matchStr_sound hq hσq
          obtain ⟨br, hbrm, b, hb, hextA, hdomA, used, hperm, hcA⟩ := hA br' hbr' σ' hσ'
          have : br = _ := List.mem_singleton.1 hbrm
          subst this
          have : b = bs := by simpa using hb
          subst this
          simp only at hgs
          rw [hgs] at hxs
          have hvars : (varsOfL (xs.filter (fun x => !isVarElem x)) ++ varsOf (.str s)).Perm (varsOfL xs) := by
            have := varsOfL_perm hxs
            rw [varsOfL_append] at this
            simpa [varsOfL] using this
          refine ⟨hextA.trans hextS, (hdomA.trans hdomS).mono (fun k hk => hvars.mem_iff.1 hk), ?_⟩
          intro τ hτ hsc
          have hsc' := SC.perm hvars.symm hsc
          have hF := hcA τ (hextS.trans hτ) hsc'.left
          have hS := hcS τ hτ (hsc'.right_of_dom hdomA)
          have hF2 : Forall₂ (fun x d => pmv τ x d = true)
              (xs.filter (fun x => !isVarElem x) ++ [.str s]) (used ++ [fr.1]) :=
            List.rel_append hF (.cons (by rw [pmv_str]; exact hS) .nil)
          have hmem : fr.1 ∈ br'.2.2 ++ br'.2.1 := splitNth_mem_fst (r := fr.2) hfr
          have hsub : (used ++ [fr.1]) <+~ fa :=
            ((List.subperm_append_left used).2 (List.singleton_subperm_iff.2 hmem)).trans
              (hperm.trans hfa).subperm
          rw [pmv_arr]
          exact pmA_perm hxs ((pmA_iff τ _ fa).2 ⟨_, hF2, hsub⟩)
      | _ => simp only [Except.ok.injEq] at h; subst h; cases hσ

import RulioProofs.MatchBase

/-! # Lemmas about the executable specification `pmv` (C05) -/

open List

/-! ## an induction principle for the nested JSON type -/
mutual
theorem J.ind' {P : J → Prop} (hnull : P .null) (hbool : ∀ b, P (.bool b)) (hnum : ∀ n, P (.num n))
    (hstr : ∀ s, P (.str s)) (harr : ∀ xs, (∀ x ∈ xs, P x) → P (.arr xs))
    (hobj : ∀ kvs : List (String × J), (∀ kv ∈ kvs, P kv.2) → P (.obj kvs)) : ∀ j, P j
  | .null => hnull
  | .bool b => hbool b
  | .num n => hnum n
  | .str s => hstr s
  | .arr xs => harr xs (J.indL hnull hbool hnum hstr harr hobj xs)
  | .obj kvs => hobj kvs (J.indO hnull hbool hnum hstr harr hobj kvs)
theorem J.indL {P : J → Prop} (hnull : P .null) (hbool : ∀ b, P (.bool b)) (hnum : ∀ n, P (.num n))
    (hstr : ∀ s, P (.str s)) (harr : ∀ xs, (∀ x ∈ xs, P x) → P (.arr xs))
    (hobj : ∀ kvs : List (String × J), (∀ kv ∈ kvs, P kv.2) → P (.obj kvs)) : ∀ xs : List J, ∀ x ∈ xs, P x
  | [] => fun _ h => nomatch h
  | y :: ys => List.forall_mem_cons.2
      ⟨J.ind' hnull hbool hnum hstr harr hobj y, J.indL hnull hbool hnum hstr harr hobj ys⟩
theorem J.indO {P : J → Prop} (hnull : P .null) (hbool : ∀ b, P (.bool b)) (hnum : ∀ n, P (.num n))
    (hstr : ∀ s, P (.str s)) (harr : ∀ xs, (∀ x ∈ xs, P x) → P (.arr xs))
    (hobj : ∀ kvs : List (String × J), (∀ kv ∈ kvs, P kv.2) → P (.obj kvs)) :
    ∀ kvs : List (String × J), ∀ kv ∈ kvs, P kv.2
  | [] => fun _ h => nomatch h
  | (_, y) :: ys => List.forall_mem_cons.2
      ⟨J.ind' hnull hbool hnum hstr harr hobj y, J.indO hnull hbool hnum hstr harr hobj ys⟩
end

/-! ## fragment predicates, list form -/
theorem patOKL_iff : ∀ {xs : List J}, patOKL xs = true ↔ ∀ x ∈ xs, patOK x = true
  | [] => by simp [patOKL]
  | x :: xs => by simp [patOKL, patOKL_iff (xs := xs)]
theorem patOKO_iff : ∀ {kvs : List (String × J)}, patOKO kvs = true ↔ ∀ kv ∈ kvs, patOK kv.2 = true
  | [] => by simp [patOKO]
  | (k, v) :: r => by simp [patOKO, patOKO_iff (kvs := r)]
theorem dataOKL_iff : ∀ {xs : List J}, dataOKL xs = true ↔ ∀ x ∈ xs, dataOK x = true
  | [] => by simp [dataOKL]
  | x :: xs => by simp [dataOKL, dataOKL_iff (xs := xs)]

theorem varsOfL_append : ∀ (l1 l2 : List J), varsOfL (l1 ++ l2) = varsOfL l1 ++ varsOfL l2
  | [], l2 => by simp [varsOfL]
  | x :: l1, l2 => by simp [varsOfL, varsOfL_append l1 l2]

theorem mem_varsOfL {y : String} : ∀ {xs : List J}, y ∈ varsOfL xs ↔ ∃ x ∈ xs, y ∈ varsOf x
  | [] => by simp [varsOfL]
  | x :: xs => by simp [varsOfL, mem_varsOfL (xs := xs)]

theorem varsOfL_perm {l1 l2 : List J} (h : l1.Perm l2) : (varsOfL l1).Perm (varsOfL l2) := by
  induction h with
  | nil => exact .refl _
  | cons x _ ih => simp only [varsOfL]; exact ih.append_left _
  | swap x y l =>
    simp only [varsOfL, ← List.append_assoc]
    exact List.Perm.append_right _ List.perm_append_comm
  | trans _ _ ih1 ih2 => exact ih1.trans ih2

/-! ## unfolding `pmv` -/
theorem pmv_str (σ : Bs) (s : String) (d : J) : pmv σ (.str s) d = pmStr σ s d := by
  rw [pmv.eq_def]
theorem pmv_arr (σ : Bs) (xs : List J) (d : J) :
    pmv σ (.arr xs) d = (match d with | .arr ds => pmA σ xs ds | _ => false) := by
  rw [pmv.eq_def]; cases d <;> rfl
theorem pmv_obj (σ : Bs) (kvs : List (String × J)) (d : J) :
    pmv σ (.obj kvs) d = (match d with | .obj dm => pmO σ kvs dm dm | _ => false) := by
  rw [pmv.eq_def]; cases d <;> rfl

theorem pmO_nil (σ : Bs) (dm rest : List (String × J)) : pmO σ [] dm rest = true := by
  rw [pmO.eq_def]
theorem pmO_cons_const (σ : Bs) {k : String} (hk : isVar k = false) (v : J) (r dm rest : List (String × J)) :
    pmO σ ((k, v) :: r) dm rest =
      ((match lookupKey k dm with | some dv => pmv σ v dv | none => false) && pmO σ r dm dm) := by
  rw [pmO.eq_def]; simp only [hk, Bool.false_eq_true, if_false]
  cases lookupKey k dm <;> rfl

theorem pmA_nil (σ : Bs) (ds : List J) : pmA σ [] ds = true := by rw [pmA.eq_def]
theorem pmA_cons (σ : Bs) (x : J) (xs ds : List J) : pmA σ (x :: xs) ds = pmPick σ x xs [] ds := by
  rw [pmA.eq_def]
theorem pmPick_nil (σ : Bs) (x : J) (xs pre : List J) : pmPick σ x xs pre [] = false := by
  rw [pmPick.eq_def]
theorem pmPick_cons (σ : Bs) (x : J) (xs pre : List J) (d : J) (post : List J) :
    pmPick σ x xs pre (d :: post) =
      ((pmv σ x d && pmA σ xs (pre ++ post)) || pmPick σ x xs (pre ++ [d]) post) := by
  rw [pmPick.eq_def]

theorem pmPick_iff (σ : Bs) (x : J) (xs : List J) : ∀ (post pre : List J),
    pmPick σ x xs pre post = true ↔
      ∃ d post1 post2, post = post1 ++ d :: post2 ∧ pmv σ x d = true ∧ pmA σ xs (pre ++ post1 ++ post2) = true
  | [], pre => by simp [pmPick_nil]
  | d :: post, pre => by
      rw [pmPick_cons, Bool.or_eq_true, Bool.and_eq_true, pmPick_iff σ x xs post (pre ++ [d])]
      constructor
      · rintro (⟨h1, h2⟩ | ⟨d', p1, p2, rfl, h1, h2⟩)
        · exact ⟨d, [], post, rfl, h1, by simpa using h2⟩
        · exact ⟨d', d :: p1, p2, rfl, h1, by simpa using h2⟩
      · rintro ⟨d', p1, p2, he, h1, h2⟩
        cases p1 with
        | nil =>
          simp only [List.nil_append, List.cons.injEq] at he
          obtain ⟨rfl, rfl⟩ := he
          exact Or.inl ⟨h1, by simpa using h2⟩
        | cons a p1 =>
          simp only [List.cons_append, List.cons.injEq] at he
          obtain ⟨rfl, rfl⟩ := he
          exact Or.inr ⟨d', p1, p2, rfl, h1, by simpa using h2⟩

/-- `pmA` = some injective assignment of the pattern elements to data elements -/
theorem pmA_iff (σ : Bs) : ∀ (xs ds : List J),
    pmA σ xs ds = true ↔ ∃ ds', Forall₂ (fun x d => pmv σ x d = true) xs ds' ∧ ds' <+~ ds
  | [], ds => by
      rw [pmA_nil]; simp only [true_iff]; exact ⟨[], .nil, nil_subperm⟩
  | x :: xs, ds => by
      rw [pmA_cons, pmPick_iff]
      constructor
      · rintro ⟨d, p1, p2, rfl, h1, h2⟩
        simp only [List.nil_append] at h2
        obtain ⟨ds', hf, hs⟩ := (pmA_iff σ xs _).1 h2
        refine ⟨d :: ds', .cons h1 hf, ?_⟩
        have : (d :: (p1 ++ p2)).Perm (p1 ++ d :: p2) := (List.perm_middle).symm
        exact ((subperm_cons d).2 hs).trans this.subperm
      · rintro ⟨ds', hf, hs⟩
        cases hf with
        | cons h1 hf =>
          rename_i d ds''
          have hd : d ∈ ds := hs.subset List.mem_cons_self
          obtain ⟨p1, p2, rfl⟩ := List.append_of_mem hd
          refine ⟨d, p1, p2, rfl, h1, ?_⟩
          simp only [List.nil_append]
          apply (pmA_iff σ xs _).2
          refine ⟨ds'', hf, ?_⟩
          have : (p1 ++ d :: p2).Perm (d :: (p1 ++ p2)) := List.perm_middle
          exact (subperm_cons d).1 (hs.trans this.subperm)

theorem forall₂_imp_mem {α β : Type} {R S : α → β → Prop} {l1 : List α} {l2 : List β}
    (h : Forall₂ R l1 l2) (himp : ∀ a ∈ l1, ∀ b, R a b → S a b) : Forall₂ S l1 l2 := by
  induction h with
  | nil => exact .nil
  | cons h1 _ ih =>
    exact .cons (himp _ List.mem_cons_self _ h1) (ih (fun a ha => himp a (List.mem_cons_of_mem _ ha)))

theorem pmO_const_iff (σ : Bs) (dm : List (String × J)) : ∀ (kvs rest : List (String × J)),
    (∀ kv ∈ kvs, isVar kv.1 = false) →
    (pmO σ kvs dm rest = true ↔ ∀ kv ∈ kvs, ∃ dv, lookupKey kv.1 dm = some dv ∧ pmv σ kv.2 dv = true)
  | [], rest, _ => by simp [pmO_nil]
  | (k, v) :: r, rest, h => by
      have hk : isVar k = false := h (k, v) List.mem_cons_self
      rw [pmO_cons_const σ hk, Bool.and_eq_true,
        pmO_const_iff σ dm r dm (fun kv hkv => h kv (List.mem_cons_of_mem _ hkv))]
      simp only [List.mem_cons, forall_eq_or_imp]
      apply and_congr_left'
      cases lookupKey k dm <;> simp

/-! ## `pmv` on constants and structured patterns -/
theorem pmStr_const {σ : Bs} {s : String} (hs : isVar s = false) (d : J) :
    pmStr σ s d = true ↔ d = .str s := by
  have hq : (s == "?") = false := by
    rw [beq_eq_false_iff_ne]; rintro rfl; rw [isVar_anon] at hs; cases hs
  unfold pmStr
  simp only [hq, hs, Bool.false_eq_true, if_false]
  (cases d <;> simp); exact eq_comm

theorem pmv_scalar_const {σ : Bs} {x : J} (hx : x.isScalar = true) (hv : isVarElem x = false) (d : J) :
    pmv σ x d = true ↔ d = x := by
  cases x with
  | null => rw [pmv.eq_def]; cases d <;> simp
  | bool a => rw [pmv.eq_def]; (cases d <;> simp); exact eq_comm
  | num a => rw [pmv.eq_def]; (cases d <;> simp); exact eq_comm
  | str s => rw [pmv_str]; exact pmStr_const (by simpa [isVarElem] using hv) d
  | arr xs => simp [J.isScalar] at hx
  | obj kvs => simp [J.isScalar] at hx

theorem pmv_struct {σ : Bs} {x d : J} (hx : x.isScalar = false) (h : pmv σ x d = true) :
    d.isScalar = false := by
  cases x with
  | arr xs => rw [pmv_arr] at h; cases d <;> simp_all [J.isScalar]
  | obj kvs => rw [pmv_obj] at h; cases d <;> simp_all [J.isScalar]
  | _ => simp [J.isScalar] at hx

/-! ## monotonicity of the specification in the bindings (for patterns of the fragment) -/
theorem pmStr_mono {σ σ' : Bs} (he : σ.Ext σ') {s : String} {d : J} (h : pmStr σ s d = true) :
    pmStr σ' s d = true := by
  unfold pmStr at h ⊢
  by_cases hq : (s == "?") = true
  · simp [hq]
  · simp only [hq, Bool.false_eq_true, if_false] at h ⊢
    by_cases hv : isVar s = true
    · simp only [hv, if_true] at h ⊢
      cases hg : σ.get? s with
      | none => simp [hg] at h
      | some b => rw [hg] at h; rw [he _ _ hg]; exact h
    · have hv' : isVar s = false := by simpa using hv
      simp only [hv', Bool.false_eq_true, if_false] at h ⊢; exact h

theorem pmv_const_indep (σ σ' : Bs) {p : J} (hp : match p with | .null | .bool _ | .num _ => True | _ => False)
    (d : J) : pmv σ p d = pmv σ' p d := by
  cases p <;> simp at hp <;> (rw [pmv.eq_def, pmv.eq_def (σ := σ')]; cases d <;> rfl)

theorem pmv_mono {σ σ' : Bs} (he : σ.Ext σ') : ∀ (p : J), patOK p = true → ∀ d, pmv σ p d = true → pmv σ' p d = true := by
  intro p
  induction p using J.ind' with
  | hnull => intro _ d h; rw [← pmv_const_indep σ σ' (by trivial)]; exact h
  | hbool b => intro _ d h; rw [← pmv_const_indep σ σ' (by trivial)]; exact h
  | hnum n => intro _ d h; rw [← pmv_const_indep σ σ' (by trivial)]; exact h
  | hstr s => intro _ d h; rw [pmv_str] at h ⊢; exact pmStr_mono he h
  | harr xs ih =>
    intro hp d h
    rw [pmv_arr] at h ⊢
    cases d with
    | arr ds =>
      simp only at h ⊢
      obtain ⟨ds', hf, hs⟩ := (pmA_iff σ xs ds).1 h
      have hpl : ∀ x ∈ xs, patOK x = true := by
        simp only [patOK, Bool.and_eq_true] at hp; exact patOKL_iff.1 hp.2
      exact (pmA_iff σ' xs ds).2 ⟨ds', forall₂_imp_mem hf (fun x hx d hd => ih x hx (hpl x hx) d hd), hs⟩
    | _ => simp at h
  | hobj kvs ih =>
    intro hp d h
    rw [pmv_obj] at h ⊢
    cases d with
    | obj dm =>
      simp only at h ⊢
      simp only [patOK, Bool.and_eq_true, List.all_eq_true, Bool.not_eq_true'] at hp
      have hpl := patOKO_iff.1 hp.2
      rw [pmO_const_iff σ dm kvs dm hp.1] at h
      rw [pmO_const_iff σ' dm kvs dm hp.1]
      intro kv hkv
      obtain ⟨dv, h1, h2⟩ := h kv hkv
      exact ⟨dv, h1, ih kv hkv (hpl kv hkv) dv h2⟩
    | _ => simp at h

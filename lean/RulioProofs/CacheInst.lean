import RulioModel.Cache
import RulioProofs.Cache
import RulioProofs.CloseReload
import RulioProofs.ComposeMatch

open AM

set_option linter.unusedSimpArgs false
set_option linter.unusedVariables false

/-! # The location cache (C17) instantiated with the concrete State model (C06)

`RulioModel/Cache.lean` is parameterised by an abstract location semantics `LocSem` and the theorems of
`Props/C17.lean` assume `ReloadOK sem` ("reloading from storage is the identity on observations").
Here the semantics is the State model of `RulioModel/State.lean` and `ReloadOK` is *proved* from the reload
theorems of C06.

## modelling choices (both kinds)

* **storage** `StStore`: the stored documents of one location (`docs`, id ↦ JSON object, in storage order) and
  the state of the id generator (`ids`).  `UUID()` is process-global in the Go code; the State model stands in
  for it with the counter `St.fresh`, which `St.reload` carries over.  Keeping it next to the documents is what
  makes "the same request generates the same id on a reloaded instance" meaningful.
* **load** `stLoad k t s`: a new empty instance over the storage (`stSeed`: what `newLocation` builds before
  `State.Load`) followed by the model's `St.reload` at the cache's clock reading (ns → s).
* **exec** = one `ROp` through `St.stepOp` (the op carries the Location's own clock reading); the new storage is
  the instance's `store` written through; the answer is the full result of the operation (`StRes`), not only
  ok / error.  An `St` carries its own copy of the storage map (`St.store`) and writes through it, so `exec` does not
  read its storage argument; for an instance that is faithful to the storage (the relation `R` below, which every
  instance of a sequential history satisfies) this is exactly the per-document write-through of the Go code.
* **created** = a fact is stored under the id `!.createdAt` and carries the property `!createdAt`
  (`locationCreated` = `GetPropString(createdAt)`); **mark** = `markLocationCreated`: nothing when created,
  else `SetProp("", "createdAt", NowString())` = `Add("", {"id":"", "!createdAt":stamp, "deleteWith":[""]})`
  at clock `tm`.  `created` is a pure read: that `Get` purges an expired fact is not modelled for the marker (the
  marker written by `mark` never carries `expires`, and `legalFact` keeps API users from writing that property).
* **cacheTTL** = the numeric `!cacheTTL` property (ms → ns).

## results

* `stSem k tm stamp` — the semantics of kind `k` over all storages and all six operations;
* `stSem_reloadOK_linear` — `ReloadOK (stSem .linear …)`, in full;
* `stSem_indexed_not_reloadOK` — `ReloadOK (stSem .indexed …)` is false (expiry), so the indexed kind is restricted:
* `idxSem q tm stamp hm` — the indexed semantics on the fragment `idxFrag q` (subtypes of instances `IdxGood`, storages
  `IdxStoreOK`, operations `idxFrag`), and `idxSem_reloadOK_partial` (= `stSem_reloadOK_partial`) — `ReloadOK` for it;
  its doc comment lists what is missing for the full statement and why.
(`ReloadOK` is a structure carrying the relation `R`, so these are `def`s, not `theorem`s; their fields are proofs.) -/

/-! ## storage, results -/

/-- the storage of one location: stored documents and the id generator -/
structure StStore where
  docs : List (String × Obj) := []
  ids : Nat := 0

/-- documents as the storage map of the State model holds them -/
def encDocs (d : List (String × Obj)) : List (String × J) := d.map (fun p => (p.1, J.obj p.2))
/-- … and back -/
def decDocs (d : List (String × J)) : List (String × Obj) := d.map (fun p => (p.1, unObj p.2))

theorem decDocs_encDocs (d : List (String × Obj)) : decDocs (encDocs d) = d := by
  unfold decDocs encDocs
  rw [List.map_map]
  conv => rhs; rw [← List.map_id d]
  apply List.map_congr_left
  intro p _; rfl

/-- the storage an instance has written through -/
def St.stored (l : St) : StStore := { docs := decDocs l.store, ids := l.fresh }

/-- a new, empty instance of kind `k` over the storage `s` (before `Load`) -/
def stSeed (k : Kind) (s : StStore) : St := { kind := k, store := encDocs s.docs, fresh := s.ids }

/-- `newLocation`: `Load` from storage at the cache's clock reading `t` (ns) -/
def stLoad (k : Kind) (t : Int) (s : StStore) : St :=
  match (stSeed k s).reload (t / 1000000000) with
  | .ok l => l
  | .error _ => stSeed k s

/-- the answers of the six State operations, in full -/
inductive StRes where
  | add (r : Except LErr String)
  | rem (r : Except LErr Bool)
  | get (r : Except LErr Obj)
  | search (r : Except LErr (List (String × Obj × List Bs)))
  | findRules (r : Except LErr (List (String × Obj)))
  | clear

/-- `St.stepOp` with the full answer -/
def St.stepRes (s : St) : ROp → St × StRes
  | .add g x now => ((s.add g x now).1, .add (s.add g x now).2)
  | .rem id now => ((s.rem id now).1, .rem (s.rem id now).2)
  | .get id now => ((s.get id now).1, .get (s.get id now).2)
  | .search p now => ((s.search p now).1, .search (s.search p now).2)
  | .findRules ev now => ((s.findRules ev now).1, .findRules (s.findRules ev now).2)
  | .clear => (s.clear, .clear)

theorem St.stepRes_fst (s : St) (op : ROp) : (s.stepRes op).1 = (s.stepOp op).1 := by
  cases op <;> rfl

/-- one operation through an instance, storage written through -/
def stExec (l : St) (_s : StStore) (op : ROp) : St × StStore × StRes :=
  ((l.stepRes op).1, (l.stepRes op).1.stored, (l.stepRes op).2)

/-! ## the `createdAt` marker and the `cacheTTL` property -/

def markerId : String := genPropId "" "createdAt"

/-- the fact `SetProp("", "createdAt", stamp)` adds -/
def markerFact (stamp : String) : Obj := propFact "" "createdAt" (.str stamp)

/-- `locationCreated` -/
def stCreated (l : St) : Bool :=
  match amGet l.facts markerId with
  | some f => f.has "!createdAt"
  | none => false

/-- the `!cacheTTL` property (ms) in ns -/
def stCacheTTL (l : St) : Option Int :=
  match amGet l.facts (genPropId "" "cacheTTL") with
  | some f => (match f.get? "!cacheTTL" with | some (.num ms) => some (ms * 1000000) | _ => none)
  | none => none

theorem parseProp_marker (stamp : String) : parseProp (markerFact stamp) = .ok (some ("", "createdAt", .str stamp)) := by
  have h1 : idProperty "id" = false := by simp [idProperty]
  have h2 : idProperty "!createdAt" = true := by simp [idProperty]
  have h3 : idProperty "deleteWith" = false := by simp [idProperty]
  have h4 : ("!createdAt".drop 1).copy = "createdAt" := by decide
  simp [parseProp, markerFact, propFact, List.filter, h1, h2, h3, h4, Obj.get?, lookupKey]

theorem prepareFact_marker (fresh stamp : String) (now : Int) :
    prepareFact "" fresh (markerFact stamp) now = .ok (markerId, markerFact stamp, markerFact stamp) := by
  have hs : setExpires (markerFact stamp) now = .ok (markerFact stamp, false, 0) :=
    setExpires_none now (by simp [markerFact, propFact, Obj.get?, lookupKey])
      (by simp [markerFact, propFact, Obj.get?, lookupKey])
  unfold prepareFact
  simp only [genId, parseProp_marker, bind, Except.bind, pure, Except.pure, hs]
  simp [markerFact, propFact, Obj.get?, lookupKey, markerId]

theorem markerFact_has (stamp : String) : (markerFact stamp).has "!createdAt" = true := by
  simp [markerFact, propFact, Obj.has, lookupKey]

/-! ## the State of kind `k` as a location semantics (all operations, all storages) -/

/-- `Add` of the implementation of kind `k` -/
def stAddK (k : Kind) (l : St) (g : String) (x : Obj) (now : Int) : St × Except LErr String :=
  match k with
  | .linear => l.lAdd g x now
  | .indexed => l.iAdd g x now

/-- `markLocationCreated` through an instance of kind `k` at clock `tm` -/
def stMark (k : Kind) (tm : Int) (stamp : String) (l : St) (s : StStore) : St × StStore :=
  if stCreated l then (l, s)
  else ((stAddK k l "" (markerFact stamp) tm).1, (stAddK k l "" (markerFact stamp) tm).1.stored)

/-- **the State of kind `k` as a location semantics**: every storage, every `ROp`, full answers.
`tm` / `stamp`: the clock reading (s) and its rendering used by `markLocationCreated`. -/
def stSem (k : Kind) (tm : Int) (stamp : String) : LocSem where
  L := St
  S := StStore
  Op := ROp
  Res := StRes
  emptyS := {}
  load := stLoad k
  exec := stExec
  created := stCreated
  mark := stMark k tm stamp
  cacheTTL := stCacheTTL

/-! ## the linear kind: full `ReloadOK` -/

/-- the linear instance that is faithful to the storage `s`: its facts are the stored documents, in order -/
def mkLin (s : StStore) : St := { kind := .linear, facts := s.docs, store := encDocs s.docs, fresh := s.ids }

theorem mkLin_storeEq (s : StStore) : StoreEq (mkLin s) := rfl
theorem mkLin_linIdx (s : StStore) : LinIdx (mkLin s) := ⟨rfl, rfl, rfl⟩

theorem eq_mkLin {l : St} (he : StoreEq l) (hl : LinIdx l) : l = mkLin l.stored := by
  obtain ⟨hk, hri, hti⟩ := hl
  cases l
  simp only at hk hri hti
  subst hk hri hti
  unfold StoreEq at he
  simp only at he
  subst he
  simp only [mkLin, St.stored]
  have := decDocs_encDocs
  simp only [encDocs] at this
  simp [encDocs, this]

theorem stLoad_linear (t : Int) (s : StStore) : stLoad .linear t s = mkLin s := by
  have h : (stSeed .linear s).reload (t / 1000000000) = (mkLin s).reload (t / 1000000000) := rfl
  unfold stLoad
  rw [h, reload_linear_id (mkLin_storeEq s) (mkLin_linIdx s)]

theorem stepRes_mkLin (s : StStore) (op : ROp) :
    ((mkLin s).stepRes op).1 = mkLin ((mkLin s).stepRes op).1.stored := by
  rw [St.stepRes_fst]
  exact eq_mkLin (St.stepOp_storeEq (mkLin_storeEq s) op) (St.stepOp_linIdx (mkLin_linIdx s) op)

theorem lAdd_mkLin (s : StStore) (g : String) (x : Obj) (now : Int) :
    ((mkLin s).lAdd g x now).1 = mkLin ((mkLin s).lAdd g x now).1.stored := by
  have h := stepRes_mkLin s (.add g x now)
  exact h

theorem stCreated_lAdd_marker (l : St) (stamp : String) (tm : Int) :
    stCreated (l.lAdd "" (markerFact stamp) tm).1 = true := by
  have hf : (l.lAdd "" (markerFact stamp) tm).1.facts = amSet l.facts markerId (markerFact stamp) := by
    unfold St.lAdd
    rw [prepareFact_marker]
    simp only
    split <;> rfl
  unfold stCreated
  rw [hf, amGet_amSet_self]
  exact markerFact_has stamp

/-- **`ReloadOK` for the linear State, in full**: every storage, every operation (`Add` with given or generated id,
`Rem` with its cascade, `Get`, `Search`, `FindRules`, `Clear`, expiry-triggered purges included), full answers.
`R l s`: `l` is the linear instance whose facts are exactly the stored documents of `s` (and whose id counter is the
generator state of `s`) — by `reload_linear_identity` (C06) that is what `Load` builds and what every operation
preserves (`St.stepOp_storeEq`, `St.stepOp_linIdx`). -/
def stSem_reloadOK_linear (tm : Int) (stamp : String) : ReloadOK (stSem .linear tm stamp) where
  R := fun l s => l = mkLin s
  load_R := fun t s => stLoad_linear t s
  exec_R := by
    intro l s op h
    subst h
    exact stepRes_mkLin s op
  exec_eq := by intro l l' s op h h'; rw [h, h']
  created_eq := by intro l l' s h h'; rw [h, h']
  mark_R := by
    intro l s h
    subst h
    show (stMark .linear tm stamp (mkLin s) s).1 = mkLin (stMark .linear tm stamp (mkLin s) s).2
    unfold stMark
    split
    · rfl
    · exact lAdd_mkLin s _ _ _
  mark_eq := by intro l l' s h h'; rw [h, h']
  mark_created := by
    intro l s
    show stCreated (stMark .linear tm stamp l s).1 = true
    unfold stMark
    split
    · assumption
    · exact stCreated_lAdd_marker l stamp tm

/-! ## the indexed kind: `ReloadOK` on the fragment that the reload theorems of C06 cover -/

/-- the caller's fact sets no expiry (`ttl` / `expires`) -/
def noExpiryB (x : Obj) : Bool := (x.get? "ttl").isNone && (x.get? "expires").isNone

/-- **the operations of the fragment.**  `q` = "queries allowed": with `q` the history may `Search`
(patterns of the C05 matcher fragment `patOK`, linear) and every added fact must then be ground data (`dataOK`);
without `q` added facts are unrestricted in that respect (rules with variables in their `when` …) and there is no `Search`.
* `Add`: no `ttl` / `expires`, and if the fact is a rule its pattern can leave the pattern index
  (`unindexErr`: a decidable function of the fact alone);
* `Rem`: an id that does not look like a variable;  `Get`, `Clear`: any;  `FindRules`: not in the fragment. -/
def idxFrag (q : Bool) : ROp → Bool
  | .add _ x _ => noExpiryB x && !unindexErr "" x && (!q || dataOK (.obj x))
  | .rem id _ => !isVar id
  | .get _ _ => true
  | .search p _ => q && patOK (.obj p) && linearPattern p
  | .findRules _ _ => false
  | .clear => true

/-- no stored fact carries an expiry -/
def NoExp (l : St) : Prop := ∀ e, e ∈ l.facts → e.2.get? "expires" = none

theorem NoExp.noneExpired {l : St} (h : NoExp l) (now : Int) : NoneExpired l now := by
  intro e he
  unfold checkExpiration
  rw [h e he]

/-- the invariant of the instances of the fragment: the C06 invariants of indexed histories (`IdxInv`: storage is
the list image of memory, facts canonical, re-indexable, unique ids; `IdxInvs`: `WF` and the rule-index invariant),
no expiry, every stored rule can leave the pattern index, and (with queries) ground data only -/
structure IdxGood (q : Bool) (l : St) : Prop where
  inv : IdxInv l
  invs : IdxInvs l
  noexp : NoExp l
  unidx : UnindexOK l
  data : q = true → FactsOK l

theorem unindexErr_id (id id' : String) (f : Obj) : unindexErr id f = unindexErr id' f := by
  unfold unindexErr
  cases extractRule f false with
  | error e => rfl
  | ok rf =>
    obtain ⟨r, f'⟩ := rf
    cases r with
    | none => rfl
    | some r =>
      simp only
      cases getRulePattern r with
      | error e => rfl
      | ok po =>
        cases po with
        | none => rfl
        | some pat =>
          simp only [piRem]
          rw [PI.mod_err_indep _ PI.empty PI.empty _ id id' false false]

theorem indexedForm_noexp {x : Obj} (h : x.get? "expires" = none) : indexedForm x = x := by
  unfold indexedForm extractRule
  cases hr : x.get? "rule" with
  | none => rfl
  | some v =>
    cases v with
    | obj r => simp only [h]
    | _ => rfl

theorem prepareFact_noexp {g fr : String} {x : Obj} {now : Int} {id : String} {m x' : Obj}
    (hx : noExpiryB x = true) (hp : prepareFact g fr x now = .ok (id, m, x')) : m = x := by
  obtain ⟨_, he, e, hs, _⟩ := prepareFact_parts hp
  simp only [noExpiryB, Bool.and_eq_true, Option.isNone_iff_eq_none] at hx
  rw [setExpires_none now hx.1 hx.2] at hs
  cases hs
  rfl

/-- a property of the stored facts that every added fact of the history has under any id survives every step -/
theorem factsAll_stepOp {P : String → Obj → Prop} {l : St} (h : ∀ e, e ∈ l.facts → P e.1 e.2) (op : ROp)
    (hadd : ∀ g x now, op = .add g x now → noExpiryB x = true ∧ ∀ id, P id x) :
    ∀ e, e ∈ (l.stepOp op).1.facts → P e.1 e.2 := by
  cases op with
  | add g x now =>
    obtain ⟨hx, hP⟩ := hadd g x now rfl
    rw [stepOp_fst_add]
    cases hr : l.add g x now with
    | mk s1 r =>
      have sp := St.add_spec hr
      cases r with
      | error e => simp only at sp; intro e he; rw [sp.1] at he; exact h e he
      | ok id =>
        simp only at sp
        obtain ⟨m, x', hp, hf, _, _⟩ := sp
        have hm := prepareFact_noexp hx hp
        subst hm
        have hmem : memForm l.kind m = m := by
          cases l.kind with
          | linear => rfl
          | indexed =>
            simp only [noExpiryB, Bool.and_eq_true, Option.isNone_iff_eq_none] at hx
            exact indexedForm_noexp hx.2
        intro e he
        rw [hf, hmem] at he
        rcases mem_amSet_r he with rfl | he
        · exact hP id
        · exact h e he
  | rem id now => rw [stepOp_fst_rem]; intro e he; exact h e ((rem_le l id now).facts.subset he)
  | get id now => rw [stepOp_fst_get]; intro e he; exact h e ((St.get_le l id now).facts.subset he)
  | search p now => rw [stepOp_fst_search]; intro e he; exact h e ((St.search_le l p now).facts.subset he)
  | findRules ev now =>
    rw [stepOp_fst_findRules]; intro e he; exact h e ((St.findRules_le l ev now).facts.subset he)
  | clear => intro e he; cases he

theorem IdxGood.stepOp {q : Bool} {l : St} (h : IdxGood q l) {op : ROp} (hop : idxFrag q op = true) :
    IdxGood q (l.stepOp op).1 := by
  have hadd : ∀ g x now, op = .add g x now →
      noExpiryB x = true ∧ unindexErr "" x = false ∧ (q = true → dataOK (.obj x) = true) := by
    intro g x now ho
    subst ho
    simp only [idxFrag, Bool.and_eq_true, Bool.not_eq_true', Bool.or_eq_true] at hop
    refine ⟨hop.1.1, hop.1.2, fun hq => ?_⟩
    rcases hop.2 with h1 | h1
    · rw [hq] at h1; cases h1
    · exact h1
  refine ⟨h.inv.stepOp op, h.invs.stepOp op, ?_, ?_, fun hq => ?_⟩
  · refine factsAll_stepOp (P := fun _ f => f.get? "expires" = none) h.noexp op (fun g x now ho => ?_)
    have hx := (hadd g x now ho).1
    refine ⟨hx, fun _ => ?_⟩
    simp only [noExpiryB, Bool.and_eq_true, Option.isNone_iff_eq_none] at hx
    exact hx.2
  · refine factsAll_stepOp (P := fun id f => unindexErr id f = false) h.unidx op (fun g x now ho => ?_)
    exact ⟨(hadd g x now ho).1, fun id => by rw [unindexErr_id id ""]; exact (hadd g x now ho).2.1⟩
  · refine factsAll_stepOp (P := fun _ f => dataOK (.obj f) = true) (h.data hq) op (fun g x now ho => ?_)
    exact ⟨(hadd g x now ho).1, fun _ => (hadd g x now ho).2.2 hq⟩

theorem idxGood_empty (q : Bool) : IdxGood q (St.empty .indexed) :=
  { inv := IdxInv.empty, invs := IdxInvs.empty, noexp := fun e he => (nomatch he), unidx := fun e he => (nomatch he),
    data := fun _ e he => (nomatch he) }

/-- the invariant speaks about memory and storage only, plus the index invariants -/
theorem IdxGood.of_same {q : Bool} {l t : St} (h : IdxGood q l) (hf : t.facts = l.facts) (hs : t.store = l.store)
    (hi : IdxInvs t) : IdxGood q t := by
  refine ⟨⟨hi.kind, ?_, ?_, ?_, ?_⟩, hi, ?_, ?_, fun hq => ?_⟩
  · unfold StoreEq; rw [hs, hf]; exact h.inv.storeEq
  · intro p hp; rw [hf] at hp; exact h.inv.canon p hp
  · intro p hp; rw [hf] at hp; exact h.inv.indexable p hp
  · rw [hf]; exact h.inv.nodup
  · intro e he; rw [hf] at he; exact h.noexp e he
  · intro e he; rw [hf] at he; exact h.unidx e he
  · intro e he; rw [hf] at he; exact h.data hq e he

/-- the operations of the fragment are inside `ROp.okFor` (the fragment of `reload_in_step`) on such an instance -/
theorem IdxGood.okFor {q : Bool} {l : St} (h : IdxGood q l) {op : ROp} (hop : idxFrag q op = true) : op.okFor l := by
  cases op with
  | add g x now => trivial
  | rem id now =>
    simp only [idxFrag, Bool.not_eq_true'] at hop
    exact ⟨h.noexp.noneExpired now, hop, h.unidx⟩
  | get id now =>
    intro f hf
    exact h.noexp.noneExpired now (id, f) (amGet_mem hf)
  | search p now => exact h.noexp.noneExpired now
  | findRules ev now => exact h.noexp.noneExpired now
  | clear => trivial

theorem stored_docs {l : St} (he : StoreEq l) : l.stored.docs = l.facts := by
  unfold St.stored
  simp only
  rw [he]
  exact decDocs_encDocs l.facts

theorem enc_stored {l : St} (he : StoreEq l) : encDocs l.stored.docs = l.store := by
  rw [stored_docs he]; exact he.symm

theorem reload_congr {a b : St} (hk : a.kind = b.kind) (hs : a.store = b.store) (hf : a.fresh = b.fresh) (now : Int) :
    a.reload now = b.reload now := by
  unfold St.reload
  rw [hk, hs, hf]

/-- the storage of the fragment: what some instance of the fragment has written -/
def IdxStoreOK (q : Bool) (s : StStore) : Prop := ∃ l : St, IdxGood q l ∧ l.stored = s

/-- `Load` of such a storage, at any time, succeeds, is an instance of the fragment and is faithful to the storage
(`reload_same` of C06: nothing is expired, so nothing is dropped) -/
theorem stLoad_good {q : Bool} (t : Int) {s : StStore} (hs : IdxStoreOK q s) :
    IdxGood q (stLoad .indexed t s) ∧ (stLoad .indexed t s).stored = s := by
  obtain ⟨l0, hg, rfl⟩ := hs
  obtain ⟨t', hr, hf, hst, hfr, hk, hi⟩ := reload_same hg.inv (hg.noexp.noneExpired (t / 1000000000))
  have hc : (stSeed .indexed l0.stored).reload (t / 1000000000) = l0.reload (t / 1000000000) :=
    reload_congr (a := stSeed .indexed l0.stored) (b := l0) hg.inv.kind.symm (enc_stored hg.inv.storeEq) rfl _
  have hl : stLoad .indexed t l0.stored = t' := by
    unfold stLoad; rw [hc, hr]
  rw [hl]
  refine ⟨hg.of_same hf hst hi, ?_⟩
  unfold St.stored
  rw [hst, hfr]

/-- two instances of the fragment over the same storage are in step in the sense of C06 (`ReloadSim`) -/
theorem reloadSim_of_stored {q : Bool} {l l' : St} (h : IdxGood q l) (h' : IdxGood q l') (hs : l'.stored = l.stored) :
    ReloadSim l l' := by
  refine ReloadSim.of_parts h.invs h'.invs h.inv.storeEq h'.inv.storeEq ?_ ?_
  · rw [← stored_docs h.inv.storeEq, ← stored_docs h'.inv.storeEq, hs]
  · have := congrArg StStore.ids hs
    exact this

theorem ReloadSim.stored_eq {l l' : St} (h : ReloadSim l l') : l'.stored = l.stored := by
  unfold St.stored
  rw [h.mem.store, h.mem.fresh]

/-- search answers as multisets of (id, bindings): the candidate order of the term index is not an observation -/
def SearchQ : Type := Quot (fun a b : List (String × List Bs) => a.Perm b)

inductive StResQ where
  | add (r : Except LErr String)
  | rem (r : Except LErr Bool)
  | get (r : Except LErr Obj)
  | search (r : Except LErr SearchQ)
  | findRules (r : Except LErr (List (String × Obj)))
  | clear

def StRes.quot : StRes → StResQ
  | .add r => .add r
  | .rem r => .rem r
  | .get r => .get r
  | .search r => .search (r.map (fun R => Quot.mk _ (projRes R)))
  | .findRules r => .findRules r
  | .clear => .clear

/-- **equal answers**: an operation of the fragment is answered identically (search: the same multiset of matches)
by two instances in step — `in_step_observations` of C06 with its fragment hypotheses discharged statically
(`matcherSoundOn_of_frag`, `specSearch_total`, `patOK_termOK`) -/
theorem stepRes_quot_congr {q : Bool} {l l' : St} (h : IdxGood q l) (sim : ReloadSim l l') {op : ROp}
    (hop : idxFrag q op = true) : (l.stepRes op).2.quot = (l'.stepRes op).2.quot := by
  have hok := h.okFor hop
  cases op with
  | add g x now =>
    show StResQ.add (l.add g x now).2 = StResQ.add (l'.add g x now).2
    rw [sim.add_result g x now]
  | rem id now =>
    show StResQ.rem (l.rem id now).2 = StResQ.rem (l'.rem id now).2
    rw [(sim.rem_result hok).1]
  | get id now =>
    obtain ⟨r, h1, h2⟩ := get_quiet_congr sim.mem.facts id now hok
    show StResQ.get (l.get id now).2 = StResQ.get (l'.get id now).2
    rw [h1, h2]
  | search p now =>
    simp only [idxFrag, Bool.and_eq_true] at hop
    obtain ⟨⟨hq, hp⟩, hlin⟩ := hop
    have hF : FactsOKFor l.facts p := FactsOK.for (h.data hq) p
    obtain ⟨R, hR⟩ := specSearch_total hp hF now
    obtain ⟨Rs, Rt, h1, h2, h3, h4⟩ := search_perm_congr sim.live sim.re sim.mem.facts hok (patOK_termOK hp)
      (matcherSoundOn_of_frag hp hlin hF) hR
    show StResQ.search ((l.search p now).2.map _) = StResQ.search ((l'.search p now).2.map _)
    rw [h1, h2]
    simp only [Except.map]
    congr 2
    exact Quot.sound (h3.trans h4.symm)
  | findRules ev now => simp [idxFrag] at hop
  | clear => rfl

/-! ### the marker through an indexed instance -/

theorem unindexPrevious_ok {s : St} (hun : UnindexOK s) (id : String) : ∃ s2 rep, s.unindexPrevious id = .ok (s2, rep) := by
  unfold St.unindexPrevious
  cases hg : amGet s.facts id with
  | none => exact ⟨s, none, rfl⟩
  | some prev =>
    have hu := hun (id, prev) (amGet_mem hg)
    obtain ⟨s1, h1⟩ := unindexOf_ok_of (s := s) hu
    simp only [St.unindexOf] at h1
    simp only
    cases he : extractRule prev false with
    | error e => exact ⟨s, none, rfl⟩
    | ok rf =>
      obtain ⟨r, f'⟩ := rf
      rw [he] at h1
      cases r with
      | none => exact ⟨s, none, rfl⟩
      | some old =>
        simp only at h1 ⊢
        rw [h1]
        exact ⟨s1, some old, rfl⟩

theorem extractRule_marker (stamp : String) : extractRule (markerFact stamp) false = .ok (none, markerFact stamp) := by
  simp [extractRule, markerFact, propFact, Obj.get?, lookupKey]

theorem iadd_marker_facts {l : St} (hun : UnindexOK l) (stamp : String) (tm : Int) :
    ∃ F, (l.iadd "" (markerFact stamp) tm).1.facts = amSet F markerId (markerFact stamp) := by
  have hun' : UnindexOK (iaddFresh l "" markerId) := by
    intro e he; rw [(iaddFresh_same l "" markerId).1] at he; exact hun e he
  obtain ⟨s2, rep, h2⟩ := unindexPrevious_ok hun' markerId
  rw [St.iadd_eq, prepareFact_marker]
  simp only [extractRule_marker, h2, iaddIndex]
  exact ⟨_, rfl⟩

theorem iAdd_facts (l : St) (g : String) (x : Obj) (now : Int) : (l.iAdd g x now).1.facts = (l.iadd g x now).1.facts := by
  unfold St.iAdd
  split <;> simp_all

theorem stCreated_add_marker {q : Bool} {l : St} (h : IdxGood q l) (stamp : String) (tm : Int) :
    stCreated (l.add "" (markerFact stamp) tm).1 = true := by
  obtain ⟨F, hF⟩ := iadd_marker_facts h.unidx stamp tm
  have hf : (l.add "" (markerFact stamp) tm).1.facts = amSet F markerId (markerFact stamp) := by
    unfold St.add
    rw [h.inv.kind]
    simp only
    rw [iAdd_facts, hF]
  unfold stCreated
  rw [hf, amGet_amSet_self]
  exact markerFact_has stamp

theorem stCreated_congr {l l' : St} (hf : l'.facts = l.facts) : stCreated l' = stCreated l := by
  unfold stCreated; rw [hf]

/-! ### the semantics -/

abbrev IdxL (q : Bool) : Type := { l : St // IdxGood q l }
abbrev IdxS (q : Bool) : Type := { s : StStore // IdxStoreOK q s }
abbrev IdxOp (q : Bool) : Type := { op : ROp // idxFrag q op = true }

/-- the storage an instance of the fragment has written through -/
def IdxL.stored {q : Bool} (l : IdxL q) : IdxS q := ⟨l.1.stored, l.1, l.2, rfl⟩

/-- one operation of the fragment through an instance of the fragment -/
def idxStep {q : Bool} (l : IdxL q) (op : IdxOp q) : IdxL q :=
  ⟨(l.1.stepRes op.1).1, by rw [St.stepRes_fst]; exact l.2.stepOp op.2⟩

def idxExec {q : Bool} (l : IdxL q) (_s : IdxS q) (op : IdxOp q) : IdxL q × IdxS q × StResQ :=
  (idxStep l op, (idxStep l op).stored, (l.1.stepRes op.1).2.quot)

/-- `markLocationCreated`; `mop` is the `Add` of the marker fact -/
def idxMark {q : Bool} (mop : IdxOp q) (l : IdxL q) (s : IdxS q) : IdxL q × IdxS q :=
  if stCreated l.1 then (l, s) else (idxStep l mop, (idxStep l mop).stored)

/-- **the indexed State as a location semantics, restricted to the fragment `idxFrag q`.**
Instances are the indexed states satisfying `IdxGood q`, storages are what such instances write, operations are
the `ROp`s inside `idxFrag q` (all three by subtyping: the operations of the model itself, unchanged).
`hm`: the `Add` of the marker fact is inside the fragment (decidable; it only asks that `stamp` does not look like a
variable when `q` is on). -/
def idxSem (q : Bool) (tm : Int) (stamp : String) (hm : idxFrag q (.add "" (markerFact stamp) tm) = true) : LocSem where
  L := IdxL q
  S := IdxS q
  Op := IdxOp q
  Res := StResQ
  emptyS := ⟨{}, St.empty .indexed, idxGood_empty q, rfl⟩
  load := fun t s => ⟨stLoad .indexed t s.1, (stLoad_good t s.2).1⟩
  exec := idxExec
  created := fun l => stCreated l.1
  mark := idxMark ⟨.add "" (markerFact stamp) tm, hm⟩
  cacheTTL := fun l => stCacheTTL l.1

theorem idxStep_stored_congr {q : Bool} {l l' : IdxL q} (hs : l'.1.stored = l.1.stored) (op : IdxOp q) :
    (idxStep l' op).stored = (idxStep l op).stored := by
  have sim := reloadSim_of_stored l.2 l'.2 hs
  have sim' := sim.stepOp (l.2.okFor op.2)
  apply Subtype.ext
  show (l'.1.stepRes op.1).1.stored = (l.1.stepRes op.1).1.stored
  rw [St.stepRes_fst, St.stepRes_fst]
  exact sim'.stored_eq

/-- **`ReloadOK` for the indexed State on the fragment (partial).**
`R l s`: the storage `s` is exactly what the instance `l` has written (`l.store`, `l.fresh`); `l` itself satisfies
`IdxGood` by its type.  Two such instances over one storage are in step in the sense of C06 (`ReloadSim`: same
memory, storage and id counter, both satisfy the index invariants; their term and rule indexes differ).
Used from C06: `reload_same` (load), `ReloadSim.stepOp` (= the step of `reload_in_step`), and the equal answers of
`in_step_observations` (`ReloadSim.add_result`, `ReloadSim.rem_result`, `get_quiet_congr`, `search_perm_congr`).

**What is missing for the full statement** (`ReloadOK` for *all* `ROp`s and all storages) and why:
1. *expiry.*  `ReloadOK.load_R` / `exec_eq` quantify over all load times and all operation clocks without any
   ordering.  An indexed `Load` at time `t` drops the documents expired at `t` (and erases them from storage,
   `reload_facts_indexed`), a live instance purges them lazily, only when a search candidate list or a `Get` touches
   them, and cascades visit the term-index lists in an order that differs between a live and a rebuilt index — so two
   instances over one storage can answer a `Get` differently (loaded before / after the expiry) and leave different
   storages.  C06 proves the in-step property only while nothing is expired (`reload_in_step`: `NoneExpired`); the
   static way to guarantee that for every clock is "no stored fact carries an expiry": `noExpiryB` on every `Add`.
2. *`Rem` when a stored rule cannot leave the pattern index* (`UnindexOK` of `ROp.okFor`): the cascade may abort at
   an order-dependent point; excluded statically by `unindexErr "" x = false` on every `Add`.
3. *`Search` outside the C02/C05 fragment*: the live term index keeps stale ids, so the candidate lists differ; the
   answers are proved equal only as multisets (`SearchQ`), for `patOK` linear patterns over ground stored facts.
4. *`FindRules`*: `in_step_observations` gives only "every matching rule is among the candidates of both indexes",
   not equal answers (stale rule-index entries are not excluded by `StIdx`), so it is not in the fragment.
5. storages not written by the State itself (documents on which `Load` fails) are outside `IdxS`. -/
def idxSem_reloadOK_partial (q : Bool) (tm : Int) (stamp : String)
    (hm : idxFrag q (.add "" (markerFact stamp) tm) = true) : ReloadOK (idxSem q tm stamp hm) where
  R := fun l s => l.1.stored = s.1
  load_R := fun t s => (stLoad_good t s.2).2
  exec_R := fun _ _ _ _ => rfl
  exec_eq := by
    intro l l' s op h h'
    have hs : l'.1.stored = l.1.stored := h'.trans h.symm
    show ((idxStep l op).stored, (l.1.stepRes op.1).2.quot) = ((idxStep l' op).stored, (l'.1.stepRes op.1).2.quot)
    rw [idxStep_stored_congr hs op, stepRes_quot_congr l.2 (reloadSim_of_stored l.2 l'.2 hs) op.2]
  created_eq := by
    intro l l' s h h'
    have hs : l'.1.stored = l.1.stored := h'.trans h.symm
    exact (stCreated_congr (reloadSim_of_stored l.2 l'.2 hs).mem.facts).symm
  mark_R := by
    intro l s h
    show (idxMark _ l s).1.1.stored = (idxMark _ l s).2.1
    unfold idxMark
    split
    · exact h
    · rfl
  mark_eq := by
    intro l l' s h h'
    have hs : l'.1.stored = l.1.stored := h'.trans h.symm
    have hc : stCreated l'.1 = stCreated l.1 := stCreated_congr (reloadSim_of_stored l.2 l'.2 hs).mem.facts
    show (idxMark _ l s).2 = (idxMark _ l' s).2
    unfold idxMark
    rw [hc]
    split
    · rfl
    · exact (idxStep_stored_congr hs _).symm
  mark_created := by
    intro l s
    show stCreated (idxMark _ l s).1.1 = true
    unfold idxMark
    split
    · assumption
    · exact stCreated_add_marker l.2 stamp tm

/-- the name under which the partial result is referred to from `Props/C17.lean` and DESIGN.md -/
def stSem_reloadOK_partial := @idxSem_reloadOK_partial

/-! ## why the indexed kind is restricted: `ReloadOK` is false for the unrestricted indexed semantics -/

/-- a storage holding one document that expires at time 5 -/
def expiringStore : StStore := { docs := [("x", [("a", .num 1), ("expires", .num 5)])] }

/-- the instance loaded at 0 s keeps `x` in memory and storage until something touches it, the instance loaded at
10 s has dropped it (and erased it from its storage): after the same `Get "y"` at time 10 they write different
storages -/
theorem indexed_expiry_witness :
    (stExec (stLoad .indexed 0 expiringStore) expiringStore (.get "y" 10)).2.1.docs.length = 1 ∧
    (stExec (stLoad .indexed 10000000000 expiringStore) expiringStore (.get "y" 10)).2.1.docs.length = 0 := by
  decide +kernel

/-- **no relation `R` makes `ReloadOK` true for the unrestricted indexed State**: with expiring documents, two
instances loaded from one storage at different times differ in what they later write through
(`indexed_expiry_witness`; clocks are even monotone there), which `exec_eq` forbids. -/
theorem stSem_indexed_not_reloadOK (tm : Int) (stamp : String) : ReloadOK (stSem .indexed tm stamp) → False := by
  intro h
  have e := h.exec_eq _ _ expiringStore (.get "y" 10) (h.load_R 0 expiringStore) (h.load_R 10000000000 expiringStore)
  have e2 := congrArg (fun x : StStore × StRes => x.1.docs.length) e
  have w := indexed_expiry_witness
  change (stExec (stLoad .indexed 0 expiringStore) expiringStore (.get "y" 10)).2.1.docs.length =
    (stExec (stLoad .indexed 10000000000 expiringStore) expiringStore (.get "y" 10)).2.1.docs.length at e2
  rw [w.1, w.2] at e2
  cases e2

/-! ## operations that keep the `createdAt` marker (for `ReqKeeps`: overlapping requests with existence checking on) -/

theorem markerId_eq : markerId = "!.createdAt" := by decide

/-- an `Add` whose id cannot be the marker's id keeps the marker, on any instance of either kind -/
theorem stCreated_add_keep {l : St} {g : String} {x : Obj} {now : Int}
    (hg : ∀ fr id, genId x g fr = .ok id → id ≠ markerId) (hc : stCreated l = true) :
    stCreated (l.add g x now).1 = true := by
  cases hr : l.add g x now with
  | mk s1 r =>
    have sp := St.add_spec hr
    cases r with
    | error e => simp only at sp; rw [stCreated_congr sp.1]; exact hc
    | ok id =>
      simp only at sp
      obtain ⟨m, x', hp, hf, _, _⟩ := sp
      have hne := hg _ _ (prepareFact_parts hp).1
      unfold stCreated at hc ⊢
      simp only
      rw [hf, amGet_amSet_ne _ _ (Ne.symm hne)]
      exact hc

theorem keepsMarker_add_st (k : Kind) (tm : Int) (stamp : String) (g : String) (x : Obj) (now : Int)
    (hg : ∀ fr id, genId x g fr = .ok id → id ≠ markerId) : KeepsMarker (stSem k tm stamp) (.add g x now) :=
  fun _ _ hc => stCreated_add_keep hg hc

theorem keepsMarker_add_idx (q : Bool) (tm : Int) (stamp : String) (hm : idxFrag q (.add "" (markerFact stamp) tm) = true)
    (g : String) (x : Obj) (now : Int) (hop : idxFrag q (.add g x now) = true)
    (hg : ∀ fr id, genId x g fr = .ok id → id ≠ markerId) :
    KeepsMarker (idxSem q tm stamp hm) ⟨.add g x now, hop⟩ :=
  fun _ _ hc => stCreated_add_keep hg hc

/-- a non-property fact added under a given, non-variable id keeps that id -/
theorem genId_given {x : Obj} {g fr id : String} (hx : parseProp x = .ok none) (hgn : g ≠ "")
    (h : genId x g fr = .ok id) : id = g := by
  unfold genId at h
  simp only [hx, bind, Except.bind, pure, Except.pure] at h
  have : (g == "") = false := by simpa using hgn
  simp only [this, Bool.false_eq_true, if_false] at h
  split at h
  · cases h
  · cases h; rfl

/-! ## the semantics of the System's methods: `ClearLocation` keeps the marker

`System.ClearLocation` reads the `createdAt` property, calls `Location.Clear` and sets the property again when it was
there (`keepMark` of `RulioModel/Cache.lean`); every other method is the State's own operation. -/

def ROp.isClear : ROp → Bool
  | .clear => true
  | _ => false

/-- **the State of kind `k` under the System's API**: `stSem k`, with `Clear` carried out the way `ClearLocation` does it -/
def sysSem (k : Kind) (tm : Int) (stamp : String) : LocSem := keepMark (stSem k tm stamp) ROp.isClear

/-- reloading stays the identity on observations (linear kind, in full) -/
def sysSem_reloadOK_linear (tm : Int) (stamp : String) : ReloadOK (sysSem .linear tm stamp) :=
  keepMark_reloadOK (stSem_reloadOK_linear tm stamp) ROp.isClear

/-- **the indexed State under the System's API, restricted to the fragment `idxFrag q`** -/
def idxSysSem (q : Bool) (tm : Int) (stamp : String) (hm : idxFrag q (.add "" (markerFact stamp) tm) = true) : LocSem :=
  keepMark (idxSem q tm stamp hm) (fun op => ROp.isClear op.1)

def idxSysSem_reloadOK_partial (q : Bool) (tm : Int) (stamp : String)
    (hm : idxFrag q (.add "" (markerFact stamp) tm) = true) : ReloadOK (idxSysSem q tm stamp hm) :=
  keepMark_reloadOK (idxSem_reloadOK_partial q tm stamp hm) _

/-- `ClearLocation` never erases the marker (linear kind) -/
theorem sysSem_clear_keeps (tm : Int) (stamp : String) : KeepsMarker (sysSem .linear tm stamp) .clear :=
  keepMark_keeps (stSem .linear tm stamp) ROp.isClear (stSem_reloadOK_linear tm stamp).mark_created .clear rfl

/-- `ClearLocation` never erases the marker (indexed kind, fragment) -/
theorem idxSysSem_clear_keeps (q : Bool) (tm : Int) (stamp : String) (hm : idxFrag q (.add "" (markerFact stamp) tm) = true)
    (hop : idxFrag q .clear = true) : KeepsMarker (idxSysSem q tm stamp hm) ⟨.clear, hop⟩ :=
  keepMark_keeps (idxSem q tm stamp hm) (fun op => ROp.isClear op.1) (idxSem_reloadOK_partial q tm stamp hm).mark_created
    ⟨.clear, hop⟩ rfl

/-! ## example histories (two locations; create, add, overwrite, search, rule lookup, remove, get, clear) -/

def exStamp : String := "2026-01-01T00:00:00Z"

/-- a compact code of an answer, to display the results of the examples -/
def StRes.code : StRes → Nat
  | .add (.ok _) => 1
  | .rem (.ok false) => 2
  | .rem (.ok true) => 3
  | .get (.ok _) => 4
  | .search (.ok R) => 10 + R.length
  | .findRules (.ok R) => 20 + R.length
  | .clear => 5
  | _ => 0

def stOutCode {k : Kind} {tm : Int} {stamp : String} : Out (sysSem k tm stamp) → Nat
  | .ok r => StRes.code r
  | .notFound => 100
  | .created true => 101
  | .created false => 102
  | .peeked => 103

theorem sameReqs_refl {sem : LocSem} : ∀ (b : List (Req sem × Int × Int)), SameReqs b b
  | [] => trivial
  | _ :: r => ⟨rfl, sameReqs_refl r⟩

/-- the same requests with other clock readings -/
def reclock {sem : LocSem} (f : Int → Int) (h : List (Req sem × Int × Int)) : List (Req sem × Int × Int) :=
  h.map (fun x => (x.1, f x.2.1, f x.2.2))

theorem sameReqs_reclock {sem : LocSem} (f : Int → Int) : ∀ (b : List (Req sem × Int × Int)), SameReqs b (reclock f b)
  | [] => trivial
  | _ :: r => ⟨rfl, sameReqs_reclock f r⟩

/-- linear kind: an expiring fact, a generated id, a rule, searches before and after the expiry, a rule lookup,
a removal, an unchecked open, a clear — on the two locations "home" and "work" -/
def exHistLin : List (Req (sysSem .linear 0 exStamp) × Int × Int) :=
  [(.create "home", 0, 1),
   (.api "home" (.add "f1" [("likes", .str "tacos"), ("ttl", .num 50)] 10), 2, 3),
   (.api "work" (.add "" [("likes", .str "chips")] 11), 4, 5),
   (.api "home" (.add "r1" [("rule", .obj [("when", .obj [("pattern", .obj [("wants", .str "?x")])]),
                                             ("action", .obj [("code", .str "1")])])] 12), 6, 7),
   (.api "home" (.add "f2" [("likes", .str "beer")] 12), 8, 9),
   (.api "home" (.search [("likes", .str "?what")] 13), 10, 11),
   (.api "work" (.search [("likes", .str "?what")] 14), 12, 13),
   (.api "home" (.findRules [("wants", .str "tacos")] 15), 14, 15),
   (.api "home" (.rem "f2" 16), 16, 17),
   (.api "home" (.search [("likes", .str "?what")] 70), 18, 19),
   (.api "work" (.get "fresh#0" 18), 20, 21),
   (.peek "work", 22, 23),
   (.api "work" .clear, 24, 25),
   (.api "work" (.get "fresh#0" 19), 26, 27)]

/-- with existence checking on: an add before the location exists, creates, adds, `ClearLocation` (keeps the marker),
an unchecked open of a location that is never created (`GetLocation "work"`) followed by checked requests to it, and
the removal of the marker by its id followed by a checked request -/
def exHistChk : List (Req (sysSem .linear 0 exStamp) × Int × Int) :=
  [(.api "home" (.add "f0" [("likes", .str "tacos")] 9), 0, 1),
   (.create "home", 2, 3),
   (.api "home" (.add "f1" [("likes", .str "tacos")] 10), 4, 5),
   (.peek "work", 6, 7),
   (.api "work" (.add "f2" [("likes", .str "chips")] 11), 8, 9),
   (.create "home", 10, 11),
   (.api "home" .clear, 12, 13),
   (.api "home" (.add "f3" [("likes", .str "beer")] 12), 14, 15),
   (.api "home" (.rem markerId 13), 16, 17),
   (.api "home" (.add "f4" [("likes", .str "salsa")] 14), 18, 19)]

/-- the marker `Add` is inside the fragment with queries -/
theorem exMarkOK : idxFrag true (.add "" (markerFact exStamp) 0) = true := by decide +kernel

/-- an operation of the fragment with queries (the membership proof is computed) -/
def fop (op : ROp) (h : idxFrag true op = true := by decide +kernel) : IdxOp true := ⟨op, h⟩

/-- indexed kind, inside the fragment: a fact that is overwritten (its old terms stay in the live term index as stale
ids, the reloaded index does not have them), a generated id, a dependent fact removed by a cascade, searches, a get,
a clear — on the two locations "home" and "work" -/
def exHistIdx : List (Req (idxSysSem true 0 exStamp exMarkOK) × Int × Int) :=
  [(.create "home", 0, 1),
   (.api "home" (fop (.add "f1" [("likes", .str "tacos")] 10)), 2, 3),
   (.api "work" (fop (.add "" [("likes", .str "chips")] 11)), 4, 5),
   (.api "home" (fop (.add "f1" [("wants", .str "beer")] 12)), 6, 7),
   (.api "home" (fop (.add "d1" [("likes", .str "salsa"), ("deleteWith", .arr [.str "f1"])] 12)), 8, 9),
   (.api "home" (fop (.search [("likes", .str "?what")] 13)), 10, 11),
   (.api "work" (fop (.search [("likes", .str "?what")] 14)), 12, 13),
   (.api "home" (fop (.rem "f1" 16)), 14, 15),
   (.api "home" (fop (.search [("likes", .str "?what")] 17)), 16, 17),
   (.api "work" (fop (.get "fresh#0" 18)), 18, 19),
   (.peek "work", 20, 21),
   (.api "work" (fop .clear), 22, 23)]

/-- the number of matches of a search answer -/
def SearchQ.size : SearchQ → Nat := Quot.lift List.length (fun _ _ h => h.length_eq)

def StResQ.code : StResQ → Nat
  | .add (.ok _) => 1
  | .rem (.ok false) => 2
  | .rem (.ok true) => 3
  | .get (.ok _) => 4
  | .search (.ok R) => 10 + R.size
  | .findRules (.ok R) => 20 + R.length
  | .clear => 5
  | _ => 0

def idxOutCode {q : Bool} {tm : Int} {stamp : String} {hm : idxFrag q (.add "" (markerFact stamp) tm) = true} :
    Out (idxSysSem q tm stamp hm) → Nat
  | .ok r => StResQ.code r
  | .notFound => 100
  | .created true => 101
  | .created false => 102
  | .peeked => 103

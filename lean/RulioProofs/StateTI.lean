import RulioProofs.StateBasic

set_option linter.unusedSimpArgs false
set_option linter.unusedVariables false

/-! # Term-index lemmas: `TI.add`, `TI.rem`, `TI.search` -/

/-- `id` is listed under term `t` -/
def TI.has (ti : TI) (t id : String) : Prop := ∃ ids, amGet ti t = some ids ∧ id ∈ ids

theorem TI.has_rem_of_ne {ti : TI} {t t' id y : String} (hy : y ≠ id) (h : TI.has ti t' y) :
    TI.has (TI.rem ti t id) t' y := by
  obtain ⟨ids, hg, hm⟩ := h
  simp only [TI.rem]
  cases hget : amGet ti t with
  | none => exact ⟨ids, hg, hm⟩
  | some ids0 =>
    simp only
    by_cases htt : t' = t
    · subst htt
      rw [hg] at hget; injection hget with hget; subst hget
      have hme : y ∈ ids.erase id := (List.mem_erase_of_ne hy).2 hm
      have hne : (ids.erase id).isEmpty = false := by
        cases hh : ids.erase id with
        | nil => rw [hh] at hme; simp at hme
        | cons a b => rfl
      rw [if_neg (by simp [hne])]
      exact ⟨ids.erase id, by rw [amGet_amSet_st]; simp, hme⟩
    · split
      · exact ⟨ids, by rw [amGet_amErase_st]; simp [htt, hg], hm⟩
      · exact ⟨ids, by rw [amGet_amSet_st]; simp [htt, hg], hm⟩

theorem TI.has_foldl_rem_of_ne {terms : List String} {ti : TI} {t' id y : String} (hy : y ≠ id)
    (h : TI.has ti t' y) : TI.has (terms.foldl (fun ti t => TI.rem ti t id) ti) t' y := by
  induction terms generalizing ti with
  | nil => exact h
  | cons t r ih => exact ih (TI.has_rem_of_ne hy h)

/-- every entry after `TI.rem` is a sub-list of an entry before -/
theorem TI.mem_rem {ti : TI} {t id : String} {e : String × List String} (h : e ∈ TI.rem ti t id) :
    ∃ e', e' ∈ ti ∧ e.2.Sublist e'.2 := by
  simp only [TI.rem] at h
  cases hget : amGet ti t with
  | none => rw [hget] at h; exact ⟨e, h, List.Sublist.refl _⟩
  | some ids0 =>
    rw [hget] at h
    simp only at h
    split at h
    · rw [amErase_eq_filterOut] at h
      exact ⟨e, (mem_filterOut.1 h).1, List.Sublist.refl _⟩
    · rcases mem_amSet h with h | h
      · subst h
        exact ⟨(t, ids0), amGet_some_mem hget, List.erase_sublist⟩
      · exact ⟨e, h.1, List.Sublist.refl _⟩

theorem TI.mem_foldl_rem {terms : List String} {ti : TI} {id : String} {e : String × List String}
    (h : e ∈ terms.foldl (fun ti t => TI.rem ti t id) ti) : ∃ e', e' ∈ ti ∧ e.2.Sublist e'.2 := by
  induction terms generalizing ti e with
  | nil => exact ⟨e, h, List.Sublist.refl _⟩
  | cons t r ih =>
    obtain ⟨e1, h1, s1⟩ := ih h
    obtain ⟨e2, h2, s2⟩ := TI.mem_rem h1
    exact ⟨e2, h2, s1.trans s2⟩

theorem tiWidth_foldl_rem_le (terms : List String) (ti : TI) (id : String) :
    tiWidth (terms.foldl (fun ti t => TI.rem ti t id) ti) ≤ tiWidth ti := by
  rw [tiWidth_le_iff]
  intro e he
  obtain ⟨e', he', hs⟩ := TI.mem_foldl_rem he
  exact Nat.le_trans hs.length_le (tiWidth_le_of_mem he')

theorem TI.nodup_foldl_rem {terms : List String} {ti : TI} {id : String}
    (hn : ∀ e, e ∈ ti → e.2.Nodup) : ∀ e, e ∈ terms.foldl (fun ti t => TI.rem ti t id) ti → e.2.Nodup := by
  intro e he
  obtain ⟨e', he', hs⟩ := TI.mem_foldl_rem he
  exact (hn e' he').sublist hs

/-! ### add -/

theorem TI.has_add_self (ti : TI) (t id : String) : TI.has (TI.add ti t id) t id := by
  simp only [TI.add]
  cases hget : amGet ti t with
  | none =>
    simp only
    have hnone : t ∉ ti.map (·.1) := amGet_none_iff.1 hget
    refine ⟨[id], ?_, by simp⟩
    have h := amGet_amSet_st ti t t [id]
    simp only [amSet] at h
    have hany : ¬ (ti.any (fun p => p.1 == t)) = true := by
      intro hh
      simp only [List.any_eq_true, beq_iff_eq] at hh
      obtain ⟨x, hx, hxt⟩ := hh
      exact hnone (List.mem_map.2 ⟨x, hx, hxt⟩)
    rw [if_neg hany] at h
    simpa using h
  | some ids =>
    simp only
    refine ⟨_, by rw [amGet_amSet_st, if_pos rfl], ?_⟩
    split
    · rename_i hc; simpa using hc
    · simp

theorem TI.has_add_of_has {ti : TI} {t t' id y : String} (h : TI.has ti t' y) : TI.has (TI.add ti t id) t' y := by
  obtain ⟨ids, hg, hm⟩ := h
  simp only [TI.add]
  cases hget : amGet ti t with
  | none =>
    simp only
    have hnone : t ∉ ti.map (·.1) := amGet_none_iff.1 hget
    refine ⟨ids, ?_, hm⟩
    have h := amGet_amSet_st ti t t' [id]
    simp only [amSet] at h
    have hany : ¬ (ti.any (fun p => p.1 == t)) = true := by
      intro hh
      simp only [List.any_eq_true, beq_iff_eq] at hh
      obtain ⟨x, hx, hxt⟩ := hh
      exact hnone (List.mem_map.2 ⟨x, hx, hxt⟩)
    rw [if_neg hany] at h
    have hne : t' ≠ t := by rintro rfl; rw [hg] at hget; cases hget
    rw [h, if_neg hne, hg]
  | some ids0 =>
    simp only
    by_cases htt : t' = t
    · subst htt
      rw [hg] at hget; injection hget with hget; subst hget
      refine ⟨_, by rw [amGet_amSet_st, if_pos rfl], ?_⟩
      split
      · exact hm
      · exact List.mem_append_left _ hm
    · exact ⟨ids, by rw [amGet_amSet_st]; simp [htt, hg], hm⟩

theorem TI.has_foldl_add_of_has {terms : List String} {ti : TI} {t' id y : String} (h : TI.has ti t' y) :
    TI.has (terms.foldl (fun ti t => TI.add ti t id) ti) t' y := by
  induction terms generalizing ti with
  | nil => exact h
  | cons t r ih => exact ih (TI.has_add_of_has h)

theorem TI.has_foldl_add_self {terms : List String} {ti : TI} {t id : String} (ht : t ∈ terms) :
    TI.has (terms.foldl (fun ti t => TI.add ti t id) ti) t id := by
  induction terms generalizing ti with
  | nil => simp at ht
  | cons t0 r ih =>
    simp only [List.foldl_cons]
    rcases List.mem_cons.1 ht with h | h
    · subst h; exact TI.has_foldl_add_of_has (TI.has_add_self ti t id)
    · exact ih h

theorem TI.nodup_add {ti : TI} {t id : String} (hn : ∀ e, e ∈ ti → e.2.Nodup) :
    ∀ e, e ∈ TI.add ti t id → e.2.Nodup := by
  intro e he
  simp only [TI.add] at he
  cases hget : amGet ti t with
  | none =>
    rw [hget] at he
    simp only [List.mem_append, List.mem_singleton] at he
    rcases he with he | he
    · exact hn e he
    · subst he; simp
  | some ids =>
    rw [hget] at he
    simp only at he
    rcases mem_amSet he with he | he
    · subst he
      have hid := hn _ (amGet_some_mem hget)
      simp only
      split
      · exact hid
      · rename_i hc
        rw [List.nodup_append]
        refine ⟨hid, by simp, ?_⟩
        intro a ha b hb
        simp at hb; subst hb
        rintro rfl
        exact hc (by simpa using ha)
    · exact hn e he.1

theorem TI.nodup_foldl_add {terms : List String} {ti : TI} {id : String} (hn : ∀ e, e ∈ ti → e.2.Nodup) :
    ∀ e, e ∈ terms.foldl (fun ti t => TI.add ti t id) ti → e.2.Nodup := by
  induction terms generalizing ti with
  | nil => exact hn
  | cons t r ih => exact ih (TI.nodup_add hn)

/-! ### search -/

theorem TI.search_cons (ti : TI) (t : String) (ts : List String) :
    TI.search ti (t :: ts) = .ok (ts.foldl (fun acc t' => acc.filter ((amGet ti t').getD []).contains)
      ((amGet ti t).getD [])) := rfl

theorem foldl_filter_sublist {α} (fs : List (α → Bool)) (l : List α) :
    (fs.foldl (fun acc f => acc.filter f) l).Sublist l := by
  induction fs generalizing l with
  | nil => exact List.Sublist.refl _
  | cons f r ih => exact (ih _).trans List.filter_sublist

theorem TI.search_sublist {ti : TI} {t : String} {ts ids : List String} (h : TI.search ti (t :: ts) = .ok ids) :
    ids.Sublist ((amGet ti t).getD []) := by
  rw [TI.search_cons] at h
  injection h with h
  subst h
  generalize (amGet ti t).getD [] = l
  induction ts generalizing l with
  | nil => exact List.Sublist.refl _
  | cons f r ih => exact (ih _).trans List.filter_sublist

theorem TI.search_length_le {ti : TI} {terms ids : List String} (h : TI.search ti terms = .ok ids) :
    ids.length ≤ tiWidth ti := by
  cases terms with
  | nil => simp [TI.search] at h
  | cons t ts =>
    have hs := (TI.search_sublist h).length_le
    cases hg : amGet ti t with
    | none => rw [hg] at hs; simp at hs; rw [hs]; exact Nat.zero_le _
    | some l => rw [hg] at hs; exact Nat.le_trans hs (amGet_length_le_tiWidth hg)

theorem TI.search_nodup {ti : TI} {terms ids : List String} (hn : ∀ e, e ∈ ti → e.2.Nodup)
    (h : TI.search ti terms = .ok ids) : ids.Nodup := by
  cases terms with
  | nil => simp [TI.search] at h
  | cons t ts =>
    have hs := TI.search_sublist h
    cases hg : amGet ti t with
    | none => rw [hg] at hs; simp at hs; subst hs; simp
    | some l => rw [hg] at hs; exact (hn _ (amGet_some_mem hg)).sublist hs

/-- **`ti_complete`, list form**: an id listed under every searched term is among the candidates -/
theorem TI.search_complete {ti : TI} {terms : List String} {id : String} (hne : terms ≠ [])
    (h : ∀ t, t ∈ terms → TI.has ti t id) : ∃ ids, TI.search ti terms = .ok ids ∧ id ∈ ids := by
  cases terms with
  | nil => exact absurd rfl hne
  | cons t ts =>
    refine ⟨_, TI.search_cons ti t ts, ?_⟩
    obtain ⟨l, hl, hm⟩ := h t (by simp)
    rw [hl]
    simp only [Option.getD_some]
    have hts : ∀ t', t' ∈ ts → TI.has ti t' id := fun t' ht' => h t' (List.mem_cons_of_mem _ ht')
    clear hl h hne
    induction ts generalizing l with
    | nil => exact hm
    | cons t' r ih =>
      simp only [List.foldl_cons]
      apply ih
      · obtain ⟨l', hl', hm'⟩ := hts t' (by simp)
        rw [hl']
        simp only [Option.getD_some, List.mem_filter, List.contains_iff_mem]
        exact ⟨hm, hm'⟩
      · exact fun t'' ht'' => hts t'' (List.mem_cons_of_mem _ ht'')

import RulioModel.LocInv

set_option linter.unusedSimpArgs false
set_option linter.unusedVariables false

namespace LocP

/-! # The guards of a location are pure reads (as long as the property facts they read are not expired) -/

theorem freshAt_of_b {s : St} {id : String} {now : Int} (h : freshAtB s id now = true) : FreshAt s id now := by
  intro f hf hc
  simp [freshAtB, hf, hc] at h

theorem guardFresh_of_b {s : St} {now : Int} (h : guardFreshB s now = true) : GuardFresh s now := by
  simp only [guardFreshB, Bool.and_eq_true] at h
  exact ⟨freshAt_of_b h.1.1, freshAt_of_b h.1.2, freshAt_of_b h.2⟩

theorem NoneExpired.guardFresh {s : St} {now : Int} (h : NoneExpired s now) : GuardFresh s now :=
  ⟨fun f hf => h _ f hf, fun f hf => h _ f hf, fun f hf => h _ f hf⟩

/-- what `State.Get` answers when nothing has to be purged -/
def getPure (s : St) (id : String) (now : Int) : Except LErr Obj :=
  match amGet s.facts id with
  | none => .error "notFound"
  | some f =>
    match checkExpiration f now with
    | .error e => .error e
    | .ok true => .error "notFound"
    | .ok false => .ok f

theorem St.get_eq_of_fresh {s : St} {id : String} {now : Int} (h : FreshAt s id now) :
    s.get id now = (s, getPure s id now) := by
  unfold St.get St.iGet St.lGet getPure
  cases hk : s.kind <;> simp only [] <;>
  · cases hg : amGet s.facts id with
    | none => rfl
    | some f =>
      simp only []
      cases hc : checkExpiration f now with
      | error e => rfl
      | ok b =>
        cases b with
        | false => rfl
        | true => exact absurd hc (h f hg)

theorem stGet_eq_of_fresh {l : Loc} {id : String} {now : Int} (h : FreshAt l.st id now) :
    stGet id now l = (l, getPure l.st id now) := by
  simp [stGet, LM.liftSt, St.get_eq_of_fresh h]

/-- `getProp` as a function of what `Get` answered -/
def getPropPure (r : Except LErr Obj) (prop : String) (dflt : J) : Except LErr (J × Bool) :=
  match r with
  | .error e => if e = "notFound" then .ok (dflt, false) else .error e
  | .ok fact =>
    match fact.get? ("!" ++ prop) with
    | some v => .ok (v, true)
    | none => .error "missingProp"

theorem getProp_eq {l : Loc} {id prop : String} {dflt : J} {now : Int}
    (h : FreshAt l.st (genPropId id prop) now) :
    getProp id prop dflt now l = (l, getPropPure (getPure l.st (genPropId id prop) now) prop dflt) := by
  simp only [getProp, bind, LM.bind, LM.attempt, stGet_eq_of_fresh h, getPropPure]
  cases hr : getPure l.st (genPropId id prop) now with
  | error e =>
    by_cases he : e = "notFound"
    · subst he; simp [pure, LM.pure]
    · simp only [he, if_false]
      rfl
  | ok fact =>
    simp only []
    cases fact.get? ("!" ++ prop) <;> simp [pure, LM.pure, LM.fail]

theorem getPropStringD_eq {l : Loc} {prop : String} {now : Int} (h : FreshAt l.st (genPropId "" prop) now) :
    getPropStringD prop now l = (l, .ok (propStr l.st prop now)) := by
  simp only [getPropStringD, bind, LM.bind, LM.attempt, getProp_eq h, getPropPure, getPure, propStr]
  cases hg : amGet l.st.facts (genPropId "" prop) with
  | none => simp [pure, LM.pure]
  | some f =>
    simp only []
    cases hc : checkExpiration f now with
    | error e =>
      simp only []
      by_cases he : e = "notFound" <;> simp [he, pure, LM.pure]
    | ok b =>
      cases b with
      | true => simp [pure, LM.pure]
      | false =>
        simp only []
        cases hv : f.get? ("!" ++ prop) with
        | none => simp [pure, LM.pure]
        | some v => cases v <;> simp [pure, LM.pure]

theorem enabled_eq {l : Loc} {now : Int} (h : FreshAt l.st (genPropId "" "enabled") now) (c : Ctx) :
    enabled now l = (l, guardVerdict c now l .enabled) := by
  simp only [enabled, bind, LM.bind, getPropStringD_eq h, guardVerdict, enabledOK, propEnabled]
  split <;> simp_all [pure, LM.pure, LM.fail]

theorem checkWrite_eq {l : Loc} {now : Int} (h : FreshAt l.st (genPropId "" "writeKey") now) (c : Ctx) :
    checkWrite c now l = (l, guardVerdict c now l .checkWrite) := by
  simp only [checkWrite, bind, LM.bind, LM.get, guardVerdict, keyOK, propWriteKey]
  cases l.readOnly
  · simp only [Bool.false_eq_true, if_false, LM.bind, getPropStringD_eq h]
    split <;> simp_all [pure, LM.pure, LM.fail]
  · rfl

theorem checkRead_eq {l : Loc} {now : Int} (h : FreshAt l.st (genPropId "" "readKey") now) (c : Ctx) :
    checkRead c now l = (l, guardVerdict c now l .checkRead) := by
  simp only [checkRead, bind, LM.bind, getPropStringD_eq h, guardVerdict, keyOK, propReadKey]
  split <;> simp_all [pure, LM.pure, LM.fail]

theorem atCapacity_eq (l : Loc) (c : Ctx) (now : Int) :
    atCapacity l = (l, guardVerdict c now l .atCapacity) := by
  simp only [atCapacity, bind, LM.bind, LM.get, guardVerdict, capFull]
  by_cases h : l.maxFacts ≤ l.st.count <;> simp [h, LM.fail, pure, LM.pure]

theorem runGuard_eq {l : Loc} {now : Int} (h : GuardFresh l.st now) (c : Ctx) (g : Guard) :
    runGuard c now g l = (l, guardVerdict c now l g) := by
  cases g
  · exact enabled_eq h.1 c
  · exact checkRead_eq h.2.2 c
  · exact checkWrite_eq h.2.1 c
  · exact atCapacity_eq l c now

/-- the guards never change the location; their answer is `guardsVerdict` -/
theorem runGuards_eq {l : Loc} {now : Int} (h : GuardFresh l.st now) (c : Ctx) (gs : List Guard) :
    runGuards c now gs l = (l, guardsVerdict c now l gs) := by
  induction gs with
  | nil => rfl
  | cons g gs ih =>
    simp only [runGuards, bind, LM.bind, runGuard_eq h c g, guardsVerdict]
    cases guardVerdict c now l g with
    | ok u => simpa using ih
    | error e => rfl

/-- a guarded method: refused without touching the location, or its body -/
theorem guarded_eq {α} {l : Loc} {now : Int} (h : GuardFresh l.st now) (c : Ctx) (gs : List Guard) (body : LM α) :
    (runGuards c now gs >>= fun _ => body) l =
      match guardsVerdict c now l gs with
      | .ok _ => body l
      | .error e => (l, .error e) := by
  simp only [bind, LM.bind, runGuards_eq h c gs]
  cases guardsVerdict c now l gs <;> rfl

/-! ## every method = its guards, then its body -/

theorem locAddFact_split (c : Ctx) (id : String) (f : Obj) (now : Int) :
    locAddFact c id f now = (runGuards c now (guardsOf "AddFact") >>= fun _ => Body.addFact id f now) := rfl
theorem locRemFact_split (c : Ctx) (id : String) (now : Int) :
    locRemFact c id now = (runGuards c now (guardsOf "RemFact") >>= fun _ => Body.remFact id now) := rfl
theorem locGetFact_split (c : Ctx) (id : String) (now : Int) :
    locGetFact c id now = (runGuards c now (guardsOf "GetFact") >>= fun _ => Body.getFact id now) := rfl
theorem locAddRule_split (c : Ctx) (id : String) (r : Obj) (now : Int) :
    locAddRule c id r now = (runGuards c now (guardsOf "AddRule") >>= fun _ => Body.addRule id r now) := rfl
theorem locRemRule_split (c : Ctx) (id : String) (now : Int) :
    locRemRule c id now = (runGuards c now (guardsOf "RemRule") >>= fun _ => Body.remRule id now) := rfl
theorem locEnableRule_split (c : Ctx) (id : String) (b : Bool) (now : Int) :
    locEnableRule c id b now = (runGuards c now (guardsOf "EnableRule") >>= fun _ => Body.enableRule id b now) := rfl
theorem locRuleEnabled_split (c : Ctx) (id : String) (now : Int) :
    locRuleEnabled c id now = (runGuards c now (guardsOf "RuleEnabled") >>= fun _ => Body.ruleEnabled id now) := rfl
theorem locGetRule_split (c : Ctx) (id : String) (now : Int) :
    locGetRule c id now = (runGuards c now (guardsOf "GetRule") >>= fun _ => Body.getRule id now) := rfl
theorem locSearchFacts_split (c : Ctx) (p : Obj) (now : Int) :
    locSearchFacts c p now = (runGuards c now (guardsOf "searchFacts") >>= fun _ => Body.searchFacts p now) := rfl
theorem locGetParents_split (c : Ctx) (now : Int) :
    locGetParents c now = (runGuards c now (guardsOf "GetParents") >>= fun _ => Body.getParents now) := rfl
theorem locSetParents_split (c : Ctx) (ps : List String) (now : Int) :
    locSetParents c ps now = (runGuards c now (guardsOf "SetParents") >>= fun _ => Body.setParents ps now) := rfl
theorem locClear_split (c : Ctx) (now : Int) :
    locClear c now = (runGuards c now (guardsOf "Clear") >>= fun _ => Body.clear) := rfl
theorem locStateSize_split (c : Ctx) (now : Int) :
    locStateSize c now = (runGuards c now (guardsOf "StateSize") >>= fun _ => Body.stateSize) := rfl
theorem locSearchRules_split (c : Ctx) (ev : Obj) (now : Int) :
    locSearchRules c ev now = (runGuards c now (guardsOf "searchRules") >>= fun _ => Body.searchRules ev now) := rfl

/-- refused or body, for any guarded method -/
theorem split_eq {α} {m : LM α} {c : Ctx} {now : Int} {gs : List Guard} {body : LM α}
    (hm : m = (runGuards c now gs >>= fun _ => body)) {l : Loc} (h : GuardFresh l.st now) :
    m l = match guardsVerdict c now l gs with
      | .ok _ => body l
      | .error e => (l, .error e) := by
  rw [hm]; exact guarded_eq h c gs body

/-! ## verdicts -/

theorem guardsVerdict_error_of_mem {c : Ctx} {now : Int} {l : Loc} {g : Guard} {e : LErr} :
    ∀ {gs : List Guard}, g ∈ gs → guardVerdict c now l g = .error e → ∃ e', guardsVerdict c now l gs = .error e'
  | g' :: gs, hm, he => by
    simp only [guardsVerdict]
    cases hv : guardVerdict c now l g' with
    | error e' => exact ⟨e', rfl⟩
    | ok u =>
      simp only []
      rcases List.mem_cons.1 hm with rfl | hm'
      · rw [he] at hv; cases hv
      · exact guardsVerdict_error_of_mem hm' he

theorem guardsVerdict_head {c : Ctx} {now : Int} {l : Loc} {g : Guard} {e : LErr} {gs : List Guard}
    (he : guardVerdict c now l g = .error e) : guardsVerdict c now l (g :: gs) = .error e := by
  simp [guardsVerdict, he]

theorem verdict_disabled {c : Ctx} {now : Int} {l : Loc} (h : Disabled l now) :
    guardVerdict c now l .enabled = .error "disabled" := by
  simp only [Disabled] at h
  have hk : enabledOK (propStr l.st propEnabled now) = false := by
    simp only [enabledOK, propEnabled]; simp [and_assoc, or_assoc]; simpa [and_assoc, or_assoc] using h
  simp [guardVerdict, hk]

theorem verdict_enabled {c : Ctx} {now : Int} {l : Loc} (h : ¬ Disabled l now) :
    guardVerdict c now l .enabled = .ok () := by
  simp only [Disabled, Classical.not_not] at h
  have hk : enabledOK (propStr l.st propEnabled now) = true := by
    simp only [enabledOK, propEnabled]; simp [and_assoc, or_assoc]; simpa [and_assoc, or_assoc] using h
  simp [guardVerdict, hk]

theorem verdict_writeDenied {c : Ctx} {now : Int} {l : Loc} (h : WriteDenied l c now) :
    ∃ e, guardVerdict c now l .checkWrite = .error e := by
  simp only [guardVerdict, keyOK, propWriteKey]
  rcases h with h | ⟨h1, h2⟩
  · exact ⟨"readOnly", by simp [h]⟩
  · cases l.readOnly
    · exact ⟨"writeDenied", by simp [h1, h2]⟩
    · exact ⟨"readOnly", by simp⟩

theorem verdict_writeOK {c : Ctx} {now : Int} {l : Loc} (h : ¬ WriteDenied l c now) :
    guardVerdict c now l .checkWrite = .ok () := by
  simp only [WriteDenied, not_or, not_and, Bool.not_eq_true] at h
  simp only [guardVerdict, keyOK, propWriteKey, h.1]
  by_cases hk : propStr l.st "writeKey" now = ""
  · simp [hk]
  · have := h.2 hk; simp at this; simp [this]

theorem verdict_readDenied {c : Ctx} {now : Int} {l : Loc} (h : ReadDenied l c now) :
    guardVerdict c now l .checkRead = .error "readDenied" := by
  simp only [guardVerdict, keyOK, propReadKey]
  simp [h.1, h.2]

theorem verdict_readOK {c : Ctx} {now : Int} {l : Loc} (h : ¬ ReadDenied l c now) :
    guardVerdict c now l .checkRead = .ok () := by
  simp only [ReadDenied, not_and] at h
  simp only [guardVerdict, keyOK, propReadKey]
  by_cases hk : propStr l.st "readKey" now = ""
  · simp [hk]
  · have := h hk; simp at this; simp [this]

theorem verdict_capacity {c : Ctx} {now : Int} {l : Loc} :
    guardVerdict c now l .atCapacity = if l.maxFacts ≤ l.st.count then .error "capacity" else .ok () := by
  simp [guardVerdict, capFull]

/-- with the right keys on an enabled location only the capacity test can refuse -/
theorem guardsVerdict_transparent {c : Ctx} {now : Int} {l : Loc}
    (he : ¬ Disabled l now) (hw : ¬ WriteDenied l c now) (hr : ¬ ReadDenied l c now) (gs : List Guard) :
    guardsVerdict c now l gs = capacityResult l gs := by
  induction gs with
  | nil => simp [guardsVerdict, capacityResult]
  | cons g gs ih =>
    simp only [guardsVerdict]
    cases g with
    | enabled => rw [verdict_enabled he]; simp only [ih, capacityResult]; simp
    | checkRead => rw [verdict_readOK hr]; simp only [ih, capacityResult]; simp
    | checkWrite => rw [verdict_writeOK hw]; simp only [ih, capacityResult]; simp
    | atCapacity =>
      rw [verdict_capacity]
      by_cases hc : l.maxFacts ≤ l.st.count
      · simp [hc, capacityResult]
      · simp [hc, ih, capacityResult]

end LocP

import RulioModel.PatIndexSpec

/-! # Pattern index: trie lemmas, `path` equations, what `PI.mod` does (C01, part 1) -/

namespace PI

/-! ## `path` equations -/
theorem path_nil : path [] = some [] := by rw [path]

theorem path_cons_s {k : String} {v : J} {x : String} (rest) (h : picast v = .s x) :
    path ((k, v) :: rest) =
      (path rest).map (fun π => .str (if isVar k then "?" else k) :: .str x :: π) := by
  rw [path]; split <;> simp_all

theorem path_cons_v {k : String} {v : J} (rest) (h : picast v = .v) :
    path ((k, v) :: rest) =
      (path rest).map (fun π => .str (if isVar k then "?" else k) :: .var :: π) := by
  rw [path]; split <;> simp_all

theorem path_cons_m {k : String} {v : J} {kvs} (rest) (h : picast v = .m kvs) :
    path ((k, v) :: rest) =
      (path (mapToPairs kvs ++ rest)).map (fun π => .str (if isVar k then "?" else k) :: .map :: π) := by
  rw [path]; split <;> simp_all

theorem path_cons_a_err {k : String} {v : J} {xs e} (rest) (h : picast v = .a xs)
    (hs : sortValues xs = .error e) : path ((k, v) :: rest) = none := by
  rw [path]; split <;> simp_all
  split <;> simp_all

theorem path_cons_a_ok {k : String} {v : J} {xs sorted} (rest) (h : picast v = .a xs)
    (hs : sortValues xs = .ok sorted) :
    path ((k, v) :: rest) = path (sorted.map (fun x => (k, x)) ++ rest) := by
  rw [path]; split <;> simp_all
  split <;> simp_all

end PI

namespace PI

/-! ## children -/

theorem ids_setChild (n : PI) (e : Edge) (c : PI) : (n.setChild e c).ids = n.ids := by
  unfold setChild; split <;> rfl

private theorem find_map_ne (e e' : Edge) (c : PI) (h : e' ≠ e) : ∀ l : List (Edge × PI),
    (l.map (fun p => if p.1 == e then (e, c) else p)).find? (·.1 == e') = l.find? (·.1 == e')
  | [] => rfl
  | p :: l => by
    simp only [List.map_cons, List.find?_cons]
    by_cases hp : p.1 = e
    · have h1 : (e == e') = false := by simpa using fun h' => h h'.symm
      have h2 : (p.1 == e') = false := by rw [hp]; exact h1
      simp only [hp, beq_self_eq_true, if_true, h1]
      exact find_map_ne e e' c h l
    · have h1 : (p.1 == e) = false := by simpa using hp
      simp only [h1, Bool.false_eq_true, if_false]
      rw [find_map_ne e e' c h l]

private theorem find_map_eq (e : Edge) (c : PI) : ∀ l : List (Edge × PI), l.any (·.1 == e) = true →
    (l.map (fun p => if p.1 == e then (e, c) else p)).find? (·.1 == e) = some (e, c)
  | [], h => by simp at h
  | p :: l, h => by
    simp only [List.map_cons, List.find?_cons]
    by_cases hp : p.1 = e
    · simp [hp]
    · have h1 : (p.1 == e) = false := by simpa using hp
      simp only [h1, Bool.false_eq_true, if_false]
      simp only [List.any_cons, h1, Bool.false_or] at h
      exact find_map_eq e c l h

private theorem find_none_of_not_any (e : Edge) : ∀ l : List (Edge × PI), l.any (·.1 == e) = false →
    l.find? (·.1 == e) = none
  | [], _ => rfl
  | p :: l, h => by
    simp only [List.any_cons, Bool.or_eq_false_iff] at h
    simp only [List.find?_cons, h.1]
    exact find_none_of_not_any e l h.2

theorem child_setChild (n : PI) (e e' : Edge) (c : PI) :
    (n.setChild e c).child e' = if e' = e then some c else n.child e' := by
  cases n with | node ch ids =>
  simp only [setChild, child, children]
  by_cases ha : ch.any (·.1 == e) = true
  · simp only [ha, if_true]
    by_cases he : e' = e
    · subst he; rw [find_map_eq _ c _ ha]; simp
    · simp only [he, if_false]; rw [find_map_ne e e' c he]
  · have ha' : ch.any (·.1 == e) = false := Bool.eq_false_iff.mpr ha
    simp only [ha', Bool.false_eq_true, if_false, List.find?_append]
    by_cases he : e' = e
    · subst he; rw [find_none_of_not_any _ _ ha']; simp
    · have h1 : (e == e') = false := by simpa using fun h' => he h'.symm
      simp only [he, if_false, List.find?_cons, h1, List.find?_nil]
      cases ch.find? (·.1 == e') <;> rfl

theorem childD_setChild (n : PI) (e e' : Edge) (c : PI) :
    (n.setChild e c).childD e' = if e' = e then c else n.childD e' := by
  unfold childD; rw [child_setChild]; split <;> rfl

theorem childD_node (n : PI) (i : List String) (e : Edge) : (PI.node n.children i).childD e = n.childD e := rfl

theorem childD_empty (e : Edge) : empty.childD e = empty := rfl

theorem idsAt_empty : ∀ π, idsAt empty π = []
  | [] => rfl
  | e :: π => by rw [idsAt, childD_empty]; exact idsAt_empty π

theorem idsAt_nil (n : PI) : idsAt n [] = n.ids := rfl
theorem idsAt_cons (n : PI) (e) (π) : idsAt n (e :: π) = idsAt (n.childD e) π := rfl

theorem idsAt_setChild_cons (n : PI) (e e' : Edge) (c : PI) (π) :
    idsAt (n.setChild e c) (e' :: π) = if e' = e then idsAt c π else idsAt n (e' :: π) := by
  rw [idsAt, childD_setChild]; split <;> rfl

/-- materialising a child that is not there yet changes no id list -/
theorem idsAt_setChild_self (n : PI) (e : Edge) : ∀ ρ, idsAt (n.setChild e (n.childD e)) ρ = idsAt n ρ
  | [] => ids_setChild _ _ _
  | e' :: ρ => by
    rw [idsAt_setChild_cons]; split
    · next h => subst h; rfl
    · rfl

/-- a path that carries an id exists -/
theorem child_of_mem {n : PI} {e : Edge} {π : List Edge} {id : String} (h : id ∈ idsAt (n.childD e) π) :
    n.child e = some (n.childD e) := by
  unfold childD at h ⊢
  cases hc : n.child e with
  | some c => rfl
  | none => rw [hc] at h; simp [Option.getD, idsAt_empty] at h

/-! ## what `mod` does -/

/-- `idx'` differs from `idx` exactly by `U` applied to the id list at `π?` (nowhere if `none`) -/
def ModSpec (idx idx' : PI) (π? : Option (List Edge)) (U : List String → List String) : Prop :=
  ∀ ρ, idsAt idx' ρ = if π? = some ρ then U (idsAt idx ρ) else idsAt idx ρ

theorem ModSpec.two_step {idx sub : PI} {e1 e2 : Edge} {π? U}
    (h : ModSpec ((idx.childD e1).childD e2) sub π? U) :
    ModSpec idx (idx.setChild e1 ((idx.childD e1).setChild e2 sub)) (π?.map (fun π => e1 :: e2 :: π)) U := by
  intro ρ
  match ρ with
  | [] => cases π? <;> simp [idsAt_nil, ids_setChild]
  | [a] =>
    rw [idsAt_setChild_cons]
    have : (π?.map (fun π => e1 :: e2 :: π)) ≠ some [a] := by cases π? <;> simp
    simp only [this, if_false]
    split
    · next h1 => subst h1; simp [idsAt_nil, ids_setChild, idsAt_cons]
    · rfl
  | a :: b :: ρ =>
    rw [idsAt_setChild_cons]
    by_cases h1 : a = e1
    · subst h1
      simp only [if_true]
      rw [idsAt_setChild_cons]
      by_cases h2 : b = e2
      · subst h2
        simp only [if_true, h ρ, idsAt_cons]
        cases π? <;> simp
      · simp only [h2, if_false]
        have : (π?.map (fun π => a :: e2 :: π)) ≠ some (a :: b :: ρ) := by
          cases π? <;> simp; intro h'; exact absurd h'.symm h2
        simp only [this, if_false]; rfl
    · simp only [h1, if_false]
      have : (π?.map (fun π => e1 :: e2 :: π)) ≠ some (a :: b :: ρ) := by
        cases π? <;> simp; intro h'; exact absurd h'.symm h1
      simp only [this, if_false]

theorem ModSpec.of_same {idx idx1 idx' : PI} {π? U} (hs : ∀ ρ, idsAt idx1 ρ = idsAt idx ρ)
    (h : ModSpec idx1 idx' π? U) : ModSpec idx idx' π? U := by
  intro ρ; rw [h ρ, hs ρ]

end PI

namespace PI

theorem szO_cons_lt {k : String} {v : J} {rest : List (String × J)} : szO rest < szO ((k, v) :: rest) := by
  have := sz_pos v; simp [szO]; omega

theorem szO_map_lt {k : String} {kvs rest : List (String × J)} :
    szO (mapToPairs kvs ++ rest) < szO ((k, .obj kvs) :: rest) := by
  simp [szO, szO_append, szO_mapToPairs, sz]

theorem szO_arr_lt {k : String} {xs sorted : List J} {rest : List (String × J)} (hs : sortValues xs = .ok sorted) :
    szO (sorted.map (fun x => (k, x)) ++ rest) < szO ((k, .arr xs) :: rest) := by
  simp [szO, szO_append, szO_elems, szL_sortValues _ _ hs, sz]

/-- **what `mod` does**, for any fuel above the size of the pairs: it fails iff `path` is undefined, and the
id lists of the result differ from those of the argument exactly at the end of the path. -/
theorem mod_spec (id : String) (add : Bool) : ∀ (fuel : Nat) (idx : PI) (pairs : List (String × J)),
    szO pairs < fuel →
    ((mod fuel idx pairs id add).2 = none ↔ (path pairs).isSome = true) ∧
    ModSpec idx (mod fuel idx pairs id add).1 (path pairs) (updIds id add) := by
  intro fuel
  induction fuel with
  | zero => intro idx pairs h; omega
  | succ fuel ih =>
    intro idx pairs hf
    match pairs with
    | [] =>
      simp only [mod, path_nil, Option.isSome_some, true_and]
      intro ρ
      match ρ with
      | [] => simp [idsAt_nil, ids, updIds]
      | e :: ρ => simp [idsAt_cons, childD_node]
    | (k, v) :: rest =>
      have hlt : szO rest < fuel := by have := @szO_cons_lt k v rest; omega
      cases hc : picast v with
      | s x =>
        obtain ⟨ih1, ih2⟩ := ih ((idx.childD (.str (if isVar k then "?" else k))).childD (.str x)) rest hlt
        simp only [mod, hc, path_cons_s rest hc]
        refine ⟨by simpa using ih1, ?_⟩
        exact ih2.two_step
      | v =>
        obtain ⟨ih1, ih2⟩ := ih ((idx.childD (.str (if isVar k then "?" else k))).childD .var) rest hlt
        simp only [mod, hc, path_cons_v rest hc]
        refine ⟨by simpa using ih1, ?_⟩
        exact ih2.two_step
      | m kvs =>
        have hv := picast_m v kvs hc
        subst hv
        have hlt' : szO (mapToPairs kvs ++ rest) < fuel := by have := @szO_map_lt k kvs rest; omega
        obtain ⟨ih1, ih2⟩ := ih ((idx.childD (.str (if isVar k then "?" else k))).childD .map) _ hlt'
        simp only [mod, hc, path_cons_m rest hc]
        refine ⟨by simpa using ih1, ?_⟩
        exact ih2.two_step
      | a xs =>
        have hv := picast_a v xs hc
        subst hv
        cases hs : sortValues xs with
        | error e =>
          simp only [mod, hc, hs, path_cons_a_err rest hc hs]
          refine ⟨by simp, ?_⟩
          intro ρ; simp [idsAt_setChild_self]
        | ok sorted =>
          have hlt' : szO (sorted.map (fun x => (k, x)) ++ rest) < fuel := by
            have := @szO_arr_lt k xs sorted rest hs; omega
          obtain ⟨ih1, ih2⟩ := ih (idx.setChild (.str (if isVar k then "?" else k))
            (idx.childD (.str (if isVar k then "?" else k)))) _ hlt'
          simp only [mod, hc, hs, path_cons_a_ok rest hc hs]
          exact ⟨ih1, ih2.of_same (idsAt_setChild_self _ _)⟩

theorem modW_nil (idx : PI) (id : String) (add : Bool) :
    modW idx [] id add = (.node idx.children (updIds id add idx.ids), none) := by
  rw [modW]; rfl

theorem modW_cons_s {k : String} {v : J} {x : String} (idx : PI) (rest) (id add) (h : picast v = .s x) :
    modW idx ((k, v) :: rest) id add =
      (idx.setChild (.str (if isVar k then "?" else k))
        ((idx.childD (.str (if isVar k then "?" else k))).setChild (.str x)
          (modW ((idx.childD (.str (if isVar k then "?" else k))).childD (.str x)) rest id add).1),
       (modW ((idx.childD (.str (if isVar k then "?" else k))).childD (.str x)) rest id add).2) := by
  rw [modW]; split <;> simp_all

theorem modW_cons_v {k : String} {v : J} (idx : PI) (rest) (id add) (h : picast v = .v) :
    modW idx ((k, v) :: rest) id add =
      (idx.setChild (.str (if isVar k then "?" else k))
        ((idx.childD (.str (if isVar k then "?" else k))).setChild .var
          (modW ((idx.childD (.str (if isVar k then "?" else k))).childD .var) rest id add).1),
       (modW ((idx.childD (.str (if isVar k then "?" else k))).childD .var) rest id add).2) := by
  rw [modW]; split <;> simp_all

theorem modW_cons_m {k : String} {v : J} {kvs} (idx : PI) (rest) (id add) (h : picast v = .m kvs) :
    modW idx ((k, v) :: rest) id add =
      (idx.setChild (.str (if isVar k then "?" else k))
        ((idx.childD (.str (if isVar k then "?" else k))).setChild .map
          (modW ((idx.childD (.str (if isVar k then "?" else k))).childD .map) (mapToPairs kvs ++ rest) id add).1),
       (modW ((idx.childD (.str (if isVar k then "?" else k))).childD .map) (mapToPairs kvs ++ rest) id add).2) := by
  rw [modW]; split <;> simp_all

theorem modW_cons_a_err {k : String} {v : J} {xs e} (idx : PI) (rest) (id add) (h : picast v = .a xs)
    (hs : sortValues xs = .error e) :
    modW idx ((k, v) :: rest) id add =
      (idx.setChild (.str (if isVar k then "?" else k)) (idx.childD (.str (if isVar k then "?" else k))), some e) := by
  rw [modW]; split <;> simp_all
  split <;> simp_all

theorem modW_cons_a_ok {k : String} {v : J} {xs sorted} (idx : PI) (rest) (id add) (h : picast v = .a xs)
    (hs : sortValues xs = .ok sorted) :
    modW idx ((k, v) :: rest) id add =
      modW (idx.setChild (.str (if isVar k then "?" else k)) (idx.childD (.str (if isVar k then "?" else k))))
        (sorted.map (fun x => (k, x)) ++ rest) id add := by
  rw [modW]; split <;> simp_all
  split <;> simp_all

/-- the fuel is a proof device: above the size of the pairs, `mod` is the well-founded `modW` -/
theorem mod_eq_modW (id : String) (add : Bool) : ∀ (fuel : Nat) (idx : PI) (pairs : List (String × J)),
    szO pairs < fuel → mod fuel idx pairs id add = modW idx pairs id add := by
  intro fuel
  induction fuel with
  | zero => intro idx pairs h; omega
  | succ fuel ih =>
    intro idx pairs hf
    match pairs with
    | [] => rw [modW_nil]; simp only [mod, updIds]
    | (k, v) :: rest =>
      have hlt : szO rest < fuel := by have := @szO_cons_lt k v rest; omega
      cases hc : picast v with
      | s x => rw [modW_cons_s _ _ _ _ hc]; simp only [mod, hc]; rw [ih _ _ hlt]
      | v => rw [modW_cons_v _ _ _ _ hc]; simp only [mod, hc]; rw [ih _ _ hlt]
      | m kvs =>
        have hv := picast_m v kvs hc
        subst hv
        have hlt' : szO (mapToPairs kvs ++ rest) < fuel := by have := @szO_map_lt k kvs rest; omega
        rw [modW_cons_m _ _ _ _ hc]; simp only [mod, hc]; rw [ih _ _ hlt']
      | a xs =>
        have hv := picast_a v xs hc
        subst hv
        cases hs : sortValues xs with
        | error e => rw [modW_cons_a_err _ _ _ _ hc hs]; simp only [mod, hc, hs]
        | ok sorted =>
          have hlt' : szO (sorted.map (fun x => (k, x)) ++ rest) < fuel := by
            have := @szO_arr_lt k xs sorted rest hs; omega
          rw [modW_cons_a_ok _ _ _ _ hc hs]; simp only [mod, hc, hs]; rw [ih _ _ hlt']

/-- fuel independence of `mod` -/
theorem mod_fuel_indep (id : String) (add : Bool) (f1 f2 : Nat) (idx : PI) (pairs : List (String × J))
    (h1 : szO pairs < f1) (h2 : szO pairs < f2) : mod f1 idx pairs id add = mod f2 idx pairs id add := by
  rw [mod_eq_modW id add f1 idx pairs h1, mod_eq_modW id add f2 idx pairs h2]

end PI

import RulioProofs.StateTI

set_option linter.unusedSimpArgs false
set_option linter.unusedVariables false

/-! # Frame lemmas: what `rem`/`search` of both states can change, for any fuel, with or without errors -/

/-- `s'` is `s` with some facts (and their storage/index entries) removed -/
structure StLe (s s' : St) : Prop where
  facts : s'.facts.Sublist s.facts
  store : s'.store.Sublist s.store
  kind : s'.kind = s.kind
  fresh : s'.fresh = s.fresh
  width : tiWidth s'.ti ≤ tiWidth s.ti
  tiok : TIOK s → TIOK s'
  tinodup : TINodup s → TINodup s'

theorem StLe.refl (s : St) : StLe s s :=
  ⟨List.Sublist.refl _, List.Sublist.refl _, rfl, rfl, Nat.le_refl _, id, id⟩

theorem StLe.trans {a b c : St} (h1 : StLe a b) (h2 : StLe b c) : StLe a c :=
  ⟨h2.facts.trans h1.facts, h2.store.trans h1.store, h2.kind.trans h1.kind, h2.fresh.trans h1.fresh,
   Nat.le_trans h2.width h1.width, fun h => h2.tiok (h1.tiok h), fun h => h2.tinodup (h1.tinodup h)⟩

theorem StLe.keys {s s' : St} (h : StLe s s') (hk : KeysNodup s) : KeysNodup s' :=
  hk.sublist (h.facts.map _)

theorem StLe.noneExpired {s s' : St} (h : StLe s s') {now : Int} (hk : NoneExpired s now) : NoneExpired s' now :=
  fun e he => hk e (h.facts.subset he)

theorem StLe.idsOK {s s' : St} (h : StLe s s') (hk : IdsOK s) : IdsOK s' :=
  fun e he => hk e (h.facts.subset he)

theorem StLe.unindexOK {s s' : St} (h : StLe s s') (hk : UnindexOK s) : UnindexOK s' :=
  fun e he => hk e (h.facts.subset he)

theorem StLe.freshOK {s s' : St} (h : StLe s s') (hk : FreshOK s) : FreshOK s' := by
  intro e he n hn
  rw [h.fresh] at hn
  exact hk e (h.facts.subset he) n hn

theorem StLe.length_le {s s' : St} (h : StLe s s') : s'.facts.length ≤ s.facts.length := h.facts.length_le

/-! ## normal forms of the recursive equations -/

/-- the rule part of `irem`: the stored rule (if any) leaves the pattern index -/
def St.unindexOf (s : St) (id : String) (fact : Obj) : Except LErr St :=
  match (match extractRule fact false with | .ok (r, _) => r | .error _ => none : Option Obj) with
  | some r => s.unindexRule id r
  | none => .ok s

/-- the memory/storage part of `irem` -/
def St.idel (s1 : St) (id : String) (fact : Obj) : St :=
  { s1 with facts := amErase s1.facts id,
            ti := (extractTerms fact).foldl (fun ti t => TI.rem ti t id) s1.ti,
            store := amErase s1.store id }

theorem St.irem_zero (s : St) (id : String) (now : Int) : St.irem 0 s id now = (s, .error "fuel") := rfl
theorem St.ideps_zero (s : St) (id : String) (now : Int) : St.ideps 0 s id now = (s, .error "fuel") := rfl
theorem St.iremAll_zero (s : St) (ids : List String) (now : Int) : St.iremAll 0 s ids now = (s, .error "fuel") := rfl
theorem St.isearch_zero (s : St) (p : Obj) (now : Int) : St.isearch 0 s p now = (s, .error "fuel") := rfl
theorem St.isearchLoop_zero (s : St) (p : Obj) (ids : List String) (now : Int) (acc) :
    St.isearchLoop 0 s p ids now acc = (s, .error "fuel") := rfl

theorem St.irem_succ (f : Nat) (s : St) (id : String) (now : Int) :
    St.irem (f + 1) s id now =
      match amGet s.facts id with
      | some fact =>
        (match s.unindexOf id fact with
         | .error e => (s, .error e)
         | .ok s1 => ((St.ideps f (s1.idel id fact) id now).1, (St.ideps f (s1.idel id fact) id now).2.map (fun _ => true)))
      | none => ((St.ideps f s id now).1, (St.ideps f s id now).2.map (fun _ => false)) := by
  rw [St.irem.eq_2]
  cases hg : amGet s.facts id with
  | none =>
    simp only
    rcases St.ideps f s id now with ⟨s3, r | r⟩ <;> rfl
  | some fact =>
    show (match s.unindexOf id fact with
      | Except.error e => (s, Except.error e)
      | Except.ok s1 => (match St.ideps f (s1.idel id fact) id now with
        | (s3, Except.error e) => (s3, Except.error e)
        | (s3, Except.ok _) => (s3, Except.ok true))) = _
    simp only
    cases hu : s.unindexOf id fact with
    | error e => rfl
    | ok s1 =>
      simp only
      rcases hd : St.ideps f (s1.idel id fact) id now with ⟨s3, r | r⟩ <;> rfl

theorem St.ideps_succ (f : Nat) (s : St) (id : String) (now : Int) :
    St.ideps (f + 1) s id now =
      if isVar id then (s, .ok ()) else
      match (St.isearch f s (depPat id) now).2 with
      | .error e => ((St.isearch f s (depPat id) now).1, .error e)
      | .ok found => St.iremAll f (St.isearch f s (depPat id) now).1 (found.map (·.1)) now := by
  rw [St.ideps.eq_2]
  simp only [depPat]
  split
  · rfl
  · rcases St.isearch f s _ now with ⟨s3, r | r⟩ <;> rfl

theorem St.iremAll_nil (f : Nat) (s : St) (now : Int) : St.iremAll (f + 1) s [] now = (s, .ok ()) := rfl

theorem St.iremAll_cons (f : Nat) (s : St) (i : String) (rest : List String) (now : Int) :
    St.iremAll (f + 1) s (i :: rest) now =
      match (St.irem f s i now).2 with
      | .error e => ((St.irem f s i now).1, .error e)
      | .ok _ => St.iremAll f (St.irem f s i now).1 rest now := by
  rw [St.iremAll.eq_3]
  rcases St.irem f s i now with ⟨s3, r | r⟩ <;> rfl

/-- the candidate ids of an indexed search -/
def St.cands (s : St) (p : Obj) : Except LErr (List String) :=
  if (extractTerms p).isEmpty then .ok (s.facts.map (·.1)) else TI.search s.ti (extractTerms p)

theorem St.isearch_succ (f : Nat) (s : St) (p : Obj) (now : Int) :
    St.isearch (f + 1) s p now =
      match s.cands p with
      | .error e => (s, .error e)
      | .ok ids => St.isearchLoop f s p ids now [] := rfl

theorem St.isearchLoop_nil (f : Nat) (s : St) (p : Obj) (now : Int) (acc) :
    St.isearchLoop (f + 1) s p [] now acc = (s, .ok acc) := rfl

theorem St.isearchLoop_cons (f : Nat) (s : St) (p : Obj) (i : String) (rest : List String) (now : Int) (acc) :
    St.isearchLoop (f + 1) s p (i :: rest) now acc =
      match amGet s.facts i with
      | none => St.isearchLoop f s p rest now acc
      | some fact =>
        match checkExpiration fact now with
        | .ok true => St.isearchLoop f (St.irem f s i now).1 p rest now acc
        | _ => match matchesJ (.obj p) (.obj fact) with
          | .error e => (s, .error e)
          | .ok bss => St.isearchLoop f s p rest now (if bss.isEmpty then acc else acc ++ [(i, fact, bss)]) := by
  rw [St.isearchLoop.eq_3]
  cases hg : amGet s.facts i with
  | none => rfl
  | some fact =>
    simp only
    rcases checkExpiration fact now with e | b
    · rfl
    · cases b <;> rfl

/-! ## frame of the indexed `rem`/`search` -/

/-- equal up to the rule (pattern) index -/
def SameButRi (s s1 : St) : Prop :=
  s1.facts = s.facts ∧ s1.store = s.store ∧ s1.ti = s.ti ∧ s1.kind = s.kind ∧ s1.fresh = s.fresh

theorem unindexRule_same {s s1 : St} {id : String} {r : Obj} (h : s.unindexRule id r = .ok s1) : SameButRi s s1 := by
  simp only [St.unindexRule, bind, Except.bind] at h
  split at h
  · cases h
  · rename_i v hv
    split at h
    · injection h with h; subst h; exact ⟨rfl, rfl, rfl, rfl, rfl⟩
    · rename_i pat
      split at h
      · cases h
      · injection h with h; subst h; exact ⟨rfl, rfl, rfl, rfl, rfl⟩

theorem unindexOf_same {s s1 : St} {id : String} {fact : Obj} (h : s.unindexOf id fact = .ok s1) : SameButRi s s1 := by
  simp only [St.unindexOf] at h
  split at h
  · exact unindexRule_same h
  · injection h with h; subst h; exact ⟨rfl, rfl, rfl, rfl, rfl⟩

theorem idel_le {s s1 : St} (h : SameButRi s s1) (id : String) (fact : Obj) : StLe s (s1.idel id fact) := by
  obtain ⟨hf, hs, ht, hk, hr⟩ := h
  refine ⟨?_, ?_, hk, hr, ?_, ?_, ?_⟩
  · simp only [St.idel, hf, amErase]; exact List.filter_sublist
  · simp only [St.idel, hs, amErase]; exact List.filter_sublist
  · simp only [St.idel, ht]; exact tiWidth_foldl_rem_le _ _ _
  · intro htiok id' fact' hmem t ht'
    simp only [St.idel, hf] at hmem
    rw [amErase_eq_filterOut] at hmem
    obtain ⟨hm1, hm2⟩ := mem_filterOut.1 hmem
    have hne : id' ≠ id := by simpa using hm2
    have := htiok id' fact' hm1 t ht'
    simp only [St.idel, ht]
    exact TI.has_foldl_rem_of_ne hne this
  · intro hnd
    simp only [TINodup, St.idel, ht]
    exact TI.nodup_foldl_rem hnd

theorem iframe (now : Int) : ∀ f : Nat,
    (∀ s id, StLe s (St.irem f s id now).1) ∧
    (∀ s id, StLe s (St.ideps f s id now).1) ∧
    (∀ s ids, StLe s (St.iremAll f s ids now).1) ∧
    (∀ s p, StLe s (St.isearch f s p now).1) ∧
    (∀ s p ids acc, StLe s (St.isearchLoop f s p ids now acc).1) := by
  intro f
  induction f with
  | zero =>
    refine ⟨?_, ?_, ?_, ?_, ?_⟩ <;> intros <;> exact StLe.refl _
  | succ f ih =>
    obtain ⟨ih1, ih2, ih3, ih4, ih5⟩ := ih
    have h5 : ∀ s p ids acc, StLe s (St.isearchLoop (f + 1) s p ids now acc).1 := by
      intro s p ids acc
      cases ids with
      | nil => rw [St.isearchLoop_nil]; exact StLe.refl _
      | cons i rest =>
        rw [St.isearchLoop_cons]
        cases amGet s.facts i with
        | none => exact ih5 _ _ _ _
        | some fact =>
          simp only
          split
          · exact (ih1 s i).trans (ih5 _ _ _ _)
          · split
            · exact StLe.refl _
            · exact ih5 _ _ _ _
    have h4 : ∀ s p, StLe s (St.isearch (f + 1) s p now).1 := by
      intro s p
      rw [St.isearch_succ]
      split
      · exact StLe.refl _
      · exact ih5 _ _ _ _
    have h3 : ∀ s ids, StLe s (St.iremAll (f + 1) s ids now).1 := by
      intro s ids
      cases ids with
      | nil => rw [St.iremAll_nil]; exact StLe.refl _
      | cons i rest =>
        rw [St.iremAll_cons]
        split
        · exact ih1 _ _
        · exact (ih1 s i).trans (ih3 _ _)
    have h2 : ∀ s id, StLe s (St.ideps (f + 1) s id now).1 := by
      intro s id
      rw [St.ideps_succ]
      split
      · exact StLe.refl _
      · split
        · exact ih4 _ _
        · exact (ih4 s _).trans (ih3 _ _)
    have h1 : ∀ s id, StLe s (St.irem (f + 1) s id now).1 := by
      intro s id
      rw [St.irem_succ]
      split
      · rename_i fact hg
        split
        · exact StLe.refl _
        · rename_i s1 hu
          exact (idel_le (unindexOf_same hu) id fact).trans (ih2 _ _)
      · exact ih2 _ _
    exact ⟨h1, h2, h3, h4, h5⟩

/-! ## linear state: normal forms and frame -/

/-- what `lrem` does first: the id leaves memory and storage -/
def St.ldel (s : St) (id : String) : St :=
  { s with store := amErase s.store id, facts := amErase s.facts id }

theorem St.lrem_zero (s : St) (id : String) (now : Int) : St.lrem 0 s id now = (s, .error "fuel") := rfl
theorem St.lremAll_zero (s : St) (ids : List String) (now : Int) : St.lremAll 0 s ids now = (s, .error "fuel") := rfl
theorem St.lsearch_zero (s : St) (p : Obj) (now : Int) : St.lsearch 0 s p now = (s, .error "fuel") := rfl
theorem St.lsearchLoop_zero (s : St) (p : Obj) (ids : List String) (now : Int) (acc) :
    St.lsearchLoop 0 s p ids now acc = (s, .error "fuel") := rfl

theorem St.lrem_succ (f : Nat) (s : St) (id : String) (now : Int) :
    St.lrem (f + 1) s id now =
      if isVar id then (s.ldel id, .ok (amHas s.facts id)) else
      match (St.lsearch f (s.ldel id) (depPat id) now).2 with
      | .error e => ((St.lsearch f (s.ldel id) (depPat id) now).1, .error e)
      | .ok found =>
        ((St.lremAll f (St.lsearch f (s.ldel id) (depPat id) now).1 ((found.map (·.1)).filter (· != id)) now).1,
         (St.lremAll f (St.lsearch f (s.ldel id) (depPat id) now).1 ((found.map (·.1)).filter (· != id)) now).2.map
            (fun _ => amHas s.facts id)) := by
  rw [St.lrem.eq_2]
  simp only [depPat, St.ldel]
  split
  · rfl
  · rcases hs : St.lsearch f _ _ now with ⟨s2, r | found⟩
    · rfl
    · simp only
      rcases hr : St.lremAll f s2 _ now with ⟨s3, r | r⟩ <;> rfl

theorem St.lremAll_nil (f : Nat) (s : St) (now : Int) : St.lremAll (f + 1) s [] now = (s, .ok ()) := rfl

theorem St.lremAll_cons (f : Nat) (s : St) (i : String) (rest : List String) (now : Int) :
    St.lremAll (f + 1) s (i :: rest) now =
      match (St.lrem f s i now).2 with
      | .error e => ((St.lrem f s i now).1, .error e)
      | .ok _ => St.lremAll f (St.lrem f s i now).1 rest now := by
  rw [St.lremAll.eq_3]
  rcases St.lrem f s i now with ⟨s3, r | r⟩ <;> rfl

theorem St.lsearch_succ (f : Nat) (s : St) (p : Obj) (now : Int) :
    St.lsearch (f + 1) s p now = St.lsearchLoop f s p (s.facts.map (·.1)) now [] := rfl

theorem St.lsearchLoop_nil (f : Nat) (s : St) (p : Obj) (now : Int) (acc) :
    St.lsearchLoop (f + 1) s p [] now acc = (s, .ok acc) := rfl

theorem St.lsearchLoop_cons (f : Nat) (s : St) (p : Obj) (i : String) (rest : List String) (now : Int) (acc) :
    St.lsearchLoop (f + 1) s p (i :: rest) now acc =
      match amGet s.facts i with
      | none => St.lsearchLoop f s p rest now acc
      | some fact =>
        match checkExpiration fact now with
        | .error e => (s, .error e)
        | .ok true =>
          (match (St.lrem f s i now).2 with
           | .error e => ((St.lrem f s i now).1, .error e)
           | .ok _ => St.lsearchLoop f (St.lrem f s i now).1 p rest now acc)
        | .ok false =>
          match matchesJ (.obj p) (.obj fact) with
          | .error e => (s, .error e)
          | .ok bss => St.lsearchLoop f s p rest now (if bss.isEmpty then acc else acc ++ [(i, fact, bss)]) := by
  rw [St.lsearchLoop.eq_3]
  cases hg : amGet s.facts i with
  | none => rfl
  | some fact =>
    simp only
    rcases checkExpiration fact now with e | b
    · rfl
    · cases b
      · rfl
      · simp only
        rcases St.lrem f s i now with ⟨s3, r | r⟩ <;> rfl

theorem ldel_le (s : St) (id : String) : StLe s (s.ldel id) := by
  refine ⟨?_, ?_, rfl, rfl, Nat.le_refl _, ?_, fun h => h⟩
  · simp only [St.ldel, amErase]; exact List.filter_sublist
  · simp only [St.ldel, amErase]; exact List.filter_sublist
  · intro htiok id' fact' hmem t ht'
    simp only [St.ldel] at hmem
    rw [amErase_eq_filterOut] at hmem
    exact htiok id' fact' (mem_filterOut.1 hmem).1 t ht'

theorem lframe (now : Int) : ∀ f : Nat,
    (∀ s id, StLe s (St.lrem f s id now).1) ∧
    (∀ s ids, StLe s (St.lremAll f s ids now).1) ∧
    (∀ s p, StLe s (St.lsearch f s p now).1) ∧
    (∀ s p ids acc, StLe s (St.lsearchLoop f s p ids now acc).1) := by
  intro f
  induction f with
  | zero =>
    refine ⟨?_, ?_, ?_, ?_⟩ <;> intros <;> exact StLe.refl _
  | succ f ih =>
    obtain ⟨ih1, ih2, ih3, ih4⟩ := ih
    have h4 : ∀ s p ids acc, StLe s (St.lsearchLoop (f + 1) s p ids now acc).1 := by
      intro s p ids acc
      cases ids with
      | nil => rw [St.lsearchLoop_nil]; exact StLe.refl _
      | cons i rest =>
        rw [St.lsearchLoop_cons]
        cases amGet s.facts i with
        | none => exact ih4 _ _ _ _
        | some fact =>
          simp only
          split
          · exact StLe.refl _
          · split
            · exact ih1 _ _
            · exact (ih1 s i).trans (ih4 _ _ _ _)
          · split
            · exact StLe.refl _
            · exact ih4 _ _ _ _
    have h3 : ∀ s p, StLe s (St.lsearch (f + 1) s p now).1 := by
      intro s p
      rw [St.lsearch_succ]
      exact ih4 _ _ _ _
    have h2 : ∀ s ids, StLe s (St.lremAll (f + 1) s ids now).1 := by
      intro s ids
      cases ids with
      | nil => rw [St.lremAll_nil]; exact StLe.refl _
      | cons i rest =>
        rw [St.lremAll_cons]
        split
        · exact ih1 _ _
        · exact (ih1 s i).trans (ih2 _ _)
    have h1 : ∀ s id, StLe s (St.lrem (f + 1) s id now).1 := by
      intro s id
      rw [St.lrem_succ]
      split
      · exact ldel_le s id
      · split
        · exact (ldel_le s id).trans (ih3 _ _)
        · exact ((ldel_le s id).trans (ih3 _ _)).trans (ih2 _ _)
    exact ⟨h1, h2, h3, h4⟩

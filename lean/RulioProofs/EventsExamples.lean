import RulioProofs.Events
import RulioProofs.QueryExamples

/-! # Concrete instances for C04 (evaluated on the model by `simp` and the lemmas), used by the `example`s of
`Props/C04.lean` -/

open QueryProofs EventsProofs QueryEx

namespace EventsEx
open QSpec

theorem isVar_qy : isVar "?y" = true := by simp [isVar]
theorem isOptVar_qy : isOptVar "?y" = false := by simp [isOptVar]

/-- event `{"a":[1,2]}` -/
def exEv : Obj := [("a", .arr [.num 1, .num 2])]
/-- `when` pattern `{"a":["?x"]}`: an array pattern with a variable — one binding per array element -/
def exWhen : Obj := [("a", .arr [.str "?x"])]
/-- condition `{"pattern":{"a":"?y"}}`: two bindings over `QueryEx.exFacts` -/
def exCondJ : J := .obj [("pattern", .obj [("a", .str "?y")])]
/-- an action that returns its visible variables -/
def aEcho : J := .obj [("verif_tmpl", .obj [("t", .str "echo")])]
/-- an action that fails -/
def aThrow : J := .obj [("verif_tmpl", .obj [("t", .str "throw")])]
/-- the rule: 2 `when` bindings × 2 condition bindings × 2 actions (one failing), not serial -/
def exR : RuleM := { when? := some exWhen, schedule := "", condition := some exCondJ, actions := [aEcho, aThrow],
                     serial := false, raw := [] }
/-- the same rule with `serialActions` -/
def exRs : RuleM := { exR with serial := true }
/-- a rule whose `when` `{"z":1}` does not match the event -/
def exRz : RuleM := { exR with when? := some [("z", .num 1)] }
/-- candidates: a disabled copy, the rule, a non-matching rule -/
def exCands : List (String × RuleM × Bool) := [("r0", exR, false), ("r1", exR, true), ("r2", exRz, true)]

def w1 : Bs := [("?x", .num 1)]
def w2 : Bs := [("?x", .num 2)]

set_option linter.unusedSimpArgs false

theorem ex_when : whenBindings exEv exR = .ok [w1, w2] := by
  simp [whenBindings, exR, exWhen, exEv, w1, w2, matchesJ, matchJ, matchO, matchA, matchStr, getVariable, splitNth,
    lookupKey, isVar_qx, isOptVar_qx, isVar_a, Bs.get?, Bs.set, J.isScalar, bind, Except.bind, pure, Except.pure,
    List.mapM_cons, List.filter_cons, List.eraseDups_cons, QueryEx.J.beq_def, J.beq, Function.comp]

theorem ex_when_z : whenBindings exEv exRz = .ok [] := by
  simp [whenBindings, exRz, exR, exEv, matchesJ, matchJ, matchO, lookupKey, isVar, bind, Except.bind, pure, Except.pure]

theorem ex_dispatch : dispatch exEv exCands = .ok [("r1", exR, [w1, w2])] := by
  have h0 : dispatchOne exEv ("r0", exR, false) = .ok none := dispatchOne_disabled _ _ _
  have h1 : dispatchOne exEv ("r1", exR, true) = .ok (some ("r1", exR, [w1, w2])) :=
    dispatchOne_match _ _ _ _ ex_when (by simp)
  have h2 : dispatchOne exEv ("r2", exRz, true) = .ok none := dispatchOne_nomatch _ _ _ _ ex_when_z
  rw [exCands, dispatch_cons, h0, dispatch_cons, h1, dispatch_cons, h2, dispatch_nil]
  rfl

def y1 : Bs := [("?y", .num 1)]
def y2 : Bs := [("?y", .num 2)]

theorem srch_a_qy : exSrch [("a", .str "?y")] = .ok [y1, y2] := by
  simp [exSrch, exFacts, y1, y2, matchJ, matchO, matchStr, lookupKey, isVar_qy, isOptVar_qy, isVar_a, isVar_b,
    Bs.get?, Bs.set, bind, Except.bind, pure, Except.pure, List.mapM_cons]

theorem ex_parse : parseQuery (4 * sz exCondJ + 4) exCondJ = .ok (.pattern [("a", .str "?y")] []) := by
  simp [exCondJ, sz, szO, parseQuery, Obj.has, Obj.get?, lookupKey]

/-- the environment of the `when` binding `{"?x": n}` does not bind `?y` -/
theorem env_no_y (id : String) (w : Bs) (hw : w = w1 ∨ w = w2) : Bs.get? (condEnv "loc" exEv id w) "?y" = none := by
  rw [condEnv_get]
  rcases hw with rfl | rfl <;> simp [w1, w2, Bs.get?]

/-- the condition's result on that environment: `?y` bound to 1 and to 2 -/
def exOut (env : Bs) : List Bs := [("?y", .num 1) :: env, ("?y", .num 2) :: env]

theorem filter_no_y (env : Bs) (h : Bs.get? env "?y" = none) : env.filter (fun p => p.1 != "?y") = env := by
  induction env with
  | nil => rfl
  | cons kv env ih =>
    obtain ⟨k, v⟩ := kv
    rw [get?_cons] at h
    by_cases hk : "?y" = k
    · subst hk; simp at h
    · have h1 : ("?y" == k) = false := by simpa using hk
      rw [h1] at h
      have h2 : (k != "?y") = true := by simp; exact fun e => hk e.symm
      rw [List.filter_cons, if_pos h2, ih h]

theorem ex_cond (r : RuleM) (hr : r.condition = some exCondJ) (id : String) (w : Bs) (hw : w = w1 ∨ w = w2) :
    condResult exSrch r (condEnv "loc" exEv id w) = .ok (exOut (condEnv "loc" exEv id w)) := by
  have hy := env_no_y id w hw
  unfold condResult
  rw [hr]
  simp only []
  rw [bind_ok _ _ _ ex_parse]
  have hs : substO (condEnv "loc" exEv id w) [("a", .str "?y")] = [("a", .str "?y")] := by
    simp [substO, subst, isVar_qy, hy]
  rw [exec_pattern_ok exSrch _ [] (fun _ => [y1, y2]) [condEnv "loc" exEv id w]
    (by intro bs hm; rw [List.mem_singleton] at hm; subst hm; rw [hs, srch_a_qy])]
  simp [exOut, y1, y2, extendBs, Bs.set, filter_no_y _ hy]

theorem echo_isEcho : isEcho aEcho := ⟨_, _, rfl, rfl, rfl⟩

theorem throw_fails (b : Bs) : execAction aThrow b = .error "script" := by
  rw [aThrow, execAction_obj]
  exact evalTmpl_throw _ _ rfl

theorem ex_pairs (r : RuleM) (hr : r.actions = [aEcho, aThrow]) (env : Bs) :
    pairsOf r (exOut env) =
      [(("?y", .num 1) :: env, aEcho), (("?y", .num 1) :: env, aThrow),
       (("?y", .num 2) :: env, aEcho), (("?y", .num 2) :: env, aThrow)] := by
  simp [pairsOf, exOut, hr]

/-- the four leaves under one condition node: echo, failed, echo, failed -/
theorem ex_acts (r : RuleM) (hr : r.actions = [aEcho, aThrow]) (env : Bs) :
    actsOf r (exOut env) =
      [{ ok := true, value := .obj (stripQ (("?y", .num 1) :: env)) }, failedNode,
       { ok := true, value := .obj (stripQ (("?y", .num 2) :: env)) }, failedNode] := by
  rw [← map_pairsOf, ex_pairs r hr]
  simp only [List.map_cons, List.map_nil, actNodeOf_ok _ _ _ (execAction_echo aEcho _ echo_isEcho),
    actNodeOf_err _ _ _ (throw_fails _)]

theorem ex_evalCond (id : String) (w : Bs) (hw : w = w1 ∨ w = w2) :
    evalCond exSrch "loc" exEv id exR w =
      ({ bs := condEnv "loc" exEv id w, err := none, acts := actsOf exR (exOut (condEnv "loc" exEv id w)) },
        okValues (actsOf exR (exOut (condEnv "loc" exEv id w))), false) :=
  evalCond_nonserial _ _ _ _ _ _ _ (ex_cond exR rfl id w hw) rfl

theorem ex_not_aborted : (processEvent exSrch "loc" exEv exCands).aborted = false := by
  rw [processEvent_eq, ex_dispatch]
  simp only []
  rw [runUntil_not_aborted]
  intro d hd
  rw [List.mem_singleton] at hd; subst hd
  show (runUntil (evalCond exSrch "loc" exEv "r1" exR) [w1, w2]).2.2 = false
  rw [runUntil_not_aborted]
  intro w hw
  simp only [List.mem_cons, List.not_mem_nil, or_false] at hw
  rw [ex_evalCond "r1" w hw]

theorem ex_condOut (w : Bs) (hw : w = w1 ∨ w = w2) :
    condOut exSrch exR (condEnv "loc" exEv "r1" w) = exOut (condEnv "loc" exEv "r1" w) := by
  unfold condOut; rw [ex_cond exR rfl "r1" w hw]

/-- serial variant: the first failing action (second pair) ends everything -/
theorem ex_serial_evalCond :
    evalCond exSrch "loc" exEv "r1" exRs w1 =
      ({ bs := condEnv "loc" exEv "r1" w1, err := none,
         acts := [{ ok := true, value := .obj (stripQ (("?y", .num 1) :: condEnv "loc" exEv "r1" w1)) }, failedNode] },
        [.obj (stripQ (("?y", .num 1) :: condEnv "loc" exEv "r1" w1))], true) := by
  rw [evalCond_serial _ _ _ _ _ _ _ (ex_cond exRs rfl "r1" w1 (Or.inl rfl)) rfl, ex_pairs exRs rfl]
  have hs := serialRun_stops [(("?y", .num 1) :: condEnv "loc" exEv "r1" w1, aEcho)]
    [(("?y", .num 2) :: condEnv "loc" exEv "r1" w1, aEcho), (("?y", .num 2) :: condEnv "loc" exEv "r1" w1, aThrow)]
    (("?y", .num 1) :: condEnv "loc" exEv "r1" w1) aThrow "script"
    (by intro p hp; rw [List.mem_singleton] at hp; subst hp; exact ⟨_, execAction_echo aEcho _ echo_isEcho⟩)
    (throw_fails _)
  simp only [List.cons_append, List.nil_append] at hs
  rw [hs]
  simp only [List.map_cons, List.map_nil, actNodeOf_ok _ _ _ (execAction_echo aEcho _ echo_isEcho)]
  rfl

theorem ex_when_s : whenBindings exEv exRs = .ok [w1, w2] := ex_when

theorem ex_dispatch_s : dispatch exEv [("r1", exRs, true), ("r3", exR, true)] =
    .ok [("r1", exRs, [w1, w2]), ("r3", exR, [w1, w2])] := by
  rw [dispatch_cons, dispatchOne_match _ _ _ _ ex_when_s (by simp), dispatch_cons,
    dispatchOne_match _ _ _ _ ex_when (by simp), dispatch_nil]
  rfl

/-- the serial rule's step: only the first `when` binding is evaluated, two leaves, abort -/
theorem ex_serial_ruleStep :
    ruleStep exSrch "loc" exEv ("r1", exRs, [w1, w2]) =
      ({ id := "r1", bss := [w1, w2], conds := [(evalCond exSrch "loc" exEv "r1" exRs w1).1] },
        [.obj (stripQ (("?y", .num 1) :: condEnv "loc" exEv "r1" w1))], true) := by
  unfold ruleStep
  simp only []
  rw [runUntil_cons_abort _ w1 [w2] (by rw [ex_serial_evalCond])]
  rw [ex_serial_evalCond]

theorem stripKey_lit (k s : String) (h : k = "?" ++ s) : stripKey k = s := by rw [h, stripKey_var]

theorem ex_env : condEnv "loc" exEv "r1" w1 =
    [("?x", .num 1), ("?event", .obj exEv), ("?location", .str "loc"), ("?ruleId", .str "r1")] := by
  simp [condEnv, addDefault, w1, Bs.get?]

/-- what an `echo` action sees -/
theorem ex_strip : stripQ (("?y", .num 1) :: condEnv "loc" exEv "r1" w1) =
    [("y", .num 1), ("x", .num 1), ("event", .obj exEv), ("location", .str "loc"), ("ruleId", .str "r1")] := by
  rw [ex_env]
  rw [stripQ_cons, if_neg (by decide), stripQ_cons, if_neg (by decide), stripQ_cons, if_neg (by decide),
    stripQ_cons, if_neg (by decide), stripQ_cons, if_neg (by decide), stripQ_nil,
    stripKey_lit "?y" "y" (by decide), stripKey_lit "?x" "x" (by decide), stripKey_lit "?event" "event" (by decide),
    stripKey_lit "?location" "location" (by decide), stripKey_lit "?ruleId" "ruleId" (by decide)]

end EventsEx

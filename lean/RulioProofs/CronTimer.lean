import RulioProofs.CronTimeline

/-! Helper lemmas for C16: when the timer of the in-memory cron stays armed for the head of the timeline. -/

namespace CronM
open C16Gen List

/-- an operation after which the timer cannot be left pointing at a job that is no longer the head:
not a `Rem`, and not an `Add` that is rejected for capacity (which removes the old entry without re-arming) -/
def okTimer (s : Cron) : Op → Prop
  | .rem _ => False
  | .add id _ _ => atLimit { s with serial := s.serial + 1 } true (remJob id s.tl) = false
  | _ => True

/-- a history made of such operations only -/
def Calm : Cron → List Op → Prop
  | _, [] => True
  | s, op :: ops => okTimer s op ∧ Calm (step s op) ops

/-- the timer is armed for the head of the timeline whenever the loop is neither suspended nor paused and something is pending -/
def Armed (s : Cron) : Prop := s.suspended = false → s.paused = false → s.tl ≠ [] → s.armed = rearm s.tl

theorem schedule_armed (s : Cron) (j : Job) (b : Bool) (h : atLimit s b (remJob j.id s.tl) = false) :
    (schedule s j b).1.armed = rearm (schedule s j b).1.tl := by
  have hr : scheduleRemsFirst = true := rfl
  have hi : insertRearms = true := rfl
  unfold schedule; dsimp only; simp only [hr, if_true, h, hi]; simp

theorem Armed_tick {s : Cron} (h : Armed s) : Armed (tick s) := by
  obtain ⟨e1, _, _, e4, _, e6, e7, _⟩ := tickArm_fields s
  rcases tick_cases s with ⟨e, _⟩ | ⟨e, hp, hcase⟩ | ⟨j, rest, hp, htl, hr, e⟩
  · rw [e]; exact h
  · rw [e]
    intro hs hpz hne
    rw [e6] at hs; rw [e1] at hne ⊢
    have ha := h hs hp hne
    rcases hcase with hnil | ⟨j, rest, htl, hnr⟩
    · exact absurd hnil hne
    · -- armed for j.next, which has not come: the delivery was a stale one and the timer stays armed
      have hj : s.armed = some j.next := by rw [ha, htl]; rfl
      have hgt : ¬ j.next ≤ s.clock := by
        intro hle; rw [le_readyTest hle] at hnr; cases hnr
      unfold tickArm; rw [hj]; simp only [hgt, if_false]; exact ha
  · rw [e]; intro _ _ _; rfl

theorem Armed_step {s : Cron} (h : Armed s) (op : Op) (hok : okTimer s op) : Armed (step s op) := by
  have hres : resumeRearms = true := rfl
  cases op with
  | advance d => exact h
  | add id due p =>
    simp only [step]
    intro _ _ _
    exact schedule_armed _ _ _ hok
  | rem id => exact False.elim hok
  | tick => exact Armed_tick h
  | done k =>
    simp only [step]
    rcases done_cases s k with ⟨e, _⟩ | ⟨j, _, _, ⟨_, e⟩ | ⟨_, e⟩⟩
    · rw [e]; exact h
    · rw [e]; exact h
    · rw [e]; intro _ _ _
      exact schedule_armed _ _ _ (by simp [atLimit])
  | suspend => intro hs; cases hs
  | resume =>
    simp only [step]
    split
    · intro _ _ _; simp [hres]
    · exact h
  | pauseBegin => intro _ hp; cases hp
  | pauseEnd =>
    simp only [step]
    split
    · intro _ _ _; rfl
    · exact h

theorem Armed_run {s : Cron} (h : Armed s) (ops : List Op) (hc : Calm s ops) : Armed (run s ops) := by
  induction ops generalizing s with
  | nil => exact h
  | cons op ops ih => exact ih (Armed_step h op hc.1) hc.2

theorem Armed_init (limit : Nat) : Armed (init limit) := by
  intro _ _ hne; exact absurd rfl hne

end CronM

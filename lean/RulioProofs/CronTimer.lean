import RulioProofs.CronProps

/-! Helper lemmas for C16: the timer of the in-memory cron stays armed for (at the latest) the head of the timeline, in every
history (`ArmedLe`), and exactly for the head along histories without removals (`Armed`); liveness under the timer contract. -/

namespace CronM
open C16Gen List

/-- an operation after which the timer cannot be left pointing at a job that is no longer the head:
not a `Rem`, and not an `Add` that is rejected for capacity (which removes the old entry without re-arming) -/
def okTimer (s : Cron) : Op → Prop
  | .rem _ => False
  | .add id _ _ => atLimit { s with serial := s.serial + 1 } true (remJob id s.tl) = false
  | _ => True

/-- a history made of such operations only -/
def Calm : Cron → List Op → Prop
  | _, [] => True
  | s, op :: ops => okTimer s op ∧ Calm (step s op) ops

/-- the timer is armed for the head of the timeline whenever the loop is neither suspended nor paused and something is pending -/
def Armed (s : Cron) : Prop := s.suspended = false → s.paused = false → s.tl ≠ [] → s.armed = rearm s.tl

theorem schedule_armed (s : Cron) (j : Job) (b : Bool) (h : atLimit s b (remJob j.id s.tl) = false) :
    (schedule s j b).1.armed = rearm (schedule s j b).1.tl := by
  have hr : scheduleRemsFirst = true := rfl
  have hi : insertRearms = true := rfl
  unfold schedule; dsimp only; simp only [hr, if_true, h, hi]; simp

theorem Armed_tick {s : Cron} (h : Armed s) : Armed (tick s) := by
  rcases tick_cases s with ⟨e, _⟩ | ⟨e, hp, hcase⟩ | ⟨j, rest, hp, htl, hr, e⟩
  · rw [e]; exact h
  · rw [e]
    intro _ _ hne
    obtain ⟨i1, _⟩ := tickIdle_fields s
    rw [i1] at hne ⊢
    -- a delivery that pops nothing re-arms the timer for the head
    unfold tickIdle
    cases htl : s.tl with
    | nil => exact absurd htl hne
    | cons j rest => rfl
  · rw [e]; intro _ _ _; rfl

theorem Armed_step {s : Cron} (h : Armed s) (op : Op) (hok : okTimer s op) : Armed (step s op) := by
  have hres : resumeRearms = true := rfl
  cases op with
  | advance d => exact h
  | add id due p =>
    simp only [step]
    intro _ _ _
    exact schedule_armed _ _ _ hok
  | rem id => exact False.elim hok
  | tick => exact Armed_tick h
  | done k =>
    simp only [step]
    rcases done_cases s k with ⟨e, _⟩ | ⟨j, _, _, ⟨_, e⟩ | ⟨_, e⟩⟩
    · rw [e]; exact h
    · rw [e]; exact h
    · rw [e]
      rcases reschedule_cases { s with inflight := s.inflight.eraseP (fun j => j.serial == k) } j with ⟨e2, _⟩ | ⟨_, e2⟩
      · rw [e2]; exact h
      · rw [e2]; intro _ _ _; rfl
  | suspend => intro hs; cases hs
  | resume =>
    simp only [step]
    split
    · intro _ _ _; simp [hres]
    · exact h
  | pauseBegin => intro _ hp; cases hp
  | pauseEnd =>
    simp only [step]
    split
    · intro _ _ _; rfl
    · exact h

theorem Armed_run {s : Cron} (h : Armed s) (ops : List Op) (hc : Calm s ops) : Armed (run s ops) := by
  induction ops generalizing s with
  | nil => exact h
  | cons op ops ih => exact ih (Armed_step h op hc.1) hc.2

theorem Armed_init (limit : Nat) : Armed (init limit) := by
  intro _ _ hne; exact absurd rfl hne

/-! ## every history: armed at or before the head's due time -/

/-- whenever the loop is neither suspended nor paused and something is pending, the timer is armed, for a time no later than
the head's due time (an earlier target only costs one delivery that finds the head not ready and re-arms for it exactly) -/
def ArmedLe (s : Cron) : Prop :=
  s.suspended = false → s.paused = false → ∀ j rest, s.tl = j :: rest → ∃ t, s.armed = some t ∧ t ≤ j.next

/-- on a sorted timeline, removing entries can only move the head to a later time -/
theorem head_le_of_sublist {tl tl' : List Job} (hs : tl.Pairwise (fun a b => a.next ≤ b.next)) (hsub : tl'.Sublist tl)
    {j j' : Job} {rest rest' : List Job} (h : tl = j :: rest) (h' : tl' = j' :: rest') : j.next ≤ j'.next := by
  have hm : j' ∈ tl := hsub.subset (by rw [h']; simp)
  rw [h] at hm hs
  rcases mem_cons.1 hm with e | hm
  · rw [e]; exact Nat.le_refl _
  · exact (pairwise_cons.1 hs).1 j' hm

/-- a shrunken timeline keeps `ArmedLe` as long as timer and flags are untouched -/
theorem ArmedLe_shrink {s s' : Cron} (hw : WF s) (h : ArmedLe s) (hsub : s'.tl.Sublist s.tl)
    (ha : s'.armed = s.armed) (hsus : s'.suspended = s.suspended) (hpa : s'.paused = s.paused) : ArmedLe s' := by
  intro hs hp j' rest' htl'
  rw [hsus] at hs; rw [hpa] at hp
  cases htl : s.tl with
  | nil => rw [htl] at hsub; rw [htl'] at hsub; cases hsub
  | cons j rest =>
    obtain ⟨t, e, hle⟩ := h hs hp j rest htl
    exact ⟨t, ha.trans e, Nat.le_trans hle (head_le_of_sublist hw.sorted hsub htl htl')⟩

/-- a state whose timer has just been set by `resetTimer` -/
theorem ArmedLe_of_rearm {s : Cron} (h : s.armed = rearm s.tl) : ArmedLe s := by
  intro _ _ j rest htl
  exact ⟨j.next, by rw [h, htl]; rfl, Nat.le_refl _⟩

theorem schedule_flags (s : Cron) (j : Job) (b : Bool) :
    (schedule s j b).1.suspended = s.suspended ∧ (schedule s j b).1.paused = s.paused := by
  obtain ⟨_, _, _, _, _, e6, e7⟩ := schedule_fst_fields s j b
  exact ⟨e6, e7⟩

theorem ArmedLe_schedule {s : Cron} (hw : WF s) (h : ArmedLe s) (j : Job) (b : Bool) : ArmedLe (schedule s j b).1 := by
  by_cases hl : atLimit s b (remJob j.id s.tl) = true
  · -- rejected for capacity: the old entry is gone, the timer is untouched
    have hr : scheduleRemsFirst = true := rfl
    have e : (schedule s j b).1 = { s with tl := remJob j.id s.tl, running := cancelRunning j.id s.running } := by
      unfold schedule; dsimp only; simp only [hr, if_true, hl]
    rw [e]
    exact ArmedLe_shrink hw h (remJob_sublist _ _) rfl rfl rfl
  · exact ArmedLe_of_rearm (schedule_armed s j b (by simpa using hl))

theorem ArmedLe_tick {s : Cron} (h : ArmedLe s) : ArmedLe (tick s) := by
  rcases tick_cases s with ⟨e, _⟩ | ⟨e, _, _⟩ | ⟨j, rest, _, _, _, e⟩
  · rw [e]; exact h
  · rw [e]
    obtain ⟨i1, _⟩ := tickIdle_fields s
    intro _ _ j rest htl
    rw [i1] at htl
    refine ⟨j.next, ?_, Nat.le_refl _⟩
    unfold tickIdle; rw [htl]; rfl
  · rw [e]; exact ArmedLe_of_rearm rfl

theorem ArmedLe_step {s : Cron} (hw : WF s) (h : ArmedLe s) (op : Op) : ArmedLe (step s op) := by
  have hres : resumeRearms = true := rfl
  cases op with
  | advance d => exact h
  | add id due p =>
    simp only [step]
    have hw' : WF { s with serial := s.serial + 1 } :=
      hw.mono (Sublist.refl _) (Sublist.refl _) (Sublist.refl _) hw.runSub (Nat.le_refl _) (Nat.le_succ _)
    exact ArmedLe_schedule hw' h _ _
  | rem id => exact ArmedLe_shrink hw h (remJob_sublist _ _) rfl rfl rfl
  | tick => exact ArmedLe_tick h
  | done k =>
    simp only [step]
    rcases done_cases s k with ⟨e, _⟩ | ⟨j, _, _, ⟨_, e⟩ | ⟨_, e⟩⟩
    · rw [e]; exact h
    · rw [e]; exact h
    · rw [e]
      rcases reschedule_cases { s with inflight := s.inflight.eraseP (fun j => j.serial == k) } j with ⟨e2, _⟩ | ⟨_, e2⟩
      · rw [e2]; exact h
      · rw [e2]; exact ArmedLe_of_rearm rfl
  | suspend => intro hs; cases hs
  | resume =>
    simp only [step]
    split
    · exact ArmedLe_of_rearm (by simp [hres])
    · exact h
  | pauseBegin => intro _ hp; cases hp
  | pauseEnd =>
    simp only [step]
    split
    · exact ArmedLe_of_rearm rfl
    · exact h

theorem ArmedLe_init (limit : Nat) : ArmedLe (init limit) := by
  intro _ _ j rest htl; cases htl

theorem ArmedLe_run {s : Cron} (hw : WF s) (h : ArmedLe s) (ops : List Op) : ArmedLe (run s ops) := by
  induction ops generalizing s with
  | nil => exact h
  | cons op ops ih => exact ih (WF_step hw op) (ArmedLe_step hw h op)

/-! ## liveness under the timer contract -/

theorem tick_flags (s : Cron) : (tick s).suspended = s.suspended := by
  obtain ⟨_, _, _, _, _, e6, _⟩ := tickArm_fields s
  obtain ⟨_, _, _, _, _, i6, _⟩ := tickIdle_fields s
  rcases tick_cases s with ⟨e, _⟩ | ⟨e, _, _⟩ | ⟨j, rest, _, _, _, e⟩
  · rw [e]
  · rw [e, i6]
  · rw [e]; exact e6

/-- Under the timer contract a pending job whose due time has come is fired by the next `pre.length + 1` deliveries, every one
of which is due: the timer is armed at or before the head's time (`ArmedLe`), the head is ready because the timeline is sorted,
and every pop re-arms for the next head. -/
theorem deliverN_fires {s : Cron} (hw : WF s) (ha : ArmedLe s) (hs : s.suspended = false) (hp : s.paused = false)
    (pre : List Job) (j : Job) (post : List Job) (htl : s.tl = pre ++ j :: post) (hdue : j.next ≤ s.clock) :
    ∃ s', deliverN (pre.length + 1) s = some s' ∧ fireOf j s.clock ∈ s'.log ∧ s'.tl = post ∧ s'.clock = s.clock := by
  induction pre generalizing s with
  | nil =>
    have htl' : s.tl = j :: post := by simpa using htl
    obtain ⟨t, et, hle⟩ := ha hs hp j post htl'
    obtain ⟨a, b, _, d, _⟩ := tick_fires_head' hp htl' hdue
    have hd : deliverable s = true := by
      simp only [deliverable, hp, et]
      simpa using Nat.le_trans hle hdue
    refine ⟨tick s, ?_, by rw [b]; simp, a, d⟩
    simp [deliverN, deliver, hd]
  | cons x pre ih =>
    have htl' : s.tl = x :: (pre ++ j :: post) := by simpa using htl
    have hx : x.next ≤ s.clock := by
      have hso := hw.sorted
      rw [htl'] at hso
      exact Nat.le_trans ((pairwise_cons.1 hso).1 j (by simp)) hdue
    obtain ⟨t, et, hle⟩ := ha hs hp x _ htl'
    obtain ⟨a, b, _, d, e, _⟩ := tick_fires_head' hp htl' hx
    have hd : deliverable s = true := by
      simp only [deliverable, hp, et]
      simpa using Nat.le_trans hle hx
    obtain ⟨s', h1, h2, h3, h4⟩ := ih (s := tick s) (WF_tick hw) (ArmedLe_tick ha) ((tick_flags s).trans hs) e a (by rw [d]; exact hdue)
    refine ⟨s', ?_, by rw [d] at h2; exact h2, h3, h4.trans d⟩
    simp only [length_cons, deliverN, deliver, hd, if_true, Option.bind_some]
    exact h1

end CronM

import RulioModel.ComposeFrag
import RulioProofs.ComposeMatch
import RulioProofs.PatIndexState
import RulioProofs.StateC02

/-! # Composition, state side: reachable indexed states are well-formed; what `findRules` returns -/

set_option linter.unusedVariables false
set_option linter.unusedSimpArgs false

open PI

/-! ## `IReach` states are `WF` -/

theorem iFindRules_go_le (now : Int) : ∀ (fuel : Nat) (s : St) (ids : List String) (acc : List (String × Obj)),
    StLe s (St.iFindRules.go now fuel s ids acc).1 := by
  intro fuel
  induction fuel with
  | zero => intro s ids acc; simp only [St.iFindRules.go]; exact StLe.refl _
  | succ fuel ih =>
    intro s ids acc
    simp only [St.iFindRules.go]
    cases ids with
    | nil => exact StLe.refl _
    | cons id rest =>
      simp only []
      have hrest : ∀ s1, StLe s s1 → StLe s (match amGet s.facts id with
          | none => (s1, (Except.error "lostRule" : Except LErr (List (String × Obj))))
          | some f =>
            match extractRule f true with
            | .error e => (s1, .error e)
            | .ok (some body, _) => St.iFindRules.go now fuel s1 rest (acc ++ [(id, body)])
            | .ok (none, _) => (s1, .error "ruleBodyMissing")).1 := by
        intro s1 h1
        cases amGet s.facts id with
        | none => exact h1
        | some f =>
          simp only []
          cases extractRule f true with
          | error e => exact h1
          | ok rf =>
            obtain ⟨ro, f2⟩ := rf
            cases ro with
            | none => exact h1
            | some body => exact h1.trans (ih s1 rest _)
      cases hce : checkExpiration ((amGet s.facts id).getD []) now with
      | error e =>
        simp only [Bool.false_eq_true, if_false]
        exact hrest s (StLe.refl _)
      | ok b =>
        cases b with
        | true =>
          simp only [if_true]
          exact ((iframe now _).1 s id).trans (ih _ rest acc)
        | false =>
          simp only [Bool.false_eq_true, if_false]
          exact hrest s (StLe.refl _)

theorem iFindRules_le (s : St) (ev : Obj) (now : Int) : StLe s (s.iFindRules ev now).1 := by
  unfold St.iFindRules
  cases piSearch s.ri ev with
  | error e => exact StLe.refl _
  | ok ids => exact iFindRules_go_le now _ s ids []

theorem iGet_le (s : St) (id : String) (now : Int) : StLe s (s.iGet id now).1 := by
  unfold St.iGet
  cases amGet s.facts id with
  | none => exact StLe.refl _
  | some fact =>
    simp only []
    cases checkExpiration fact now with
    | error e => exact StLe.refl _
    | ok b =>
      cases b with
      | false => exact StLe.refl _
      | true =>
        simp only []
        have := (iframe now s.fuel).1 s id
        rcases hd : St.irem s.fuel s id now with ⟨s1, r1⟩
        rw [hd] at this
        cases r1 <;> exact this

theorem wf_clear (s : St) : WF s.clear :=
  ⟨by simp [KeysNodup, St.clear], by intro e he; simp [St.clear] at he,
   fun _ => by intro id fact hm; simp [St.clear] at hm, fun _ => by intro e he; simp [St.clear] at he⟩

theorem iAdd_kind (s : St) (given : String) (x : Obj) (now : Int) (hk : s.kind = .indexed) :
    (s.iAdd given x now) = (s.add given x now) := by
  simp only [St.add, hk]

/-- **every reachable indexed state is well-formed** (unique ids, term-index completeness) and indexed -/
theorem ireach_wf {s : St} (h : IReach s) : WF s ∧ s.kind = .indexed := by
  induction h with
  | init => exact ⟨wf_empty .indexed, rfl⟩
  | add s given x now _ ih =>
    rw [iAdd_kind s given x now ih.2]
    exact ⟨ih.1.add given x now, by
      rcases add_shape s given x now with ⟨_, _, hf⟩ | ⟨_, _, _, ha⟩
      · rw [hf.kind]; exact ih.2
      · rw [ha.kind]; exact ih.2⟩
  | rem s fuel id now _ ih =>
    have := (iframe now fuel).1 s id
    exact ⟨ih.1.le this, this.kind.trans ih.2⟩
  | get s id now _ ih =>
    have := iGet_le s id now
    exact ⟨ih.1.le this, this.kind.trans ih.2⟩
  | search s fuel p now _ ih =>
    have := (iframe now fuel).2.2.2.1 s p
    exact ⟨ih.1.le this, this.kind.trans ih.2⟩
  | findRules s ev now _ ih =>
    have := iFindRules_le s ev now
    exact ⟨ih.1.le this, this.kind.trans ih.2⟩
  | clear s _ ih => exact ⟨wf_clear s, ih.2⟩

/-! ## what `doFindRules` returns when nothing is expired: indexed state -/

/-- what `doFindRules` (indexed) does with one candidate id when nothing has to be purged -/
def ruleBodyAt (s : St) (id : String) : Except LErr (String × Obj) :=
  match amGet s.facts id with
  | none => .error "lostRule"
  | some f =>
    match extractRule f true with
    | .error e => .error e
    | .ok (some body, _) => .ok (id, body)
    | .ok (none, _) => .error "ruleBodyMissing"

theorem checkExpiration_nil (now : Int) : checkExpiration [] now = .ok false := by
  simp [checkExpiration, Obj.get?, lookupKey]

theorem iFindRules_go_eq {s : St} {now : Int} (hne : NoneExpired s now) :
    ∀ (ids : List String) (fuel : Nat) (acc : List (String × Obj)), ids.length < fuel →
      St.iFindRules.go now fuel s ids acc = (s, (ids.mapM (ruleBodyAt s)).map (fun bs => acc ++ bs)) := by
  intro ids
  induction ids with
  | nil =>
    intro fuel acc hf
    cases fuel with
    | zero => cases hf
    | succ fuel => simp [St.iFindRules.go, Except.map, pure, Except.pure]
  | cons id rest ih =>
    intro fuel acc hf
    cases fuel with
    | zero => cases hf
    | succ fuel =>
      have hf' : rest.length < fuel := by simp at hf; omega
      simp only [St.iFindRules.go]
      have hce : checkExpiration ((amGet s.facts id).getD []) now = .ok false := by
        cases hg : amGet s.facts id with
        | none => exact checkExpiration_nil now
        | some f => exact hne (id, f) (amGet_some_mem hg)
      rw [hce]
      simp only [Bool.false_eq_true, if_false]
      rw [List.mapM_cons]
      unfold ruleBodyAt
      cases hg : amGet s.facts id with
      | none => simp [bind, Except.bind, Except.map]
      | some f =>
        simp only []
        cases he : extractRule f true with
        | error e => simp [bind, Except.bind, Except.map]
        | ok rf =>
          obtain ⟨ro, f2⟩ := rf
          cases ro with
          | none => simp [bind, Except.bind, Except.map]
          | some body =>
            simp only []
            rw [ih fuel _ hf']
            have : (fun i => ruleBodyAt s i) = ruleBodyAt s := rfl
            cases hm : rest.mapM (ruleBodyAt s) with
            | error e =>
              unfold ruleBodyAt at hm
              simp [hm, bind, Except.bind, Except.map]
            | ok bs =>
              unfold ruleBodyAt at hm
              simp [hm, bind, Except.bind, Except.map, pure, Except.pure]

/-- **`doFindRules` (indexed) when nothing is expired**: the state is unchanged and the answer is the trie walk's
ids, each with its stored rule body (or the first error met) -/
theorem iFindRules_eq {s : St} {now : Int} (hne : NoneExpired s now) (ev : Obj) :
    s.iFindRules ev now =
      (s, match piSearch s.ri ev with
          | .error e => .error (perr e)
          | .ok ids => ids.mapM (ruleBodyAt s)) := by
  unfold St.iFindRules
  cases hs : piSearch s.ri ev with
  | error e => rfl
  | ok ids =>
    simp only []
    rw [iFindRules_go_eq hne ids _ [] (Nat.lt_succ_self _)]
    cases ids.mapM (ruleBodyAt s) with
    | error e => rfl
    | ok bs => simp [Except.map]

/-! ## what `doFindRules` returns when nothing is expired: linear state -/

/-- what `doFindRules` (linear) does with one stored fact when nothing has to be purged -/
def linCand (ev : Obj) (e : String × Obj) : Except LErr (Option (String × Obj)) :=
  match e.2.get? "rule" with
  | none => .ok none
  | some rule =>
    match rule with
    | .obj r =>
      match Obj.get? r "when" with
      | some (.obj w) =>
        match matchesJ ((Obj.get? w "pattern").getD (.obj w)) (.obj ev) with
        | .error err => .error err
        | .ok bss => .ok (if bss.isEmpty then none else some (e.1, r))
      | _ => .ok none
    | _ => .error "panic"

theorem lFindRules_go_eq {s : St} {now : Int} (hne : NoneExpired s now) (ev : Obj) :
    ∀ (L : List (String × Obj)) (fuel : Nat) (acc : List (String × Obj)), L.length < fuel →
      (∀ e, e ∈ L → amGet s.facts e.1 = some e.2) →
      St.lFindRules.go ev now fuel s (L.map (·.1)) acc =
        (s, (L.mapM (linCand ev)).map (fun os => acc ++ os.filterMap id)) := by
  intro L
  induction L with
  | nil =>
    intro fuel acc hf _
    cases fuel with
    | zero => cases hf
    | succ fuel => simp [St.lFindRules.go, Except.map, pure, Except.pure]
  | cons e rest ih =>
    intro fuel acc hf hget
    obtain ⟨i, fact⟩ := e
    cases fuel with
    | zero => cases hf
    | succ fuel =>
      have hf' : rest.length < fuel := by simp at hf; omega
      have hget' : ∀ e, e ∈ rest → amGet s.facts e.1 = some e.2 := fun e he => hget e (List.mem_cons_of_mem _ he)
      have hg : amGet s.facts i = some fact := hget (i, fact) List.mem_cons_self
      have hce : checkExpiration fact now = .ok false := hne (i, fact) (amGet_some_mem hg)
      simp only [List.map_cons, St.lFindRules.go, hg]
      rw [List.mapM_cons]
      have fin : ∀ (acc' : List (String × Obj)) (o : Option (String × Obj)), acc' = acc ++ o.toList →
          (s, Except.map (fun os => acc' ++ List.filterMap id os) (List.mapM (linCand ev) rest)) =
          (s, Except.map (fun os => acc ++ List.filterMap id os)
            (do let b ← (Except.ok o : Except LErr _); let bs ← List.mapM (linCand ev) rest; pure (b :: bs))) := by
        intro acc' o ho
        subst ho
        cases hm : rest.mapM (linCand ev) with
        | error e => simp [bind, Except.bind, Except.map]
        | ok os => cases o <;> simp [bind, Except.bind, Except.map, pure, Except.pure]
      cases hr : fact.get? "rule" with
      | none =>
        have hlc : linCand ev (i, fact) = .ok none := by simp [linCand, hr]
        simp only [hlc]
        rw [ih fuel acc hf' hget']
        exact fin acc none (by simp)
      | some rule =>
        simp only [hce]
        cases rule with
        | obj r =>
          simp only []
          cases hw : Obj.get? r "when" with
          | none =>
            have hlc : linCand ev (i, fact) = .ok none := by simp [linCand, hr, hw]
            simp only [hlc]
            rw [ih fuel acc hf' hget']
            exact fin acc none (by simp)
          | some wv =>
            cases wv with
            | obj w =>
              simp only []
              cases hmj : matchesJ ((Obj.get? w "pattern").getD (.obj w)) (.obj ev) with
              | error err =>
                have hlc : linCand ev (i, fact) = .error err := by simp [linCand, hr, hw, hmj]
                simp [hlc, bind, Except.bind, Except.map]
              | ok bss =>
                have hlc : linCand ev (i, fact) = .ok (if bss.isEmpty then none else some (i, r)) := by
                  simp [linCand, hr, hw, hmj]
                simp only [hlc]
                rw [ih fuel _ hf' hget']
                apply fin
                cases bss.isEmpty <;> simp
            | null | bool _ | num _ | str _ | arr _ =>
              have hlc : linCand ev (i, fact) = .ok none := by simp [linCand, hr, hw]
              simp only [hlc]
              rw [ih fuel acc hf' hget']
              exact fin acc none (by simp)
        | null | bool _ | num _ | str _ | arr _ =>
          have hlc : linCand ev (i, fact) = .error "panic" := by simp [linCand, hr]
          simp [hlc, bind, Except.bind, Except.map]

/-- **`doFindRules` (linear) when nothing is expired**: the state is unchanged and the answer is the scan of the
stored facts in order (or the first error met) -/
theorem lFindRules_eq {s : St} {now : Int} (hk : KeysNodup s) (hne : NoneExpired s now) (ev : Obj) :
    s.lFindRules ev now = (s, (s.facts.mapM (linCand ev)).map (fun os => os.filterMap id)) := by
  unfold St.lFindRules
  rw [lFindRules_go_eq hne ev s.facts _ [] (Nat.lt_succ_self _)
    (fun e he => amGet_of_mem_nodup_st hk he)]
  cases s.facts.mapM (linCand ev) with
  | error e => rfl
  | ok os => simp [Except.map]

import RulioProofs.Watchdog

/-! # C14 lemmas: the timer does not expire during the call (either capacity of `watchdogCleanup`) -/

namespace Watchdog

def wdAfterSend (buffered : Bool) (s : Ctl) : Bool :=
  match s.w with
  | .sel => buffered && s.clnFull && !s.intrClosed
  | .close => !s.clnFull && !s.intrClosed
  | .done => !s.clnFull && s.intrClosed
  | _ => false

def finv (buffered : Bool) (s : Ctl) : Bool :=
  !s.fired && !s.intrFull &&
  (match s.m with
   | .start => s.w == .idle && !s.intrClosed && !s.clnFull && !s.clnClosed
   | .run => s.w == .sel && !s.intrClosed && !s.clnFull && !s.clnClosed
   | .dSend .fin => s.w == .sel && !s.intrClosed && !s.clnFull && !s.clnClosed
   | .dClose .fin => !s.clnClosed && wdAfterSend buffered s
   | .dRecover .fin => s.clnClosed && wdAfterSend buffered s
   | .ret .own => s.clnClosed && wdAfterSend buffered s
   | _ => false)

theorem finv_init (b : Bool) : finv b Ctl.init = true := by cases b <;> decide

theorem finv_pres_k : ∀ b k, finv b k = true → ∀ hE z t,
    (stepCtl ⟨true, false, b, hE⟩ z t k).all (fun r => finv b r.1) = true := by decide +kernel

theorem finv_pres : ∀ b hE, Preserved ⟨true, false, b, hE⟩ (finv b) :=
  fun b hE z k hk t => finv_pres_k b k hk hE z t

theorem finv_dec_k : ∀ b k, finv b k = true → ∀ hE z t,
    (stepCtl ⟨true, false, b, hE⟩ z t k).all
      (fun r => if r.2 then muK ⟨true, false, b, hE⟩ r.1 == muK ⟨true, false, b, hE⟩ k
                else decide (muK ⟨true, false, b, hE⟩ r.1 < muK ⟨true, false, b, hE⟩ k)) = true := by decide +kernel

theorem finv_dec : ∀ b hE z, Decreasing ⟨true, false, b, hE⟩ z (finv b) :=
  fun b hE z k hk t => finv_dec_k b k hk hE z t

theorem finv_returned : ∀ b k, finv b k = true → k.returned = true → k.m = .ret .own := by decide +kernel

/-- nothing can move ⇒ the call is over and nothing is left behind -/
theorem finv_stuck_k : ∀ b k, finv b k = true → ∀ hE z,
    (∀ t, stepCtl ⟨true, false, b, hE⟩ z t k = none) → k.cleanFinal .own = true := by decide +kernel

theorem finv_stuck : ∀ b hE z k, finv b k = true →
    (∀ t, stepCtl ⟨true, false, b, hE⟩ z t k = none) → k.cleanFinal .own = true :=
  fun b hE z k hk h => finv_stuck_k b k hk hE z h

end Watchdog

import RulioProofs.SysNonint

open AM

set_option linter.unusedSimpArgs false
set_option linter.unusedVariables false

/-! # On a quiet system a successful walk visits *every* transitive parent -/

theorem Sys.at_quiet {α} {sys : Sys} (wf : SysWF sys) (n : String) {m : LM α}
    (hq : ∀ l, sys.get? n = some l → (m l).1 = l) : (sys.at n m).1 = sys := by
  cases hg : sys.get? n with
  | none => rw [Sys.at_none m hg]
  | some l => rw [Sys.at_some m hg]; simp only [hq l hg]; exact Sys.put_same wf hg

theorem tagged_quiet {α} {fn : String → LM α} {sys : Sys} (hq : ∀ m l, sys.get? m = some l → (fn m l).1 = l)
    (m : String) (l : Loc) (hg : sys.get? m = some l) : (tagged fn m l).1 = l := by
  unfold tagged LM.bind
  have := hq m l hg
  cases hml : fn m l with
  | mk l1 r => rw [hml] at this; cases r <;> exact this

theorem doAncestors_quiet {α} {now : Int} {fn : String → LM α} {sys : Sys} (hq : QuietWalk sys now fn) (wf : SysWF sys)
    (fuel : Nat) (n : String) (acc : List α) (path : List String) :
    (doAncestors fuel sys n now fn acc path).1 = sys := by
  apply doAncestors_inv (fun s => s = sys)
  · intro s m hs; subst hs; exact Sys.at_quiet wf m (hq.2 m)
  · intro s m hs; subst hs; exact Sys.at_quiet wf m (hq.1 m)
  · rfl

theorem walkList_cover {α} {sys : Sys} {now : Int} {step : Sys → String → List (String × α) → Sys × Except LErr (List (String × α))}
    {n : String}
    (hstep : ∀ p a, (step sys p a).1 = sys ∧ ∀ ls, (step sys p a).2 = .ok ls →
      (∃ more, ls = a ++ more) ∧ ∀ x, Anc sys now p x → x ∈ ls.map (·.1))
    (ps : List String) : ∀ (acc ls : List (String × α)) (s' : Sys), walkList step n sys ps acc = (s', .ok ls) →
      (∃ more, ls = acc ++ more) ∧ ∀ p ∈ ps, ∀ x, Anc sys now p x → x ∈ ls.map (·.1) := by
  induction ps with
  | nil =>
    intro acc ls s' h
    simp only [walkList] at h
    cases h
    exact ⟨⟨[], by simp⟩, by intro p hp; cases hp⟩
  | cons p rest ih =>
    intro acc ls s' h
    rw [walkList] at h
    by_cases hpn : (p == n) = true
    · simp only [hpn, if_true] at h; cases h
    · simp only [hpn, if_false, Bool.false_eq_true] at h
      cases hg : sys.get? p with
      | none => rw [hg] at h; cases h
      | some l =>
        rw [hg] at h; simp only at h
        obtain ⟨hs, hout⟩ := hstep p acc
        cases hd : step sys p acc with
        | mk s2 r =>
          rw [hd] at h hs hout
          simp only at hs
          subst hs
          cases r with
          | error e => cases h
          | ok acc2 =>
            simp only at h
            obtain ⟨⟨m1, hm1⟩, hc1⟩ := hout acc2 rfl
            obtain ⟨⟨m2, hm2⟩, hc2⟩ := ih acc2 ls s' h
            refine ⟨⟨m1 ++ m2, by rw [hm2, hm1, List.append_assoc]⟩, ?_⟩
            intro q hq x hx
            rcases List.mem_cons.1 hq with rfl | hq'
            · have := hc1 x hx
              rw [hm2, List.map_append]
              exact List.mem_append_left _ this
            · exact hc2 q hq' x hx

/-- **visits every ancestor** (quiet system): a successful tagged walk from `n` contains a value from `n` and from
each of its transitive declared parents -/
theorem doAncestors_cover {α} {now : Int} {fn : String → LM α} {sys : Sys} (hq : QuietWalk sys now fn) (wf : SysWF sys)
    (fuel : Nat) : ∀ (n : String) (acc : List (String × α)) (path : List String) (ls : List (String × α)),
      (doAncestors fuel sys n now (tagged fn) acc path).2 = .ok ls →
      (∃ more, ls = acc ++ more) ∧ ∀ x, Anc sys now n x → x ∈ ls.map (·.1) := by
  have hqt : QuietWalk sys now (tagged fn) := ⟨tagged_quiet hq.1, hq.2⟩
  induction fuel with
  | zero => intro n acc path ls h; simp only [doAncestors] at h; cases h
  | succ fuel ih =>
    intro n acc path ls h
    rw [doAncestors_succ] at h
    by_cases hc : path.contains n = true
    · simp only [hc, if_true] at h; cases h
    · simp only [hc, if_false, Bool.false_eq_true] at h
      have hs1 := Sys.at_quiet wf n (hq.2 n)
      cases h1 : sys.at n (locGetParentsRaw now) with
      | mk s1 r1 =>
        rw [h1] at h hs1
        simp only at hs1
        subst hs1
        cases r1 with
        | error e => cases h
        | ok ps =>
          simp only at h
          have hpar : ∀ p, Par s1 now n p → p ∈ ps := by
            intro p ⟨ps', hpa, hp⟩
            obtain ⟨l0, hl0⟩ := Sys.at_ok_get? h1
            rw [Sys.at_some _ hl0] at h1
            have h2 := congrArg Prod.snd h1
            simp only at h2
            unfold Sys.parentsAt at hpa
            rw [hl0] at hpa
            simp only [h2] at hpa
            cases hpa
            exact hp
          cases hnp : noProv s1 n ps with
          | true => rw [hnp] at h; simp only [if_true] at h; cases h
          | false =>
            rw [hnp] at h
            simp only [Bool.false_eq_true, if_false] at h
            cases hw : walkList (fun s p a => doAncestors fuel s p now (tagged fn) a (n :: path)) n s1 ps acc with
            | mk s2 r2 =>
              rw [hw] at h
              cases r2 with
              | error e => cases h
              | ok acc2 =>
                simp only at h
                obtain ⟨⟨m1, hm1⟩, hcov⟩ := walkList_cover (sys := s1) (now := now)
                  (step := fun s p a => doAncestors fuel s p now (tagged fn) a (n :: path)) (n := n)
                  (fun p a => ⟨doAncestors_quiet hqt wf fuel p a (n :: path), fun ls' hls => ih p a (n :: path) ls' hls⟩)
                  ps acc acc2 s2 hw
                cases hf : s2.at n (tagged fn n) with
                | mk s3 r3 =>
                  rw [hf] at h
                  cases r3 with
                  | error e => cases h
                  | ok a =>
                    simp only at h
                    cases h
                    have hatag : a.1 = n := by
                      obtain ⟨l0, hl0⟩ := Sys.at_ok_get? hf
                      rw [Sys.at_some _ hl0] at hf
                      have := congrArg Prod.snd hf; simp only at this
                      exact tagged_ok this
                    refine ⟨⟨m1 ++ [a], by rw [hm1, List.append_assoc]⟩, ?_⟩
                    intro x hx
                    rw [List.map_append]
                    cases hx with
                    | refl => exact List.mem_append_right _ (by simp [hatag])
                    | step hp hanc => exact List.mem_append_left _ (hcov _ (hpar _ hp) x hanc)

/-! ## deciding quietness of the parent reads -/

theorem St.get_quiet {s : St} {id : String} {now : Int}
    (h : match amGet s.facts id with
      | none => True
      | some f => checkExpiration f now ≠ .ok true) : (s.get id now).1 = s := by
  unfold St.get
  cases s.kind <;> simp only [St.iGet, St.lGet]
  all_goals
    cases hg : amGet s.facts id with
    | none => rfl
    | some f =>
      rw [hg] at h; simp only at h
      cases hc : checkExpiration f now with
      | error e => simp only [hc]
      | ok b =>
        cases b with
        | false => simp only [hc]
        | true => exact absurd hc h

theorem quietReadB_sound {sys : Sys} {now : Int} (h : quietReadB sys now = true) :
    ∀ m l, sys.get? m = some l → (locGetParentsRaw now l).1 = l := by
  intro m l hg
  have hmem : (m, l) ∈ sys := amGet_mem hg
  have hb := List.all_eq_true.1 h (m, l) hmem
  simp only at hb
  have hq : (l.st.get "!.parents" now).1 = l.st := by
    apply St.get_quiet
    cases hf : amGet l.st.facts "!.parents" with
    | none => trivial
    | some f =>
      rw [hf] at hb; simp only at hb
      intro hc; rw [hc] at hb; simp at hb
  rw [locGetParentsRaw_eq]
  cases hgt : l.st.get "!.parents" now with
  | mk s' r =>
    rw [hgt] at hq; simp only at hq; subst hq
    cases r with
    | error e => simp only []; split <;> rfl
    | ok fact =>
      simp only []
      cases fact.get? "!parents" with
      | none => rfl
      | some v => simp only []; cases parentsOfJ v <;> rfl

import RulioProofs.StateCascade

set_option linter.unusedSimpArgs false
set_option linter.unusedVariables false

/-! # The specification `closure` is the least set containing the roots and closed under "names … in deleteWith" -/

theorem mem_depsStep {F : FactList} {dead : List String} {k : String} :
    k ∈ depsStep F dead ↔ ∃ fact, (k, fact) ∈ F ∧ k ∉ dead ∧ ∃ d, d ∈ dead ∧ depOn fact d = true := by
  simp only [depsStep, List.mem_map, List.mem_filter, Bool.and_eq_true, Bool.not_eq_true',
    List.any_eq_true, List.contains_iff_mem, depOn]
  constructor
  · rintro ⟨e, ⟨he, hnd, d, hd1, hd2⟩, rfl⟩
    exact ⟨e.2, he, by simpa using hnd, d, hd2, hd1⟩
  · rintro ⟨fact, hm, hnd, d, hd1, hd2⟩
    exact ⟨(k, fact), ⟨hm, by simpa using hnd, d, hd2, hd1⟩, rfl⟩

theorem closure_go_extends (F : FactList) : ∀ (n : Nat) (dead : List String) k, k ∈ dead → k ∈ closure.go F n dead := by
  intro n
  induction n with
  | zero => intro dead k h; exact h
  | succ n ih =>
    intro dead k h
    simp only [closure.go]
    split
    · exact h
    · exact ih _ k (List.mem_append_left _ h)

/-- leastness -/
theorem closure_go_least (F : FactList) (X : String → Prop)
    (hstep : ∀ k fact d, (k, fact) ∈ F → X d → depOn fact d = true → X k) :
    ∀ (n : Nat) (dead : List String), (∀ k, k ∈ dead → X k) → ∀ k, k ∈ closure.go F n dead → X k := by
  intro n
  induction n with
  | zero => intro dead h k hk; exact h k hk
  | succ n ih =>
    intro dead h k hk
    simp only [closure.go] at hk
    split at hk
    · exact h k hk
    · apply ih _ _ k hk
      intro j hj
      rcases List.mem_append.1 hj with hj | hj
      · exact h j hj
      · obtain ⟨fact, hm, _, d, hd, hdep⟩ := mem_depsStep.1 hj
        exact hstep j fact d hm (h d hd) hdep

/-- entries whose key is not dead yet -/
def liveCount (F : FactList) (dead : List String) : Nat := (F.filter (fun e => !dead.contains e.1)).length

theorem filter_length_lt {α} {p q : α → Bool} {l : List α} (hpq : ∀ x, x ∈ l → p x = true → q x = true)
    (hex : ∃ x, x ∈ l ∧ q x = true ∧ p x = false) : (l.filter p).length < (l.filter q).length := by
  induction l with
  | nil => obtain ⟨x, hx, _⟩ := hex; simp at hx
  | cons a r ih =>
    have hle : (r.filter p).length ≤ (r.filter q).length := by
      clear ih hex
      induction r with
      | nil => simp
      | cons b r' ih' =>
        have hb := hpq b (by simp)
        have hr' : ∀ x, x ∈ a :: r' → p x = true → q x = true := by
          intro x hx
          apply hpq x
          rcases List.mem_cons.1 hx with h | h
          · simp [h]
          · simp [h]
        have := ih' hr'
        simp only [List.filter_cons]
        cases hpb : p b
        · simp only [Bool.false_eq_true, ↓reduceIte]
          split
          · simp only [List.length_cons]; omega
          · exact this
        · simp only [hb hpb, ↓reduceIte, List.length_cons]; omega
    obtain ⟨x, hx, hqx, hpx⟩ := hex
    simp only [List.filter_cons]
    rcases List.mem_cons.1 hx with h | h
    · subst h
      simp only [hpx, hqx, Bool.false_eq_true, ↓reduceIte, List.length_cons]
      omega
    · have := ih (fun y hy => hpq y (List.mem_cons_of_mem _ hy)) ⟨x, h, hqx, hpx⟩
      cases hpa : p a
      · simp only [Bool.false_eq_true, ↓reduceIte]
        split
        · simp only [List.length_cons]; omega
        · exact this
      · simp only [hpq a (by simp) hpa, ↓reduceIte, List.length_cons]; omega

theorem liveCount_lt {F : FactList} {dead more : List String} (hmore : depsStep F dead = more) (hne : more ≠ []) :
    liveCount F (dead ++ more) < liveCount F dead := by
  simp only [liveCount]
  apply filter_length_lt
  · intro x _ hx
    simp only [Bool.not_eq_true', ← Bool.not_eq_true, List.contains_iff_mem, List.mem_append, not_or] at hx ⊢
    exact hx.1
  · obtain ⟨k, hk⟩ := List.exists_mem_of_ne_nil _ hne
    have hk' := hk
    rw [← hmore] at hk'
    obtain ⟨fact, hm, hnd, _⟩ := mem_depsStep.1 hk'
    refine ⟨(k, fact), hm, ?_, ?_⟩
    · simpa using hnd
    · simp [hk]

/-- after enough rounds the result is a fixed point of the step -/
theorem closure_go_fixed (F : FactList) : ∀ (n : Nat) (dead : List String), liveCount F dead ≤ n →
    depsStep F (closure.go F n dead) = [] := by
  intro n
  induction n with
  | zero =>
    intro dead h
    simp only [closure.go]
    have h0 : liveCount F dead = 0 := by omega
    simp only [liveCount, List.length_eq_zero_iff, List.filter_eq_nil_iff] at h0
    simp only [depsStep, List.map_eq_nil_iff, List.filter_eq_nil_iff]
    intro e he
    have hc : e.1 ∈ dead := by simpa using h0 e he
    simp only [Bool.and_eq_true, Bool.not_eq_true', not_and]
    intro hx
    have : dead.contains e.1 = true := by simpa using hc
    rw [this] at hx; cases hx
  | succ n ih =>
    intro dead h
    simp only [closure.go]
    split
    · rename_i hemp
      simpa using hemp
    · rename_i hemp
      apply ih
      have := liveCount_lt (F := F) (dead := dead) rfl (by simpa using hemp)
      omega

theorem closure_fixed (F : FactList) (roots : List String) : depsStep F (closure F roots) = [] := by
  apply closure_go_fixed
  simp only [liveCount]
  exact List.length_filter_le _ _

theorem closure_roots (F : FactList) (roots : List String) : ∀ r, r ∈ roots → r ∈ closure F roots :=
  closure_go_extends F _ roots

/-- closedness -/
theorem closure_closed (F : FactList) (roots : List String) {k d : String} {fact : Obj}
    (hm : (k, fact) ∈ F) (hd : d ∈ closure F roots) (hdep : depOn fact d = true) : k ∈ closure F roots := by
  apply Classical.byContradiction
  intro hk
  have : k ∈ depsStep F (closure F roots) := mem_depsStep.2 ⟨fact, hm, hk, d, hd, hdep⟩
  rw [closure_fixed] at this
  simp at this

theorem closure_least (F : FactList) (roots : List String) (X : String → Prop) (hroots : ∀ r, r ∈ roots → X r)
    (hstep : ∀ k fact d, (k, fact) ∈ F → X d → depOn fact d = true → X k) : ∀ k, k ∈ closure F roots → X k :=
  closure_go_least F X hstep _ roots hroots

theorem closure_of_reach (F : FactList) {root k : String} (h : DepReach F root k) : k ∈ closure F [root] := by
  induction h with
  | base => exact closure_roots F [root] root (by simp)
  | step _ hm hdep ih => exact closure_closed F [root] hm ih hdep

/-- what a completed cascade from `id` leaves is exactly the specification -/
theorem cascaded_exact {s s' : St} {id : String} {D : List String} (h : Cascaded s s' [id] D)
    (hgone : id ∉ keysOf s'.facts) :
    s'.facts = specRem s.facts id ∧
    (∀ d, d ∈ D → d ∈ closure s.facts [id]) ∧
    (∀ k, k ∈ closure s.facts [id] → k ∈ keysOf s.facts → k ∈ D) := by
  have hsub : ∀ d, d ∈ D → d ∈ closure s.facts [id] := by
    intro d hd
    obtain ⟨r, hr, hre⟩ := h.reach d hd
    simp only [List.mem_singleton] at hr; subst hr
    exact closure_of_reach _ hre
  have hsup : ∀ k, k ∈ closure s.facts [id] → k = id ∨ k ∈ D := by
    apply closure_least
    · intro r hr; simp only [List.mem_singleton] at hr; exact Or.inl hr
    · intro k fact d hm hX hdep
      by_cases hk : k ∈ D
      · exact Or.inr hk
      · have hm' : (k, fact) ∈ s'.facts := by rw [h.facts]; exact mem_filterOut.2 ⟨hm, hk⟩
        have hnd : NoDeps s'.facts d := by
          rcases hX with hX | hX
          · subst hX; exact h.closedR d (by simp)
          · exact h.closedD d hX
        have := hnd _ hm'
        simp only at this
        rw [this] at hdep; cases hdep
  have hkeys : ∀ k, k ∈ closure s.facts [id] → k ∈ keysOf s.facts → k ∈ D := by
    intro k hk hkeys
    rcases hsup k hk with hk' | hk'
    · subst hk'
      apply Classical.byContradiction
      intro hnD
      apply hgone
      rw [h.facts]
      exact mem_keysOf_filterOut.2 ⟨hkeys, hnD⟩
    · exact hk'
  refine ⟨?_, hsub, hkeys⟩
  rw [h.facts]
  simp only [specRem, filterOut]
  apply List.filter_congr
  intro e he
  congr 1
  rw [Bool.eq_iff_iff]
  simp only [List.contains_iff_mem]
  constructor
  · exact hsub e.1
  · intro hc
    exact hkeys e.1 hc (mem_keysOf.2 ⟨e.2, he⟩)

theorem amGet_filterOut {α} (D : List String) (m : List (String × α)) (k : String) :
    amGet (filterOut D m) k = if k ∈ D then none else amGet m k := by
  induction m with
  | nil => simp [filterOut, amGet]
  | cons e r ih =>
    obtain ⟨k0, v0⟩ := e
    have hcons : filterOut D ((k0, v0) :: r) = if D.contains k0 then filterOut D r else (k0, v0) :: filterOut D r := by
      simp only [filterOut, List.filter_cons]
      cases D.contains k0 <;> rfl
    rw [hcons]
    cases hc : D.contains k0 with
    | true =>
      have h0 : k0 ∈ D := by simpa using hc
      simp only [↓reduceIte, ih, amGet]
      by_cases hk : k = k0
      · subst hk; simp [h0]
      · simp [hk]
    | false =>
      have h0 : k0 ∉ D := by simpa using hc
      simp only [Bool.false_eq_true, ↓reduceIte, amGet, ih]
      by_cases hk : k = k0
      · subst hk; simp [h0]
      · simp [hk]

import RulioProofs.MatchTop

/-! # The ground partial match `gmatch` is reflexive on well-formed data (C05)

`match(binding, fact)` with the binding equal to the fact succeeds at least once, provided scalars inside
arrays are distinct (`dataOK`) and map keys are distinct (`dataKeysOK`).  This is what makes completeness
hold without the scalar-repeats condition. -/

open List

theorem gmatch_obj (kvs f : List (String × J)) : gmatch (.obj kvs) (.obj f) = gmatchO kvs f := by
  rw [gmatch.eq_def]
theorem gmatch_arr (xs fs : List J) :
    gmatch (.arr xs) (.arr fs) =
      gmatchA xs (fs.filter J.isScalar).eraseDups (fs.filter (fun y => !y.isScalar)) := by
  rw [gmatch.eq_def]
theorem gmatchO_nil (f : List (String × J)) : gmatchO [] f = 1 := by rw [gmatchO.eq_def]
theorem gmatchO_cons (k : String) (v : J) (r f : List (String × J)) :
    gmatchO ((k, v) :: r) f =
      (match lookupKey k f with | none => 0 | some fv => gmatch v fv * gmatchO r f) := by
  rw [gmatchO.eq_def]; rfl
theorem gmatchA_nil (sc st : List J) : gmatchA [] sc st = 1 := by rw [gmatchA.eq_def]
theorem gmatchA_cons (x : J) (xs sc st : List J) :
    gmatchA (x :: xs) sc st =
      (if x.isScalar then (if sc.contains x then gmatchA xs (sc.erase x) st else 0)
       else gmatchPick x xs sc [] st) := by
  rw [gmatchA.eq_def]
theorem gmatchPick_nil (x : J) (xs sc pre : List J) : gmatchPick x xs sc pre [] = 0 := by
  rw [gmatchPick.eq_def]
theorem gmatchPick_cons (x : J) (xs sc pre : List J) (f : J) (post : List J) :
    gmatchPick x xs sc pre (f :: post) =
      gmatch x f * gmatchA xs sc (pre ++ post) + gmatchPick x xs sc (pre ++ [f]) post := by
  rw [gmatchPick.eq_def]

/-- lower bound: any pick contributes -/
theorem gmatchPick_ge (x : J) (xs sc : List J) : ∀ (p1 : List J) (f : J) (p2 pre : List J),
    gmatch x f * gmatchA xs sc (pre ++ p1 ++ p2) ≤ gmatchPick x xs sc pre (p1 ++ f :: p2)
  | [], f, p2, pre => by
      rw [List.nil_append, gmatchPick_cons, List.append_nil]; omega
  | a :: p1, f, p2, pre => by
      rw [List.cons_append, gmatchPick_cons]
      have := gmatchPick_ge x xs sc p1 f p2 (pre ++ [a])
      simp only [List.append_assoc, List.singleton_append] at this ⊢
      omega

theorem lookupKey_of_mem_distinct : ∀ {f : List (String × J)} {k : String} {v : J},
    distinctKeys f = true → (k, v) ∈ f → lookupKey k f = some v
  | [], _, _, _, h => by cases h
  | (k', w) :: r, k, v, hd, h => by
      simp only [distinctKeys, Bool.and_eq_true, Bool.not_eq_true', List.any_eq_false, beq_iff_eq] at hd
      simp only [lookupKey]
      rcases List.mem_cons.1 h with h1 | h2
      · cases h1; simp
      · have hne : k ≠ k' := by
          intro hkk
          exact hd.1 (k, v) h2 hkk
        simp only [beq_iff_eq, hne, if_false]
        exact lookupKey_of_mem_distinct hd.2 h2

theorem dataKeysOKL_iff : ∀ {xs : List J}, dataKeysOKL xs = true ↔ ∀ x ∈ xs, dataKeysOK x = true
  | [] => by simp [dataKeysOKL]
  | x :: xs => by simp [dataKeysOKL, dataKeysOKL_iff (xs := xs)]
theorem dataKeysOKO_iff : ∀ {kvs : List (String × J)},
    dataKeysOKO kvs = true ↔ ∀ kv ∈ kvs, dataKeysOK kv.2 = true
  | [] => by simp [dataKeysOKO]
  | (k, v) :: r => by simp [dataKeysOKO, dataKeysOKO_iff (kvs := r)]

theorem gmatchO_refl (f : List (String × J)) (hd : distinctKeys f = true) : ∀ (r : List (String × J)),
    (∀ kv ∈ r, kv ∈ f) → (∀ kv ∈ r, 1 ≤ gmatch kv.2 kv.2) → 1 ≤ gmatchO r f
  | [], _, _ => by rw [gmatchO_nil]; omega
  | (k, v) :: r, hm, hg => by
      rw [gmatchO_cons, lookupKey_of_mem_distinct hd (hm (k, v) List.mem_cons_self)]
      have h1 := hg (k, v) List.mem_cons_self
      have h2 := gmatchO_refl f hd r (fun kv h => hm kv (List.mem_cons_of_mem _ h))
        (fun kv h => hg kv (List.mem_cons_of_mem _ h))
      exact Nat.mul_le_mul h1 h2

theorem gmatchA_refl : ∀ (xs sc st : List J),
    (xs.filter J.isScalar).Nodup → (∀ x ∈ xs, x.isScalar = true → x ∈ sc) →
    (xs.filter (fun y => !y.isScalar)) <+~ st → (∀ x ∈ xs, 1 ≤ gmatch x x) → 1 ≤ gmatchA xs sc st
  | [], sc, st, _, _, _, _ => by rw [gmatchA_nil]; omega
  | x :: xs, sc, st, hnd, hsc, hst, hg => by
      rw [gmatchA_cons]
      by_cases hx : x.isScalar = true
      · have hxsc : x ∈ sc := hsc x List.mem_cons_self hx
        rw [List.filter_cons_of_pos hx, List.nodup_cons] at hnd
        rw [List.filter_cons_of_neg (by simp [hx])] at hst
        simp only [hx, if_true, List.contains_eq_mem, hxsc, decide_true]
        refine gmatchA_refl xs (sc.erase x) st hnd.2 ?_ hst (fun y hy => hg y (List.mem_cons_of_mem _ hy))
        intro y hy hys
        have hne : y ≠ x := by
          rintro rfl
          exact hnd.1 (List.mem_filter.2 ⟨hy, hys⟩)
        exact (List.mem_erase_of_ne hne).2 (hsc y (List.mem_cons_of_mem _ hy) hys)
      · have hx' : x.isScalar = false := by simpa using hx
        rw [List.filter_cons_of_neg (by simp [hx'])] at hnd
        rw [List.filter_cons_of_pos (by simp [hx'])] at hst
        simp only [hx', Bool.false_eq_true, if_false]
        have hxst : x ∈ st := hst.subset List.mem_cons_self
        obtain ⟨p1, p2, rfl⟩ := List.append_of_mem hxst
        have hst' : (xs.filter (fun y => !y.isScalar)) <+~ (p1 ++ p2) := by
          have h3 : (p1 ++ x :: p2).Perm (x :: (p1 ++ p2)) := List.perm_middle
          exact (List.subperm_cons x).1 (hst.trans h3.subperm)
        have h1 := hg x List.mem_cons_self
        have h2 := gmatchA_refl xs sc (p1 ++ p2) hnd
          (fun y hy hys => hsc y (List.mem_cons_of_mem _ hy) hys) hst'
          (fun y hy => hg y (List.mem_cons_of_mem _ hy))
        have h3 := gmatchPick_ge x xs sc p1 x p2 []
        simp only [List.nil_append] at h3
        have := Nat.mul_le_mul h1 h2
        omega

theorem distinctJ_iff_nodup_aux : ∀ {l : List J}, distinctJ l = true → l.Nodup
  | [], _ => List.nodup_nil
  | x :: xs, h => by
      simp only [distinctJ, Bool.and_eq_true, Bool.not_eq_true', List.contains_eq_mem,
        decide_eq_false_iff_not] at h
      exact List.nodup_cons.2 ⟨h.1, distinctJ_iff_nodup_aux h.2⟩

/-- a well-formed datum lies over itself -/
theorem gmatch_refl : ∀ (d : J), dataOK d = true → dataKeysOK d = true → 1 ≤ gmatch d d := by
  intro d
  induction d using J.ind' with
  | hnull => intro _ _; simp [gmatch]
  | hbool b => intro _ _; simp [gmatch]
  | hnum n => intro _ _; simp [gmatch]
  | hstr s => intro _ _; simp [gmatch]
  | harr xs ih =>
    intro hd hk
    simp only [dataOK, Bool.and_eq_true] at hd
    simp only [dataKeysOK] at hk
    have hdl := dataOKL_iff.1 hd.2
    have hkl := dataKeysOKL_iff.1 hk
    rw [gmatch_arr, distinctJ_eraseDups hd.1]
    apply gmatchA_refl
    · exact distinctJ_iff_nodup_aux hd.1
    · intro x hx hs; exact List.mem_filter.2 ⟨hx, hs⟩
    · exact Subperm.refl _
    · intro x hx; exact ih x hx (hdl x hx) (hkl x hx)
  | hobj kvs ih =>
    intro hd hk
    simp only [dataOK] at hd
    simp only [dataKeysOK, Bool.and_eq_true] at hk
    have hdl := dataOKO_iff.1 hd
    have hkl := dataKeysOKO_iff.1 hk.2
    rw [gmatch_obj]
    exact gmatchO_refl kvs hk.1 kvs (fun _ h => h) (fun kv hkv => ih kv hkv (hdl kv hkv).2 (hkl kv hkv))

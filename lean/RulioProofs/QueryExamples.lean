import RulioProofs.Query

/-! # Concrete instances for C03 (evaluated on the model by `simp`), used by the `example`s of `Props/C03.lean` -/

namespace QueryEx
open QSpec
open QueryProofs

theorem isVar_qx : isVar "?x" = true := by simp [isVar]
theorem isOptVar_qx : isOptVar "?x" = false := by simp [isOptVar]
theorem isVar_a : isVar "a" = false := by simp [isVar]
theorem isVar_b : isVar "b" = false := by simp [isVar]

/-- three stored facts `{"a":1}`, `{"a":2}`, `{"b":1}` -/
def exFacts : List J := [.obj [("a", .num 1)], .obj [("a", .num 2)], .obj [("b", .num 1)]]

/-- fact search over `exFacts` with the real matcher model -/
def exSrch : Srch := fun p =>
  match exFacts.mapM (fun f => matchJ (.obj p) f []) with
  | .ok r => .ok r.flatten
  | .error _ => .error "match"

def x1 : Bs := [("?x", .num 1)]
def x2 : Bs := [("?x", .num 2)]

/-- `{"pattern":{"a":"?x"}}` -/
def qA : Q := .pattern [("a", .str "?x")] []
/-- `{"pattern":{"b":"?x"}}` -/
def qB : Q := .pattern [("b", .str "?x")] []
/-- code term "x == 2" of the template family -/
def tEq2 : J := .obj [("t", .str "eqvar"), ("x", .str "x"), ("v", .num 2)]
/-- code term returning the object `{"y": x}` -/
def tBind : J := .obj [("t", .str "bindvar"), ("x", .str "x"), ("k", .str "y")]
/-- code term that throws -/
def tThrow : J := .obj [("t", .str "throw")]

set_option linter.unusedSimpArgs false

theorem srch_a_var : exSrch [("a", .str "?x")] = .ok [x1, x2] := by
  simp [exSrch, exFacts, x1, x2, matchJ, matchO, matchStr, lookupKey, isVar_qx, isOptVar_qx, isVar_a, isVar_b,
    Bs.get?, Bs.set, bind, Except.bind, pure, Except.pure, List.mapM_cons]
theorem srch_b_var : exSrch [("b", .str "?x")] = .ok [x1] := by
  simp [exSrch, exFacts, x1, matchJ, matchO, matchStr, lookupKey, isVar_qx, isOptVar_qx, isVar_a, isVar_b,
    Bs.get?, Bs.set, bind, Except.bind, pure, Except.pure, List.mapM_cons]
theorem srch_b_1 : exSrch [("b", .num 1)] = .ok [[]] := by
  simp [exSrch, exFacts, matchJ, matchO, lookupKey, isVar_a, isVar_b,
    bind, Except.bind, pure, Except.pure, List.mapM_cons]
theorem srch_b_2 : exSrch [("b", .num 2)] = .ok [] := by
  simp [exSrch, exFacts, matchJ, matchO, lookupKey, isVar_a, isVar_b,
    bind, Except.bind, pure, Except.pure, List.mapM_cons]

theorem subst_a_nil : substO [] [("a", .str "?x")] = [("a", .str "?x")] := by
  simp [substO, subst, isVar_qx, Bs.get?]
theorem subst_b_nil : substO [] [("b", .str "?x")] = [("b", .str "?x")] := by
  simp [substO, subst, isVar_qx, Bs.get?]
theorem subst_b_x1 : substO x1 [("b", .str "?x")] = [("b", .num 1)] := by
  simp [x1, substO, subst, isVar_qx, Bs.get?]
theorem subst_b_x2 : substO x2 [("b", .str "?x")] = [("b", .num 2)] := by
  simp [x2, substO, subst, isVar_qx, Bs.get?]

theorem stripKey_qx : stripKey "?x" = "x" := by
  have h : ("?x" : String) = "?" ++ "x" := by decide
  rw [h, stripKey_var]
theorem strip_x1 : stripQ x1 = [("x", .num 1)] := by
  rw [x1, stripQ_cons, if_neg (by simp), stripQ_nil, stripKey_qx]
theorem strip_x2 : stripQ x2 = [("x", .num 2)] := by
  rw [x2, stripQ_cons, if_neg (by simp), stripQ_nil, stripKey_qx]

theorem J.beq_def (a b : J) : (a == b) = J.beq a b := rfl

theorem eq2_x1 : evalTmpl tEq2 (stripQ x1) = .ok (.bool false) := by
  simp [strip_x1, tEq2, evalTmpl, Obj.get?, lookupKey, Bs.get?, J.isScalar, J.beq_def, J.beq]
theorem eq2_x2 : evalTmpl tEq2 (stripQ x2) = .ok (.bool true) := by
  simp [strip_x2, tEq2, evalTmpl, Obj.get?, lookupKey, Bs.get?, J.isScalar, J.beq_def, J.beq]
theorem bind_x1 : evalTmpl tBind (stripQ x1) = .ok (.obj [("y", .num 1)]) := by
  simp [strip_x1, tBind, evalTmpl, Obj.get?, lookupKey, Bs.get?]
theorem throw_any (bs : Bs) : evalTmpl tThrow bs = .error "script" := by
  simp [tThrow, evalTmpl, Obj.get?, lookupKey]

theorem ext_nil (y : Bs) (h : y = x1 ∨ y = x2) : extendBs [] y = y := by
  rcases h with rfl | rfl <;> simp [x1, x2, extendBs, Bs.set]

theorem qA_nil : execQ exSrch qA [[]] = .ok [x1, x2] := by
  have h := exec_pattern_ok exSrch [("a", .str "?x")] [] (fun _ => [x1, x2]) [[]]
    (by intro bs hm; rw [List.mem_singleton] at hm; subst hm; rw [subst_a_nil, srch_a_var])
  rw [qA, h]
  simp [ext_nil]
theorem qB_nil : execQ exSrch qB [[]] = .ok [x1] := by
  have h := exec_pattern_ok exSrch [("b", .str "?x")] [] (fun _ => [x1]) [[]]
    (by intro bs hm; rw [List.mem_singleton] at hm; subst hm; rw [subst_b_nil, srch_b_var])
  rw [qB, h]
  simp [ext_nil]
theorem qB_x1 : execQ exSrch qB [x1] = .ok [x1] := by
  have h := exec_pattern_ok exSrch [("b", .str "?x")] [] (fun _ => [[]]) [x1]
    (by intro bs hm; rw [List.mem_singleton] at hm; subst hm; rw [subst_b_x1, srch_b_1])
  rw [qB, h]; simp [extendBs]
theorem qB_x2 : execQ exSrch qB [x2] = .ok [] := by
  have h := exec_pattern_ok exSrch [("b", .str "?x")] [] (fun _ => []) [x2]
    (by intro bs hm; rw [List.mem_singleton] at hm; subst hm; rw [subst_b_x2, srch_b_2])
  rw [qB, h]; simp

/-- the result of `qB` on the singleton of a binding of `?x` -/
def resB : Bs → List Bs
  | [(_, .num 1)] => [x1]
  | _ => []

theorem qB_res (bs : Bs) (hm : bs ∈ [x1, x2, x2]) : execQ exSrch qB [bs] = .ok (resB bs) := by
  simp only [List.mem_cons, List.not_mem_nil, or_false] at hm
  rcases hm with rfl | rfl | rfl
  · exact qB_x1
  · exact qB_x2
  · exact qB_x2

theorem throw_nil : execQ exSrch (.code tThrow) [[]] = .error "script" := by
  rw [exec_code_eq, bindEach_single]; unfold codeOne; rw [bind_err _ _ _ (throw_any _)]

/-- `{"and":[{"pattern":{"a":"?x"}},{"not":{"pattern":{"b":"?x"}}}], "or":[], "not":{}}` -/
def exDoc : J := .obj [("not", .obj []), ("or", .arr []),
  ("and", .arr [.obj [("pattern", .obj [("a", .str "?x")])], .obj [("not", .obj [("pattern", .obj [("b", .str "?x")])])]])]

/-- `{"or":[{}], "ShortCircuit":true, "short_circuit":false}` -/
def exDocOr : J := .obj [("or", .arr [.obj []]), ("short_circuit", .bool false), ("ShortCircuit", .bool true)]

theorem exDoc_parse : parseQuery 9 exDoc = .ok (.and [qA, .not qB]) := by
  simp [exDoc, qA, qB, parseQuery, Obj.has, Obj.get?, lookupKey, List.mapM_cons, bind, Except.bind, pure, Except.pure]
theorem exDocOr_parse : parseQuery 9 exDocOr = .ok (.or [.empty] true) := by
  simp [exDocOr, parseQuery, Obj.has, Obj.get?, lookupKey, List.mapM_cons, bind, Except.bind, pure, Except.pure]

theorem ex_and : execQ exSrch (.and [qA, .not qB]) [[]] = .ok [x2] := by
  have hn : execQ exSrch (.not qB) [x1, x2] = .ok [x2] := by
    rw [exec_not_filter exSrch qB resB [x1, x2] (fun bs hm => qB_res bs (by
      simp only [List.mem_cons, List.not_mem_nil, or_false] at hm ⊢; rcases hm with h | h <;> simp [h]))]
    simp [x1, x2, resB]
  rw [execQ.eq_4, execAnd.eq_2, bind_ok _ _ _ qA_nil, execAnd.eq_2, bind_ok _ _ _ hn, execAnd.eq_1]

end QueryEx

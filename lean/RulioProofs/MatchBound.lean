import RulioProofs.MatchSound

/-! # Every returned binding binds every variable of the pattern (C05, no scalar condition needed) -/

open List

def BoundJ (p : J) : Prop :=
  patOK p = true → ∀ (d : J) (bs : Bs) (bss : List Bs) (σ : Bs),
    matchJ p d bs = .ok bss → σ ∈ bss → bs.Ext σ ∧ ∀ y ∈ varsOf p, σ.get? y ≠ none

theorem ext_bound {σ σ' : Bs} (he : σ.Ext σ') {y : String} (h : σ.get? y ≠ none) : σ'.get? y ≠ none := by
  cases hg : σ.get? y with
  | none => exact absurd hg h
  | some w => rw [he y w hg]; simp

theorem matchStr_bound {s : String} {f : J} {bs : Bs} {out : List Bs} {σ : Bs}
    (h : matchStr s f bs = .ok out) (hσ : σ ∈ out) :
    bs.Ext σ ∧ ∀ y ∈ varsOf (.str s), σ.get? y ≠ none := by
  refine ⟨(matchStr_sound h hσ).1, ?_⟩
  intro y hy
  rw [varsOf_str] at hy
  by_cases hc : (isVar s && s != "?") = true
  · simp only [hc, if_true, List.mem_singleton] at hy
    subst hy
    simp only [Bool.and_eq_true, bne_iff_ne, ne_eq] at hc
    unfold matchStr at h
    have hq : (y == "?") = false := by simpa using hc.2
    simp only [hc.1, Bool.not_true, Bool.false_eq_true, if_false, hq] at h
    cases hg : bs.get? y with
    | none =>
      simp only [hg, Except.ok.injEq] at h
      subst h
      rw [List.mem_singleton.1 hσ, Bs.get?_set]; simp
    | some b =>
      simp only [hg] at h
      by_cases hb : b.ground = true
      · simp only [hb, if_true, Except.ok.injEq] at h
        subst h
        rw [(List.mem_replicate.1 hσ).2, hg]; simp
      · simp [hb] at h
  · simp only [hc, Bool.false_eq_true, if_false] at hy; cases hy

theorem matchO_bound (fm : List (String × J)) : ∀ (kvs : List (String × J)),
    (∀ kv ∈ kvs, isVar kv.1 = false) → (∀ kv ∈ kvs, patOK kv.2 = true) → (∀ kv ∈ kvs, BoundJ kv.2) →
    ∀ (bss out : List Bs) (σ : Bs), matchO kvs fm bss = .ok out → σ ∈ out →
      ∃ b ∈ bss, b.Ext σ ∧ ∀ y ∈ varsOfO kvs, σ.get? y ≠ none
  | [], _, _, _, bss, out, σ, h, hσ => by
      rw [matchO_nil] at h
      cases h
      exact ⟨σ, hσ, Bs.Ext.refl _, fun y hy => by simp [varsOfO] at hy⟩
  | (k, v) :: r, hk, hp, ih, bss, out, σ, h, hσ => by
      have hk0 : isVar k = false := hk (k, v) List.mem_cons_self
      have hpv : patOK v = true := hp (k, v) List.mem_cons_self
      rw [matchO_cons_const hk0] at h
      cases hl : lookupKey k fm with
      | none =>
        simp only [hl] at h
        cases v with
        | str s =>
          have : isOptVar s = false := by simpa [patOK] using hpv
          simp only [this, Bool.false_eq_true, if_false, Except.ok.injEq] at h
          subst h; cases hσ
        | _ => simp only [Except.ok.injEq] at h; subst h; cases hσ
      | some fv =>
        simp only [hl] at h
        obtain ⟨accs, hacc, h⟩ := (Except.bind_ok_iff _ _ _).1 h
        by_cases he : (accs.flatMap id).isEmpty = true
        · simp only [he, if_true, pure, Except.pure, Except.ok.injEq] at h
          subst h; cases hσ
        · simp only [he, Bool.false_eq_true, if_false] at h
          obtain ⟨σ1, hσ1, hext2, hb2⟩ :=
            matchO_bound fm r (fun kv hkv => hk kv (List.mem_cons_of_mem _ hkv))
              (fun kv hkv => hp kv (List.mem_cons_of_mem _ hkv))
              (fun kv hkv => ih kv (List.mem_cons_of_mem _ hkv)) _ out σ h hσ
          obtain ⟨b, hb, rb, hrb, hσ1⟩ := mem_flat_mapM hacc hσ1
          obtain ⟨hext1, hb1⟩ := ih (k, v) List.mem_cons_self hpv fv b rb σ1 hrb hσ1
          refine ⟨b, hb, hext1.trans hext2, ?_⟩
          rw [varsOfO_cons_const hk0]
          intro y hy
          rcases List.mem_append.1 hy with hy | hy
          · exact ext_bound hext2 (hb1 y hy)
          · exact hb2 y hy

theorem matchA_bound : ∀ (cs : List J),
    (∀ x ∈ cs, isVarElem x = false) → (∀ x ∈ cs, patOK x = true) → (∀ x ∈ cs, BoundJ x) →
    ∀ (ns : Bool) (branches : List (List Bs × List J × List J))
      (out : List (List Bs × List J × List J)),
      matchA cs ns branches = .ok out →
      ∀ br' ∈ out, ∀ σ' ∈ br'.1,
        ∃ br ∈ branches, ∃ b ∈ br.1, b.Ext σ' ∧ ∀ y ∈ varsOfL cs, σ'.get? y ≠ none
  | [], _, _, _, ns, branches, out, h, br', hbr', σ', hσ' => by
      rw [matchA_nil] at h
      cases h
      exact ⟨br', hbr', σ', hσ', Bs.Ext.refl _, fun y hy => by simp [varsOfL] at hy⟩
  | x :: cs, hv, hp, ih, ns, branches, out, h, br', hbr', σ', hσ' => by
      have hvx : isVarElem x = false := hv x List.mem_cons_self
      have hpx : patOK x = true := hp x List.mem_cons_self
      have hv' : ∀ y ∈ cs, isVarElem y = false := fun y hy => hv y (List.mem_cons_of_mem _ hy)
      have hp' : ∀ y ∈ cs, patOK y = true := fun y hy => hp y (List.mem_cons_of_mem _ hy)
      have ih' : ∀ y ∈ cs, BoundJ y := fun y hy => ih y (List.mem_cons_of_mem _ hy)
      by_cases hx : x.isScalar = true
      · rw [matchA_cons_scalar hvx hx] at h
        cases branches with
        | nil => simp only [Except.ok.injEq] at h; subst h; cases hbr'
        | cons br0 tail =>
          simp only at h
          by_cases hc : br0.2.1.contains x = true
          · simp only [hc, if_true] at h
            obtain ⟨br1, hbr1, b, hb, hext, hbd⟩ := matchA_bound cs hv' hp' ih' ns _ out h br' hbr' σ' hσ'
            obtain ⟨br, hbr, rfl⟩ := List.mem_map.1 hbr1
            refine ⟨br, hbr, b, hb, hext, ?_⟩
            simp only [varsOfL, varsOf_scalar_const hx hvx, List.nil_append]
            exact hbd
          · simp only [hc, Bool.false_eq_true, if_false, Except.ok.injEq] at h
            subst h; cases hbr'
      · have hx' : x.isScalar = false := by simpa using hx
        cases ns with
        | true => rw [matchA_cons_struct_ns hx'] at h; cases h; cases hbr'
        | false =>
          rw [matchA_cons_struct hx'] at h
          obtain ⟨nbs, hnbs, h⟩ := (Except.bind_ok_iff _ _ _).1 h
          by_cases he : (nbs.flatMap (fun per => per.flatMap id)).isEmpty = true
          · simp only [he, if_true, pure, Except.pure, Except.ok.injEq] at h
            subst h; cases hbr'
          · simp only [he, Bool.false_eq_true, if_false] at h
            have hnb := matchA_struct_nb hnbs
            obtain ⟨br1, hbr1, σ1, hσ1, hext2, hb2⟩ :=
              matchA_bound cs hv' hp' ih' false _ out h br' hbr' σ' hσ'
            obtain ⟨br, hbr, fr, hfr, accs, hacc, _, rfl⟩ := (hnb br1).1 hbr1
            obtain ⟨b, hb, rb, hrb, hσ1⟩ := mem_flat_mapM hacc hσ1
            obtain ⟨hext1, hb1⟩ := ih x List.mem_cons_self hpx fr.1 b rb σ1 hrb hσ1
            refine ⟨br, hbr, b, hb, hext1.trans hext2, ?_⟩
            simp only [varsOfL]
            intro y hy
            rcases List.mem_append.1 hy with hy | hy
            · exact ext_bound hext2 (hb1 y hy)
            · exact hb2 y hy

theorem boundJ : ∀ p, BoundJ p := by
  intro p
  induction p using J.ind' with
  | hnull =>
    intro _ d bs bss σ h hσ
    rw [matchJ_null] at h
    cases d with
    | null =>
      simp only [Except.ok.injEq] at h; subst h
      rw [List.mem_singleton.1 hσ]
      exact ⟨Bs.Ext.refl _, fun y hy => by simp [varsOf] at hy⟩
    | _ => simp only [Except.ok.injEq] at h; subst h; cases hσ
  | hbool a =>
    intro _ d bs bss σ h hσ
    rw [matchJ_bool] at h
    cases d with
    | bool b =>
      simp only [Except.ok.injEq] at h; subst h
      by_cases hab : (a == b) = true
      · rw [if_pos hab] at hσ
        rw [List.mem_singleton.1 hσ]
        exact ⟨Bs.Ext.refl _, fun y hy => by simp [varsOf] at hy⟩
      · rw [if_neg hab] at hσ; cases hσ
    | _ => simp only [Except.ok.injEq] at h; subst h; cases hσ
  | hnum a =>
    intro _ d bs bss σ h hσ
    rw [matchJ_num] at h
    cases d with
    | num b =>
      simp only [Except.ok.injEq] at h; subst h
      by_cases hab : (a == b) = true
      · rw [if_pos hab] at hσ
        rw [List.mem_singleton.1 hσ]
        exact ⟨Bs.Ext.refl _, fun y hy => by simp [varsOf] at hy⟩
      · rw [if_neg hab] at hσ; cases hσ
    | _ => simp only [Except.ok.injEq] at h; subst h; cases hσ
  | hstr s =>
    intro _ d bs bss σ h hσ
    rw [matchJ_str] at h
    exact matchStr_bound h hσ
  | hobj kvs ih =>
    intro hp d bs bss σ h hσ
    rw [matchJ_obj] at h
    cases d with
    | obj fm =>
      simp only at h
      simp only [patOK, Bool.and_eq_true, List.all_eq_true, Bool.not_eq_true'] at hp
      by_cases he : kvs.isEmpty = true
      · simp only [he, if_true, Except.ok.injEq] at h; subst h
        rw [List.mem_singleton.1 hσ]
        have hk : kvs = [] := by simpa using he
        subst hk
        exact ⟨Bs.Ext.refl _, fun y hy => by simp [varsOf, varsOfO] at hy⟩
      · have hany : (kvs.any fun kv => isVar kv.1) = false := by
          rw [List.any_eq_false]; intro kv hkv; simp [hp.1 kv hkv]
        simp only [he, hany, Bool.and_false, Bool.false_eq_true, if_false] at h
        obtain ⟨b, hb, hext, hbd⟩ :=
          matchO_bound fm kvs hp.1 (patOKO_iff.1 hp.2) (fun kv hkv => ih kv hkv) [bs] bss σ h hσ
        rw [List.mem_singleton.1 hb] at hext
        rw [varsOf_obj]
        exact ⟨hext, hbd⟩
    | _ => simp only [Except.ok.injEq] at h; subst h; cases hσ
  | harr xs ih =>
    intro hp d bs bss σ h hσ
    rw [matchJ_arr] at h
    cases hgv : getVariable xs none with
    | error e => rw [hgv] at h; cases h
    | ok vw =>
      obtain ⟨v, w⟩ := vw
      rw [hgv] at h
      cases d with
      | arr fa =>
        simp only at h
        obtain ⟨branches, hbr, h⟩ := (Except.bind_ok_iff _ _ _).1 h
        simp only [patOK, Bool.and_eq_true, decide_eq_true_eq] at hp
        obtain ⟨⟨_, _⟩, hp3⟩ := hp
        have hpl := patOKL_iff.1 hp3
        rw [matchA_filter] at hbr
        have hgs := (getVariable_spec xs none v w hgv).1 rfl
        have hxs : (xs.filter (fun x => !isVarElem x) ++ xs.filter isVarElem).Perm xs :=
          List.perm_append_comm.trans (List.filter_append_perm isVarElem xs)
        have hA := matchA_bound (xs.filter (fun x => !isVarElem x))
          (fun x hx => by simpa using (List.mem_filter.1 hx).2)
          (fun x hx => hpl x (List.mem_filter.1 hx).1)
          (fun x hx => ih x (List.mem_filter.1 hx).1) _ _ branches hbr
        rw [varsOf_arr]
        have hvars := varsOfL_perm hxs
        rw [varsOfL_append] at hvars
        cases v with
        | none =>
          simp only [pure, Except.pure, Except.ok.injEq] at h; subst h
          obtain ⟨br', hbr', hσ'⟩ := List.mem_flatMap.1 hσ
          obtain ⟨br, hbrm, b, hb, hext, hbd⟩ := hA br' hbr' σ hσ'
          rw [List.mem_singleton.1 hbrm] at hb
          rw [List.mem_singleton.1 hb] at hext
          simp only at hgs
          rw [hgs] at hvars
          refine ⟨hext, fun y hy => hbd y ?_⟩
          have := hvars.mem_iff.2 hy
          simpa [varsOfL] using this
        | some s =>
          obtain ⟨ext, hext, h⟩ := (Except.bind_ok_iff _ _ _).1 h
          have hsx := getVariable_some_isVar xs none (some s) w hgv rfl s rfl
          have hopt : isOptVar s = false := by
            have := hpl _ hsx.1; simpa [patOK] using this
          simp only [hopt, Bool.and_false, Bool.false_eq_true, if_false, pure, Except.pure,
            Except.ok.injEq] at h
          subst h
          obtain ⟨per, hper, hσ⟩ := List.mem_flatMap.1 hσ
          obtain ⟨r, hr, hσ⟩ := List.mem_flatMap.1 hσ
          obtain ⟨br', hbr', hf⟩ := mapM_ok_mem_right hext hper
          obtain ⟨fr, hfr, hg⟩ := mapM_ok_mem_right hf hr
          obtain ⟨σ', hσ', q, hq, hσq⟩ := mem_flat_mapM hg hσ
          obtain ⟨hextS, hbS⟩ := matchStr_bound hq hσq
          obtain ⟨br, hbrm, b, hb, hextA, hbA⟩ := hA br' hbr' σ' hσ'
          rw [List.mem_singleton.1 hbrm] at hb
          rw [List.mem_singleton.1 hb] at hextA
          simp only at hgs
          rw [hgs] at hvars
          refine ⟨hextA.trans hextS, fun y hy => ?_⟩
          have := hvars.mem_iff.2 hy
          simp only [varsOfL, List.append_nil, List.mem_append] at this
          rcases this with h1 | h1
          · exact ext_bound hextS (hbA y h1)
          · exact hbS y h1
      | _ => simp only [Except.ok.injEq] at h; subst h; cases hσ

import RulioProofs.StateFrame

set_option linter.unusedSimpArgs false
set_option linter.unusedVariables false

/-! # Shape of `add` in both states -/

theorem SameButRi.refl (s : St) : SameButRi s s := ⟨rfl, rfl, rfl, rfl, rfl⟩
theorem SameButRi.trans {a b c : St} (h1 : SameButRi a b) (h2 : SameButRi b c) : SameButRi a c :=
  ⟨h2.1.trans h1.1, h2.2.1.trans h1.2.1, h2.2.2.1.trans h1.2.2.1, h2.2.2.2.1.trans h1.2.2.2.1,
   h2.2.2.2.2.trans h1.2.2.2.2⟩

theorem indexRule_same (s : St) (id : String) (r : Obj) : SameButRi s (s.indexRule id r).1 := by
  simp only [St.indexRule]
  split
  · exact SameButRi.refl s
  · exact SameButRi.refl s
  · exact ⟨rfl, rfl, rfl, rfl, rfl⟩

theorem unindexPrevious_same {s s1 : St} {id : String} {rep : Option Obj}
    (h : s.unindexPrevious id = .ok (s1, rep)) : SameButRi s s1 := by
  simp only [St.unindexPrevious] at h
  split at h
  · injection h with h; injection h with h1 h2; subst h1; exact SameButRi.refl s
  · split at h
    · rename_i old _ _
      cases hu : s.unindexRule id old with
      | error e => rw [hu] at h; cases h
      | ok s2 =>
        rw [hu] at h
        simp only [Except.map] at h
        injection h with h; injection h with h1 h2; subst h1
        exact unindexRule_same hu
    · injection h with h; injection h with h1 h2; subst h1; exact SameButRi.refl s

/-- the state with the fresh-id counter advanced when the generated id was used -/
def St.bump (s : St) (given id : String) : St :=
  if given == "" && id == s.freshId then { s with fresh := s.fresh + 1 } else s

theorem St.bump_fresh (s : St) (given id : String) :
    (s.bump given id).fresh = if given == "" && id == s.freshId then s.fresh + 1 else s.fresh := by
  simp only [St.bump]; split <;> rfl

theorem St.bump_same (s : St) (given id : String) :
    (s.bump given id).facts = s.facts ∧ (s.bump given id).store = s.store ∧ (s.bump given id).ti = s.ti ∧
    (s.bump given id).kind = s.kind := by
  simp only [St.bump]; split <;> exact ⟨rfl, rfl, rfl, rfl⟩

/-- an `add` that failed: only the rule index and the fresh counter may have moved -/
structure AddFailed (s s1 : St) : Prop where
  facts : s1.facts = s.facts
  store : s1.store = s.store
  ti : s1.ti = s.ti
  kind : s1.kind = s.kind
  fresh : s.fresh ≤ s1.fresh

/-- an indexed in-memory `add` that succeeded -/
structure IAdded (s s1 : St) (given : String) (x : Obj) (now : Int) (id : String) (fact x' : Obj) : Prop where
  prep : ∃ fact0 rule, prepareFact given s.freshId x now = .ok (id, fact0, x') ∧ extractRule fact0 false = .ok (rule, fact)
  facts : s1.facts = amSet s.facts id fact
  ti : s1.ti = (extractTerms fact).foldl (fun ti t => TI.add ti t id) s.ti
  store : s1.store = s.store
  kind : s1.kind = s.kind
  fresh : s1.fresh = if given == "" && id == s.freshId then s.fresh + 1 else s.fresh

/-- outcome of the indexed in-memory `add` -/
def IAddGood (s : St) (given : String) (x : Obj) (now : Int) (pr : St × Except LErr (String × Obj)) : Prop :=
  (∃ e, pr.2 = .error e ∧ AddFailed s pr.1) ∨
  (∃ id fact x', pr.2 = .ok (id, x') ∧ IAdded s pr.1 given x now id fact x')

theorem iadd_shape (s : St) (given : String) (x : Obj) (now : Int) : IAddGood s given x now (s.iadd given x now) := by
  unfold St.iadd
  cases hp : prepareFact given s.freshId x now with
  | error e => exact Or.inl ⟨e, rfl, ⟨rfl, rfl, rfl, rfl, Nat.le_refl _⟩⟩
  | ok r =>
    obtain ⟨id, fact0, x'⟩ := r
    simp only
    generalize hsb : (if (given == "" && id == s.freshId) = true then
      ({ kind := s.kind, facts := s.facts, store := s.store, ri := s.ri, ti := s.ti, fresh := s.fresh + 1 } : St)
      else s) = sb
    have hsb' : sb = s.bump given id := hsb.symm
    have hb := s.bump_same given id
    have hbf : s.fresh ≤ (s.bump given id).fresh := by rw [St.bump_fresh]; split <;> omega
    rw [← hsb'] at hb hbf
    cases he : extractRule fact0 false with
    | error e => exact Or.inl ⟨e, rfl, ⟨hb.1, hb.2.1, hb.2.2.1, hb.2.2.2, hbf⟩⟩
    | ok r2 =>
      obtain ⟨rule, fact⟩ := r2
      simp only
      cases hu : sb.unindexPrevious id with
      | error e => exact Or.inl ⟨e, rfl, ⟨hb.1, hb.2.1, hb.2.2.1, hb.2.2.2, hbf⟩⟩
      | ok r3 =>
        obtain ⟨s2, replaced⟩ := r3
        simp only
        have h2 := unindexPrevious_same hu
        have fin_err : ∀ (s3 : St) (e : LErr), SameButRi s2 s3 → IAddGood s given x now (s3, .error e) := by
          intro s3 e h3
          have h23 := h2.trans h3
          refine Or.inl ⟨e, rfl, ⟨?_, ?_, ?_, ?_, ?_⟩⟩
          · exact h23.1.trans hb.1
          · exact h23.2.1.trans hb.2.1
          · exact h23.2.2.1.trans hb.2.2.1
          · exact h23.2.2.2.1.trans hb.2.2.2
          · simp only; rw [h23.2.2.2.2]; exact hbf
        have fin_ok : ∀ (s3 : St), SameButRi s2 s3 → IAddGood s given x now
            ({ s3 with ti := (extractTerms fact).foldl (fun ti t => TI.add ti t id) s3.ti,
                       facts := amSet s3.facts id fact }, .ok (id, x')) := by
          intro s3 h3
          have h23 := h2.trans h3
          refine Or.inr ⟨id, fact, x', rfl, ⟨⟨fact0, rule, hp, he⟩, ?_, ?_, ?_, ?_, ?_⟩⟩
          · simp only; rw [h23.1, hb.1]
          · simp only; rw [h23.2.2.1, hb.2.2.1]
          · simp only; rw [h23.2.1, hb.2.1]
          · simp only; rw [h23.2.2.2.1, hb.2.2.2]
          · simp only; rw [h23.2.2.2.2, hsb', St.bump_fresh]
        cases rule with
        | none => exact fin_ok s2 (SameButRi.refl _)
        | some r =>
          simp only
          by_cases hsch : Obj.has r "schedule" = true
          · simp only [hsch, ↓reduceIte]
            exact fin_ok s2 (SameButRi.refl _)
          · simp only [hsch, Bool.false_eq_true, ↓reduceIte]
            have hi := indexRule_same s2 id r
            rcases hir : s2.indexRule id r with ⟨s1, _ | e⟩
            · rw [hir] at hi
              exact fin_ok s1 hi
            · rw [hir] at hi
              simp only
              cases replaced with
              | none => exact fin_err s1 e hi
              | some old =>
                simp only
                by_cases hsch2 : Obj.has old "schedule" = true
                · simp only [hsch2, ↓reduceIte]
                  exact fin_err s1 e hi
                · simp only [hsch2, Bool.false_eq_true, ↓reduceIte]
                  exact fin_err _ e (hi.trans (indexRule_same _ _ _))

import RulioModel.Match

/-! Declarative solution relation (maps and scalars only in this prototype) -/

def Agree (b d : J) : Prop := 0 < gmatch b d

mutual
inductive Sol (σ : Bs) : J → J → Prop where
  | null : Sol σ .null .null
  | bool (a) : Sol σ (.bool a) (.bool a)
  | num (a) : Sol σ (.num a) (.num a)
  | const (s) : isVar s = false → Sol σ (.str s) (.str s)
  | anon (d) : Sol σ (.str "?") d
  | var (s b d) : isVar s = true → σ.get? s = some b → Agree b d → Sol σ (.str s) d
  | obj (kvs dm) : SolO σ kvs dm → Sol σ (.obj kvs) (.obj dm)
inductive SolO (σ : Bs) : List (String × J) → List (String × J) → Prop where
  | nil (dm) : SolO σ [] dm
  | cons (k v r dm dv) : isVar k = false → lookupKey k dm = some dv → Sol σ v dv → SolO σ r dm →
      SolO σ ((k, v) :: r) dm
end

def Bs.Ext (bs σ : Bs) : Prop := ∀ k v, bs.get? k = some v → σ.get? k = some v

theorem Bs.Ext.refl (bs : Bs) : bs.Ext bs := fun _ _ h => h
theorem Bs.Ext.trans {a b c : Bs} (h1 : a.Ext b) (h2 : b.Ext c) : a.Ext c := fun k v h => h2 k v (h1 k v h)

mutual
theorem Sol.mono {σ σ' : Bs} (he : σ.Ext σ') : ∀ {p d : J}, Sol σ p d → Sol σ' p d
  | _, _, .null => .null
  | _, _, .bool a => .bool a
  | _, _, .num a => .num a
  | _, _, .const s hs => .const s hs
  | _, _, .anon d => .anon d
  | _, _, .var s b d hv hg ha => .var s b d hv (he _ _ hg) ha
  | _, _, .obj kvs dm h => .obj kvs dm (SolO.mono he h)
theorem SolO.mono {σ σ' : Bs} (he : σ.Ext σ') : ∀ {kvs dm}, SolO σ kvs dm → SolO σ' kvs dm
  | _, _, .nil dm => .nil dm
  | _, _, .cons k v r dm dv hk hl hs hr => .cons k v r dm dv hk hl (Sol.mono he hs) (SolO.mono he hr)
end
#print axioms Sol.mono

/-! ## Executable specification (brute force) and the fragment predicates -/

mutual
/-- substitute bound variables (Bindings.Bind of query.go) -/
def subst (σ : Bs) : J → J
  | .str s => if isVar s then (match σ.get? s with | some b => b | none => .str s) else .str s
  | .arr xs => .arr (substL σ xs)
  | .obj kvs => .obj (substO σ kvs)
  | j => j
def substL (σ : Bs) : List J → List J
  | [] => []
  | x :: xs => subst σ x :: substL σ xs
def substO (σ : Bs) : List (String × J) → List (String × J)
  | [] => []
  | (k, v) :: r => (k, subst σ v) :: substO σ r
end

mutual
/-- all variables of a pattern (values and keys), with repetitions, anonymous `?` excluded -/
def varsOf : J → List String
  | .str s => if isVar s && s != "?" then [s] else []
  | .arr xs => varsOfL xs
  | .obj kvs => varsOfO kvs
  | _ => []
def varsOfL : List J → List String
  | [] => []
  | x :: xs => varsOf x ++ varsOfL xs
def varsOfO : List (String × J) → List String
  | [] => []
  | (k, v) :: r => (if isVar k && k != "?" then [k] else []) ++ varsOf v ++ varsOfO r
end

mutual
/-- every sub-value of a datum, and every key (as a string value) -/
def subvalues : J → List J
  | .arr xs => .arr xs :: subvaluesL xs
  | .obj kvs => .obj kvs :: subvaluesO kvs
  | j => [j]
def subvaluesL : List J → List J
  | [] => []
  | x :: xs => subvalues x ++ subvaluesL xs
def subvaluesO : List (String × J) → List J
  | [] => []
  | (k, v) :: r => .str k :: subvalues v ++ subvaluesO r
end

/-- `pmv σ p d`: the bindings `σ`, applied to the pattern `p`, lay it over the data `d` as a partial match:
constants equal, every pattern key present in the data map, pattern array elements assigned injectively to
data array elements, and **each variable bound to exactly the data value found at its position**
(so a variable that occurs twice finds equal values). The anonymous variable `?` matches anything.
A map whose only key is a variable matches some entry of the data map whose key is the variable's value. -/
def pmStr (σ : Bs) (s : String) (d : J) : Bool :=
  if s == "?" then true
  else if isVar s then (match σ.get? s with | some b => b == d | none => false)
  else match d with | .str t => s == t | _ => false

mutual
def pmv (σ : Bs) (p d : J) : Bool :=
  match p, d with
  | .null, .null => true
  | .bool a, .bool b => a == b
  | .num a, .num b => a == b
  | .str s, d => pmStr σ s d
  | .obj kvs, .obj dm => pmO σ kvs dm dm
  | .arr xs, .arr ds => pmA σ xs ds
  | _, _ => false
termination_by (sizeOf p, 0)
def pmO (σ : Bs) (kvs : List (String × J)) (dm : List (String × J)) (rest : List (String × J)) : Bool :=
  match kvs with
  | [] => true
  | (k, v) :: r =>
    if isVar k then
      -- property variable: some entry of the data map (scanned through `rest`)
      (match rest with
       | [] => false
       | (dk, dv) :: rest' => (pmStr σ k (.str dk) && pmv σ v dv) || pmO σ ((k, v) :: r) dm rest') 
    else
      (match lookupKey k dm with
       | some dv => pmv σ v dv
       | none => false) && pmO σ r dm dm
termination_by (sizeOf kvs, rest.length)
/-- injective assignment of pattern elements to data elements -/
def pmA (σ : Bs) (xs : List J) (ds : List J) : Bool :=
  match xs with
  | [] => true
  | x :: xs' => pmPick σ x xs' [] ds
termination_by (sizeOf xs, 0)
def pmPick (σ : Bs) (x : J) (xs : List J) (pre post : List J) : Bool :=
  match post with
  | [] => false
  | d :: post' => (pmv σ x d && pmA σ xs (pre ++ post')) || pmPick σ x xs (pre ++ [d]) post'
termination_by (sizeOf x + sizeOf xs, post.length + 1)
decreasing_by
  all_goals simp_wf
  all_goals first | omega | (cases x <;> simp <;> omega) | (apply Prod.Lex.right'; simp; omega) | skip
end

def assignments (vars : List String) (cands : List J) : List Bs :=
  match vars with
  | [] => [[]]
  | v :: vs => (assignments vs cands).flatMap (fun σ => cands.map (fun c => (v, c) :: σ))

def dedupJ (l : List J) : List J := l.foldl (fun acc x => if acc.contains x then acc else acc ++ [x]) []

/-- Brute-force specification: every assignment of the pattern's unbound variables to sub-values of
the data (or keys) under which the pattern lies over the data. -/
def specMatch (p d : J) (bs : Bs) : List Bs :=
  let vs := ((varsOf p).filter (fun v => (bs.get? v).isNone)).eraseDups
  let cands := dedupJ (subvalues d)
  ((assignments vs cands).filter (fun σ => pmv (σ ++ bs) p d)).map (fun σ => σ ++ bs)

/-! ### fragment predicates (decidable, evaluated by the driver and used as theorem hypotheses) -/

def distinctJ : List J → Bool
  | [] => true
  | x :: xs => !xs.contains x && distinctJ xs

mutual
/-- keys are constants (or the map is a single variable key, only reported by `hasPropVar`);
arrays hold at most one variable and pairwise distinct scalar constants; no optional variables. -/
def patOK : J → Bool
  | .str s => !isOptVar s
  | .arr xs =>
      ((xs.filter (fun x => match x with | .str s => isVar s | _ => false)).length ≤ 1)
      && distinctJ (xs.filter J.isScalar) && patOKL xs
  | .obj kvs => kvs.all (fun kv => !isVar kv.1) && patOKO kvs
  | _ => true
def patOKL : List J → Bool
  | [] => true
  | x :: xs => patOK x && patOKL xs
def patOKO : List (String × J) → Bool
  | [] => true
  | (_, v) :: r => patOK v && patOKO r
end

mutual
/-- ground data; scalars inside one array pairwise distinct -/
def dataOK : J → Bool
  | .str s => !isVar s
  | .arr xs => distinctJ (xs.filter J.isScalar) && dataOKL xs
  | .obj kvs => dataOKO kvs
  | _ => true
def dataOKL : List J → Bool
  | [] => true
  | x :: xs => dataOK x && dataOKL xs
def dataOKO : List (String × J) → Bool
  | [] => true
  | (k, v) :: r => !isVar k && dataOK v && dataOKO r
end

def count (v : String) (l : List String) : Nat := (l.filter (· == v)).length

mutual
/-- rename every occurrence of a variable in `R` apart (`?x` ↦ `?x#n`), threading a counter -/
def apart (R : List String) : J → Nat → J × Nat
  | .str s, n => if R.contains s then (.str (s ++ "#" ++ toString n), n + 1) else (.str s, n)
  | .arr xs, n => let (ys, m) := apartL R xs n; (.arr ys, m)
  | .obj kvs, n => let (ys, m) := apartO R kvs n; (.obj ys, m)
  | j, n => (j, n)
def apartL (R : List String) : List J → Nat → List J × Nat
  | [], n => ([], n)
  | x :: xs, n => let (y, m) := apart R x n; let (ys, m') := apartL R xs m; (y :: ys, m')
def apartO (R : List String) : List (String × J) → Nat → List (String × J) × Nat
  | [], n => ([], n)
  | (k, v) :: r, n => let (y, m) := apart R v n; let (ys, m') := apartO R r m; ((k, y) :: ys, m')
end

/-- a variable that occurs more than once (or is already bound) is only ever laid over scalars -/
def scalarRepeats (p d : J) (bs : Bs) : Bool :=
  let vs := varsOf p
  let R := (vs.filter (fun v => count v vs > 1 || (bs.get? v).isSome)).eraseDups
  if R.isEmpty then true else
  let p' := (apart R p 0).1
  (bs.all (fun kv => kv.2.isScalar || !vs.contains kv.1)) &&
  (specMatch p' d []).all (fun σ => σ.all (fun kv => kv.2.isScalar || !(R.any (fun r => kv.1.startsWith (r ++ "#")))))

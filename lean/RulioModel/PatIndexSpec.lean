import RulioModel.PatIndexWF
import RulioModel.State
import RulioModel.MatchSpec
import RulioModel.Spec

/-! # Specification vocabulary for the pattern index (C01)

Nothing here changes the executable model (`PatIndex.lean`, `State.lean`); these are the notions the
theorems of `Props/C01.lean` are stated with:

* `PI.path pairs`  — the sequence of trie edges `PI.mod` walks for a list of (flattened, sorted) pairs;
* `PI.idsAt idx π` — the ids sitting on the node reached from `idx` through the edges `π`;
* `PI.Emb π E`     — the path `π` can be followed by `PI.search` on the event pairs `E`
                     (independently of what else is stored in the trie);
* `IdxOK p`, `EvOK ev` — the fragments of patterns / events for which the index is complete;
* `IdxSt`, `IOp`   — the index-relevant part of `IndexedState.add` / `rem` (abstract histories);
* `StIdx`, `IReach` — the rule-index invariant of the state model `St` and its reachable indexed states.
-/

/-- the pairs an array value contributes: one pair per element, same key -/
abbrev elems (k : String) (xs : List J) : List (String × J) := xs.map (fun x => (k, x))

namespace PI

set_option linter.unusedVariables false in
/-- The edges `PI.mod` walks for `pairs`: `str k' :: str (cast x)` for a constant, `str k' :: var` for a
variable, `str k' :: map ::` followed by the map's sorted pairs and then the remaining outer pairs; an
array contributes one pair per sorted element with the same key and no edge of its own.
`none` when `sortValues` fails on some array (then `PI.mod` reports `notSortable`). -/
def path (pairs : List (String × J)) : Option (List Edge) :=
  match pairs with
  | [] => some []
  | (k, v) :: rest =>
    let k' := if isVar k then "?" else k
    match hv : picast v with
    | .s x => (path rest).map (fun π => .str k' :: .str x :: π)
    | .v => (path rest).map (fun π => .str k' :: .var :: π)
    | .m kvs => (path (mapToPairs kvs ++ rest)).map (fun π => .str k' :: .map :: π)
    | .a xs =>
      match hs : sortValues xs with
      | .error _ => none
      | .ok sorted => path (sorted.map (fun x => (k, x)) ++ rest)
termination_by szO pairs
decreasing_by
  all_goals simp_wf
  · have := sz_pos v; simp [szO]; omega
  · have := sz_pos v; simp [szO]; omega
  · have := picast_m v kvs hv
    subst this
    simp [szO, szO_append, szO_mapToPairs, sz]
  · have := picast_a v xs hv
    subst this
    simp [szO, szO_append, szO_elems, szL_sortValues _ _ hs, sz]

/-- the ids on the node reached through the edges `π` (`[]` if there is no such node) -/
def idsAt : PI → List Edge → List String
  | n, [] => n.ids
  | n, e :: π => idsAt (n.childD e) π

/-- every id list in the trie is duplicate free (true of every trie built by `PI.mod` from `PI.empty`) -/
def NodupIds (idx : PI) : Prop := ∀ π, (idx.idsAt π).Nodup

/-- what `PI.mod` does to the id list of the node at the end of the path -/
def updIds (id : String) (add : Bool) (l : List String) : List String :=
  if add then (if l.contains id then l else l ++ [id]) else l.erase id

/-- the pairs `PI.search` goes on with after it has looked at the pair `(k, v)`: an array is expanded in
front; a variable in an event is an error -/
def afterPair (k : String) (v : J) (rest : List (String × J)) : Option (List (String × J)) :=
  match picast v with
  | .v => none
  | .s _ => some rest
  | .m _ => some rest
  | .a xs =>
    match sortValues xs with
    | .ok sorted => some (sorted.map (fun x => (k, x)) ++ rest)
    | .error _ => none

/-- `Emb π E`: the search, standing on a node from which the edges `π` lead to a node `t` and holding the
event pairs `E`, reaches `t` (and therefore collects the ids on `t`).  The rules mirror the continuations
of `PI.search`:
* `done`    — arrived (ids are collected on arrival through a `str`/`var`/`map` edge);
* `skip`    — the current node is always among the continuations, with the pair dropped;
* `const`   — the constant edge is followed by an event pair with that key and the same cast value;
* `var`     — the variable edge is followed by any event pair with that key (an array value is expanded
              in front of the remaining pairs);
* `mapIn`   — the map edge is followed into an event map: the map's sorted pairs come first;
* `mapStay` — or the map node goes on with the remaining outer pairs;
* `expand`  — an event array under the key the path wants next is replaced by one pair per sorted element. -/
inductive Emb : List Edge → List (String × J) → Prop
  | done (E) : Emb [] E
  | skip (π kv E) : Emb π E → Emb π (kv :: E)
  | const (k v x π E) : picast v = .s x → Emb π E → Emb (.str k :: .str x :: π) ((k, v) :: E)
  | var (k v π E E') : afterPair k v E = some E' → Emb π E' → Emb (.str k :: .var :: π) ((k, v) :: E)
  | mapIn (k kvs π E) : Emb π (mapToPairs kvs ++ E) → Emb (.str k :: .map :: π) ((k, .obj kvs) :: E)
  | mapStay (k kvs π E) : Emb π E → Emb (.str k :: .map :: π) ((k, .obj kvs) :: E)
  | expand (k xs sorted π E) : sortValues xs = .ok sorted →
      Emb (.str k :: π) (sorted.map (fun x => (k, x)) ++ E) → Emb (.str k :: π) ((k, .arr xs) :: E)

end PI

/-! ## the fragments -/

def isVarJ : J → Bool | .str s => isVar s | _ => false
def isArrJ : J → Bool | .arr _ => true | _ => false

/-- the keys of an association list are pairwise distinct (always true of a decoded JSON object) -/
def nodupKeys : List (String × J) → Bool
  | [] => true
  | (k, _) :: r => !(r.any (fun kv => kv.1 == k)) && nodupKeys r

/-- scalar constants (no variable) of one sortable type: what `SortValues` orders totally -/
def sortableConsts (xs : List J) : Bool :=
  xs.all (fun x => x.isScalar && !isVarJ x) &&
  (decide (xs.length ≤ 1) || (typeCode xs.head! != 0 && xs.all (fun x => typeCode x == typeCode xs.head!)))

mutual
/-- `IdxOK` on values: no optional variable; a map has constant, pairwise distinct keys; an array is
empty, or a singleton holding a variable, a map or a scalar constant, or consists of scalar
constants of one sortable type (strings, numbers or booleans). -/
def idxOKv : J → Bool
  | .str s => !isOptVar s
  | .arr xs => idxOKA xs
  | .obj kvs => nodupKeys kvs && idxOKO kvs
  | _ => true
def idxOKA : List J → Bool
  | [] => true
  | [x] => !isArrJ x && idxOKv x
  | x :: y :: r => sortableConsts (x :: y :: r)
def idxOKO : List (String × J) → Bool
  | [] => true
  | (k, v) :: r => !isVar k && idxOKv v && idxOKO r
end

/-- the patterns for which the index is complete -/
def IdxOK (p : Obj) : Bool := nodupKeys p && idxOKO p

mutual
/-- `EvOK` on values: ground; an array is empty, or a singleton (holding a map or a scalar), or consists of
scalars of one sortable type -/
def evOKv : J → Bool
  | .str s => !isVar s
  | .arr xs => evOKA xs
  | .obj kvs => evOKO kvs
  | _ => true
def evOKA : List J → Bool
  | [] => true
  | [x] => !isArrJ x && evOKv x
  | x :: y :: r => sortableConsts (x :: y :: r)
def evOKO : List (String × J) → Bool
  | [] => true
  | (k, v) :: r => !isVar k && evOKv v && evOKO r
end

/-- the events for which the index is complete -/
def EvOK (ev : Obj) : Bool := evOKO ev

/-! ## index histories: what `IndexedState.add` / `rem` do to the rule index

`rules` maps a rule id to the `when` pattern currently indexed under it (the non-scheduled rules of
`St.facts`).  `St.iadd` first removes the previous rule's pattern stored under the same id
(`unindexPrevious`; an error aborts), then adds the new one (`indexRule`); when that is rejected the
previous pattern is put back.  `St.irem` removes the stored rule's pattern (`unindexRule`). -/

structure IdxSt where
  ri : PI := PI.empty
  rules : List (String × Obj) := []

inductive IOp where
  | add (id : String) (pat : Obj)
  | rem (id : String)

def IdxSt.add (s : IdxSt) (id : String) (p : Obj) : IdxSt :=
  let prev := amGet s.rules id
  let r1 : PI × Option PErr := match prev with
    | some q => piRem s.ri q id
    | none => (s.ri, none)
  match r1 with
  | (_, some _) => s
  | (ri1, none) =>
    match piAdd ri1 p id with
    | (ri2, none) => { ri := ri2, rules := amSet s.rules id p }
    | (ri2, some _) =>
      match prev with
      | some q => { ri := (piAdd ri2 q id).1, rules := s.rules }
      | none => { ri := ri2, rules := s.rules }

def IdxSt.rem (s : IdxSt) (id : String) : IdxSt :=
  match amGet s.rules id with
  | none => s
  | some q =>
    match piRem s.ri q id with
    | (_, some _) => s
    | (ri1, none) => { ri := ri1, rules := amErase s.rules id }

def IdxSt.step (s : IdxSt) : IOp → IdxSt
  | .add id p => s.add id p
  | .rem id => s.rem id

def IdxSt.run (s : IdxSt) (ops : List IOp) : IdxSt := ops.foldl IdxSt.step s

/-- every indexed rule's id sits on the node at the end of its pattern's path -/
def PI.Indexed (ri : PI) (rules : List (String × Obj)) : Prop :=
  ∀ id p, amGet rules id = some p → ∃ π, PI.path (mapToPairs p) = some π ∧ id ∈ ri.idsAt π

/-- **the rule-index invariant of the indexed state**: id lists are duplicate free, and every stored,
non-scheduled rule (`whenOf`, the notion the dispatch specification `specDispatchLocal` uses) has its id on
the node at the end of its `when` pattern's path -/
def StIdx (s : St) : Prop :=
  PI.NodupIds s.ri ∧
  ∀ id fact pat, amGet s.facts id = some fact → whenOf fact = some pat →
    ∃ π, PI.path (mapToPairs pat) = some π ∧ id ∈ s.ri.idsAt π

/-- the states reachable from the empty indexed state by the operations of `IndexedState`
(`add`, `rem` with its `deleteWith` cascade, `get`, `search` and `findRules` with their expiry side effects,
`clear`), with arbitrary arguments, clocks and recursion budgets -/
inductive IReach : St → Prop
  | init : IReach { kind := .indexed }
  | add (s given x now) : IReach s → IReach (s.iAdd given x now).1
  | rem (s fuel id now) : IReach s → IReach (St.irem fuel s id now).1
  | get (s id now) : IReach s → IReach (s.iGet id now).1
  | search (s fuel p now) : IReach s → IReach (St.isearch fuel s p now).1
  | findRules (s ev now) : IReach s → IReach (s.iFindRules ev now).1
  | clear (s) : IReach s → IReach s.clear

/-- reading a search result -/
def foundIn (r : Except PErr (List String)) (id : String) : Bool :=
  match r with | .ok ids => ids.contains id | .error _ => false
def failsWith (r : Except PErr (List String)) (e : PErr) : Bool :=
  match r with | .ok _ => false | .error e' => e' == e

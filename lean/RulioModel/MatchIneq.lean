import RulioModel.Match

/-! # The matcher with *inequality variables* (sheens `Matcher.Inequalities = true`, as configured by
`core.DefaultMatcher` in `/repo/core/match.go`)

`matchJI / matchOI / matchAI` are `matchJ / matchO / matchA` of `RulioModel/Match.lean` with the string case
`matchStr` replaced by `matchStrI`, which first consults `inequal` (port of `func (m *Matcher) inequal` and of
its single call site in `match`).  `RulioProofs/MatchIneq.lean` proves that on patterns that mention no
inequality variable (`noIneqVars`) the two matchers are the same function, so every C05 theorem about
`matchJ` transfers. -/

/-- `v = "?" ++ ie ++ rest` with `ie` the first of `"<=", ">=", "!=", ">", "<"` that is a prefix of `v[1:]`,
and `len(v) > 2` (so `"?<"` and `"?>"` are no inequality variables, `"?<="` is one, with `rest = ""`).
The operators are ASCII, so Go's byte-wise `HasPrefix`/`len` and the character list agree. -/
def ineqOf (v : String) : Option (String × String) :=
  match v.toList with
  | '?' :: '<' :: '=' :: r => some ("<=", String.ofList r)
  | '?' :: '>' :: '=' :: r => some (">=", String.ofList r)
  | '?' :: '!' :: '=' :: r => some ("!=", String.ofList r)
  | '?' :: '>' :: c :: r => some (">", String.ofList (c :: r))
  | '?' :: '<' :: c :: r => some ("<", String.ofList (c :: r))
  | _ => none

/-- `a ie b` (the fact is on the left, the bound value on the right) -/
def ineqSat (ie : String) (a b : Int) : Bool :=
  if ie == "<" then decide (a < b)
  else if ie == "<=" then decide (a ≤ b)
  else if ie == ">" then decide (a > b)
  else if ie == ">=" then decide (a ≥ b)
  else if ie == "!=" then a != b
  else false

/-- port of `inequal(fact, bs, v)`: `none` = "not using" (the caller goes on with the ordinary
bound/unbound-variable handling of `v`), `some bss` = the result of the match. -/
def inequal (f : J) (bs : Bs) (v : String) : Option (List Bs) :=
  match bs.get? v with
  | some (.num b) =>
    match f with
    | .num a =>
      match ineqOf v with
      | none => none
      | some (ie, rest) =>
        if !ineqSat ie a b then some []
        else
          match bs.get? ("?" ++ rest) with
          | some (.num c) => some (if c == a then [bs] else [])
          | some _ => none
          | none => some [bs.set ("?" ++ rest) (.num a)]
    | _ => none
  | _ => none

/-- the string case of `match()` with `Inequalities: true`: constant, anonymous, inequality, bound or
fresh variable (in this order, as in the Go source) -/
def matchStrI (s : String) (f : J) (bs : Bs) : Except MErr (List Bs) :=
  if !isVar s then matchStr s f bs
  else if s == "?" then .ok [bs]
  else match inequal f bs s with
    | some r => .ok r
    | none => matchStr s f bs

mutual
def matchJI (p : J) (f : J) (bs : Bs) : Except MErr (List Bs) :=
  match p with
  | .null => (match f with | .null => .ok [bs] | _ => .ok [])
  | .bool a => (match f with | .bool b => .ok (if a == b then [bs] else []) | _ => .ok [])
  | .num a => (match f with | .num b => .ok (if a == b then [bs] else []) | _ => .ok [])
  | .str s => matchStrI s f bs
  | .obj kvs =>
    match f with
    | .obj fm =>
      if kvs.isEmpty then .ok [bs]
      else if kvs.length > 1 && kvs.any (fun kv => isVar kv.1) then .error .propVarWithOthers
      else matchOI kvs fm [bs]
    | _ => .ok []
  | .arr xs =>
    match getVariable xs none with
    | .error e => .error e
    | .ok (v, _) =>
      match f with
      | .arr fa =>
        let sc := (fa.filter J.isScalar).eraseDups
        let st := fa.filter (fun y => !y.isScalar)
        do
          let branches ← matchAI xs st.isEmpty [([bs], sc, st)]
          match v with
          | none => pure (branches.flatMap (·.1))
          | some v =>
            let ext ← branches.mapM (fun (bss, sc', st') =>
              (splitNth (st' ++ sc')).mapM (fun (fact, _) => bss.mapM (fun b => matchStrI v fact b)))
            let out := ext.flatMap (fun per => per.flatMap (fun r => r.flatMap id))
            if out.isEmpty && isOptVar v then pure (branches.flatMap (·.1)) else pure out
      | _ => .ok []
termination_by (sizeOf p, 0)
def matchOI (kvs : List (String × J)) (fm : List (String × J)) (bss : List Bs) : Except MErr (List Bs) :=
  match kvs with
  | [] => .ok bss
  | (k, v) :: r =>
    if isVar k then
      do
        let per ← fm.mapM (fun (fk, fv) => do
          let e1 ← bss.mapM (fun b => matchStrI k (.str fk) b)
          let e1 := e1.flatMap id
          if e1.isEmpty then pure [] else
          let e2 ← e1.mapM (fun b => matchJI v fv b)
          pure (e2.flatMap id))
        pure (per.flatMap id)
    else
      match lookupKey k fm with
      | none => (match v with
                 | .str s => if isOptVar s then matchOI r fm bss else .ok []
                 | _ => .ok [])
      | some fv => do
        let acc ← bss.mapM (fun b => matchJI v fv b)
        let acc := acc.flatMap id
        if acc.isEmpty then pure [] else matchOI r fm acc
termination_by (sizeOf kvs, 0)
def matchAI (xs : List J) (noStruct : Bool) (branches : List (List Bs × List J × List J)) :
    Except MErr (List (List Bs × List J × List J)) :=
  match xs with
  | [] => .ok branches
  | x :: xs' =>
    if (match x with | .str s => isVar s | _ => false) then matchAI xs' noStruct branches
    else if x.isScalar then
      match branches with
      | [] => .ok []
      | (_, sc, _) :: _ =>
        if sc.contains x then matchAI xs' noStruct (branches.map (fun (b, sc, st) => (b, sc.erase x, st)))
        else .ok []
    else if noStruct then .ok []
    else do
      let nb ← branches.mapM (fun (bss, sc, st) =>
        (splitNth st).mapM (fun (fact, rest) => do
          let acc ← bss.mapM (fun b => matchJI x fact b)
          let acc := acc.flatMap id
          pure (if acc.isEmpty then [] else [(acc, sc, rest)])))
      let nb := nb.flatMap (fun per => per.flatMap id)
      if nb.isEmpty then pure [] else matchAI xs' noStruct nb
termination_by (sizeOf xs, 0)
end

/-! `noIneqVars p`: no string of the pattern (value, array element or map key, at any depth) is an
inequality variable -/
mutual
def noIneqVars : J → Bool
  | .str s => (ineqOf s).isNone
  | .arr xs => noIneqVarsL xs
  | .obj kvs => noIneqVarsO kvs
  | _ => true
def noIneqVarsL : List J → Bool
  | [] => true
  | x :: xs => noIneqVars x && noIneqVarsL xs
def noIneqVarsO : List (String × J) → Bool
  | [] => true
  | (k, v) :: kvs => (ineqOf k).isNone && noIneqVars v && noIneqVarsO kvs
end

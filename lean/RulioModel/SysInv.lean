import RulioModel.Loc
import RulioModel.Spec

/-! # Invariants and specification vocabulary for systems of locations (C09) and for the
state/storage pair of one location (C06). Core Lean only; the frozen models are not changed. -/

/-! ## C09: well-formed systems, name-preserving computations, the parent graph -/

def Sys.keys (sys : Sys) : List String := sys.map (·.1)

/-- a system is a finite map: keys pairwise distinct, and every location sits under its own name
(`Sys.put` files a location under `l.name`) -/
structure SysWF (sys : Sys) : Prop where
  nodup : sys.keys.Nodup
  named : ∀ k l, (k, l) ∈ sys → l.name = k

/-- a single-location computation never renames the location it runs on (true of every model method) -/
def LM.KeepsName {α} (m : LM α) : Prop := ∀ l, (m l).1.name = l.name

/-- a single-location computation changes neither the name nor the provider flag -/
def LM.KeepsId {α} (m : LM α) : Prop := ∀ l, (m l).1.name = l.name ∧ (m l).1.hasProvider = l.hasProvider

/-- the parents of location `n` as `DoAncestors` would read them right now (`none`: unknown location or
a failing read) -/
def Sys.parentsAt (sys : Sys) (now : Int) (n : String) : Option (List String) :=
  match sys.get? n with
  | none => none
  | some l => match (locGetParentsRaw now l).2 with
    | .ok ps => some ps
    | .error _ => none

/-- `Par sys now n p`: `p` is a declared parent of `n` (read from `n`'s `!parents` property fact) -/
def Par (sys : Sys) (now : Int) (n p : String) : Prop :=
  ∃ ps, sys.parentsAt now n = some ps ∧ p ∈ ps

/-- reflexive-transitive closure of the parent relation: `Anc sys now n a` — `a` is `n` or a transitive parent of `n` -/
inductive Anc (sys : Sys) (now : Int) : String → String → Prop where
  | refl (n : String) : Anc sys now n n
  | step {n p a : String} : Par sys now n p → Anc sys now p a → Anc sys now n a

/-- the parent graph has no cycle: no location is a transitive parent of itself -/
def Acyclic (sys : Sys) (now : Int) : Prop :=
  ∀ n p, Par sys now n p → ¬ Anc sys now p n

/-! ## C06: the state/storage pair -/

/-- storage is the image of the in-memory facts: same ids, the stored document is the prepared fact -/
def Mirror (s : St) : Prop := ∀ id, amGet s.store id = (amGet s.facts id).map J.obj

/-- operations of one location's `State` -/
inductive ROp where
  | add (given : String) (x : Obj) (now : Int)
  | rem (id : String) (now : Int)
  | get (id : String) (now : Int)
  | search (p : Obj) (now : Int)
  | findRules (ev : Obj) (now : Int)
  | clear

/-- one step; the result is reduced to ok/error (the value is irrelevant for the invariants) -/
def St.stepOp (s : St) : ROp → St × Except LErr Unit
  | .add g x now => match s.add g x now with | (s', r) => (s', r.map (fun _ => ()))
  | .rem id now => match s.rem id now with | (s', r) => (s', r.map (fun _ => ()))
  | .get id now => match s.get id now with | (s', r) => (s', r.map (fun _ => ()))
  | .search p now => match s.search p now with | (s', r) => (s', r.map (fun _ => ()))
  | .findRules ev now => match s.findRules ev now with | (s', r) => (s', r.map (fun _ => ()))
  | .clear => (s.clear, .ok ())

/-- run a history (failed operations keep whatever state they reached, as the Go code does) -/
def St.runOps (s : St) : List ROp → St
  | [] => s
  | op :: rest => St.runOps (s.stepOp op).1 rest

def St.empty (k : Kind) : St := { kind := k }

/-! ## the ancestor walk without its loop counter -/

/-- the parent loop of `DoAncestors` by recursion on the parent list (the model's loop counter
`parents.length + 1` is redundant): `step` is the recursive call on one parent -/
def walkList {α} (step : Sys → String → List α → Sys × Except LErr (List α)) (n : String) :
    Sys → List String → List α → Sys × Except LErr (List α)
  | sys, [], acc => (sys, .ok acc)
  | sys, p :: rest, acc =>
    if p == n then (sys, .error "loop") else
    match sys.get? p with
    | none => (sys, .error "notFound")
    | some _ =>
      match step sys p acc with
      | (sys2, .error e) => (sys2, .error e)
      | (sys2, .ok acc2) => walkList step n sys2 rest acc2

/-- the `LocationProvider` check of `DoAncestors`: parents declared but no provider to resolve them -/
def noProv (sys : Sys) (n : String) (parents : List String) : Bool :=
  !parents.isEmpty && !(match sys.get? n with | some l => l.hasProvider | none => true)

/-- the names on the current path are pairwise distinct known locations -/
def PathOK (sys : Sys) (path : List String) : Prop := path.Nodup ∧ ∀ p ∈ path, p ∈ sys.keys

/-- the in-memory form of a prepared fact in the indexed state (`ExtractRule` mirrors `expires` into a map rule body) -/
def indexedForm (m : Obj) : Obj :=
  match extractRule m false with
  | .ok (_, f) => f
  | .error _ => m

/-- the fact as a state of the given kind keeps it in memory -/
def memForm (k : Kind) (m : Obj) : Obj := match k with | .indexed => indexedForm m | .linear => m

/-- same facts, storage and kind (the indexes and the id counter may differ) -/
def SameData (s s' : St) : Prop := s'.facts = s.facts ∧ s'.store = s.store ∧ s'.kind = s.kind

/-- `s'` is `s` with some ids erased from facts *and* storage together (indexes may differ) -/
def Shrinks (s s' : St) : Prop :=
  s'.kind = s.kind ∧ s'.fresh = s.fresh ∧ s'.facts.Sublist s.facts ∧ s'.store.Sublist s.store ∧
  ∀ id, (amGet s'.facts id = amGet s.facts id ∧ amGet s'.store id = amGet s.store id) ∨
        (amGet s'.facts id = none ∧ amGet s'.store id = none)

/-- the C06 state invariant: storage mirrors the facts, and both are finite maps (unique ids) -/
structure StoreOK (s : St) : Prop where
  mirror : Mirror s
  factsNodup : (s.facts.map (·.1)).Nodup
  storeNodup : (s.store.map (·.1)).Nodup

/-- the fact `setProp id prop v` stores -/
def propFact (id prop : String) (v : J) : Obj := [("id", .str id), ("!" ++ prop, v), ("deleteWith", .arr [.str id])]

/-- `p` is the first declared parent of `n` (and `n` can resolve parents) -/
def firstParentIs (sys : Sys) (now : Int) (n p : String) : Bool :=
  match sys.get? n with
  | none => false
  | some l => l.hasProvider && (match (locGetParentsRaw now l).2 with | .ok (q :: _) => q == p | _ => false)

/-- `n → m₁ → … → mₖ → last` along first declared parents -/
def chainFP (sys : Sys) (now : Int) : String → List String → String → Bool
  | n, [], last => firstParentIs sys now n last
  | n, m :: mid, last => firstParentIs sys now n m && chainFP sys now m mid last

/-- result test without `DecidableEq` on results -/
def isErr {α} (e : String) : Except LErr α → Bool
  | .error e' => e' == e
  | .ok _ => false

/-! ## small concrete systems for the non-vacuity examples -/

def Sys.fresh (k : Kind) (names : List String) : Sys := names.map (fun n => (n, { name := n, st := { kind := k } }))

/-- `a` names itself as parent -/
def exSelfLoop (k : Kind) : Sys := ((Sys.fresh k ["a", "b"]).at "a" (locSetParents {} ["a"] 0)).1

/-- `a → b → a` -/
def exIndirectLoop (k : Kind) : Sys :=
  let s1 := ((Sys.fresh k ["a", "b"]).at "a" (locSetParents {} ["b"] 0)).1
  (s1.at "b" (locSetParents {} ["a"] 0)).1

/-- diamond `d → b, c`, `b → a`, `c → a` plus an unrelated `z → d` (a child of `d`) -/
def exDiamond (k : Kind) : Sys :=
  let s0 := Sys.fresh k ["a", "b", "c", "d", "z"]
  let s1 := (s0.at "d" (locSetParents {} ["b", "c"] 0)).1
  let s2 := (s1.at "b" (locSetParents {} ["a"] 0)).1
  let s3 := (s2.at "c" (locSetParents {} ["a"] 0)).1
  (s3.at "z" (locSetParents {} ["d"] 0)).1

def isOk {α} : Except LErr α → Bool
  | .error _ => false
  | .ok _ => true

/-- storage is the in-memory fact list, document by document, in the same order -/
def StoreEq (s : St) : Prop := s.store = s.facts.map (fun p => (p.1, J.obj p.2))

/-- a linear state never touches the indexes -/
def LinIdx (s : St) : Prop := s.kind = .linear ∧ s.ri = PI.empty ∧ s.ti = []

/-! ## C09 noninterference vocabulary -/

/-- every parent list that reading location state `l` can return lies inside `S` -/
def ParentsIn (S : String → Prop) (now : Int) (l : Loc) : Prop :=
  ∀ l' ps, locGetParentsRaw now l = (l', .ok ps) → ∀ p ∈ ps, S p

/-- `S` is closed under the declared-parent relation of `sys` -/
def Closed (S : String → Prop) (sys : Sys) (now : Int) : Prop :=
  ∀ m, S m → ∀ l, sys.get? m = some l → ParentsIn S now l

/-- the two systems have the same component at every name in `S` -/
def AgreeOn (S : String → Prop) (sys1 sys2 : Sys) : Prop := ∀ m, S m → sys1.get? m = sys2.get? m

/-- a single-location computation that keeps name and provider flag and whose only effect on the state is
to erase ids (from facts and storage together) and to update indexes — true of every read-only method:
their only side effect is the purge of expired facts -/
def LM.Shr {α} (m : LM α) : Prop :=
  ∀ l, (m l).1.name = l.name ∧ (m l).1.hasProvider = l.hasProvider ∧ Shrinks l.st (m l).1.st

/-- a computation after which the location's declared parents still lie in any set they lay in before -/
def LM.ParentMono {α} (now : Int) (m : LM α) : Prop :=
  ∀ (S : String → Prop) l, ParentsIn S now l → ParentsIn S now (m l).1

/-- decide that a finite set of names is parent-closed -/
def closedB (names : List String) (sys : Sys) (now : Int) : Bool :=
  names.all (fun m => match sys.get? m with
    | none => true
    | some l => match (locGetParentsRaw now l).2 with
      | .ok ps => ps.all names.contains
      | .error _ => true)

/-! ## C06: canonical (already prepared) facts -/

/-- the expiry data of an in-memory fact -/
def expOf (f : Obj) : Bool × Int := match f.get? "expires" with | some (.num n) => (true, n) | _ => (false, 0)

/-- `f` stored under `id` is a fixed point of fact preparation: preparing it again with its own id, at any
time, regenerates the same id and the same fact, and `ExtractRule` leaves it unchanged -/
structure CanonFact (id : String) (f : Obj) : Prop where
  genId : ∀ fresh, genId f id fresh = .ok id
  setExp : ∀ now, setExpires f now = .ok (f, expOf f)
  extract : ∃ r, extractRule f false = .ok (r, f)

def AllCanon (s : St) : Prop := ∀ p ∈ s.facts, CanonFact p.1 p.2

/-- re-indexing the (non-scheduled) rule of `f` never fails, whatever the rule index holds -/
def IndexableFact (id : String) (f : Obj) : Prop :=
  ∀ r, extractRule f false = .ok (some r, f) → Obj.has r "schedule" = false → ∀ s : St, (s.indexRule id r).2 = none

def AllIndexable (s : St) : Prop := ∀ p ∈ s.facts, IndexableFact p.1 p.2

/-- neither `fn` nor the parent read changes the state of any location of `sys` at time `now`
(e.g. nothing stored is expired) -/
def QuietWalk {α} (sys : Sys) (now : Int) (fn : String → LM α) : Prop :=
  (∀ m l, sys.get? m = some l → (fn m l).1 = l) ∧ (∀ m l, sys.get? m = some l → (locGetParentsRaw now l).1 = l)

/-- decide that no location of `sys` holds an expired `!.parents` fact at `now` (then parent reads are quiet) -/
def quietReadB (sys : Sys) (now : Int) : Bool :=
  sys.all (fun p => match amGet p.2.st.facts "!.parents" with
    | none => true
    | some f => match checkExpiration f now with
      | .ok true => false
      | _ => true)

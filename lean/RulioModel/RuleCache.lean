/-! # The rule cache of the states and its generation counter (C12)

`FindCachedRules` reads a rule from the state under the state lock and caches its parsed form after that lock has been
released; `Add`/`rem` drop the cached rule before and after they update the state; every invalidation advances a
generation, and a rule is cached only if the generation is still the one read before the state was read
(core/state_indexed.go, core/state_linear.go: `cacheGeneration`, `cacheRule`, `uncacheRule`).

One rule id. `mem` is the version of the rule the state holds, `cache` the cached version, `gen` the generation.
Any number of writers and readers; one atomic step per scheduling decision (the state lock and the cache mutex make each
of these steps atomic in the real code). -/

namespace RuleCache

inductive PC where
  | w0 (v : Nat)                 -- a writer about to invalidate (before its update)
  | w1 (v : Nat)                 -- … about to write version `v` to the state
  | w2                           -- … has written, about to invalidate again
  | r0                           -- a reader about to read the generation
  | r1 (g : Nat)                 -- … about to read the rule from the state
  | r2 (g r : Nat)               -- … about to look at the cache / cache what it read
  | done (used : Option Nat)     -- finished; a reader used this version
deriving DecidableEq, Repr

structure St where
  mem : Nat
  cache : Option Nat
  gen : Nat
  pcs : List PC
deriving Repr

def setNth {α} : List α → Nat → α → List α
  | [], _, _ => []
  | _ :: r, 0, x => x :: r
  | a :: r, n + 1, x => a :: setNth r n x

/-- thread `t` takes its next step -/
def step (s : St) (t : Nat) : St :=
  match s.pcs[t]? with
  | none => s
  | some pc =>
    match pc with
    | .w0 v => { s with cache := none, gen := s.gen + 1, pcs := setNth s.pcs t (.w1 v) }
    | .w1 v => { s with mem := v, pcs := setNth s.pcs t .w2 }
    | .w2 => { s with cache := none, gen := s.gen + 1, pcs := setNth s.pcs t (.done none) }
    | .r0 => { s with pcs := setNth s.pcs t (.r1 s.gen) }
    | .r1 g => { s with pcs := setNth s.pcs t (.r2 g s.mem) }
    | .r2 g r =>
      match s.cache with
      | some c => { s with pcs := setNth s.pcs t (.done (some c)) }
      | none =>
        if s.gen = g then { s with cache := some r, pcs := setNth s.pcs t (.done (some r)) }
        else { s with pcs := setNth s.pcs t (.done (some r)) }
    | .done _ => s

def run (s : St) (σ : List Nat) : St := σ.foldl step s

/-- a writer that has updated the state and not yet invalidated for the second time -/
def midWrite (s : St) : Prop := PC.w2 ∈ s.pcs

/-- the programs start at their beginning -/
def Fresh (pcs : List PC) : Prop := ∀ pc ∈ pcs, (∃ v, pc = .w0 v) ∨ pc = .r0

end RuleCache

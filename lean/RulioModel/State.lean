import RulioModel.Fact
import RulioModel.PatIndex

/-! # The two State implementations (state_indexed.go, state_linear.go) over a storage map.
Explicit `now`; Go maps are key-unique association lists; iteration is in list order (results are
compared as multisets by the check). `panic` is an explicit error class. -/

def stringLengthTermLimit : Nat := 1024

mutual
/-- `ExtractTerms` (as a list, duplicates removed by the caller) -/
def termsJ : J → List String
  | .str s => if !isVar s && s.utf8ByteSize < stringLengthTermLimit then [s] else []
  | .arr xs => termsL xs
  | .obj kvs => termsO kvs
  | _ => []
def termsL : List J → List String
  | [] => []
  | x :: xs => termsJ x ++ termsL xs
def termsO : List (String × J) → List String
  | [] => []
  | (k, v) :: r =>
    (if !isVar k && k.utf8ByteSize < stringLengthTermLimit then [k] else []) ++
    (if k == "rule" || k.endsWith "!" then [] else termsJ v) ++ termsO r
end

def extractTerms (fact : Obj) : List String := (termsO fact).eraseDups

/-- TermIndex: term ↦ set of ids -/
abbrev TI := List (String × List String)

def TI.add (ti : TI) (term id : String) : TI :=
  match amGet ti term with
  | some ids => amSet ti term (if ids.contains id then ids else ids ++ [id])
  | none => ti ++ [(term, [id])]

def TI.rem (ti : TI) (term id : String) : TI :=
  match amGet ti term with
  | some ids => let ids' := ids.erase id; if ids'.isEmpty then amErase ti term else amSet ti term ids'
  | none => ti

/-- `TermIndex.Search`: the intersection of the id sets of all terms; no terms is an error -/
def TI.search (ti : TI) (terms : List String) : Except LErr (List String) :=
  match terms with
  | [] => .error "noTerms"
  | t :: ts =>
    let first := (amGet ti t).getD []
    .ok (ts.foldl (fun acc t' => let ids := (amGet ti t').getD []; acc.filter ids.contains) first)

inductive Kind where | indexed | linear
deriving DecidableEq, Repr

structure St where
  kind  : Kind
  facts : List (String × Obj) := []   -- IdToFact / Facts[id].M (prepared facts)
  store : List (String × J) := []     -- storage: id ↦ stored document
  ri    : PI := PI.empty              -- RuleIndex (indexed only)
  ti    : TI := []                    -- FactIndex (indexed only)
  fresh : Nat := 0                    -- counter standing in for UUID()


def searchFuel (pairs : List (String × J)) : Nat := 4 * szO pairs + 8

def St.freshId (s : St) : String := "fresh#" ++ toString s.fresh

/-- size-based fuel for PI.mod/search: every step consumes a pair or expands one -/
def piAdd (ri : PI) (pat : Obj) (id : String) : PI × Option PErr :=
  let pairs := mapToPairs pat
  PI.mod (searchFuel pairs) ri pairs id true
def piRem (ri : PI) (pat : Obj) (id : String) : PI × Option PErr :=
  let pairs := mapToPairs pat
  PI.mod (searchFuel pairs) ri pairs id false
/-- `SearchPatternsMap`: the trie walk plus the ids sitting on the root (patterns without indexable pairs) -/
def piSearch (ri : PI) (ev : Obj) : Except PErr (List String) :=
  let pairs := mapToPairs ev
  (PI.search (searchFuel pairs) ri pairs).map (fun ids => union ids ri.ids)

def perr : PErr → LErr
  | .notSortable => "notSortable"
  | .varKeyWithOthers => "varKeyWithOthers"
  | .varInEvent => "varInEvent"

def merr : MErr → LErr
  | .propVarWithOthers => "propVarWithOthers"
  | .repeatedVar => "repeatedVar"
  | .multiVar => "multiVar"
  | .nonGround => "nonGround"

def matchesJ (p d : J) : Except LErr (List Bs) :=
  match matchJ p d [] with
  | .ok r => .ok r
  | .error e => .error (merr e)

/-! ## IndexedState -/

/-- `unindexRule` -/
def St.unindexRule (s : St) (id : String) (rule : Obj) : Except LErr St := do
  match ← getRulePattern rule with
  | none => pure s
  | some pat =>
    let (ri, e) := piRem s.ri pat id
    match e with
    | some e => .error (perr e)   -- NB: Go keeps the partially modified trie; the error aborts the op
    | none => pure { s with ri := ri }

/-- `indexRule`: adds the rule's pattern.
Returns the state even on error (the trie may have been partially extended). -/
def St.indexRule (s : St) (id : String) (rule : Obj) : St × Option LErr :=
  match getRulePattern rule with
  | .error e => (s, some e)
  | .ok none => (s, some "syntax")
  | .ok (some pat) =>
    let (ri, e) := piAdd s.ri pat id
    ({ s with ri := ri }, e.map perr)

/-- what `add` does first when the id is already stored: the previous rule's pattern leaves the index.
Returns the previous rule (if any) so that it can be put back when the new one is rejected. -/
def St.unindexPrevious (s : St) (id : String) : Except LErr (St × Option Obj) :=
  match amGet s.facts id with
  | none => .ok (s, none)
  | some prev =>
    match extractRule prev false with
    | .ok (some old, _) => (s.unindexRule id old).map (fun s' => (s', some old))
    | _ => .ok (s, none)

/-- `IndexedState.add` (memory only). Returns the new state even when it fails half-way. -/
def St.iadd (s : St) (given : String) (x : Obj) (now : Int) : St × Except LErr (String × Obj) :=
  match prepareFact given s.freshId x now with
  | .error e => (s, .error e)
  | .ok (id, fact, x') =>
    let s := if given == "" && id == s.freshId then { s with fresh := s.fresh + 1 } else s
    match extractRule fact false with
    | .error e => (s, .error e)
    | .ok (rule, fact) =>
      match s.unindexPrevious id with
      | .error e => (s, .error e)
      | .ok (s, replaced) =>
      let (s, err) : St × Option LErr :=
        match rule with
        | some r =>
          if Obj.has r "schedule" then (s, none) else
          match s.indexRule id r with
          | (s1, none) => (s1, none)
          | (s1, some e) =>
            -- the new rule is rejected: the previous one goes back into the index
            (match replaced with
             | some old => if Obj.has old "schedule" then (s1, some e) else ((s1.indexRule id old).1, some e)
             | none => (s1, some e))
        | none => (s, none)
      match err with
      | some e => (s, .error e)
      | none =>
        let ti := (extractTerms fact).foldl (fun ti t => TI.add ti t id) s.ti
        ({ s with ti := ti, facts := amSet s.facts id fact }, .ok (id, x'))

mutual
/-- `IndexedState.rem` with its cascade; `fuel` bounds the recursion depth (see C08) -/
def St.irem (fuel : Nat) (s : St) (id : String) (now : Int) : St × Except LErr Bool :=
  match fuel with
  | 0 => (s, .error "fuel")
  | fuel + 1 =>
    match amGet s.facts id with
    | some fact =>
      let rule := match extractRule fact false with | .ok (r, _) => r | .error _ => none
      let r1 : Except LErr St := match rule with
        | some r => s.unindexRule id r
        | none => .ok s
      match r1 with
      | .error e => (s, .error e)
      | .ok s1 =>
        let s2 := { s1 with facts := amErase s1.facts id,
                            ti := (extractTerms fact).foldl (fun ti t => TI.rem ti t id) s1.ti,
                            store := amErase s1.store id }
        match St.ideps fuel s2 id now with
        | (s3, .error e) => (s3, .error e)
        | (s3, .ok _) => (s3, .ok true)
    | none =>
      match St.ideps fuel s id now with
      | (s3, .error e) => (s3, .error e)
      | (s3, .ok _) => (s3, .ok false)
/-- `deleteDependencies`: search `{deleteWith:[id]}`, then `rem` each result found -/
def St.ideps (fuel : Nat) (s : St) (id : String) (now : Int) : St × Except LErr Unit :=
  match fuel with
  | 0 => (s, .error "fuel")
  | fuel + 1 =>
    if isVar id then (s, .ok ()) else   -- such an id would be a pattern variable
    match St.isearch fuel s [("deleteWith", .arr [.str id])] now with
    | (s1, .error e) => (s1, .error e)
    | (s1, .ok found) => St.iremAll fuel s1 (found.map (·.1)) now
def St.iremAll (fuel : Nat) (s : St) (ids : List String) (now : Int) : St × Except LErr Unit :=
  match fuel with
  | 0 => (s, .error "fuel")
  | fuel + 1 =>
    match ids with
    | [] => (s, .ok ())
    | i :: rest =>
      match St.irem fuel s i now with
      | (s1, .error e) => (s1, .error e)
      | (s1, .ok _) => St.iremAll fuel s1 rest now
/-- `IndexedState.search`: term-index candidates, expiry (purging, cascading), re-match -/
def St.isearch (fuel : Nat) (s : St) (pattern : Obj) (now : Int) : St × Except LErr (List (String × Obj × List Bs)) :=
  match fuel with
  | 0 => (s, .error "fuel")
  | fuel + 1 =>
    -- `SearchForIDs`: no terms = every stored fact is a candidate
    let cands := if (extractTerms pattern).isEmpty then .ok (s.facts.map (·.1)) else TI.search s.ti (extractTerms pattern)
    match cands with
    | .error e => (s, .error e)
    | .ok ids => St.isearchLoop fuel s pattern ids now []
def St.isearchLoop (fuel : Nat) (s : St) (pattern : Obj) (ids : List String) (now : Int)
    (acc : List (String × Obj × List Bs)) : St × Except LErr (List (String × Obj × List Bs)) :=
  match fuel with
  | 0 => (s, .error "fuel")
  | fuel + 1 =>
    match ids with
    | [] => (s, .ok acc)
    | id :: rest =>
      match amGet s.facts id with
      | none => St.isearchLoop fuel s pattern rest now acc
      | some fact =>
        -- expire: an error from checkExpiration is logged and ignored here
        let (s1, gone) : St × Bool := match checkExpiration fact now with
          | .ok true => ((St.irem fuel s id now).1, true)
          | _ => (s, false)
        if gone then St.isearchLoop fuel s1 pattern rest now acc else
        match matchesJ (.obj pattern) (.obj fact) with
        | .error e => (s1, .error e)
        | .ok bss =>
          St.isearchLoop fuel s1 pattern rest now (if bss.isEmpty then acc else acc ++ [(id, fact, bss)])
end

/-- length of the longest id list in the term index -/
def tiWidth : TI → Nat
  | [] => 0
  | (_, ids) :: r => max ids.length (tiWidth r)

/-- recursion budget: each level deletes a fact or is followed by one that does; the candidate lists of the indexed
search are bounded by the widest term-index entry, which stale entries can make longer than the number of facts
(C08 `cascade_terminates`, `fuel_insufficient` for the budget without the last summand) -/
def St.fuel (s : St) : Nat := 6 * s.facts.length + 12 + tiWidth s.ti

/-- `IndexedState.Add`: memory first, then the caller's document goes to storage -/
def St.iAdd (s : St) (given : String) (x : Obj) (now : Int) : St × Except LErr String :=
  match s.iadd given x now with
  | (s1, .error e) => (s1, .error e)
  | (s1, .ok (id, _)) =>
    -- the *prepared* fact (absolute `expires`) is what goes to storage
    ({ s1 with store := amSet s1.store id (.obj ((amGet s1.facts id).getD [])) }, .ok id)

def St.iGet (s : St) (id : String) (now : Int) : St × Except LErr Obj :=
  match amGet s.facts id with
  | none => (s, .error "notFound")
  | some fact =>
    match checkExpiration fact now with
    | .error e => (s, .error e)
    | .ok true =>
      match St.irem s.fuel s id now with
      | (s1, .error e) => (s1, .error e)
      | (s1, .ok _) => (s1, .error "notFound")
    | .ok false => (s, .ok fact)

/-- `doFindRules` (indexed): pattern-index candidates → expiry → lost rule / rule body errors -/
def St.iFindRules (s : St) (event : Obj) (now : Int) : St × Except LErr (List (String × Obj)) :=
  match piSearch s.ri event with
  | .error e => (s, .error (perr e))
  | .ok ids =>
    let rec go (fuel : Nat) (s : St) (ids : List String) (acc : List (String × Obj)) : St × Except LErr (List (String × Obj)) :=
      match fuel with
      | 0 => (s, .error "fuel")
      | fuel + 1 =>
      match ids with
      | [] => (s, .ok acc)
      | id :: rest =>
        let fact? := amGet s.facts id
        let fact := fact?.getD []
        let (s1, gone) : St × Bool := match checkExpiration fact now with
          | .ok true => ((St.irem s.fuel s id now).1, true)
          | _ => (s, false)
        if gone then go fuel s1 rest acc else
        match fact? with
        | none => (s1, .error "lostRule")
        | some f =>
          match extractRule f true with
          | .error e => (s1, .error e)
          | .ok (some body, _) => go fuel s1 rest (acc ++ [(id, body)])
          | .ok (none, _) => (s1, .error "ruleBodyMissing")
    go (ids.length + 1) s ids []

/-- `Load` (indexed): re-prepare every stored document; expired ones are removed from storage -/
def St.iLoad (kindStore : List (String × J)) (now : Int) : Except LErr St :=
  let rec go (s : St) (docs : List (String × J)) : Except LErr St :=
    match docs with
    | [] => .ok s
    | (id, doc) :: rest =>
      match doc with
      | .obj x =>
        match s.iadd id x now with
        | (s1, .ok _) => go s1 rest
        | (s1, .error "expired") => go { s1 with store := amErase s1.store id } rest
        | (_, .error e) => .error e
      | _ => .error "unmarshal"
  go { kind := .indexed, store := kindStore } kindStore

/-! ## LinearState -/

mutual
def St.lrem (fuel : Nat) (s : St) (id : String) (now : Int) : St × Except LErr Bool :=
  match fuel with
  | 0 => (s, .error "fuel")
  | fuel + 1 =>
    let had := amHas s.facts id
    let s1 := { s with store := amErase s.store id, facts := amErase s.facts id }
    if isVar id then (s1, .ok had) else   -- such an id would be a pattern variable
    match St.lsearch fuel s1 [("deleteWith", .arr [.str id])] now with
    | (s2, .error e) => (s2, .error e)
    | (s2, .ok found) =>
      match St.lremAll fuel s2 ((found.map (·.1)).filter (· != id)) now with
      | (s3, .error e) => (s3, .error e)
      | (s3, .ok _) => (s3, .ok had)
def St.lremAll (fuel : Nat) (s : St) (ids : List String) (now : Int) : St × Except LErr Unit :=
  match fuel with
  | 0 => (s, .error "fuel")
  | fuel + 1 =>
    match ids with
    | [] => (s, .ok ())
    | i :: rest =>
      match St.lrem fuel s i now with
      | (s1, .error e) => (s1, .error e)
      | (s1, .ok _) => St.lremAll fuel s1 rest now
/-- `LinearState.search`: scan; iterates over a snapshot of the ids (a Go map range tolerates deletion) -/
def St.lsearch (fuel : Nat) (s : St) (pattern : Obj) (now : Int) : St × Except LErr (List (String × Obj × List Bs)) :=
  match fuel with
  | 0 => (s, .error "fuel")
  | fuel + 1 => St.lsearchLoop fuel s pattern (s.facts.map (·.1)) now []
def St.lsearchLoop (fuel : Nat) (s : St) (pattern : Obj) (ids : List String) (now : Int)
    (acc : List (String × Obj × List Bs)) : St × Except LErr (List (String × Obj × List Bs)) :=
  match fuel with
  | 0 => (s, .error "fuel")
  | fuel + 1 =>
    match ids with
    | [] => (s, .ok acc)
    | id :: rest =>
      match amGet s.facts id with
      | none => St.lsearchLoop fuel s pattern rest now acc
      | some fact =>
        match checkExpiration fact now with
        | .error e => (s, .error e)
        | .ok true =>
          match St.lrem fuel s id now with
          | (s1, .error e) => (s1, .error e)
          | (s1, .ok _) => St.lsearchLoop fuel s1 pattern rest now acc
        | .ok false =>
          match matchesJ (.obj pattern) (.obj fact) with
          | .error e => (s, .error e)
          | .ok bss => St.lsearchLoop fuel s pattern rest now (if bss.isEmpty then acc else acc ++ [(id, fact, bss)])
end

/-- `LinearState.Add`: prepare, store the caller's document, then memory -/
def St.lAdd (s : St) (given : String) (x : Obj) (now : Int) : St × Except LErr String :=
  match prepareFact given s.freshId x now with
  | .error e => (s, .error e)
  | .ok (id, m, x') =>
    let s := if given == "" && id == s.freshId then { s with fresh := s.fresh + 1 } else s
    let _ := x'
    ({ s with store := amSet s.store id (.obj m), facts := amSet s.facts id m }, .ok id)

def St.lGet (s : St) (id : String) (now : Int) : St × Except LErr Obj :=
  match amGet s.facts id with
  | none => (s, .error "notFound")
  | some fact =>
    match checkExpiration fact now with
    | .error e => (s, .error e)
    | .ok true =>
      match St.lrem s.fuel s id now with
      | (s1, .error e) => (s1, .error e)
      | (s1, .ok _) => (s1, .error "notFound")
    | .ok false => (s, .ok fact)

/-- `doFindRules` (linear): scan all facts with a `rule` key -/
def St.lFindRules (s : St) (event : Obj) (now : Int) : St × Except LErr (List (String × Obj)) :=
  let rec go (fuel : Nat) (s : St) (ids : List String) (acc : List (String × Obj)) : St × Except LErr (List (String × Obj)) :=
    match fuel with
    | 0 => (s, .error "fuel")
    | fuel + 1 =>
    match ids with
    | [] => (s, .ok acc)
    | id :: rest =>
      match amGet s.facts id with
      | none => go fuel s rest acc
      | some fact =>
        match fact.get? "rule" with
        | none => go fuel s rest acc
        | some rule =>
          match checkExpiration fact now with
          | .error e => (s, .error e)
          | .ok true =>
            match St.lrem s.fuel s id now with
            | (s1, .error e) => (s1, .error e)
            | (s1, .ok _) => go fuel s1 rest acc
          | .ok false =>
            match rule with
            | .obj r =>
              match Obj.get? r "when" with
              | some (.obj w) =>
                let pat := (Obj.get? w "pattern").getD (.obj w)
                match matchesJ pat (.obj event) with
                | .error e => (s, .error e)
                | .ok bss => go fuel s rest (if bss.isEmpty then acc else acc ++ [(id, r)])
              | _ => go fuel s rest acc
            | _ => (s, .error "panic")
  go (s.facts.length + 1) s (s.facts.map (·.1)) []

/-- `Load` (linear): the stored documents become the in-memory facts verbatim -/
def St.lLoad (kindStore : List (String × J)) : Except LErr St :=
  let rec go (docs : List (String × J)) (acc : List (String × Obj)) : Except LErr (List (String × Obj)) :=
    match docs with
    | [] => .ok acc
    | (id, .obj x) :: rest => go rest (acc ++ [(id, x)])
    | _ => .error "unmarshal"
  match go kindStore [] with
  | .ok fs => .ok { kind := .linear, store := kindStore, facts := fs }
  | .error e => .error e

/-! ## kind-dispatching wrappers (the `State` interface) -/

def St.add (s : St) (given : String) (x : Obj) (now : Int) : St × Except LErr String :=
  match s.kind with | .indexed => s.iAdd given x now | .linear => s.lAdd given x now
def St.rem (s : St) (id : String) (now : Int) : St × Except LErr Bool :=
  match s.kind with | .indexed => St.irem s.fuel s id now | .linear => St.lrem s.fuel s id now
def St.get (s : St) (id : String) (now : Int) : St × Except LErr Obj :=
  match s.kind with | .indexed => s.iGet id now | .linear => s.lGet id now
def St.search (s : St) (p : Obj) (now : Int) : St × Except LErr (List (String × Obj × List Bs)) :=
  match s.kind with | .indexed => St.isearch s.fuel s p now | .linear => St.lsearch s.fuel s p now
def St.findRules (s : St) (ev : Obj) (now : Int) : St × Except LErr (List (String × Obj)) :=
  match s.kind with | .indexed => s.iFindRules ev now | .linear => s.lFindRules ev now
def St.clear (s : St) : St := { kind := s.kind, fresh := s.fresh }
def St.count (s : St) : Nat := s.facts.length
def St.reload (s : St) (now : Int) : Except LErr St :=
  match s.kind with
  | .indexed => (St.iLoad s.store now).map (fun t => { t with fresh := s.fresh })
  | .linear => (St.lLoad s.store).map (fun t => { t with fresh := s.fresh })

import RulioModel.Gen.C12

/-! # C12 — instantiation of the interleaving semantics with the lock-discipline table regenerated from
`core/state_indexed.go`, `core/state_linear.go`, `core/events.go` (definitions only; theorems in `Props/C12.lean`) -/

namespace Conc.C12
open Conc

/-- The breaches of the lock discipline that the unchanged tree is known to contain, enumerated one by one
(implementation, method performing the access, access, lock mode at that point, reached through `expire`).
Two families (a third, the storage calls, and a fourth, `cachedRules` read and written with no lock in `Add`, `rem`, `FindCachedRules`, was repaired in
/repo by giving the cache its own mutex: the regenerated table now shows those accesses inside `lock2 "cacheMutex"`
sections of the helper methods, and they are no longer excepted — if they come back they are new breaches):
* (repaired in /repo, no longer excepted: the storage call of `Add` (both), of linear `Rem`/`Clear`/`Delete` used to be
  outside the exclusive section that updates memory; see `memory_store_agree`)
* `expire → rem` mutates memory, the indexes, the cache and storage under the *shared* lock (from `Search`,
  `FindRules`) or under no lock at all (from `Get`, after it released its shared lock);
* `FindRules.Do` writes `rule.Id` on the `*Rule` objects shared through `cachedRules`. -/
def knownExceptions : List Viol := [
  -- expire → rem under the shared lock (Search, FindRules)
  ⟨"indexed", "unindexRule", .wr .ruleIndex, .r, true⟩,
  ⟨"indexed", "rem", .wr .mem, .r, true⟩,
  ⟨"indexed", "rem", .wr .factIndex, .r, true⟩,
  ⟨"indexed", "rem", .store "Remove", .r, true⟩,
  ⟨"linear", "rem[lock=false]", .store "Remove", .r, true⟩,
  ⟨"linear", "rem[lock=false]", .wr .mem, .r, true⟩,
  -- expire → rem with no lock at all (Get calls expire after releasing its shared lock)
  ⟨"indexed", "rem", .rd .mem, .none, true⟩,
  ⟨"indexed", "unindexRule", .wr .ruleIndex, .none, true⟩,
  ⟨"indexed", "rem", .wr .mem, .none, true⟩,
  ⟨"indexed", "rem", .wr .factIndex, .none, true⟩,
  ⟨"indexed", "rem", .store "Remove", .none, true⟩,
  ⟨"indexed", "SearchForIDs", .rd .mem, .none, true⟩,
  ⟨"indexed", "SearchForIDs", .rd .factIndex, .none, true⟩,
  ⟨"indexed", "search", .rd .mem, .none, true⟩,
  ⟨"linear", "rem[lock=false]", .store "Remove", .none, true⟩,
  ⟨"linear", "rem[lock=false]", .rd .mem, .none, true⟩,
  ⟨"linear", "rem[lock=false]", .wr .mem, .none, true⟩,
  ⟨"linear", "search[lock=false]", .rd .mem, .none, true⟩,
  -- the cached *Rule objects
  ⟨"events", "FindRules.Do", .wr .ruleObj, .none, false⟩
]

/-- call edges that a history in which nothing expires never takes -/
def noExpire : List (String × String) :=
  [("get[getLock=true]", "expire"), ("get[getLock=false]", "expire"), ("search", "expire"),
   ("search[lock=true]", "expire"), ("search[lock=false]", "expire"), ("doFindRules", "expire")]

/-- … and in which no fact names another in `deleteWith` (the cascade loop body is never entered) -/
def noCascade : List (String × String) :=
  [("deleteDependencies", "rem"), ("deleteDependencies", "rem[lock=false]")]

def fuel : Nat := 12

/-- the step shape of request `m` of implementation `impl` in histories of the fragment -/
def row (impl m : String) : List Acc := flatten Gen.C12.table impl (noExpire ++ noCascade) fuel m

/-- requests of the fragment: everything of the State interface except rule dispatch through the cache -/
def fragOps : List String := ["Add", "Rem", "Get", "Search", "FindRules", "Count", "Clear"]

/-- in the fragment the rule cache is never filled, so its (unlocked) deletions are no-ops -/
def fragDrop : List Field := [.cachedRules]

def fragOK (impl : String) : Bool := fragOps.all (fun m => wfAcc fragDrop none (row impl m))

/-- number of sections of a flattened row -/
def sections (l : List Acc) : Nat := (l.filter (fun a => match a with | .lock _ => true | _ => false)).length

/-! ## Witness programs for the negative theorems (all built from the regenerated table) -/

def memC : Cell := 0
def fidxC : Cell := 1
def ridxC : Cell := 2
def cacheC : Cell := 3
def loadedC : Cell := 4
def ruleC : Cell := 5
def storeC : Cell := 10

/-- one fact id; writes store the constant `v` in memory and in storage -/
def interp (v : Val) : Interp where
  cell := fun f => match f with
    | .mem => memC | .factIndex => fidxC | .ruleIndex => ridxC | .cachedRules => cacheC | .loaded => loadedC | .ruleObj => ruleC
  val := fun _ _ => v
  scell := fun _ => storeC
  sval := fun _ _ => v

/-- the full shape (expiry taken, cascade cut after one level) -/
def rowFull (impl m : String) : List Acc :=
  flatten Gen.C12.table impl [("rem", "deleteDependencies"), ("rem[lock=false]", "deleteDependencies"), ("rem[lock=true]", "deleteDependencies")] fuel m

def prog2 (a b : List Step) : Tid → List Step := fun t => match t with | 0 => a | 1 => b | _ => []

/-- how often thread `t` must be scheduled until `p` holds -/
def stepsUntil (t : Tid) (p : Config → Bool) : Nat → Config → Nat
  | 0, _ => 0
  | f + 1, C => if p C then 0 else stepsUntil t p f (step C t) + 1

def nextIs (t : Tid) (q : Step → Bool) (C : Config) : Bool :=
  match (C.th t).todo with | s :: _ => q s | [] => false

def done (t : Tid) (C : Config) : Bool := (C.th t).todo.isEmpty

def isWrTo (c : Cell) : Step → Bool | .wr d _ => c == d | _ => false
def isAccTo (c : Cell) : Step → Bool | .wr d _ => c == d | .rd d => c == d | _ => false
def isUwr : Step → Bool | .uwr _ _ => true | _ => false
def isAcq : Step → Bool | .acq _ => true | _ => false

/-- schedule thread `t` until `p` -/
def runTo (t : Tid) (p : Config → Bool) (C : Config) : List Tid := List.replicate (stepsUntil t p 64 C) t

def m0 : Cell → Val := fun _ => 0

/-- two concurrent Adds of one id with values 1 and 2 -/
def addAdd (impl : String) : Config :=
  init (prog2 ((rowFull impl "Add").map (inst (interp 1) [])) ((rowFull impl "Add").map (inst (interp 2) []))) m0

/-- indexed: client 0 updates memory, is preempted before its storage call; client 1 runs completely; client 0 finishes -/
def addAddSchedIndexed : List Tid :=
  let C := addAdd "indexed"
  let s1 := runTo 0 (nextIs 0 isUwr) C
  let C1 := exec C s1
  let s2 := runTo 1 (done 1) C1
  let C2 := exec C1 s2
  s1 ++ s2 ++ runTo 0 (done 0) C2

/-- linear: client 0 performs its storage call, is preempted before taking the lock; client 1 runs completely; client 0 finishes -/
def addAddSchedLinear : List Tid :=
  let C := addAdd "linear"
  let s0 := runTo 0 (nextIs 0 isUwr) C
  let C0 := exec C (s0 ++ [0])
  let s2 := runTo 1 (done 1) C0
  let C2 := exec C0 s2
  s0 ++ [0] ++ s2 ++ runTo 0 (done 0) C2

/-- Add ∥ FindCachedRules -/
def addFind (impl : String) : Config :=
  init (prog2 ((rowFull impl "Add").map (inst (interp 1) [])) ((row impl "FindCachedRules").map (inst (interp 2) []))) m0

def addFindSched (impl : String) : List Tid :=
  let C := addFind impl
  let s0 := runTo 0 (nextIs 0 (isAccTo cacheC)) C
  let C0 := exec C s0
  s0 ++ runTo 1 (nextIs 1 (isAccTo cacheC)) C0

/-- two searches over an expired fact -/
def searchSearch (impl : String) : Config :=
  init (prog2 ((rowFull impl "Search").map (inst (interp 0) [])) ((rowFull impl "Search").map (inst (interp 0) []))) m0

def searchSearchSched (impl : String) : List Tid :=
  let C := searchSearch impl
  let s0 := runTo 0 (nextIs 0 (isWrTo memC)) C
  let C0 := exec C s0
  s0 ++ runTo 1 (nextIs 1 (isWrTo memC)) C0

/-- two event dispatches that found the same cached rule -/
def doDo : Config :=
  init (prog2 ((rowFull "events" "FindRules.Do").map (inst (interp 1) [])) ((rowFull "events" "FindRules.Do").map (inst (interp 2) []))) m0

/-! ## A small well-locked program for the non-vacuity examples -/

/-- two writers (each reads the cell, then stores what it read + 1) and a reader -/
def incr : List Step := [.acq true, .rd 0, .wr 0 (fun l => l.getLast?.getD 0 + 1), .rel]
def reader : List Step := [.acq false, .rd 0, .rel]
def twoWritersOneReader : Tid → List Step := fun t => match t with | 0 => incr | 1 => incr | 2 => reader | _ => []


end Conc.C12

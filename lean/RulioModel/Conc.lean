/-! # Generic interleaving semantics (C11/C12): threads × atomic steps × one reader/writer lock

Any number of threads (`Tid = Nat`, all but finitely many with an empty program). A thread is a list of
atomic steps; a schedule is a list of thread ids; scheduling a thread whose next step is not enabled (a lock
acquisition that has to wait, a finished thread) leaves the configuration unchanged.

Guarded memory `mem` is what the lock protects. `aux` is unguarded memory that is only ever written
(storage behind the write-through cache): it never influences a thread, so it does not matter for atomicity
of the guarded part, but it is what "memory agrees with storage" talks about.

The second half of the file is the vocabulary of the table that `harness/cmd/extract_c12` regenerates from
the Go source (`Gen/C12.lean`) and the discipline checker that is evaluated over it. -/

namespace Conc

abbrev Tid := Nat
abbrev Cell := Nat
abbrev Val := Int

/-- atomic steps. A thread's observations are the values it has read so far (`log`); a write stores a
function of those observations. -/
inductive Step where
  | acq (w : Bool)                          -- acquire the lock: `w = true` exclusive, `false` shared
  | rel                                     -- release what this thread holds
  | rd (c : Cell)                           -- log := log ++ [mem c]
  | wr (c : Cell) (f : List Val → Val)      -- mem c := f log
  | uwr (c : Cell) (f : List Val → Val)     -- aux c := f log   (unguarded, write-only: storage)
  | io                                      -- no effect on the modelled memory

structure Thread where
  todo : List Step
  log : List Val := []
  mode : Option Bool := none                -- `some w`: holds the lock (exclusively iff `w`)

structure Config where
  mem : Cell → Val
  aux : Cell → Val
  writer : Option Tid
  readers : List Tid
  th : Tid → Thread

def upd {α} (f : Nat → α) (k : Nat) (v : α) : Nat → α := fun x => if x = k then v else f x

def init (P : Tid → List Step) (m0 : Cell → Val) : Config :=
  { mem := m0, aux := m0, writer := none, readers := [], th := fun t => { todo := P t } }

/-- usual admission rule of a reader/writer lock -/
def canAcq (C : Config) (w : Bool) : Bool :=
  C.writer.isNone && (!w || C.readers.isEmpty)

/-- one scheduling decision: thread `t` executes its next step if it can -/
def step (C : Config) (t : Tid) : Config :=
  let T := C.th t
  match T.todo with
  | [] => C
  | s :: rest =>
    match s with
    | .acq w =>
      if T.mode.isNone && canAcq C w then
        let T' : Thread := { T with todo := rest, mode := some w }
        if w then { C with writer := some t, th := upd C.th t T' }
        else { C with readers := t :: C.readers, th := upd C.th t T' }
      else C
    | .rel =>
      match T.mode with
      | some true => { C with writer := none, th := upd C.th t { T with todo := rest, mode := none } }
      | some false => { C with readers := C.readers.erase t, th := upd C.th t { T with todo := rest, mode := none } }
      | none => C
    | .rd c => { C with th := upd C.th t { T with todo := rest, log := T.log ++ [C.mem c] } }
    | .wr c f => { C with mem := upd C.mem c (f T.log), th := upd C.th t { T with todo := rest } }
    | .uwr c f => { C with aux := upd C.aux c (f T.log), th := upd C.th t { T with todo := rest } }
    | .io => { C with th := upd C.th t { T with todo := rest } }

def exec (C : Config) (σ : List Tid) : Config := σ.foldl step C

/-! ## Lock discipline of a thread program -/

/-- `wf m p`: starting in lock mode `m`, every `rd`/`wr` of program `p` is inside a section, every `wr` inside
an exclusive one, sections are not nested and are closed. -/
def wf : Option Bool → List Step → Bool
  | none, [] => true
  | some _, [] => false
  | none, .acq w :: r => wf (some w) r
  | some _, .acq _ :: _ => false
  | none, .rel :: _ => false
  | some _, .rel :: r => wf none r
  | none, .rd _ :: _ => false
  | some w, .rd _ :: r => wf (some w) r
  | some true, .wr _ _ :: r => wf (some true) r
  | _, .wr _ _ :: _ => false
  | m, .uwr _ _ :: r => wf m r
  | m, .io :: r => wf m r

def WellLocked (P : Tid → List Step) : Prop := ∀ t, wf none (P t) = true

/-! ## Sequential ("atomic section") semantics

`finish` runs the rest of an open section of one thread without interleaving, up to and including its `rel`. -/

structure Loc3 where
  mem : Cell → Val
  aux : Cell → Val
  log : List Val
  todo : List Step

def finish (mem aux : Cell → Val) (log : List Val) : List Step → Loc3
  | [] => { mem, aux, log, todo := [] }
  | .rel :: r => { mem, aux, log, todo := r }
  | .rd c :: r => finish mem aux (log ++ [mem c]) r
  | .wr c f :: r => finish (upd mem c (f log)) aux log r
  | .uwr c f :: r => finish mem (upd aux c (f log)) log r
  | .io :: r => finish mem aux log r
  | .acq w :: r => { mem, aux, log, todo := .acq w :: r }

/-- one step of the sequential semantics: a thread outside a section runs its next unguarded step, or a
whole section (acquire … release) at once. Threads inside a section do not exist in this semantics. -/
def stepA (C : Config) (t : Tid) : Config :=
  let T := C.th t
  match T.mode, T.todo with
  | none, .acq w :: rest =>
    if canAcq C w then
      let r := finish C.mem C.aux T.log rest
      { C with mem := r.mem, aux := r.aux, th := upd C.th t { todo := r.todo, log := r.log, mode := none } }
    else C
  | none, .uwr c f :: rest => { C with aux := upd C.aux c (f T.log), th := upd C.th t { T with todo := rest } }
  | none, .io :: rest => { C with th := upd C.th t { T with todo := rest } }
  | _, _ => C

def execA (C : Config) (σ : List Tid) : Config := σ.foldl stepA C

/-- does scheduling `t` in `C` start a section or run a step outside any section? (these are the
linearisation points; steps inside a section are not) -/
def isLin (C : Config) (t : Tid) : Bool :=
  let T := C.th t
  match T.mode, T.todo with
  | none, .acq w :: _ => canAcq C w
  | none, .uwr _ _ :: _ => true
  | none, .io :: _ => true
  | _, _ => false

/-- the order of lock acquisitions (and of steps outside sections) in a schedule -/
def linOrder : Config → List Tid → List Tid
  | _, [] => []
  | C, t :: σ => if isLin C t then t :: linOrder (step C t) σ else linOrder (step C t) σ

/-- no thread is inside a section -/
def Quiescent (C : Config) : Prop := ∀ t, (C.th t).mode = none

/-- `A` is `F` with every open section run to completion -/
structure Completes (F A : Config) : Prop where
  mem : A.mem = match F.writer with
    | some t => (finish F.mem F.aux (F.th t).log (F.th t).todo).mem
    | none => F.mem
  th : ∀ t, match (F.th t).mode with
    | none => A.th t = F.th t
    | some _ =>
      let r := finish F.mem F.aux (F.th t).log (F.th t).todo
      (A.th t).todo = r.todo ∧ (A.th t).log = r.log ∧ (A.th t).mode = none
  idle : A.writer = none ∧ A.readers = []

/-! ## Memory and storage of an id that has a single writer

`pendM c p v` / `pendS c p v`: the value guarded cell `c` / storage cell `c` will hold once program `p` has run, if it
holds `v` now and nobody else writes it (writes must not depend on what was read: `constWr`). -/

def pendM (c : Cell) : List Step → Val → Val
  | [], v => v
  | .wr d f :: r, v => pendM c r (if d = c then f [] else v)
  | _ :: r, v => pendM c r v

def pendS (c : Cell) : List Step → Val → Val
  | [], v => v
  | .uwr d f :: r, v => pendS c r (if d = c then f [] else v)
  | _ :: r, v => pendS c r v

/-- the program never writes guarded cell `cm` nor storage cell `cs` -/
def noWr (cm cs : Cell) : List Step → Bool
  | [] => true
  | .wr d _ :: r => d != cm && noWr cm cs r
  | .uwr d _ :: r => d != cs && noWr cm cs r
  | _ :: r => noWr cm cs r

/-- the program's writes to `cm` / `cs` store constants -/
def constWr (cm cs : Cell) : List Step → Prop
  | [] => True
  | .wr d f :: r => (d = cm → ∀ l, f l = f []) ∧ constWr cm cs r
  | .uwr d f :: r => (d = cs → ∀ l, f l = f []) ∧ constWr cm cs r
  | _ :: r => constWr cm cs r

/-! ## Races in the model: two enabled steps of different threads on one cell, at least one a write -/

def nextAccess (C : Config) (t : Tid) : Option (Cell × Bool) :=
  match (C.th t).todo with
  | .rd c :: _ => some (c, false)
  | .wr c _ :: _ => some (c, true)
  | _ => none

def raceAt (C : Config) (t u : Tid) : Bool :=
  t != u &&
  match nextAccess C t, nextAccess C u with
  | some (c, w), some (d, v) => c == d && (w || v)
  | _, _ => false

/-! ## The regenerated lock-discipline table -/

inductive Field where
  | mem          -- IdToFact (indexed) / Facts (linear)
  | factIndex | ruleIndex | cachedRules | loaded
  | ruleObj      -- the *Rule values held by cachedRules (events.go)
deriving DecidableEq, Repr

inductive Acc where
  | lock (w : Bool) | unlock (w : Bool)
  | rd (f : Field) | wr (f : Field)
  | call (m : String) | store (op : String) | hook (h : String)
  | lock2 (m : String) | unlock2 (m : String)   -- a dedicated mutex field of the state (not the RW lock)
deriving DecidableEq, Repr

structure Method where
  impl : String
  name : String
  exported : Bool
  body : List Acc
deriving Repr

abbrev Table := List Method

def Table.find (tb : Table) (impl name : String) : Option Method :=
  List.find? (fun m => m.impl == impl && m.name == name) tb

inductive LMode where | none | r | w
deriving DecidableEq, Repr

/-- a breach of the discipline: `acc` performed by `method` while the lock is held in `mode`;
`viaExpire` = the call chain from the entry point passes through `expire` -/
structure Viol where
  impl : String
  method : String
  acc : Acc
  mode : LMode
  viaExpire : Bool
deriving DecidableEq, Repr

structure Scan where
  mode : LMode := .none
  viols : List Viol := []
  seen : List (String × LMode × Bool × List String) := []
  aux : List String := []    -- dedicated mutexes currently held
  ok : Bool := true          -- structure understood: balanced, no re-lock, no unknown callee, fuel sufficed

def Scan.addViol (s : Scan) (v : Viol) : Scan := if s.viols.contains v then s else { s with viols := s.viols ++ [v] }

def needs (a : Acc) : Option LMode :=
  match a with
  | .rd _ => some .r            -- any section
  | .wr _ => some .w            -- exclusive section
  | .store "Add" | .store "Remove" | .store "Clear" | .store "Delete" => some .w
  | _ => none

def satisfied (need have_ : LMode) : Bool :=
  match need, have_ with
  | .none, _ => true
  | .r, .none => false
  | .r, _ => true
  | .w, .w => true
  | .w, _ => false

/-- the rule cache may be given a mutex of its own: its accesses are then guarded whenever any dedicated mutex is
held (the cache is not part of the memory that the RW-lock theorem talks about) -/
def auxGuards (held : List String) (a : Acc) : Bool :=
  !held.isEmpty && (a == .rd .cachedRules || a == .wr .cachedRules)

/-- walks method `m` (and, through `call`, what it reaches) with the lock held in `s.mode` -/
def scanM (tb : Table) (impl : String) : Nat → String → Bool → Scan → Scan
  | 0, _, _, s => { s with ok := false }
  | fuel + 1, m, via, s =>
    match tb.find impl m with
    | none => { s with ok := false }
    | some md =>
      let entry := s.mode
      let via := via || m == "expire"
      let auxEntry := s.aux
      let s := { s with seen := (m, entry, via, s.aux) :: s.seen }
      let s := md.body.foldl (fun (s : Scan) a =>
        match a with
        | .lock w => if s.mode == .none then { s with mode := if w then .w else .r } else { s with ok := false }
        | .unlock w => if s.mode == (if w then LMode.w else LMode.r) then { s with mode := .none } else { s with ok := false }
        | .lock2 n => if s.aux.contains n then { s with ok := false } else { s with aux := n :: s.aux }
        | .unlock2 n => if s.aux.contains n then { s with aux := s.aux.erase n } else { s with ok := false }
        | .call m' =>
          let via' := via || m' == "expire"
          if s.seen.contains (m', s.mode, via', s.aux) then s else
          let before := s.mode
          let s' := scanM tb impl fuel m' via s
          { s' with mode := before }
        | a =>
          match needs a with
          | some need => if satisfied need s.mode || auxGuards s.aux a then s else s.addViol { impl := impl, method := m, acc := a, mode := s.mode, viaExpire := via }
          | none => s) s
      if s.mode == entry && s.aux == auxEntry then s else { s with ok := false }

def scanImpl (tb : Table) (impl : String) : Scan :=
  (tb.filter (fun m => m.impl == impl && m.exported)).foldl
    (fun s m => scanM tb impl (4 * tb.length + 4) m.name false { s with mode := .none, aux := [] }) {}

def impls (tb : Table) : List String := (tb.map (·.impl)).eraseDups

def violations (tb : Table) : List Viol := (impls tb).flatMap (fun i => (scanImpl tb i).viols)

def structureOK (tb : Table) : Bool := (impls tb).all (fun i => (scanImpl tb i).ok)

/-- every breach of the discipline found in the table is one of the listed exceptions -/
def disciplineOK (tb : Table) (exceptions : List Viol) : Bool :=
  structureOK tb && (violations tb).all (fun v => exceptions.contains v)

/-! ## From table rows to step programs

`flatten` inlines calls (`skip` lists caller/callee edges that a class of histories never takes, e.g.
`expire → rem` when nothing expires). `inst` turns accesses into steps on cells chosen by the caller. -/

def flatten (tb : Table) (impl : String) (skip : List (String × String)) : Nat → String → List Acc
  | 0, _ => [.call "…"]          -- fuel exhausted: left as an (unwell-formed) residual call
  | fuel + 1, m =>
    match tb.find impl m with
    | none => [.call m]
    | some md => md.body.flatMap (fun a =>
        match a with
        | .call m' => if skip.contains (m, m') then [] else flatten tb impl skip fuel m'
        | a => [a])

/-- the same discipline on a flattened row (no residual calls allowed) -/
def wfAcc (drop : List Field) : Option Bool → List Acc → Bool
  | none, [] => true
  | some _, [] => false
  | none, .lock w :: r => wfAcc drop (some w) r
  | some _, .lock _ :: _ => false
  | none, .unlock _ :: _ => false
  | some w, .unlock w' :: r => w == w' && wfAcc drop none r
  | m, .rd f :: r => (drop.contains f || m.isSome) && wfAcc drop m r
  | m, .wr f :: r => (drop.contains f || m == some true) && wfAcc drop m r
  | _, .call _ :: _ => false
  | m, .store _ :: r => wfAcc drop m r
  | m, .hook _ :: r => wfAcc drop m r
  | m, .lock2 _ :: r => wfAcc drop m r
  | m, .unlock2 _ :: r => wfAcc drop m r

/-- interpretation of a flattened row: `cell`/`val` say which guarded cell a field access touches and what a
write stores; `scell`/`sval` the same for storage calls; accesses to fields in `drop` are no-ops -/
structure Interp where
  cell : Field → Cell
  val : Field → List Val → Val
  scell : String → Cell
  sval : String → List Val → Val

def inst (I : Interp) (drop : List Field) : Acc → Step
  | .lock w => .acq w
  | .unlock _ => .rel
  | .rd f => if drop.contains f then .io else .rd (I.cell f)
  | .wr f => if drop.contains f then .io else .wr (I.cell f) (I.val f)
  | .call _ => .io
  | .store op => .uwr (I.scell op) (I.sval op)
  | .hook _ => .io
  | .lock2 _ => .io
  | .unlock2 _ => .io

end Conc

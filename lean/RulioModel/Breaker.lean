import RulioModel.Gen.C20
import RulioModel.BreakerGhost

/-! # C20 — executable model of `core/breaker.go` (OutboundBreaker, SimpleBreaker, Throttle) and of the
capacity gate of `core/location.go`.

Every comparison, offset, guard and every assignment of `b.updated` comes from `RulioModel/Gen/C20.lean`, which is
regenerated from the Go source on every run of the check: a flipped `<`, a removed clamp, a moved lock, a `slide`
that sets `updated := now` again changes the definitions below and the theorems of `Props/C20.lean` have to be
re-proved against them.  (The file compiles against the definitions extracted from the unrepaired source as well —
the model then reproduces the defects and the recovery / interval / pending theorems fail.)

Time is nanoseconds on a monotone clock (`Nat`).  Core Lean only (the driver links this file). -/

open Gen.C20

/-! ## Go slices as lists -/

/-- Go `copy(cs[d:], cs[s:])` inside one slice (memmove semantics): `cs[s+j]` lands at `cs[d+j]` for every `j`
with both indices in range; the other cells keep their value. -/
def goCopySelf (cs : List Nat) (d s : Nat) : List Nat :=
  (List.range cs.length).map fun i =>
    if d ≤ i ∧ (i - d) + s < cs.length then cs.getD ((i - d) + s) 0 else cs.getD i 0

/-- `for i := lo; cond i; i++ { cs[i] = 0 }` for a condition that is downward closed from `lo` (checked by
`zeroCond_shape`): every index `i ≥ lo` with `cond i` is zeroed. -/
def goZeroWhile (cs : List Nat) (lo : Nat) (cond : Nat → Bool) : List Nat :=
  (List.range cs.length).map fun i => if lo ≤ i ∧ cond i then 0 else cs.getD i 0

/-- `cs[i]++` -/
def goIncrAt (cs : List Nat) (i : Nat) : List Nat :=
  (List.range cs.length).map fun j => if j = i then cs.getD j 0 + 1 else cs.getD j 0

/-! ## OutboundBreaker -/

/-- the fields of `OutboundBreaker` that matter (`disabled` is never read by `Do`) -/
structure OB where
  limit : Nat
  interval : Nat        -- nanoseconds
  ticks : Nat           -- `b.ticks`
  counts : List Nat     -- `b.counts`
  updated : Nat         -- `b.updated`, nanoseconds
  deriving Repr, DecidableEq

namespace OB

/-- the state `init` leaves behind; `updated` is the zero time, which precedes every clock reading -/
def init (limit interval : Nat) : OB :=
  { limit, interval, ticks := initTicks, counts := List.replicate initTicks 0, updated := 0 }

/-- `NewOutboundBreaker(limit, interval)` with its error return (`limit` is an `int64`, `interval` a `time.Duration`:
both can be zero or negative) -/
def initE (limit interval : Int) : Option OB :=
  if initRejects limit interval then none else some (init limit.toNat interval.toNat)

/-- the same breaker with `updated` set (what the white-box harness does, and `Reset`) -/
def initAt (limit interval t0 : Nat) : OB := { init limit interval with updated := t0 }

/-- `resolution` of `slide` -/
def res (b : OB) : Nat := resolution b.interval b.ticks

/-- the tick count of `slide` at time `now`, before the clamp -/
def rawAt (b : OB) (now : Nat) : Nat := rawTicks (elapsed now b.updated) b.res

/-- the number of ticks `slide` shifts by at time `now` -/
def shiftBy (b : OB) (now : Nat) : Nat := clampTicks b.counts.length (b.rawAt now)

/-- `slide(now)` (assumes `b.res ≠ 0`: see `callE`) -/
def slide (b : OB) (now : Nat) : OB :=
  let k := b.shiftBy now
  let cs := goCopySelf b.counts (copyDst k) (copySrc k)
  let cs := goZeroWhile cs (zeroLo k) (fun i => zeroCond i k)
  { b with counts := cs, updated := slideUpdated b.updated now b.counts.length (b.rawAt now) b.res }

def total (b : OB) : Nat := b.counts.sum

/-- the locked section of `Do` at clock reading `now`: slide, sum, test, increment (and what `Do` does to `updated`
on admission).  Returns the new state and `closed`. -/
def call (b : OB) (now : Nat) : OB × Bool :=
  let b := b.slide now
  let closed := admitTest b.total b.limit
  (if closed then { b with counts := goIncrAt b.counts incrIndex, updated := admitUpdated b.updated now } else b, closed)

/-- the locked section of `Status()` / `Summary()` at clock reading `now`: one `slide` (`statusIsSlide`); the second
component is the `Closed` that `Status` reports -/
def status (b : OB) (now : Nat) : OB × Bool :=
  let b := b.slide now
  (b, admitTest b.total b.limit)

inductive Err where
  | divByZero      -- `ns / int64(resolution)` with `resolution = 0` (interval < ticks nanoseconds)
  | indexRange     -- `b.counts[incrIndex]` out of range
  deriving Repr, DecidableEq

/-- `Do` with the run-time panics of the Go code made explicit -/
def callE (b : OB) (now : Nat) : Except Err (OB × Bool) :=
  if b.ticks = 0 ∨ b.res = 0 then .error .divByZero
  else
    let r := b.call now
    if r.2 ∧ ¬ incrIndex < b.counts.length then .error .indexRange else .ok r

/-- a sequence of calls; result: final state and the admission decisions -/
def run (b : OB) : List Nat → OB × List Bool
  | [] => (b, [])
  | t :: ts =>
    let r := b.call t
    let r' := run r.1 ts
    (r'.1, r.2 :: r'.2)

/-- one arrival: a `Do` call (result: admitted?) or a `Status()`/`Summary()` poll (never an admission) -/
def stepEv (b : OB) : BEv → OB × Bool
  | .call t => b.call t
  | .status t => ((b.status t).1, false)

/-- the times of the admitted calls of a sequence of calls and polls, newest first (the order of the ghost model) -/
def admittedEv (b : OB) (es : List BEv) : List Nat :=
  go b es []
where
  go (b : OB) : List BEv → List Nat → List Nat
    | [], acc => acc
    | e :: es, acc =>
      let r := b.stepEv e
      go r.1 es (if r.2 then e.time :: acc else acc)

/-- the state after a sequence of calls and polls -/
def afterEv (b : OB) : List BEv → OB
  | [] => b
  | e :: es => afterEv (b.stepEv e).1 es

/-- the times of the admitted calls of a sequence of calls, newest first -/
def admitted (b : OB) (ts : List Nat) : List Nat := b.admittedEv (ts.map .call)

/-- the state after a sequence of calls -/
def after (b : OB) (ts : List Nat) : OB := b.afterEv (ts.map .call)

end OB

/-! ## Concurrent callers of `Do`

A thread is a number of remaining `Do` calls; a schedule is a list of `(thread id, clock reading)`; a step lets
the thread run its next *atomic section* of `Do` (as cut by `doSegments`) with that clock reading.  The clock
is global and monotone, so the readings along a schedule are non-decreasing. -/

/-- per-thread registers of a `Do` in flight -/
structure DoLocal where
  now : Nat := 0
  total : Nat := 0
  closed : Bool := false
  deriving Repr

/-- one step of `Do` on the shared breaker and the thread's registers; `log` collects (time, closed) at the test -/
def doStep (clk : Nat) : DoStep → OB × DoLocal × List (Nat × Bool) → OB × DoLocal × List (Nat × Bool)
  | .readClock, (b, l, log) => (b, { l with now := clk }, log)
  | .slide, (b, l, log) => (b.slide l.now, l, log)
  | .sum, (b, l, log) => (b, { l with total := b.total }, log)
  | .test, (b, l, log) => (b, { l with closed := admitTest l.total b.limit }, (l.now, admitTest l.total b.limit) :: log)
  | .incr, (b, l, log) => (if l.closed then { b with counts := goIncrAt b.counts incrIndex, updated := admitUpdated b.updated l.now } else b, l, log)
  | .runF, s => s

/-- a thread: the sections still to run of the current `Do`, registers, number of further `Do` calls -/
structure DoThread where
  todo : List (List DoStep) := []
  regs : DoLocal := {}
  more : Nat := 0
  deriving Repr

structure DoSys where
  b : OB
  threads : List DoThread
  log : List (Nat × Bool) := []   -- newest first

/-- a thread between two `Do` calls starts the next one, if it has any left -/
def DoThread.next (th : DoThread) : DoThread :=
  match th.todo, th.more with
  | [], n + 1 => { th with todo := doSegments, more := n }
  | _, _ => th

/-- one atomic section -/
def runSeg (clk : Nat) (seg : List DoStep) (st : OB × DoLocal × List (Nat × Bool)) : OB × DoLocal × List (Nat × Bool) :=
  seg.foldl (fun acc stp => doStep clk stp acc) st

/-- thread `tid` runs its next atomic section at clock reading `clk` (a finished thread does nothing) -/
def DoSys.step (s : DoSys) (tid clk : Nat) : DoSys :=
  match s.threads[tid]? with
  | none => s
  | some th =>
    match th.next.todo with
    | [] => s
    | seg :: rest =>
      let r := runSeg clk seg (s.b, th.regs, s.log)
      { b := r.1, threads := s.threads.set tid { th.next with todo := rest, regs := r.2.1 }, log := r.2.2 }

def DoSys.exec (s : DoSys) : List (Nat × Nat) → DoSys
  | [] => s
  | (tid, clk) :: sch => (s.step tid clk).exec sch

/-- `n` threads, thread `i` about to make `calls i` calls -/
def DoSys.start (b : OB) (calls : List Nat) : DoSys :=
  { b, threads := calls.map fun n => { more := n } }

/-- admitted times recorded in the log, newest first -/
def DoSys.admitted (s : DoSys) : List Nat := (s.log.filter (·.2)).map (·.1)

/-! ## SimpleBreaker / ComboBreaker / OutboundBreaker as seen by `Throttle.Submit` -/

/-- the status a breaker has when `Do` is called -/
inductive BKind where
  | outbound (closed : Bool)
  | simple (closed disabled : Bool)
  | comboDisabled
  | combo (allAttempted : Bool)
  deriving Repr, DecidableEq

/-- `Do(f)` with `f ≠ nil`: (f was run, reported `attempted`) -/
def BKind.doF : BKind → Bool × Bool
  | .outbound closed => (outboundRuns closed true, outboundAttempted closed)
  | .simple closed disabled => (simpleRuns closed disabled, simpleAttempted closed disabled)
  | .comboDisabled => (true, true)
  | .combo all => (all, all)

/-- a breaker whose `Do` reports `attempted` exactly when it ran the function -/
def BKind.faithful (k : BKind) : Bool := k.doF.1 == k.doF.2

/-- the retry loop of `Submit`: `for i := 0; i < attempts; i++ { worked, _ = t.Do(f); if worked { break }; sleep }`.
`st` = status of the breaker at each successive attempt.  Result: (number of times f ran, worked). -/
def submitLoop (attempts : Nat) (st : List BKind) : Nat × Bool :=
  go 0 st attempts
where
  go (i : Nat) : List BKind → Nat → Nat × Bool
    | _, 0 => (0, false)
    | [], _ => (0, false)
    | k :: st, fuel + 1 =>
      if loopCond i attempts then
        let r := k.doF
        if r.2 && loopBreaksOnWorked then ((if r.1 then 1 else 0), true)
        else
          let r' := go (i + 1) st fuel
          ((if r.1 then 1 else 0) + r'.1, r'.2)
      else (0, false)

/-! ## Throttle bookkeeping as a transition system over any number of submitters -/

inductive SPc where
  | idle        -- `Submit` not yet entered
  | waiting     -- between the increment and the decrement (in the retry loop)
  | overflow    -- returned `ThrottleOverflow`
  | done        -- returned after the loop
  deriving Repr, DecidableEq

structure Thr where
  pendingLimit : Nat
  disabled : Bool
  pending : Nat
  pcs : List SPc
  deriving Repr, DecidableEq

namespace Thr

def start (pendingLimit : Nat) (disabled : Bool) (n : Nat) : Thr :=
  { pendingLimit, disabled, pending := 0, pcs := List.replicate n .idle }

/-- the first critical section of `Submit` -/
def enter (t : Thr) (tid : Nat) : Thr :=
  let too := tooMany t.pendingLimit t.pending
  let p := if incrGuard too t.disabled then t.pending + 1 else t.pending
  { t with pending := p, pcs := t.pcs.set tid (if overflowReturns too then .overflow else .waiting) }

/-- the second critical section of `Submit` -/
def exit (t : Thr) (tid : Nat) : Thr :=
  { t with pending := t.pending - exitDecrement, pcs := t.pcs.set tid .done }

/-- submitter `tid` takes its next step under the throttle's lock; `Disable(b)` is step `setDisabled` -/
def step (t : Thr) (tid : Nat) : Thr :=
  match t.pcs[tid]? with
  | some .idle => t.enter tid
  | some .waiting => t.exit tid
  | _ => t

inductive Ev where
  | sub (tid : Nat)          -- submitter `tid` moves
  | setDisabled (b : Bool)   -- `Throttle.Disable(b)`
  | spawn                    -- one more submitter arrives
  deriving Repr, DecidableEq

def ev (t : Thr) : Ev → Thr
  | .sub tid => t.step tid
  | .setDisabled b => { t with disabled := b }
  | .spawn => { t with pcs := t.pcs ++ [.idle] }

def exec (t : Thr) : List Ev → Thr
  | [] => t
  | e :: es => (t.ev e).exec es

def waiting (t : Thr) : Nat := t.pcs.count .waiting

end Thr

/-! ## Capacity gate of `Location.AddFact` / `Location.AddRule` -/

/-- what is stored in a location: ids with a tag (payloads do not matter for counting) -/
structure Cap where
  maxFacts : Int
  store : List (String × String)   -- id ↦ payload tag, ids unique
  deriving Repr, DecidableEq

inductive CapOp where
  | addFact (id : String) (v : String)
  | addRule (id : String) (v : String)
  | rem (id : String)
  | setProp (id : String) (v : String)   -- SetProp / EnableRule(false) / SetParents: reaches `state.Add` ungated
  deriving Repr, DecidableEq

inductive CapOut where
  | ok | capacity | notFound
  deriving Repr, DecidableEq

namespace Cap

def count (c : Cap) : Nat := c.store.length

/-- `state.Add(id, v)`: insert or overwrite -/
def put (st : List (String × String)) (id v : String) : List (String × String) :=
  if st.any (·.1 == id) then st.map (fun kv => if kv.1 == id then (id, v) else kv) else st ++ [(id, v)]

def step (c : Cap) : CapOp → Cap × CapOut
  | .addFact id v =>
    if addFactGated && atCapacity c.maxFacts c.count then (c, .capacity) else ({ c with store := put c.store id v }, .ok)
  | .addRule id v =>
    if addRuleGated && atCapacity c.maxFacts c.count then (c, .capacity) else ({ c with store := put c.store id v }, .ok)
  | .rem id =>
    if c.store.any (·.1 == id) then ({ c with store := c.store.filter (·.1 != id) }, .ok) else (c, .notFound)
  | .setProp id v => ({ c with store := put c.store id v }, .ok)

def exec (c : Cap) : List CapOp → Cap
  | [] => c
  | o :: os => (c.step o).1.exec os

/-- ops that go through the capacity gate or remove -/
def CapOp.public : CapOp → Bool
  | .setProp _ _ => false
  | _ => true

end Cap

/-- the check-then-add race: each adder first evaluates `AtCapacity` (step 1) and later calls `state.Add` (step 2) -/
inductive APc where
  | start | checked (full : Bool) | done
  deriving Repr, DecidableEq

structure CapRace where
  maxFacts : Int
  count : Nat
  pcs : List APc
  deriving Repr, DecidableEq

def CapRace.step (s : CapRace) (tid : Nat) : CapRace :=
  match s.pcs[tid]? with
  | some .start => { s with pcs := s.pcs.set tid (.checked (atCapacity s.maxFacts s.count)) }
  | some (.checked false) => { s with count := s.count + 1, pcs := s.pcs.set tid .done }  -- distinct new ids
  | some (.checked true) => { s with pcs := s.pcs.set tid .done }
  | _ => s

def CapRace.exec (s : CapRace) : List Nat → CapRace
  | [] => s
  | t :: ts => (s.step t).exec ts

/-- ... repaired: `Location.admission` makes the test and the addition it admits one step. An adder is `start`, then holds the
admission lock with the test's answer (`checked`), then adds (or not) and releases. A scheduling decision for a thread that
wants the lock while another holds it does nothing. -/
structure CapLocked where
  maxFacts : Int
  count : Nat
  holder : Option Nat
  pcs : List APc
  deriving Repr, DecidableEq

def CapLocked.step (s : CapLocked) (tid : Nat) : CapLocked :=
  match s.pcs[tid]? with
  | some .start =>
    (match s.holder with
     | none => { s with holder := some tid, pcs := s.pcs.set tid (.checked (atCapacity s.maxFacts s.count)) }
     | some _ => s)
  | some (.checked false) => { s with count := s.count + 1, holder := none, pcs := s.pcs.set tid .done }
  | some (.checked true) => { s with holder := none, pcs := s.pcs.set tid .done }
  | _ => s

def CapLocked.exec (s : CapLocked) : List Nat → CapLocked
  | [] => s
  | t :: ts => (s.step t).exec ts

/-! ## arrival patterns -/

/-- the call times `t0 + δ, t0 + 2δ, …, t0 + nδ` (steady polling) -/
def pollEvery (t0 δ : Nat) : Nat → List Nat
  | 0 => []
  | n + 1 => (t0 + δ) :: pollEvery (t0 + δ) δ n

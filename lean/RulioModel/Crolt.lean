import RulioModel.Gen.C16

/-! # Model of the Bolt-backed cron service (crolt/cron.go)

Two buckets per partition: `jobs<p>` keyed by `account,id` (here a `Nat`, the *aid*) and `time<p>` keyed by
`<RFC3339Nano due time>,<aid>` (here the pair `TId`). The partition is a function of the account, so the partitions
are independent copies of the same structure; the model is one partition (the harness merges them).
A Bolt transaction is atomic and durable (trusted): every operation below is one transaction, so the states
between operations are exactly the states a reopen can observe, and `reopen` is the identity.

`ts` values are produced by `Cron.set` from `time.Now()`; the model receives the value the implementation chose
(the harness reads it back and checks it against the clock readings around the call). -/

namespace Crolt
open C16Gen

/-- key of the time bucket: `fmt.Sprintf("%s,%s", ts, j.aid)`; neither component contains the separator and no
timestamp is a proper prefix of another (all end in `Z`), so byte order on the string is the lexicographic order on the pair -/
structure TId where
  ts : Nat
  aid : Nat
  deriving DecidableEq, Repr, Inhabited

/-- the JSON value stored (identically) in both buckets; only the fields the logic reads -/
structure Job where
  aid : Nat
  /-- `Job.TId`; `none` = `""` -/
  tid : Option TId
  /-- the expression parses as a Go duration (⇒ `set` makes it a one-shot) -/
  isDur : Bool
  once : Bool
  evict : Bool
  deriving DecidableEq, Repr, Inhabited

abbrev Map (κ α : Type) := List (κ × α)

def get {κ α} [DecidableEq κ] (k : κ) : Map κ α → Option α
  | [] => none
  | (k', v) :: m => if k' = k then some v else get k m

def del {κ α} [DecidableEq κ] (k : κ) (m : Map κ α) : Map κ α := m.filter (fun e => e.1 ≠ k)

def put {κ α} [DecidableEq κ] (k : κ) (v : α) (m : Map κ α) : Map κ α := (k, v) :: del k m

/-- one firing = one `job.Do` (ghost log) -/
structure Fire where
  aid : Nat
  due : Nat
  now : Nat
  once : Bool
  deriving DecidableEq, Repr, Inhabited

structure DB where
  jobs : Map Nat Job := []
  time : Map TId Job := []
  log : List Fire := []
  deriving Repr, Inhabited

/-- the transaction built by `Cron.update` for job `j` (whose `TId` field still holds the old key) and new due time `ts` -/
def update (db : DB) (j : Job) (ts : Nat) : DB :=
  let tid : TId := ⟨ts, j.aid⟩
  let j' := { j with tid := some tid }
  let time1 := match j.tid with
    | some old => if updateDeletesOld then del old db.time else db.time
    | none => db.time
  { db with jobs := put j.aid j' db.jobs, time := put tid j' time1 }

/-- the effect of `Cron.set` on the flags (the due time itself is an input) -/
def setFlags (j : Job) : Job := if j.evict then j else if j.isDur then { j with once := true } else j

/-- `Cron.Add` forgets the `TId` its caller put into the job (`j.TId = ""`; `AddHandler` decodes the request body into the job) -/
def clearTid (j : Job) : Job := if addClearsTid then { j with tid := none } else j

/-- `Cron.Add` when nothing runs between its exists-check (a View transaction) and its Update transaction; Bool = no `Exists` error -/
def add (db : DB) (j : Job) (ts : Nat) : DB × Bool :=
  match get j.aid db.jobs with
  | some _ => (db, false)
  | none => (update db (setFlags (clearTid j)) ts, true)

/-- the second transaction of `Cron.Add` alone (its exists-check was done earlier, in another transaction) -/
def addCommit (db : DB) (j : Job) (ts : Nat) : DB := update db (setFlags (clearTid j)) ts

/-- the transaction built by `Cron.delete` -/
def delete (db : DB) (aid : Nat) : DB :=
  match get aid db.jobs with
  | none => db
  | some j =>
    let time1 := match j.tid with
      | some t => if deleteRemovesTime then del t db.time else db.time
      | none => db.time
    { db with time := time1, jobs := if deleteRemovesJob then del aid db.jobs else db.jobs }

/-- the loop condition of `Cron.work`: `bytes.Compare(k, max) <= 0` where `max` is the formatted `now`:
`k` has the form `ts,aid`, `max` the form `ts'`; the comparison is decided by the timestamps, and on equal timestamps `k` is longer -/
def cmpKey (k : TId) (now : Nat) : Int := if k.ts < now then -1 else 1

def isDue (k : TId) (now : Nat) : Bool := dueCmp (cmpKey k now)

/-- body of the loop of `Cron.work` for the entry at key `k` (if present and due); `ts` is the new due time chosen by `set`.
Returns the new state and whether the loop stops (`return f(tx)` after an eviction). -/
def workOne (db : DB) (now : Nat) (k : TId) (ts : Nat) : DB × Bool :=
  match get k db.time with
  | none => (db, false)
  | some v =>
    if !isDue k now then (db, false) else
    if v.evict then (delete db v.aid, true)
    else
      let j := if v.once && workEvictsOnce then { v with evict := true } else v
      let j := setFlags j
      let db1 := { db with log := ⟨v.aid, k.ts, now, v.once⟩ :: db.log }
      (update db1 j ts, false)

/-- `Cron.work(now)`: the cursor visits due keys; `sel` lists the visited keys in order with the new due times
(which due keys a Bolt cursor visits while the bucket is being modified is not modelled: every choice is allowed) -/
def work (db : DB) (now : Nat) : List (TId × Nat) → DB
  | [] => db
  | (k, ts) :: sel =>
    let r := workOne db now k ts
    if r.2 then r.1 else work r.1 now sel

inductive Op where
  | add (j : Job) (ts : Nat)
  | addCommit (j : Job) (ts : Nat)
  | delete (aid : Nat)
  | work (now : Nat) (sel : List (TId × Nat))
  /-- close and reopen the database file -/
  | reopen
  deriving Repr, Inhabited

def step (db : DB) : Op → DB
  | .add j ts => (add db j ts).1
  | .addCommit j ts => addCommit db j ts
  | .delete aid => delete db aid
  | .work now sel => work db now sel
  | .reopen => db

def run (db : DB) (ops : List Op) : DB := ops.foldl step db

/-! ## recurring jobs: occurrences and jitter (`Cron.set` / `Cron.Jitter`)

The bucket model above takes the new due time of a job as an input. For a job with a cron expression `Cron.set` computes it as
`schedule.Next(time.Now().UTC()).Add(c.Jitter())`; the life of one such job is modelled here with the occurrence as a ghost
field, so that "once per occurrence" and "not before the occurrence" can be stated. `p` is the period of the stand-in schedule
(occurrences = multiples of `p`), `max` is `Cron.MaxJitter`, `u` (`< max`) is the value `rand.Float64()*max` of one call. -/

/-- stand-in for `Expression.Next(now)`: the first multiple of `p` strictly after `now` -/
def nextOcc (p now : Nat) : Nat := (now / p + 1) * p

/-- `Cron.set` for a cron expression: next occurrence plus `Cron.Jitter()` (= `u - jitterSub max`; times before 0 do not exist) -/
def setCron (p max now u : Nat) : Nat := nextOcc p now + u - jitterSub max

structure RState where
  /-- ghost: the occurrence the job's key in the time bucket was computed from -/
  occ : Nat
  /-- the timestamp of that key -/
  key : Nat
  clock : Nat
  /-- ghost log, newest first: (occurrence served, clock reading of the due test) of every run of the job -/
  runs : List (Nat × Nat) := []
  deriving Repr, Inhabited

inductive ROp where
  | advance (d : Nat)
  /-- one `work()` transaction: the due test reads the clock, `set` reads it again `d` later and draws `u` -/
  | poll (d u : Nat)
  deriving Repr, Inhabited

/-- the state right after `Add` at time `now` -/
def rinit (p max now u : Nat) : RState := { occ := nextOcc p now, key := setCron p max now u, clock := now }

def rstep (p max : Nat) (s : RState) : ROp → RState
  | .advance d => { s with clock := s.clock + d }
  | .poll d u =>
    if isDue ⟨s.key, 0⟩ s.clock then
      { occ := nextOcc p (s.clock + d), key := setCron p max (s.clock + d) u, clock := s.clock + d, runs := (s.occ, s.clock) :: s.runs }
    else s

def rrun (p max : Nat) (s : RState) (ops : List ROp) : RState := ops.foldl (rstep p max) s

end Crolt

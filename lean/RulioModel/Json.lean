inductive J where
  | null : J
  | bool : Bool → J
  | num  : Int → J
  | str  : String → J
  | arr  : List J → J
  | obj  : List (String × J) → J
deriving Repr, Inhabited

namespace J
mutual
def beq : J → J → Bool
  | null, null => true
  | bool a, bool b => a == b
  | num a, num b => a == b
  | str a, str b => a == b
  | arr a, arr b => beqL a b
  | obj a, obj b => beqO a b
  | _, _ => false
def beqL : List J → List J → Bool
  | [], [] => true
  | x :: xs, y :: ys => beq x y && beqL xs ys
  | _, _ => false
def beqO : List (String × J) → List (String × J) → Bool
  | [], [] => true
  | (k, x) :: xs, (l, y) :: ys => k == l && beq x y && beqO xs ys
  | _, _ => false
end
instance : BEq J := ⟨beq⟩

def isScalar : J → Bool
  | arr _ => false | obj _ => false | _ => true
end J

def isVar (s : String) : Bool := s.startsWith "?"
def isOptVar (s : String) : Bool := s.startsWith "??"

abbrev Bs := List (String × J)
def Bs.get? (bs : Bs) (k : String) : Option J :=
  match bs with
  | [] => none
  | (k', v) :: r => if k == k' then some v else Bs.get? r k
def Bs.set (bs : Bs) (k : String) (v : J) : Bs := (k, v) :: bs.filter (fun p => p.1 != k)

def lookupKey (k : String) : List (String × J) → Option J
  | [] => none
  | (k', v) :: r => if k == k' then some v else lookupKey k r

mutual
def J.ground : J → Bool
  | .str s => !isVar s
  | .arr xs => groundL xs
  | .obj kvs => groundO kvs
  | _ => true
def groundL : List J → Bool
  | [] => true
  | x :: xs => x.ground && groundL xs
def groundO : List (String × J) → Bool
  | [] => true
  | (k, v) :: kvs => !isVar k && v.ground && groundO kvs
end

/-! Ghost model of OutboundBreaker: every admission carries its time and how many ticks it has been shifted -/

structure G where
  limit : Nat
  res : Nat
  ticks : Nat
  all : List (Nat × Nat)   -- (admission time, shift), newest first
  updated : Nat

namespace G
def W (g : G) : Nat := g.ticks * g.res
def adm (g : G) : List Nat := g.all.map (·.1)
def total (g : G) : Nat := (g.all.filter (fun p => p.2 < g.ticks)).length

def slide (g : G) (now : Nat) : G :=
  let k := min ((now - g.updated) / g.res) g.ticks
  { g with all := g.all.map (fun p => (p.1, p.2 + k)), updated := now }

def call (g : G) (now : Nat) : G :=
  let g := g.slide now
  if g.total < g.limit then { g with all := (now, 0) :: g.all } else g

def run (g : G) : List Nat → G
  | [] => g
  | t :: ts => (g.call t).run ts
end G

def windowCount (W : Nat) (l : List Nat) (t : Nat) : Nat := (l.filter (fun u => t < u + W)).length

structure BInv (g : G) : Prop where
  res_pos : 0 < g.res
  ok : ∀ p ∈ g.all, p.1 + p.2 * g.res ≤ g.updated
  sorted : g.adm.Pairwise (· ≥ ·)
  suff : ∀ newer t older, g.adm = newer ++ t :: older → windowCount g.W (t :: older) t ≤ g.limit

theorem slide_inv (g : G) (now : Nat) (h : BInv g) (hn : g.updated ≤ now) : BInv (g.slide now) := by
  have hadm : (g.slide now).adm = g.adm := by simp [G.slide, G.adm, List.map_map, Function.comp_def]
  refine ⟨h.res_pos, ?_, ?_, ?_⟩
  · intro p hp
    simp only [G.slide, List.mem_map] at hp
    obtain ⟨q, hq, rfl⟩ := hp
    have := h.ok q hq
    have hk : min ((now - g.updated) / g.res) g.ticks * g.res ≤ now - g.updated := by
      calc min ((now - g.updated) / g.res) g.ticks * g.res
          ≤ ((now - g.updated) / g.res) * g.res := Nat.mul_le_mul_right _ (Nat.min_le_left _ _)
        _ ≤ now - g.updated := Nat.div_mul_le_self _ _
    simp only [G.slide]
    rw [Nat.add_mul]
    omega
  · rw [hadm]; exact h.sorted
  · intro newer t older he
    rw [hadm] at he
    exact h.suff newer t older he

theorem filter_len_mono {α} (l : List α) (p q : α → Bool) (h : ∀ x ∈ l, p x = true → q x = true) :
    (l.filter p).length ≤ (l.filter q).length := by
  induction l with
  | nil => simp
  | cons a l ih =>
    have ih' := ih (fun x hx => h x (List.mem_cons_of_mem _ hx))
    have ha := h a (List.mem_cons_self ..)
    simp only [List.filter_cons]
    cases hp : p a <;> cases hq : q a <;> simp_all <;> omega

theorem recent_le_total (g : G) (h : BInv g) :
    windowCount g.W g.adm g.updated ≤ g.total := by
  unfold windowCount G.total G.adm
  rw [List.filter_map, List.length_map]
  apply filter_len_mono
  intro p hp hrecent
  have := h.ok p hp
  simp only [Function.comp_apply, decide_eq_true_eq, G.W] at hrecent ⊢
  -- p.1 + p.2*res ≤ updated < p.1 + ticks*res  ⇒  p.2 < ticks
  have h1 : p.2 * g.res < g.ticks * g.res := by
    have hr := of_decide_eq_true hrecent
    omega
  exact Nat.lt_of_mul_lt_mul_right h1

theorem call_inv (g : G) (now : Nat) (h : BInv g) (hn : g.updated ≤ now) : BInv (g.call now) := by
  have hs := slide_inv g now h hn
  unfold G.call
  simp only []
  split
  · rename_i hlt
    have hup : (g.slide now).updated = now := rfl
    refine ⟨hs.res_pos, ?_, ?_, ?_⟩
    · intro p hp
      simp only [List.mem_cons] at hp
      rcases hp with rfl | hp
      · simp [hup]
      · exact hs.ok p hp
    · simp only [G.adm, List.map_cons, List.pairwise_cons]
      refine ⟨?_, hs.sorted⟩
      intro t ht
      simp only [List.mem_map] at ht
      obtain ⟨q, hq, rfl⟩ := ht
      have := hs.ok q hq
      show now ≥ q.1
      omega
    · intro newer t older he
      simp only [G.adm, List.map_cons] at he
      cases newer with
      | nil =>
        simp only [List.nil_append, List.cons.injEq] at he
        obtain ⟨rfl, rfl⟩ := he
        have hr := recent_le_total _ hs
        simp only [hup] at hr
        unfold windowCount at *
        simp only [List.filter_cons]
        have hW : ({ (g.slide now) with all := (now, 0) :: (g.slide now).all } : G).W = (g.slide now).W := rfl
        rw [hW]
        split
        · simp only [List.length_cons]; unfold G.adm at hr; omega
        · unfold G.adm at hr; omega
      | cons n newer' =>
        simp only [List.cons_append, List.cons.injEq] at he
        exact hs.suff newer' t older he.2
  · exact hs

theorem window_of_suff (W limit : Nat) (l : List Nat) (hs : l.Pairwise (· ≥ ·))
    (hsuf : ∀ newer t older, l = newer ++ t :: older → windowCount W (t :: older) t ≤ limit)
    (a : Nat) : (l.filter (fun t => a ≤ t ∧ t < a + W)).length ≤ limit := by
  induction l with
  | nil => simp
  | cons t older ih =>
    have hs' := (List.pairwise_cons.mp hs)
    by_cases hin : a ≤ t ∧ t < a + W
    · -- every window element of (t :: older) is counted in windowCount for t
      have := hsuf [] t older rfl
      refine Nat.le_trans ?_ this
      unfold windowCount
      apply filter_len_mono
      intro u hu huw
      simp only [decide_eq_true_eq] at *
      omega
    · have : ((t :: older).filter (fun t => decide (a ≤ t ∧ t < a + W))) = older.filter (fun t => decide (a ≤ t ∧ t < a + W)) := by
        simp [hin]
      rw [this]
      apply ih hs'.2
      intro newer t' older' he
      exact hsuf (t :: newer) t' older' (by simp [he])

theorem run_inv (g : G) (ts : List Nat) (h : BInv g) (hmono : (g.updated :: ts).Pairwise (· ≤ ·)) :
    BInv (g.run ts) := by
  induction ts generalizing g with
  | nil => exact h
  | cons t ts ih =>
    have hp := List.pairwise_cons.mp hmono
    have ht : g.updated ≤ t := hp.1 t (List.mem_cons_self ..)
    apply ih (g.call t) (call_inv g t h ht)
    have hup : (g.call t).updated = t := by
      unfold G.call; simp only []; split <;> rfl
    rw [hup]
    exact hp.2

/-- **Window bound**: for every non-decreasing sequence of call times, every window of length
`ticks * res` contains at most `limit` admissions. -/
theorem breaker_window (g : G) (ts : List Nat) (h : BInv g)
    (hmono : (g.updated :: ts).Pairwise (· ≤ ·)) (a : Nat) :
    (((g.run ts).adm).filter (fun t => a ≤ t ∧ t < a + g.W)).length ≤ g.limit := by
  have hi := run_inv g ts h hmono
  have hW : (g.run ts).W = g.W ∧ (g.run ts).limit = g.limit := by
    clear hi hmono h
    induction ts generalizing g with
    | nil => exact ⟨rfl, rfl⟩
    | cons t ts ih =>
      have := ih (g.call t)
      have hc : (g.call t).W = g.W ∧ (g.call t).limit = g.limit := by
        unfold G.call; simp only []; split <;> exact ⟨rfl, rfl⟩
      exact ⟨this.1.trans hc.1, this.2.trans hc.2⟩
  have := window_of_suff (g.run ts).W (g.run ts).limit (g.run ts).adm hi.sorted hi.suff a
  rw [hW.1, hW.2] at this
  exact this

#print axioms breaker_window

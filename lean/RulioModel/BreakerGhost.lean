/-! Ghost model of OutboundBreaker: every admission carries its time and how many ticks it has been shifted.

`slide` advances `updated` by the whole ticks it shifted (to `now` only when everything has aged out), an admission
sets `updated := now`; a `Status()`/`Summary()` poll is one `slide`.  Two invariants are proved here:

* `BInv` (safety): an admission that has been shifted `s` ticks is at least `s·res` old — so whatever has left the
  `ticks` buckets is at least one window old, and every window holds at most `limit` admissions (`breaker_window`);
* `LInv` (liveness): the `j`-th newest admission that is still counted has lost at most `j·(res-1)` ns to the
  re-anchoring done by the `j` admissions after it, and older admissions are never behind newer ones — so the breaker
  is empty one window after its last admission, however it was polled (`ghost_idle_total`, `ghost_graded_total`). -/

/-- what arrives at a breaker: a `Do`/`Zap` call, or a `Status()`/`Summary()` poll, with the clock reading taken under the lock -/
inductive BEv where
  | call (t : Nat)
  | status (t : Nat)
  deriving Repr, DecidableEq

def BEv.time : BEv → Nat
  | .call t => t
  | .status t => t

structure G where
  limit : Nat
  res : Nat
  ticks : Nat
  all : List (Nat × Nat)   -- (admission time, shift), newest first
  updated : Nat

namespace G
def W (g : G) : Nat := g.ticks * g.res
def adm (g : G) : List Nat := g.all.map (·.1)
def total (g : G) : Nat := (g.all.filter (fun p => p.2 < g.ticks)).length

def slide (g : G) (now : Nat) : G :=
  let raw := (now - g.updated) / g.res
  let k := min raw g.ticks
  { g with all := g.all.map (fun p => (p.1, p.2 + k)),
           updated := if g.ticks < raw then now else g.updated + raw * g.res }

def call (g : G) (now : Nat) : G :=
  let g := g.slide now
  if g.total < g.limit then { g with all := (now, 0) :: g.all, updated := now } else g

def step (g : G) : BEv → G
  | .call t => g.call t
  | .status t => g.slide t

def run (g : G) : List BEv → G
  | [] => g
  | e :: es => (g.step e).run es
end G

def windowCount (W : Nat) (l : List Nat) (t : Nat) : Nat := (l.filter (fun u => t < u + W)).length

/-- number of admissions (`l`, newest first) that can still be counted at time `t`: the `j`-th newest one for at most
`W + j·slack` after its admission -/
def gradedCount (W slack : Nat) (t : Nat) : Nat → List Nat → Nat
  | _, [] => 0
  | j, u :: us => (if t < u + W + j * slack then 1 else 0) + gradedCount W slack t (j + 1) us

structure BInv (g : G) : Prop where
  res_pos : 0 < g.res
  ok : ∀ p ∈ g.all, p.1 + p.2 * g.res ≤ g.updated
  sorted : g.adm.Pairwise (· ≥ ·)
  suff : ∀ newer t older, g.adm = newer ++ t :: older → windowCount g.W (t :: older) t ≤ g.limit

theorem G.slide_adm (g : G) (now : Nat) : (g.slide now).adm = g.adm := by
  simp [G.slide, G.adm, List.map_map, Function.comp_def]

/-- `slide` never moves `updated` past the clock reading, and never back -/
theorem G.slide_updated_le (g : G) (now : Nat) (_hr : 0 < g.res) (hn : g.updated ≤ now) :
    g.updated ≤ (g.slide now).updated ∧ (g.slide now).updated ≤ now := by
  simp only [G.slide]
  have hk : ((now - g.updated) / g.res) * g.res ≤ now - g.updated := Nat.div_mul_le_self _ _
  split
  · exact ⟨hn, Nat.le_refl _⟩
  · generalize ((now - g.updated) / g.res) * g.res = B at *
    omega

/-- after `slide`, less than one tick is unaccounted for -/
theorem G.slide_rem (g : G) (now : Nat) (hr : 0 < g.res) (hn : g.updated ≤ now) :
    now < (g.slide now).updated + g.res := by
  simp only [G.slide]
  have hdm := Nat.div_add_mod (now - g.updated) g.res
  have hml := Nat.mod_lt (now - g.updated) hr
  rw [Nat.mul_comm] at hdm
  split
  · omega
  · generalize ((now - g.updated) / g.res) * g.res = B at *
    omega

theorem slide_inv (g : G) (now : Nat) (h : BInv g) (hn : g.updated ≤ now) : BInv (g.slide now) := by
  refine ⟨h.res_pos, ?_, ?_, ?_⟩
  · intro p hp
    simp only [G.slide, List.mem_map] at hp
    obtain ⟨q, hq, rfl⟩ := hp
    have := h.ok q hq
    have hk : ((now - g.updated) / g.res) * g.res ≤ now - g.updated := Nat.div_mul_le_self _ _
    show q.1 + (q.2 + min ((now - g.updated) / g.res) g.ticks) * g.res ≤
      (if g.ticks < (now - g.updated) / g.res then now else g.updated + (now - g.updated) / g.res * g.res)
    rw [Nat.add_mul]
    generalize (now - g.updated) / g.res = raw at *
    by_cases hc : g.ticks < raw
    · simp only [hc, if_true]
      have hm : min raw g.ticks = g.ticks := Nat.min_eq_right (Nat.le_of_lt hc)
      rw [hm]
      have h1 : g.ticks * g.res ≤ raw * g.res := Nat.mul_le_mul_right _ (Nat.le_of_lt hc)
      generalize raw * g.res = B at *
      generalize g.ticks * g.res = T at *
      generalize q.2 * g.res = A at *
      omega
    · simp only [hc, if_false]
      have hm : min raw g.ticks = raw := Nat.min_eq_left (Nat.le_of_not_lt hc)
      rw [hm]
      generalize raw * g.res = B at *
      generalize q.2 * g.res = A at *
      omega
  · rw [G.slide_adm]; exact h.sorted
  · intro newer t older he
    rw [G.slide_adm] at he
    exact h.suff newer t older he

theorem filter_len_mono {α} (l : List α) (p q : α → Bool) (h : ∀ x ∈ l, p x = true → q x = true) :
    (l.filter p).length ≤ (l.filter q).length := by
  induction l with
  | nil => simp
  | cons a l ih =>
    have ih' := ih (fun x hx => h x (List.mem_cons_of_mem _ hx))
    have ha := h a (List.mem_cons_self ..)
    simp only [List.filter_cons]
    cases hp : p a <;> cases hq : q a <;> simp_all <;> omega

/-- every admission younger than one window (measured from any time `t ≥ updated`) is still counted -/
theorem recent_le_total (g : G) (h : BInv g) (t : Nat) (ht : g.updated ≤ t) :
    windowCount g.W g.adm t ≤ g.total := by
  unfold windowCount G.total G.adm
  rw [List.filter_map, List.length_map]
  apply filter_len_mono
  intro p hp hrecent
  have := h.ok p hp
  simp only [Function.comp_apply, decide_eq_true_eq, G.W] at hrecent ⊢
  -- p.1 + p.2*res ≤ updated ≤ t < p.1 + ticks*res  ⇒  p.2 < ticks
  have h1 : p.2 * g.res < g.ticks * g.res := by
    have hr := of_decide_eq_true hrecent
    omega
  exact Nat.lt_of_mul_lt_mul_right h1

theorem call_inv (g : G) (now : Nat) (h : BInv g) (hn : g.updated ≤ now) : BInv (g.call now) := by
  have hs := slide_inv g now h hn
  have hle := (G.slide_updated_le g now h.res_pos hn).2
  unfold G.call
  simp only []
  split
  · rename_i hlt
    refine ⟨hs.res_pos, ?_, ?_, ?_⟩
    · intro p hp
      simp only [List.mem_cons] at hp
      rcases hp with rfl | hp
      · simp
      · have := hs.ok p hp
        show p.1 + p.2 * (g.slide now).res ≤ now
        omega
    · simp only [G.adm, List.map_cons, List.pairwise_cons]
      refine ⟨?_, hs.sorted⟩
      intro t ht
      simp only [List.mem_map] at ht
      obtain ⟨q, hq, rfl⟩ := ht
      have := hs.ok q hq
      show now ≥ q.1
      omega
    · intro newer t older he
      simp only [G.adm, List.map_cons] at he
      cases newer with
      | nil =>
        simp only [List.nil_append, List.cons.injEq] at he
        obtain ⟨rfl, rfl⟩ := he
        have hr := recent_le_total _ hs now hle
        unfold windowCount at *
        simp only [List.filter_cons]
        have hW : ({ (g.slide now) with all := (now, 0) :: (g.slide now).all, updated := now } : G).W = (g.slide now).W := rfl
        rw [hW]
        split
        · simp only [List.length_cons]; unfold G.adm at hr; omega
        · unfold G.adm at hr; omega
      | cons n newer' =>
        simp only [List.cons_append, List.cons.injEq] at he
        exact hs.suff newer' t older he.2
  · exact hs

theorem G.call_updated_le (g : G) (now : Nat) (hr : 0 < g.res) (hn : g.updated ≤ now) : (g.call now).updated ≤ now := by
  have := (G.slide_updated_le g now hr hn).2
  unfold G.call
  simp only []
  split
  · exact Nat.le_refl _
  · exact this

theorem gstep_inv (g : G) (e : BEv) (h : BInv g) (hn : g.updated ≤ e.time) : BInv (g.step e) := by
  cases e with
  | call t => exact call_inv g t h hn
  | status t => exact slide_inv g t h hn

theorem G.step_updated_le (g : G) (e : BEv) (hr : 0 < g.res) (hn : g.updated ≤ e.time) : (g.step e).updated ≤ e.time := by
  cases e with
  | call t => exact G.call_updated_le g t hr hn
  | status t => exact (G.slide_updated_le g t hr hn).2

theorem window_of_suff (W limit : Nat) (l : List Nat) (hs : l.Pairwise (· ≥ ·))
    (hsuf : ∀ newer t older, l = newer ++ t :: older → windowCount W (t :: older) t ≤ limit)
    (a : Nat) : (l.filter (fun t => a ≤ t ∧ t < a + W)).length ≤ limit := by
  induction l with
  | nil => simp
  | cons t older ih =>
    have hs' := (List.pairwise_cons.mp hs)
    by_cases hin : a ≤ t ∧ t < a + W
    · -- every window element of (t :: older) is counted in windowCount for t
      have := hsuf [] t older rfl
      refine Nat.le_trans ?_ this
      unfold windowCount
      apply filter_len_mono
      intro u hu huw
      simp only [decide_eq_true_eq] at *
      omega
    · have : ((t :: older).filter (fun t => decide (a ≤ t ∧ t < a + W))) = older.filter (fun t => decide (a ≤ t ∧ t < a + W)) := by
        simp [hin]
      rw [this]
      apply ih hs'.2
      intro newer t' older' he
      exact hsuf (t :: newer) t' older' (by simp [he])

theorem G.step_fields (g : G) (e : BEv) :
    (g.step e).res = g.res ∧ (g.step e).ticks = g.ticks ∧ (g.step e).limit = g.limit := by
  cases e with
  | call t => unfold G.step G.call; simp only []; split <;> exact ⟨rfl, rfl, rfl⟩
  | status t => exact ⟨rfl, rfl, rfl⟩

theorem G.run_fields (g : G) (es : List BEv) :
    (g.run es).res = g.res ∧ (g.run es).ticks = g.ticks ∧ (g.run es).limit = g.limit := by
  induction es generalizing g with
  | nil => exact ⟨rfl, rfl, rfl⟩
  | cons e es ih =>
    obtain ⟨e1, e2, e3⟩ := G.step_fields g e
    have := ih (g.step e)
    simp only [G.run]
    exact ⟨this.1.trans e1, this.2.1.trans e2, this.2.2.trans e3⟩

/-- the invariant along a run; `lo` is any time between `updated` and the first event (the previous clock reading) -/
theorem run_inv (g : G) (es : List BEv) (lo : Nat) (h : BInv g) (hlo : g.updated ≤ lo)
    (hmono : (lo :: es.map BEv.time).Pairwise (· ≤ ·)) :
    BInv (g.run es) ∧ (g.run es).updated ≤ (lo :: es.map BEv.time).getLast (by simp) := by
  induction es generalizing g lo with
  | nil => exact ⟨h, by simpa [G.run] using hlo⟩
  | cons e es ih =>
    have hp := List.pairwise_cons.mp hmono
    have ht : lo ≤ e.time := hp.1 e.time (by simp)
    have hu : g.updated ≤ e.time := Nat.le_trans hlo ht
    have := ih (g.step e) e.time (gstep_inv g e h hu) (G.step_updated_le g e h.res_pos hu) (by simpa using hp.2)
    simp only [G.run]
    refine ⟨this.1, ?_⟩
    have h2 := this.2
    simp only [List.map_cons] at h2 ⊢
    rw [List.getLast_cons (by simp)]
    exact h2

/-- **Window bound**: for every non-decreasing sequence of calls and polls, every window of length
`ticks * res` contains at most `limit` admissions. -/
theorem breaker_window (g : G) (es : List BEv) (h : BInv g)
    (hmono : (g.updated :: es.map BEv.time).Pairwise (· ≤ ·)) (a : Nat) :
    (((g.run es).adm).filter (fun t => a ≤ t ∧ t < a + g.W)).length ≤ g.limit := by
  have hi := (run_inv g es g.updated h (Nat.le_refl _) hmono).1
  obtain ⟨e1, e2, e3⟩ := G.run_fields g es
  have hW : (g.run es).W = g.W := by simp [G.W, e1, e2]
  have := window_of_suff (g.run es).W (g.run es).limit (g.run es).adm hi.sorted hi.suff a
  rw [hW, e3] at this
  exact this

/-! ## liveness -/

structure LInv (g : G) : Prop where
  /-- older admissions have been shifted at least as far as newer ones -/
  mono : (g.all.map (·.2)).Pairwise (· ≤ ·)
  /-- the `j`-th newest admission, while it is counted, has lost at most `j·(res-1)` ns -/
  graded : ∀ j p, g.all[j]? = some p → p.2 < g.ticks → g.updated ≤ p.1 + p.2 * g.res + j * (g.res - 1)

theorem slide_linv (g : G) (now : Nat) (h : LInv g) : LInv (g.slide now) := by
  constructor
  · have : (g.slide now).all.map (·.2) = (g.all.map (·.2)).map (· + min ((now - g.updated) / g.res) g.ticks) := by
      simp [G.slide, List.map_map, Function.comp_def]
    rw [this]
    exact List.Pairwise.map _ (fun a b hab => Nat.add_le_add_right hab _) h.mono
  · intro j p hp hlt
    simp only [G.slide, List.getElem?_map, Option.map_eq_some_iff] at hp
    obtain ⟨q, hq, rfl⟩ := hp
    have hlt' : q.2 + min ((now - g.updated) / g.res) g.ticks < g.ticks := hlt
    show (if g.ticks < (now - g.updated) / g.res then now else g.updated + (now - g.updated) / g.res * g.res) ≤
      q.1 + (q.2 + min ((now - g.updated) / g.res) g.ticks) * g.res + j * (g.res - 1)
    clear hlt
    generalize (now - g.updated) / g.res = raw at *
    have hkk : min raw g.ticks = raw ∧ ¬ g.ticks < raw := by
      rw [Nat.min_def] at hlt' ⊢; split at hlt' <;> simp_all <;> omega
    rw [hkk.1] at hlt' ⊢
    simp only [hkk.2, if_false]
    have hold := h.graded j q hq (by omega)
    rw [Nat.add_mul]
    generalize raw * g.res = B at *
    generalize q.2 * g.res = A at *
    generalize j * (g.res - 1) = C at *
    omega

theorem call_linv (g : G) (now : Nat) (h : LInv g) (hr : 0 < g.res) (hn : g.updated ≤ now) : LInv (g.call now) := by
  have hs := slide_linv g now h
  have hrem := G.slide_rem g now hr hn
  unfold G.call
  simp only []
  split
  · constructor
    · simp only [List.map_cons, List.pairwise_cons]
      exact ⟨fun _ _ => Nat.zero_le _, hs.mono⟩
    · intro j p hp hlt
      cases j with
      | zero =>
        simp only [List.getElem?_cons_zero, Option.some.injEq] at hp
        subst hp
        show now ≤ now + 0 * _ + 0 * _
        omega
      | succ j =>
        simp only [List.getElem?_cons_succ] at hp
        have hold := hs.graded j p hp hlt
        show now ≤ p.1 + p.2 * g.res + (j + 1) * (g.res - 1)
        have hres : (g.slide now).res = g.res := rfl
        rw [hres] at hold
        rw [Nat.add_mul, Nat.one_mul]
        generalize p.2 * g.res = A at *
        generalize j * (g.res - 1) = C at *
        omega
  · exact hs

theorem step_linv (g : G) (e : BEv) (h : LInv g) (hr : 0 < g.res) (hn : g.updated ≤ e.time) : LInv (g.step e) := by
  cases e with
  | call t => exact call_linv g t h hr hn
  | status t => exact slide_linv g t h

theorem run_linv (g : G) (es : List BEv) (lo : Nat) (hb : BInv g) (h : LInv g) (hlo : g.updated ≤ lo)
    (hmono : (lo :: es.map BEv.time).Pairwise (· ≤ ·)) : LInv (g.run es) := by
  induction es generalizing g lo with
  | nil => exact h
  | cons e es ih =>
    have hp := List.pairwise_cons.mp hmono
    have ht : lo ≤ e.time := hp.1 e.time (by simp)
    have hu : g.updated ≤ e.time := Nat.le_trans hlo ht
    exact ih (g.step e) e.time (gstep_inv g e hb hu) (step_linv g e h hb.res_pos hu)
      (G.step_updated_le g e hb.res_pos hu) (by simpa using hp.2)

/-- a counted admission at position `j` is younger than `W + j·(res-1)` at the time of the slide -/
theorem counted_young (g : G) (now : Nat) (h : LInv g) (hr : 0 < g.res) (hn : g.updated ≤ now)
    (j : Nat) (p : Nat × Nat) (hp : (g.slide now).all[j]? = some p) (hlt : p.2 < g.ticks) :
    now < p.1 + g.W + j * (g.res - 1) := by
  have hs := slide_linv g now h
  have hrem := G.slide_rem g now hr hn
  have hg := hs.graded j p hp hlt
  have hres : (g.slide now).res = g.res := rfl
  rw [hres] at hg
  have h1 : p.2 * g.res + g.res ≤ g.ticks * g.res := by
    have : (p.2 + 1) * g.res ≤ g.ticks * g.res := Nat.mul_le_mul_right _ hlt
    rw [Nat.add_mul] at this; omega
  unfold G.W
  generalize p.2 * g.res = A at *
  generalize g.ticks * g.res = T at *
  generalize j * (g.res - 1) = C at *
  omega

/-- **idle recovery**: if every admission is at least one window old, nothing is counted after the slide -/
theorem ghost_idle_total (g : G) (now : Nat) (h : LInv g) (hr : 0 < g.res) (hn : g.updated ≤ now)
    (hidle : ∀ t ∈ g.adm, t + g.W ≤ now) : (g.slide now).total = 0 := by
  have hs := slide_linv g now h
  unfold G.total
  rw [List.length_eq_zero_iff, List.filter_eq_nil_iff]
  intro p hp
  simp only [decide_eq_true_eq]
  intro hlt
  have ht : (g.slide now).ticks = g.ticks := rfl
  rw [ht] at hlt
  -- the newest admission is not counted …
  cases hall : (g.slide now).all with
  | nil => rw [hall] at hp; simp at hp
  | cons q qs =>
    have hq0 : (g.slide now).all[0]? = some q := by rw [hall]; rfl
    have hqmem : q.1 ∈ g.adm := by
      rw [← G.slide_adm g now]; unfold G.adm; rw [hall]; simp
    have hqge : g.ticks ≤ q.2 := by
      apply Nat.le_of_not_lt
      intro hq
      have := counted_young g now h hr hn 0 q hq0 hq
      have := hidle q.1 hqmem
      omega
    -- … and everything older has been shifted at least as far
    have hm := hs.mono
    rw [hall] at hm hp
    simp only [List.map_cons, List.pairwise_cons] at hm
    rcases List.mem_cons.mp hp with rfl | hp'
    · omega
    · have := hm.1 p.2 (List.mem_map.mpr ⟨p, hp', rfl⟩)
      omega

theorem graded_filter_le (W slack now ticks : Nat) (l : List (Nat × Nat)) (j0 : Nat)
    (h : ∀ i p, l[i]? = some p → p.2 < ticks → now < p.1 + W + (j0 + i) * slack) :
    (l.filter (fun p => p.2 < ticks)).length ≤ gradedCount W slack now j0 (l.map (·.1)) := by
  induction l generalizing j0 with
  | nil => simp [gradedCount]
  | cons p l ih =>
    have ih' := ih (j0 + 1) (fun i q hq hlt => by
      have := h (i + 1) q (by simpa using hq) hlt
      have e : j0 + (i + 1) = j0 + 1 + i := by omega
      rw [e] at this; exact this)
    have h0 := h 0 p (by simp)
    simp only [List.filter_cons, List.map_cons, gradedCount]
    by_cases hlt : p.2 < ticks
    · have := h0 hlt
      simp only [Nat.add_zero] at this
      simp only [hlt, decide_true, if_true, List.length_cons, this]
      omega
    · simp only [hlt, decide_false]
      split <;> simp at * <;> omega

/-- **graded recovery**: what is counted after the slide is at most the number of admissions that are younger than
their graded window -/
theorem ghost_graded_total (g : G) (now : Nat) (h : LInv g) (hr : 0 < g.res) (hn : g.updated ≤ now) :
    (g.slide now).total ≤ gradedCount g.W (g.res - 1) now 0 g.adm := by
  rw [← G.slide_adm g now]
  unfold G.total G.adm
  have ht : (g.slide now).ticks = g.ticks := rfl
  rw [ht]
  apply graded_filter_le
  intro i p hp hlt
  simp only [Nat.zero_add]
  exact counted_young g now h hr hn i p hp hlt

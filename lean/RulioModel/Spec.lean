import RulioModel.Events

/-! # Abstract specification of a location: the finite map id ↦ fact, brute-force search and dispatch,
the deleteWith closure. Theorems relate the two State models to these definitions. -/

def unexpired (fact : Obj) (now : Int) : Bool :=
  match checkExpiration fact now with | .ok true => false | _ => true

/-- every stored, unexpired fact that matches, with its bindings -/
def specSearch (facts : List (String × Obj)) (p : Obj) (now : Int) : Except LErr (List (String × List Bs)) := do
  let per ← (facts.filter (fun f => unexpired f.2 now)).mapM (fun (id, f) => do
    let bss ← matchesJ (.obj p) (.obj f)
    pure (if bss.isEmpty then [] else [(id, bss)]))
  pure per.flatten

/-- the `when` pattern of a stored rule fact, if it is a non-scheduled rule with a pattern -/
def whenOf (fact : Obj) : Option Obj :=
  match fact.get? "rule" with
  | some (.obj r) =>
    if Obj.has r "schedule" then none else
    match Obj.get? r "when" with
    | some (.obj w) => (match Obj.get? w "pattern" with | some (.obj p) => some p | none => some w | _ => none)
    | _ => none
  | _ => none

/-- a rule id is disabled iff the property fact `!id.disabled` holds `true` -/
def ruleDisabled (facts : List (String × Obj)) (id : String) (now : Int) : Bool :=
  match amGet facts (genPropId id "disabled") with
  | some f => unexpired f now && (f.get? "!disabled" == some (.bool true))
  | none => false

/-- dispatch specification for one location's own rules: stored, unexpired, non-scheduled rules whose
`when` matches, with exactly the matcher's bindings -/
def specDispatchLocal (facts : List (String × Obj)) (ev : Obj) (now : Int) : Except LErr (List (String × List Bs)) := do
  let per ← (facts.filter (fun f => unexpired f.2 now)).mapM (fun (id, f) =>
    match whenOf f with
    | none => pure []
    | some pat => do
      let bss ← matchesJ (.obj pat) (.obj ev)
      pure (if bss.isEmpty then [] else [(id, bss)]))
  pure per.flatten

/-! ## deleteWith closure -/

def deleteWithOf (fact : Obj) : List String :=
  match fact.get? "deleteWith" with
  | some (.arr xs) => xs.filterMap (fun x => match x with | .str s => some s | _ => none)
  | _ => []

/-- one closure step: ids of stored facts naming a member of `dead` in `deleteWith` -/
def depsStep (facts : List (String × Obj)) (dead : List String) : List String :=
  (facts.filter (fun f => !dead.contains f.1 && (deleteWithOf f.2).any dead.contains)).map (·.1)

/-- least set containing `roots` and closed under "names a deleted id in deleteWith" (at most |facts| rounds) -/
def closure (facts : List (String × Obj)) (roots : List String) : List String :=
  let rec go (n : Nat) (dead : List String) : List String :=
    match n with
    | 0 => dead
    | n + 1 => let more := depsStep facts dead; if more.isEmpty then dead else go n (dead ++ more)
  go facts.length roots

/-- what `Rem id` must leave behind -/
def specRem (facts : List (String × Obj)) (id : String) : List (String × Obj) :=
  let dead := closure facts [id]
  facts.filter (fun f => !dead.contains f.1)

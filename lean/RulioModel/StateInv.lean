import RulioModel.Spec

/-! # Invariants, fragments and the corrected recursion budget for the two State models (C02, C08).
Core Lean only. Nothing here changes `State.lean`; the proofs are in `RulioProofs/State*.lean`. -/

/-! ## corrected recursion budget

`St.fuel = 6·|facts| + 12` is enough for the linear state but **not** for the indexed state: the term
index keeps stale ids (an overwrite never un-indexes the terms of the previous fact, a removal only
un-indexes the terms of the *current* fact), so the candidate list of one `isearchLoop` is bounded by the
longest id list of the term index, not by `|facts|`. -/

/-- a budget that always suffices (theorem `cascade_terminates`) -/
def St.fuelOK (s : St) : Nat := 6 * s.facts.length + 12 + tiWidth s.ti

/-- the public wrappers with the corrected budget -/
def St.remOK (s : St) (id : String) (now : Int) : St × Except LErr Bool :=
  match s.kind with | .indexed => St.irem s.fuelOK s id now | .linear => St.lrem s.fuelOK s id now
/-- `rem`/`search` with an explicit budget (to state that any larger budget gives the same result) -/
def St.remWith (g : Nat) (s : St) (id : String) (now : Int) : St × Except LErr Bool :=
  match s.kind with | .indexed => St.irem g s id now | .linear => St.lrem g s id now
def St.searchWith (g : Nat) (s : St) (p : Obj) (now : Int) : St × Except LErr (List (String × Obj × List Bs)) :=
  match s.kind with | .indexed => St.isearch g s p now | .linear => St.lsearch g s p now
def St.searchOK (s : St) (p : Obj) (now : Int) : St × Except LErr (List (String × Obj × List Bs)) :=
  match s.kind with | .indexed => St.isearch s.fuelOK s p now | .linear => St.lsearch s.fuelOK s p now

/-! ## well-formedness -/

/-- Go maps have unique keys -/
def KeysNodup (s : St) : Prop := (s.facts.map (·.1)).Nodup

/-- term-index completeness: every stored fact id is listed under each term of its fact
(stale extra entries are allowed) -/
def TIOK (s : St) : Prop :=
  ∀ id fact, (id, fact) ∈ s.facts → ∀ t, t ∈ extractTerms fact → ∃ ids, amGet s.ti t = some ids ∧ id ∈ ids

/-- the id "sets" of the term index have no duplicates -/
def TINodup (s : St) : Prop := ∀ e, e ∈ s.ti → e.2.Nodup

/-- no stored fact id looks like a pattern variable (`GenId` rejects those) -/
def IdsOK (s : St) : Prop := ∀ e, e ∈ s.facts → isVar e.1 = false

/-- well-formed states: what every state reachable from the empty one by `add`/`rem` satisfies -/
structure WF (s : St) : Prop where
  keys : KeysNodup s
  ids : IdsOK s
  tiok : s.kind = .indexed → TIOK s
  tinodup : s.kind = .indexed → TINodup s

/-- no stored fact is expired at `now` (and every stored `expires` is a number, as `PrepareFact` leaves it) -/
def NoneExpired (s : St) (now : Int) : Prop := ∀ e, e ∈ s.facts → checkExpiration e.2 now = .ok false

/-- no stored fact other than `id` is expired at `now`: the situation of `Rem id` *and* of a deletion of `id`
triggered by its own expiry -/
def NoneExpiredBut (s : St) (id : String) (now : Int) : Prop :=
  ∀ e, e ∈ s.facts → e.1 ≠ id → checkExpiration e.2 now = .ok false

/-- `Get` with the corrected budget (an expired fact is removed, with its cascade, before not-found is reported) -/
def St.getOK (s : St) (id : String) (now : Int) : St × Except LErr Obj :=
  match amGet s.facts id with
  | none => (s, .error "notFound")
  | some fact =>
    match checkExpiration fact now with
    | .error e => (s, .error e)
    | .ok true =>
      match s.remOK id now with
      | (s1, .error e) => (s1, .error e)
      | (s1, .ok _) => (s1, .error "notFound")
    | .ok false => (s, .ok fact)

/-! ## the cascade's search pattern and the dependency relation -/

/-- the pattern `{"deleteWith":[id]}` that `deleteDependencies` searches for -/
def depPat (id : String) : Obj := [("deleteWith", .arr [.str id])]

/-- `fact` names `id` in its `deleteWith` array -/
def depOn (fact : Obj) (id : String) : Bool := (deleteWithOf fact).contains id

/-- every stored rule can leave the pattern index without an error
(`RemPatternMap` fails on arrays it cannot sort and panics on a `when` that is not a map);
decidable, depends on the facts only -/
def unindexErr (id : String) (fact : Obj) : Bool :=
  match extractRule fact false with
  | .ok (some r, _) =>
    (match getRulePattern r with
     | .error _ => true
     | .ok none => false
     | .ok (some pat) => (piRem PI.empty pat id).2.isSome)
  | _ => false
def UnindexOK (s : St) : Prop := ∀ e, e ∈ s.facts → unindexErr e.1 e.2 = false

/-! ## operation histories -/

inductive StOp where
  | add (id : String) (x : Obj) (now : Int)
  | rem (id : String) (now : Int)

def St.step (s : St) : StOp → St
  | .add id x now => (s.add id x now).1
  | .rem id now => (s.remOK id now).1

def St.run (s : St) (ops : List StOp) : St := ops.foldl St.step s

/-- generated ids: no stored id has the form `fresh#n` with `n ≥ s.fresh` -/
def FreshOK (s : St) : Prop := ∀ e, e ∈ s.facts → ∀ n, s.fresh ≤ n → e.1 ≠ "fresh#" ++ toString n

/-! ## fragments for C02 -/

mutual
/-- no variable keys anywhere in the pattern -/
def noVarKeys : J → Bool
  | .arr xs => noVarKeysL xs
  | .obj kvs => noVarKeysO kvs
  | _ => true
def noVarKeysL : List J → Bool
  | [] => true
  | x :: xs => noVarKeys x && noVarKeysL xs
def noVarKeysO : List (String × J) → Bool
  | [] => true
  | (k, v) :: r => !isVar k && noVarKeys v && noVarKeysO r
end

mutual
/-- no optional variables (`??x`) anywhere in the pattern -/
def noOptVars : J → Bool
  | .str s => !isOptVar s
  | .arr xs => noOptVarsL xs
  | .obj kvs => noOptVarsO kvs
  | _ => true
def noOptVarsL : List J → Bool
  | [] => true
  | x :: xs => noOptVars x && noOptVarsL xs
def noOptVarsO : List (String × J) → Bool
  | [] => true
  | (_, v) :: r => noOptVars v && noOptVarsO r
end

/-- the fragment of C02: no optional variables and no variable keys -/
def TermOK (p : Obj) : Bool := noVarKeysO p && noOptVarsO p

/-- **Hypothesis taken from C05** (matcher soundness w.r.t. the declarative partial-match predicate):
whenever the matcher returns a binding for `p` against a fact, some bindings lay `p` over the fact. -/
def MatcherSound (p : Obj) : Prop :=
  ∀ (f : Obj) (bss : List Bs), matchesJ (.obj p) (.obj f) = .ok bss → bss ≠ [] → ∃ σ, pmv σ (.obj p) (.obj f) = true

/-- the same hypothesis restricted to the stored facts (what the search theorems need; with C05's `match_sound`
it follows from `patOK p`, `dataOK` of every stored fact and the scalar-repeats condition) -/
def MatcherSoundOn (F : List (String × Obj)) (p : Obj) : Prop :=
  ∀ e, e ∈ F → ∀ (bss : List Bs), matchesJ (.obj p) (.obj e.2) = .ok bss → bss ≠ [] →
    ∃ σ, pmv σ (.obj p) (.obj e.2) = true

/-- the (id, bindings) view of a search result -/
def projRes (r : List (String × Obj × List Bs)) : List (String × List Bs) := r.map (fun x => (x.1, x.2.2))

import RulioModel.Query

/-! # Event processing (events.go): FindRules → EvalRule → EvalRuleCondition → ExecRuleAction, `steps = 0`.
Rules are visited in list order (the Go code ranges over a map; outcomes that depend on that order are
flagged by `orderDependent`). -/

structure ActNode where
  ok : Bool
  value : J
structure CondNode where
  bs : Bs
  err : Option LErr          -- condition failed (aborts the whole walk)
  acts : List ActNode
structure RuleNode where
  id : String
  bss : List Bs
  conds : List CondNode
structure Tree where
  err : Option LErr          -- FindRules failed
  rules : List RuleNode
  values : List J
  aborted : Bool             -- a failed condition / serial action stopped the walk

/-- a rule action: template evaluated on the stripped bindings -/
def execAction (a : J) (bs : Bs) : Except LErr J :=
  match a with
  | .obj o => evalTmpl ((Obj.get? o "verif_tmpl").getD .null) (stripQ bs)
  | _ => .error "script"

def addDefault (bs : Bs) (k : String) (v : J) : Bs := if (bs.get? k).isSome then bs else bs ++ [(k, v)]

/-- `EvalRuleCondition.Do` + the actions below it -/
def evalCond (srch : Srch) (locName : String) (event : Obj) (id : String) (r : RuleM) (bs : Bs) : CondNode × List J × Bool :=
  let bs := addDefault (addDefault (addDefault bs "?event" (.obj event)) "?location" (.str locName)) "?ruleId" (.str id)
  let res : Except LErr (List Bs) := match r.condition with
    | none => .ok [bs]
    | some q => do let q' ← parseQuery (4 * sz q + 4) q; execQ srch q' [bs]
  match res with
  | .error e => ({ bs := bs, err := some e, acts := [] }, [], true)
  | .ok out =>
    let pairs := out.flatMap (fun b => r.actions.map (fun a => (b, a)))
    if r.serial then
      -- stop at the first failing action
      let rec go (ps : List (Bs × J)) (acc : List ActNode) (vals : List J) : List ActNode × List J × Bool :=
        match ps with
        | [] => (acc, vals, false)
        | (b, a) :: rest =>
          match execAction a b with
          | .ok v => go rest (acc ++ [{ ok := true, value := v }]) (vals ++ [v])
          | .error _ => (acc ++ [{ ok := false, value := .null }], vals, true)
      let (acts, vals, ab) := go pairs [] []
      ({ bs := bs, err := none, acts := acts }, vals, ab)
    else
      let acts := pairs.map (fun (b, a) => match execAction a b with
        | .ok v => ({ ok := true, value := v } : ActNode)
        | .error _ => { ok := false, value := .null })
      ({ bs := bs, err := none, acts := acts }, (acts.filter (·.ok)).map (·.value), false)

/-- `ProcessEvent` given the dispatched candidates `cands` (id, rule, enabled) in visiting order -/
def processEvent (srch : Srch) (locName : String) (event : Obj) (cands : List (String × RuleM × Bool)) : Tree :=
  -- FindRules.Do: enabled filter and the re-match of `when`
  let rec find (cs : List (String × RuleM × Bool)) (acc : List (String × RuleM × List Bs)) : Except LErr (List (String × RuleM × List Bs)) :=
    match cs with
    | [] => .ok acc
    | (id, r, en) :: rest =>
      if !en then find rest acc else
      match r.when? with
      | some pat =>
        (match matchesJ (.obj pat) (.obj event) with
         | .error e => .error e
         | .ok bss => find rest (if bss.isEmpty then acc else acc ++ [(id, r, bss)]))
      | none => find rest (acc ++ [(id, r, [[]])])
  match find cands [] with
  | .error e => { err := some e, rules := [], values := [], aborted := true }
  | .ok disp =>
    let rec walk (ds : List (String × RuleM × List Bs)) (acc : List RuleNode) (vals : List J) : List RuleNode × List J × Bool :=
      match ds with
      | [] => (acc, vals, false)
      | (id, r, bss) :: rest =>
        let rec conds (bs : List Bs) (cacc : List CondNode) (vals : List J) : List CondNode × List J × Bool :=
          match bs with
          | [] => (cacc, vals, false)
          | b :: more =>
            let (cn, vs, ab) := evalCond srch locName event id r b
            if ab then (cacc ++ [cn], vals ++ vs, true) else conds more (cacc ++ [cn]) (vals ++ vs)
        let (cns, vals', ab) := conds bss [] vals
        let node : RuleNode := { id := id, bss := bss, conds := cns }
        if ab then (acc ++ [node], vals', true) else walk rest (acc ++ [node]) vals'
    let (nodes, vals, ab) := walk disp [] []
    { err := none, rules := nodes, values := vals, aborted := ab }

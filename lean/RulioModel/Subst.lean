import RulioModel.Json

/-! # Substitution of bindings into the `code` of an HTTP action (actions.go: `SubstituteBindings`,
`substituteInterface`, `substituteString`)

An action whose endpoint is an `http:`/`https:` URL POSTs `{"bindings": bs, "opts": a.Opts, "code": C}`.
With `"subvars": true` (the default of a rule's action) `C` is the action's code string parsed as JSON with
every string in it (map keys included) sent through `substituteString`:

* the string is exactly a key of the bindings → the bound value (any JSON type);
* otherwise, the string is a *naked* variable (`^\?[_a-zA-Z][_0-9a-zA-Z]*$`) → the location control's
  `DefaultVariableValue` when `UseDefaultVariableValue` is set (it is in `DefaultControl()`, with the value
  `"undefined"`), else the error `naked variable '?x' unbound`;
* otherwise, for every binding (in Go map order) the regexp `\?name\b` is replaced textually by the JSON text of
  the value.

The model is exact on the **fragment** `substFrag`: every string of the template is a naked variable or contains no
`?` at all, and no map key contains a `?`. There the third step changes nothing (every binding key starts with `?`,
so its regexp needs a literal `?` in the subject) and the answer does not depend on the order of the bindings.
Strings that mix text and variables (`"id-?w"`), non-naked strings with a `?` and keys with a `?` are outside:
`substD` answers them with an error that names them (the exact-match step is still modelled for every string).
Assumption on the bindings (`VarKeys`): every key contains a `?` (keys are variables: they come from pattern
matching and from `"?" + property` of a code condition's value). Numbers are integers (`J.num`), so
`CoerceFakeFloats` is the identity. -/

def isNameStart (c : Char) : Bool := c == '_' || c.isAlpha
def isNameChar (c : Char) : Bool := c == '_' || c.isAlphanum

/-- `IsNakedVariable`: `^\?[_a-zA-Z][_0-9a-zA-Z]*$` -/
def isNaked (s : String) : Bool :=
  match s.toList with
  | '?' :: c :: rest => isNameStart c && rest.all isNameChar
  | _ => false

/-- the string contains a `?` somewhere -/
def hasQ (s : String) : Bool := s.toList.contains '?'

/-! ### strings that mix text and variables (`"id-?w"`)

For every binding the regexp `\?name\b` is replaced by the text of the value. Modelled where the outcome does not depend on
the order in which Go visits the bindings: every binding name is `?` + an identifier, and a value inserted into a string is
a scalar whose text contains no `?` (it could be taken for a variable by a later replacement), no `$` (`ReplaceAllString`
expands it) and no `\`. Then `\?name\b` matches exactly the tokens `?` + maximal run of word characters that equal the
name: `?user` does not match inside `?userId`. A token directly followed by another `?` is not modelled either (replacing the second
first glues its text to the first). Everything else answers "not modelled". -/

def isWordChar (c : Char) : Bool := c == '_' || c.isAlphanum

/-- the text `substituteString` inserts for a scalar value (a string as it is, anything else as JSON text) -/
def scalarText : J → Option String
  | .str s => if s.toList.any (fun c => c == '?' || c == '$' || c == '\\') then none else some s
  | .num n => some (toString n)
  | .bool b => some (if b then "true" else "false")
  | .null => some "null"
  | _ => none

def takeWord : List Char → List Char × List Char
  | [] => ([], [])
  | c :: r => if isWordChar c then ((takeWord r).1.cons c, (takeWord r).2) else ([], c :: r)

def substMixedAux (bs : Bs) : Nat → List Char → Except String (List Char)
  | 0, _ => .error "not modelled: fuel"
  | _, [] => .ok []
  | fuel + 1, c :: r =>
    if c == '?' then
      let w := (takeWord r).1
      let rest := (takeWord r).2
      -- a variable right after this one (`?a?b`): whether `?a\b` still matches depends on whether `?b` was replaced first
      if (match rest with | '?' :: _ => true | _ => false) then .error "not modelled: a variable right after another" else
      match bs.get? (String.ofList ('?' :: w)) with
      | some v =>
        (match scalarText v with
         | some t => (match substMixedAux bs fuel rest with | .ok o => .ok (t.toList ++ o) | .error e => .error e)
         | none => .error "not modelled: a structured or special value inside a string")
      | none => (match substMixedAux bs fuel rest with | .ok o => .ok ('?' :: w ++ o) | .error e => .error e)
    else (match substMixedAux bs fuel r with | .ok o => .ok (c :: o) | .error e => .error e)

def substMixed (bs : Bs) (s : String) : Except String J :=
  if bs.all (fun kv => (match kv.1.toList with | '?' :: c :: rest => isNameStart c && rest.all isNameChar | _ => false)) then
    (match substMixedAux bs (s.length + 1) s.toList with
     | .ok o => .ok (.str (String.ofList o))
     | .error e => .error e)
  else .error "not modelled: a binding whose name is not ? + identifier"

/-- `substituteString` (see the header); `d` = `some DefaultVariableValue` when `UseDefaultVariableValue` is set -/
def substStr (d : Option J) (bs : Bs) (s : String) : Except String J :=
  match bs.get? s with
  | some v => .ok v
  | none =>
    if isNaked s then
      (match d with
       | some v => .ok v
       | none => .error ("naked variable '" ++ s ++ "' unbound"))
    else if hasQ s then .error ("not modelled: mixed string '" ++ s ++ "'")
    else .ok (.str s)

mutual
/-- `substituteInterface` with the control's default variable value `d` -/
def substD (d : Option J) (bs : Bs) : J → Except String J
  | .null => .ok .null
  | .bool b => .ok (.bool b)
  | .num n => .ok (.num n)
  | .str s => substStr d bs s
  | .arr xs => match substDL d bs xs with
    | .ok ys => .ok (.arr ys)
    | .error e => .error e
  | .obj kvs => match substDO d bs kvs with
    | .ok r => .ok (.obj r)
    | .error e => .error e
def substDL (d : Option J) (bs : Bs) : List J → Except String (List J)
  | [] => .ok []
  | x :: xs => match substD d bs x with
    | .error e => .error e
    | .ok y => match substDL d bs xs with
      | .error e => .error e
      | .ok ys => .ok (y :: ys)
def substDO (d : Option J) (bs : Bs) : List (String × J) → Except String (List (String × J))
  | [] => .ok []
  | (k, v) :: kvs =>
    if hasQ k then .error ("not modelled: variable in map key '" ++ k ++ "'") else
    match substD d bs v with
    | .error e => .error e
    | .ok y => match substDO d bs kvs with
      | .error e => .error e
      | .ok r => .ok ((k, y) :: r)
end

/-- `substituteInterface` under a control without `UseDefaultVariableValue`: an unbound naked variable is an error -/
def substJ (bs : Bs) (t : J) : Except String J := substD none bs t

/-! ### the extension used by the driver: mixed strings answered by `substMixed` (everything else as `substD`) -/

def substStrX (d : Option J) (bs : Bs) (s : String) : Except String J :=
  match bs.get? s with
  | some v => .ok v
  | none =>
    if isNaked s then
      (match d with
       | some v => .ok v
       | none => .error ("naked variable '" ++ s ++ "' unbound"))
    else if hasQ s then substMixed bs s
    else .ok (.str s)

mutual
def substDX (d : Option J) (bs : Bs) : J → Except String J
  | .null => .ok .null
  | .bool b => .ok (.bool b)
  | .num n => .ok (.num n)
  | .str s => substStrX d bs s
  | .arr xs => match substDXL d bs xs with
    | .ok ys => .ok (.arr ys)
    | .error e => .error e
  | .obj kvs => match substDXO d bs kvs with
    | .ok r => .ok (.obj r)
    | .error e => .error e
def substDXL (d : Option J) (bs : Bs) : List J → Except String (List J)
  | [] => .ok []
  | x :: xs => match substDX d bs x with
    | .error e => .error e
    | .ok y => match substDXL d bs xs with
      | .error e => .error e
      | .ok ys => .ok (y :: ys)
def substDXO (d : Option J) (bs : Bs) : List (String × J) → Except String (List (String × J))
  | [] => .ok []
  | (k, v) :: kvs =>
    if hasQ k then .error ("not modelled: variable in map key '" ++ k ++ "'") else
    match substDX d bs v with
    | .error e => .error e
    | .ok y => match substDXO d bs kvs with
      | .error e => .error e
      | .ok r => .ok ((k, y) :: r)
end

theorem substStrX_of_ok {d : Option J} {bs : Bs} {s : String} {r : J} (h : substStr d bs s = .ok r) : substStrX d bs s = .ok r := by
  unfold substStr at h
  unfold substStrX
  split
  · next v hg => simpa [hg] using h
  · next hg =>
    simp only [hg] at h
    split
    · next hn => simpa [hn] using h
    · next hn =>
      simp only [hn, Bool.false_eq_true, if_false] at h
      split
      · next hq => simp [hq] at h
      · next hq => simpa [hq] using h

mutual
/-- the extension is conservative: wherever `substD` answers, `substDX` answers the same -/
theorem substDX_of_ok {d : Option J} {bs : Bs} : ∀ (t r : J), substD d bs t = .ok r → substDX d bs t = .ok r
  | .null, r, h => by simpa [substD, substDX] using h
  | .bool _, r, h => by simpa [substD, substDX] using h
  | .num _, r, h => by simpa [substD, substDX] using h
  | .str s, r, h => by
    simp only [substD] at h
    simp only [substDX]
    exact substStrX_of_ok h
  | .arr xs, r, h => by
    simp only [substD] at h
    simp only [substDX]
    split at h
    · next ys hy => rw [substDXL_of_ok xs ys hy]; exact h
    · cases h
  | .obj kvs, r, h => by
    simp only [substD] at h
    simp only [substDX]
    split at h
    · next ys hy => rw [substDXO_of_ok kvs ys hy]; exact h
    · cases h
theorem substDXL_of_ok {d : Option J} {bs : Bs} : ∀ (xs ys : List J), substDL d bs xs = .ok ys → substDXL d bs xs = .ok ys
  | [], ys, h => by simpa [substDL, substDXL] using h
  | x :: xs, ys, h => by
    simp only [substDL] at h
    simp only [substDXL]
    split at h
    · cases h
    · next y hy =>
      split at h
      · cases h
      · next zs hz => rw [substDX_of_ok x y hy, substDXL_of_ok xs zs hz]; exact h
theorem substDXO_of_ok {d : Option J} {bs : Bs} :
    ∀ (kvs r : List (String × J)), substDO d bs kvs = .ok r → substDXO d bs kvs = .ok r
  | [], r, h => by simpa [substDO, substDXO] using h
  | (k, v) :: kvs, r, h => by
    simp only [substDO] at h
    simp only [substDXO]
    split at h
    · cases h
    · next hq =>
      simp only [hq, if_false]
      split at h
      · cases h
      · next y hy =>
        split at h
        · cases h
        · next r' hr => rw [substDX_of_ok v y hy, substDXO_of_ok kvs r' hr]; exact h
end

mutual
/-- the fragment on which `substD` is the real code's answer -/
def substFrag : J → Bool
  | .str s => isNaked s || !hasQ s
  | .arr xs => substFragL xs
  | .obj kvs => substFragO kvs
  | _ => true
def substFragL : List J → Bool
  | [] => true
  | x :: xs => substFrag x && substFragL xs
def substFragO : List (String × J) → Bool
  | [] => true
  | (k, v) :: kvs => !hasQ k && substFrag v && substFragO kvs
end

mutual
/-- no string and no key of the document contains a `?` (nothing left that substitution could touch) -/
def qfree : J → Bool
  | .str s => !hasQ s
  | .arr xs => qfreeL xs
  | .obj kvs => qfreeO kvs
  | _ => true
def qfreeL : List J → Bool
  | [] => true
  | x :: xs => qfree x && qfreeL xs
def qfreeO : List (String × J) → Bool
  | [] => true
  | (k, v) :: kvs => !hasQ k && qfree v && qfreeO kvs
end

mutual
/-- the strings in value position (array elements, map values, the document itself), left to right -/
def strLeaves : J → List String
  | .str s => [s]
  | .arr xs => strLeavesL xs
  | .obj kvs => strLeavesO kvs
  | _ => []
def strLeavesL : List J → List String
  | [] => []
  | x :: xs => strLeaves x ++ strLeavesL xs
def strLeavesO : List (String × J) → List String
  | [] => []
  | (_, v) :: kvs => strLeaves v ++ strLeavesO kvs
end

/-- every key of the bindings is a variable (contains a `?`) -/
def VarKeys (bs : Bs) : Prop := ∀ kv ∈ bs, hasQ kv.1 = true
/-- every bound value is free of `?` -/
def QfreeVals (bs : Bs) : Prop := ∀ kv ∈ bs, qfree kv.2 = true

/-! ## lemmas (used by `Props/C04.lean`) -/

namespace SubstLemmas

theorem naked_hasQ (s : String) (h : isNaked s = true) : hasQ s = true := by
  unfold isNaked at h
  unfold hasQ
  split at h
  · next c rest heq => rw [heq]; simp
  · cases h

theorem get?_none_of_noQ {bs : Bs} (hk : VarKeys bs) {s : String} (hs : hasQ s = false) : bs.get? s = none := by
  induction bs with
  | nil => rfl
  | cons kv rest ih =>
    obtain ⟨k, v⟩ := kv
    have hk1 : hasQ k = true := hk (k, v) (List.mem_cons_self ..)
    have hne : (s == k) = false := by
      apply Bool.eq_false_iff.mpr
      intro h; have : s = k := by simpa using h
      subst this; rw [hs] at hk1; cases hk1
    simp only [Bs.get?, hne]
    exact ih (fun kv h => hk kv (List.mem_cons_of_mem _ h))

theorem get?_mem {bs : Bs} {s : String} {v : J} (h : bs.get? s = some v) : (s, v) ∈ bs := by
  induction bs with
  | nil => cases h
  | cons kv rest ih =>
    obtain ⟨k, w⟩ := kv
    simp only [Bs.get?] at h
    split at h
    · next heq =>
      have : s = k := by simpa using heq
      cases h; subst this; exact List.mem_cons_self ..
    · exact List.mem_cons_of_mem _ (ih h)

theorem substStr_noQ (d : Option J) {bs : Bs} (hk : VarKeys bs) {s : String} (hs : hasQ s = false) :
    substStr d bs s = .ok (.str s) := by
  have hn : isNaked s = false := by
    cases h : isNaked s with
    | false => rfl
    | true => rw [naked_hasQ s h] at hs; cases hs
  simp [substStr, get?_none_of_noQ hk hs, hn, hs]

mutual
theorem ground_J (d : Option J) {bs : Bs} (hk : VarKeys bs) : ∀ t : J, qfree t = true → substD d bs t = .ok t
  | .null, _ => rfl
  | .bool _, _ => rfl
  | .num _, _ => rfl
  | .str s, h => by
    simp only [qfree, Bool.not_eq_true'] at h
    simpa [substD] using substStr_noQ d hk h
  | .arr xs, h => by
    simp only [qfree] at h
    simp [substD, ground_L d hk xs h]
  | .obj kvs, h => by
    simp only [qfree] at h
    simp [substD, ground_O d hk kvs h]
theorem ground_L (d : Option J) {bs : Bs} (hk : VarKeys bs) : ∀ xs : List J, qfreeL xs = true → substDL d bs xs = .ok xs
  | [], _ => rfl
  | x :: xs, h => by
    simp only [qfreeL, Bool.and_eq_true] at h
    simp [substDL, ground_J d hk x h.1, ground_L d hk xs h.2]
theorem ground_O (d : Option J) {bs : Bs} (hk : VarKeys bs) :
    ∀ kvs : List (String × J), qfreeO kvs = true → substDO d bs kvs = .ok kvs
  | [], _ => rfl
  | (k, v) :: kvs, h => by
    simp only [qfreeO, Bool.and_eq_true, Bool.not_eq_true'] at h
    simp [substDO, h.1.1, ground_J d hk v h.1.2, ground_O d hk kvs h.2]
end

theorem substStr_qfree {d : Option J} {bs : Bs} (hv : QfreeVals bs) (hd : ∀ v, d = some v → qfree v = true)
    {s : String} {r : J} (h : substStr d bs s = .ok r) : qfree r = true := by
  unfold substStr at h
  split at h
  · next v hg => cases h; exact hv _ (get?_mem hg)
  · split at h
    · split at h
      · cases h; exact hd _ rfl
      · cases h
    · split at h
      · cases h
      · next hq => cases h; simpa [qfree] using hq

mutual
theorem result_J {d : Option J} {bs : Bs} (hv : QfreeVals bs) (hd : ∀ v, d = some v → qfree v = true) :
    ∀ (t r : J), substD d bs t = .ok r → qfree r = true
  | .null, r, h => by cases h; rfl
  | .bool _, r, h => by cases h; rfl
  | .num _, r, h => by cases h; rfl
  | .str s, r, h => substStr_qfree hv hd (by simpa [substD] using h)
  | .arr xs, r, h => by
    simp only [substD] at h
    split at h
    · next ys hy => cases h; simpa [qfree] using result_L hv hd xs ys hy
    · cases h
  | .obj kvs, r, h => by
    simp only [substD] at h
    split at h
    · next ys hy => cases h; simpa [qfree] using result_O hv hd kvs ys hy
    · cases h
theorem result_L {d : Option J} {bs : Bs} (hv : QfreeVals bs) (hd : ∀ v, d = some v → qfree v = true) :
    ∀ (xs ys : List J), substDL d bs xs = .ok ys → qfreeL ys = true
  | [], ys, h => by cases h; rfl
  | x :: xs, ys, h => by
    simp only [substDL] at h
    split at h
    · cases h
    · next y hy =>
      split at h
      · cases h
      · next ys' hys =>
        cases h
        simp [qfreeL, result_J hv hd x y hy, result_L hv hd xs ys' hys]
theorem result_O {d : Option J} {bs : Bs} (hv : QfreeVals bs) (hd : ∀ v, d = some v → qfree v = true) :
    ∀ (kvs r : List (String × J)), substDO d bs kvs = .ok r → qfreeO r = true
  | [], r, h => by cases h; rfl
  | (k, v) :: kvs, r, h => by
    simp only [substDO] at h
    split at h
    · cases h
    · next hq =>
      split at h
      · cases h
      · next y hy =>
        split at h
        · cases h
        · next r' hr =>
          cases h
          simp [qfreeO, hq, result_J hv hd v y hy, result_O hv hd kvs r' hr]
end

mutual
theorem agree_J (d : Option J) (bs bs' : Bs) : ∀ t : J, (∀ x ∈ strLeaves t, bs.get? x = bs'.get? x) → substD d bs t = substD d bs' t
  | .null, _ => rfl
  | .bool _, _ => rfl
  | .num _, _ => rfl
  | .str s, h => by
    have := h s (by simp [strLeaves])
    simp [substD, substStr, this]
  | .arr xs, h => by
    simp only [strLeaves] at h
    simp [substD, agree_L d bs bs' xs h]
  | .obj kvs, h => by
    simp only [strLeaves] at h
    simp [substD, agree_O d bs bs' kvs h]
theorem agree_L (d : Option J) (bs bs' : Bs) : ∀ xs : List J, (∀ x ∈ strLeavesL xs, bs.get? x = bs'.get? x) → substDL d bs xs = substDL d bs' xs
  | [], _ => rfl
  | x :: xs, h => by
    simp only [strLeavesL, List.mem_append] at h
    simp [substDL, agree_J d bs bs' x (fun s hs => h s (Or.inl hs)), agree_L d bs bs' xs (fun s hs => h s (Or.inr hs))]
theorem agree_O (d : Option J) (bs bs' : Bs) :
    ∀ kvs : List (String × J), (∀ x ∈ strLeavesO kvs, bs.get? x = bs'.get? x) → substDO d bs kvs = substDO d bs' kvs
  | [], _ => rfl
  | (k, v) :: kvs, h => by
    simp only [strLeavesO, List.mem_append] at h
    simp [substDO, agree_J d bs bs' v (fun s hs => h s (Or.inl hs)), agree_O d bs bs' kvs (fun s hs => h s (Or.inr hs))]
end

/-- on the fragment, substitution succeeds as soon as every naked variable of the template is bound or a default exists -/
def Resolvable (d : Option J) (bs : Bs) (ls : List String) : Prop :=
  ∀ x ∈ ls, isNaked x = true → bs.get? x = none → d.isSome = true

theorem substStr_ok {d : Option J} {bs : Bs} {s : String} (hf : (isNaked s || !hasQ s) = true)
    (hr : isNaked s = true → bs.get? s = none → d.isSome = true) : ∃ r, substStr d bs s = .ok r := by
  unfold substStr
  split
  · exact ⟨_, rfl⟩
  · next hg =>
    split
    · next hn =>
      have := hr hn hg
      cases d with
      | none => cases this
      | some v => exact ⟨v, rfl⟩
    · next hn =>
      have hq : hasQ s = false := by
        cases hh : hasQ s with
        | false => rfl
        | true => simp [hn, hh] at hf
      simp [hq]

mutual
theorem ok_J {d : Option J} {bs : Bs} : ∀ t : J, substFrag t = true → Resolvable d bs (strLeaves t) → ∃ r, substD d bs t = .ok r
  | .null, _, _ => ⟨_, rfl⟩
  | .bool _, _, _ => ⟨_, rfl⟩
  | .num _, _, _ => ⟨_, rfl⟩
  | .str s, hf, hr => by
    simp only [substFrag] at hf
    simpa [substD] using substStr_ok hf (hr s (by simp [strLeaves]))
  | .arr xs, hf, hr => by
    simp only [substFrag] at hf
    simp only [strLeaves] at hr
    obtain ⟨ys, hy⟩ := ok_L xs hf hr
    exact ⟨.arr ys, by simp [substD, hy]⟩
  | .obj kvs, hf, hr => by
    simp only [substFrag] at hf
    simp only [strLeaves] at hr
    obtain ⟨ys, hy⟩ := ok_O kvs hf hr
    exact ⟨.obj ys, by simp [substD, hy]⟩
theorem ok_L {d : Option J} {bs : Bs} : ∀ xs : List J, substFragL xs = true → Resolvable d bs (strLeavesL xs) → ∃ r, substDL d bs xs = .ok r
  | [], _, _ => ⟨_, rfl⟩
  | x :: xs, hf, hr => by
    simp only [substFragL, Bool.and_eq_true] at hf
    obtain ⟨y, hy⟩ := ok_J x hf.1 (fun s hs => hr s (by simp [strLeavesL, hs]))
    obtain ⟨ys, hys⟩ := ok_L xs hf.2 (fun s hs => hr s (by simp [strLeavesL, hs]))
    exact ⟨y :: ys, by simp [substDL, hy, hys]⟩
theorem ok_O {d : Option J} {bs : Bs} :
    ∀ kvs : List (String × J), substFragO kvs = true → Resolvable d bs (strLeavesO kvs) → ∃ r, substDO d bs kvs = .ok r
  | [], _, _ => ⟨_, rfl⟩
  | (k, v) :: kvs, hf, hr => by
    simp only [substFragO, Bool.and_eq_true, Bool.not_eq_true'] at hf
    obtain ⟨y, hy⟩ := ok_J v hf.1.2 (fun s hs => hr s (by simp [strLeavesO, hs]))
    obtain ⟨ys, hys⟩ := ok_O kvs hf.2 (fun s hs => hr s (by simp [strLeavesO, hs]))
    exact ⟨(k, y) :: ys, by simp [substDO, hf.1.1, hy, hys]⟩
end

theorem substStr_unbound {bs : Bs} {s : String} (hn : isNaked s = true) (hg : bs.get? s = none) :
    substStr none bs s = .error ("naked variable '" ++ s ++ "' unbound") := by
  simp [substStr, hg, hn]

mutual
theorem err_J {bs : Bs} {x : String} (hn : isNaked x = true) (hg : bs.get? x = none) :
    ∀ t : J, x ∈ strLeaves t → ∃ e, substD none bs t = .error e
  | .null, h => by simp [strLeaves] at h
  | .bool _, h => by simp [strLeaves] at h
  | .num _, h => by simp [strLeaves] at h
  | .str s, h => by
    have : x = s := by simpa [strLeaves] using h
    subst this
    exact ⟨_, by simpa [substD] using substStr_unbound hn hg⟩
  | .arr xs, h => by
    simp only [strLeaves] at h
    obtain ⟨e, he⟩ := err_L hn hg xs h
    exact ⟨e, by simp [substD, he]⟩
  | .obj kvs, h => by
    simp only [strLeaves] at h
    obtain ⟨e, he⟩ := err_O hn hg kvs h
    exact ⟨e, by simp [substD, he]⟩
theorem err_L {bs : Bs} {x : String} (hn : isNaked x = true) (hg : bs.get? x = none) :
    ∀ xs : List J, x ∈ strLeavesL xs → ∃ e, substDL none bs xs = .error e
  | [], h => by simp [strLeavesL] at h
  | y :: ys, h => by
    simp only [strLeavesL, List.mem_append] at h
    cases hy : substD none bs y with
    | error e => exact ⟨e, by simp [substDL, hy]⟩
    | ok y' =>
      rcases h with h | h
      · obtain ⟨e, he⟩ := err_J hn hg y h
        rw [hy] at he; cases he
      · obtain ⟨e, he⟩ := err_L hn hg ys h
        exact ⟨e, by simp [substDL, hy, he]⟩
theorem err_O {bs : Bs} {x : String} (hn : isNaked x = true) (hg : bs.get? x = none) :
    ∀ kvs : List (String × J), x ∈ strLeavesO kvs → ∃ e, substDO none bs kvs = .error e
  | [], h => by simp [strLeavesO] at h
  | (k, v) :: kvs, h => by
    simp only [strLeavesO, List.mem_append] at h
    by_cases hq : hasQ k = true
    · exact ⟨"not modelled: variable in map key '" ++ k ++ "'", by simp [substDO, hq]⟩
    · cases hy : substD none bs v with
      | error e => exact ⟨e, by simp [substDO, hq, hy]⟩
      | ok y' =>
        rcases h with h | h
        · obtain ⟨e, he⟩ := err_J hn hg v h
          rw [hy] at he; cases he
        · obtain ⟨e, he⟩ := err_O hn hg kvs h
          exact ⟨e, by simp [substDO, hq, hy, he]⟩
end

/-- `substDL` is `mapM` -/
theorem substDL_eq_mapM (d : Option J) (bs : Bs) : ∀ xs : List J, substDL d bs xs = xs.mapM (substD d bs)
  | [] => rfl
  | x :: xs => by
    rw [List.mapM_cons, substDL, substDL_eq_mapM d bs xs]
    cases substD d bs x with
    | error e => rfl
    | ok y =>
      cases List.mapM (substD d bs) xs with
      | error e => rfl
      | ok ys => rfl

theorem substDO_eq_mapM (d : Option J) (bs : Bs) :
    ∀ kvs : List (String × J), (∀ kv ∈ kvs, hasQ kv.1 = false) →
      substDO d bs kvs = kvs.mapM (fun kv => (substD d bs kv.2).map (fun v => (kv.1, v)))
  | [], _ => rfl
  | (k, v) :: kvs, h => by
    have hk : hasQ k = false := h (k, v) (List.mem_cons_self ..)
    rw [List.mapM_cons, substDO, substDO_eq_mapM d bs kvs (fun kv hkv => h kv (List.mem_cons_of_mem _ hkv))]
    simp only [hk, Bool.false_eq_true, if_false]
    cases substD d bs v with
    | error e => rfl
    | ok y =>
      cases List.mapM (fun kv : String × J => (substD d bs kv.2).map (fun v => (kv.1, v))) kvs with
      | error e => rfl
      | ok ys => rfl

end SubstLemmas

import RulioModel.StateInv
import RulioModel.PatIndexSpec
import RulioModel.SysInv

/-! # Vocabulary for the composition theorems that close the `_partial` gaps of C06 / C07 / C09.
Core Lean only; nothing here changes the frozen model. -/

/-- the ids of stored facts that are expired at `now` -/
def expiredIds (s : St) (now : Int) : List String :=
  (s.facts.filter (fun e => match checkExpiration e.2 now with | .ok true => true | _ => false)).map (·.1)

/-- a fact `t` that expires at time 5 and carries the term `k`, a live fact `v` and an expired fact `w` without it -/
def expirySearchOps : List StOp :=
  [StOp.add "t" [("expires", J.num 5), ("k", .num 1)] 0, StOp.add "v" [("m", J.num 1)] 0,
   StOp.add "w" [("expires", J.num 6), ("z", .num 2)] 0]

/-- executable form of "the stored fact `id` is expired at `now`, can leave the pattern index, and carries every term
of the pattern `p`" (the facts a completed indexed `Search p` is proved to purge) -/
def purgeCandB (s : St) (p : Obj) (id : String) (now : Int) : Bool :=
  match amGet s.facts id with
  | some f =>
    (match checkExpiration f now with | .ok true => true | _ => false) && !unindexErr id f &&
      (extractTerms p).all (fun t => (extractTerms f).contains t)
  | none => false

/-- ok-results of a search / rule lookup as a list of ids (`none`: the call failed) -/
def okIds {α} (r : Except LErr (List (String × α))) : Option (List String) :=
  match r with | .ok l => some (l.map (·.1)) | .error _ => none

/-- a rule that expires at 5 -/
def expiryRuleOps : List StOp :=
  [StOp.add "r" [("rule", .obj [("when", .obj [("a", .num 1)]), ("action", .obj [("code", .str "1")])]),
                 ("expires", J.num 5)] 0,
   StOp.add "q" [("rule", .obj [("when", .obj [("a", .num 1)]), ("action", .obj [("code", .str "2")])])] 0]

/-- the index invariants a live indexed state satisfies (`reachable_wf`, `state_index_invariant`) -/
structure IdxInvs (s : St) : Prop where
  kind : s.kind = .indexed
  wf : WF s
  idx : StIdx s

/-- same memory, storage and id counter; the two indexes may differ -/
structure SameMem (s t : St) : Prop where
  facts : t.facts = s.facts
  store : t.store = s.store
  fresh : t.fresh = s.fresh
  kind : t.kind = s.kind

/-- the relation between a live indexed state `s` and its reloaded twin `t`: same memory, storage and counter, storage
the list image of memory, and both satisfy the index invariants (the indexes themselves differ: the live term index
keeps stale ids, id lists are in different orders) -/
structure ReloadSim (s t : St) : Prop where
  mem : SameMem s t
  live : IdxInvs s
  re : IdxInvs t
  storeEq : StoreEq s

/-- the later operations for which live and reloaded state are proved to stay in step: writes and `clear` always;
`Get` of an id whose fact is absent or not expired at that time; `Search` / `FindRules` at a time when no stored fact
is expired; `Rem` of a non-variable id at such a time when every stored rule can leave the pattern index
(otherwise the cascade may abort half-way, at a point that depends on the order of the term-index lists) -/
def ROp.okFor (s : St) : ROp → Prop
  | .add _ _ _ => True
  | .rem id now => NoneExpired s now ∧ isVar id = false ∧ UnindexOK s
  | .get id now => ∀ f, amGet s.facts id = some f → checkExpiration f now = .ok false
  | .search _ now => NoneExpired s now
  | .findRules _ now => NoneExpired s now
  | .clear => True

/-- every operation of the history is inside that fragment when its turn comes (on the live state) -/
def OpsOK : St → List ROp → Prop
  | _, [] => True
  | s, op :: rest => op.okFor s ∧ OpsOK (s.stepOp op).1 rest

/-- a history for the reload examples: a fact with an expiry, a rule, a dependent of the fact, an overwritten fact
(which leaves stale ids in the live term index) -/
def reloadOps : List ROp :=
  [.add "x" [("a", .num 1), ("expires", .num 100)] 10,
   .add "r" [("rule", .obj [("when", .obj [("a", .num 1)]), ("action", .obj [("code", .str "1")])])] 11,
   .add "d" [("deleteWith", .arr [.str "x"]), ("k", .str "v")] 12,
   .add "o" [("a", .num 1), ("b", .num 2)] 13, .add "o" [("c", .num 3)] 14]

/-- later operations inside the fragment `OpsOK` (after the reload at time 15) -/
def laterOps : List ROp :=
  [.add "y" [("b", .num 2)] 20, .get "x" 21, .add "" [("c", .num 3)] 23, .get "d" 24, .rem "x" 25]

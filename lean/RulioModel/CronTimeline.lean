import RulioModel.Gen.C16

/-! # Model of `cron.Cron` (cron/cron.go): the in-memory cron as a state machine with explicit time

Time is a `Nat` (the harness uses milliseconds). Job ids are `Nat` (ids are only ever compared for equality;
the harness numbers the id strings). `serial` is a ghost field: the number of the `Add` call that created the
job object (the real code has the pointer identity of `*CronJob`); it never influences the behaviour.

The comparison operators and the presence/order of the decisive statements come from the regenerated
`RulioModel/Gen/C16.lean` (`readyTest`, `searchTest`, `limitTest`, `scheduleRemsFirst`, `tickRearmsAlways`,
`popTracksRunning`, `remCancelsRunning`, `rescheduleViaRunning`, …), so a flipped comparison or a dropped call in
cron.go changes the definitions below. With the four `…Running`/`…Always` flags `false` this is the cron before the
repairs of C16-rem-head-disarms and C16-rem-in-flight (the timer is re-armed only after a pop; `Cron.run` re-schedules
through `Cron.schedule` whatever happened while `Fn` ran). -/

namespace CronM
open C16Gen

/-- `cron.CronJob`: `period = 0` ⇔ `Expression == nil` (one-shot); otherwise the job recurs at the multiples of `period`
(the stand-in for `cronexpr.Expression.Next`, of which only `now < Next(now)` is used by the theorems). -/
structure Job where
  id : Nat
  next : Nat
  period : Nat
  serial : Nat
  deriving DecidableEq, Repr, Inhabited

/-- one invocation of `job.Fn` (ghost log) -/
structure Fire where
  id : Nat
  serial : Nat
  period : Nat
  /-- `job.Next` at the moment the loop popped the job -/
  due : Nat
  /-- the loop's `now` -/
  time : Nat
  deriving DecidableEq, Repr, Inhabited

structure Cron where
  /-- `Cron.Timeline` -/
  tl : List Job := []
  /-- ghost: jobs whose `Fn` is running in `Cron.run` (popped; `Fn` has not returned yet) -/
  inflight : List Job := []
  /-- `Cron.running`: the recurring jobs among them that `Cron.reschedule` will put back (not removed / replaced since) -/
  running : List Job := []
  log : List Fire := []
  clock : Nat := 0
  /-- ghost: number of `Add` calls so far -/
  serial : Nat := 0
  /-- `Cron.Limit` -/
  limit : Nat := 0
  /-- `suspendedLocally` -/
  suspended : Bool := false
  /-- the loop goroutine sits in `time.Sleep(c.PauseDuration)` -/
  paused : Bool := false
  /-- `c.timer`: `some t` = armed, expires at `t`; `none` = stopped or expired. `NewCron` arms it with 0 s. -/
  armed : Option Nat := some 0
  deriving Repr, Inhabited

def init (limit : Nat) : Cron := { limit := limit }

/-- stand-in for `Expression.Next(now)`: the first multiple of `p` strictly after `now` -/
def nextOcc (p now : Nat) : Nat := (now / p + 1) * p

/-- `Cron.insert`: position = `Timeline.Search(job.Next)` = first index `i` with `searchTest job.Next tl[i].Next`
(`sort.Search` finds exactly that index on a timeline on which the test is monotone, i.e. a sorted one). -/
def insertJob (j : Job) : List Job → List Job
  | [] => [j]
  | x :: xs => if searchTest j.next x.next then j :: x :: xs else x :: insertJob j xs

/-- `Cron.rem`: cut out the first entry with that id -/
def remJob (id : Nat) (tl : List Job) : List Job :=
  if remErases then tl.eraseP (fun j => j.id == id) else tl

/-- an entry with that id exists -/
def hasJob (id : Nat) (tl : List Job) : Bool := tl.any (fun j => j.id == id)

/-- `Cron.rem`, second loop: cut the entry with that id out of `c.running` -/
def cancelRunning (id : Nat) (r : List Job) : List Job :=
  if remCancelsRunning then r.eraseP (fun j => j.id == id) else r

/-- `Cron.resetTimer`: arm for the head of the timeline, stop when empty -/
def rearm (tl : List Job) : Option Nat := tl.head?.map (·.next)

/-- the first statement of `Cron.schedule`: a recurring job gets its next occurrence -/
def schedJob (clock : Nat) (j : Job) : Job :=
  if j.period = 0 then j else { j with next := nextOcc j.period clock }

/-- the capacity test of `Cron.schedule` -/
def atLimit (s : Cron) (checkLimit : Bool) (tl1 : List Job) : Bool := checkLimit && limitTest s.limit tl1.length

/-- `Cron.schedule`; the Bool is `err == nil` -/
def schedule (s : Cron) (j : Job) (checkLimit : Bool) : Cron × Bool :=
  let tl1 := if scheduleRemsFirst then remJob j.id s.tl else s.tl
  let run1 := if scheduleRemsFirst then cancelRunning j.id s.running else s.running
  if atLimit s checkLimit tl1 then ({ s with tl := tl1, running := run1 }, false)
  else
    let tl2 := insertJob (schedJob s.clock j) tl1
    ({ s with tl := tl2, running := run1, armed := if insertRearms then rearm tl2 else s.armed }, true)

/-- the `found` result of `Cron.Rem`: the job is pending, or (recurring) its `Fn` is running -/
def remFound (s : Cron) (id : Nat) : Bool := hasJob id s.tl || (remCancelsRunning && hasJob id s.running)

inductive Op where
  /-- time passes -/
  | advance (d : Nat)
  /-- `Cron.Add` (a one-shot with due time `due` when `period = 0`, else recurring) -/
  | add (id due period : Nat)
  /-- `Cron.Rem` -/
  | rem (id : Nat)
  /-- the loop receives from `c.timer.C` (a genuine expiry, or a stale value: ticks may come at any time) -/
  | tick
  /-- `Fn` of the in-flight job with this serial returns (rest of `Cron.run`) -/
  | done (serial : Nat)
  | suspend
  | resume
  /-- `pause`: the loop stops the timer and starts sleeping … -/
  | pauseBegin
  /-- … and re-arms the timer after `PauseDuration` -/
  | pauseEnd
  deriving DecidableEq, Repr, Inhabited

def Op.isControl : Op → Bool
  | .advance _ | .suspend | .resume | .pauseBegin | .pauseEnd => true
  | _ => false

def fireOf (j : Job) (now : Nat) : Fire := ⟨j.id, j.serial, j.period, j.next, now⟩

/-- the timer case of the loop in `Cron.start` -/
def tick (s : Cron) : Cron :=
  if s.paused then s else
  let s1 : Cron := match s.armed with
    | some t => if t ≤ s.clock then { s with armed := none } else s
    | none => s
  match s1.tl with
  | [] => s1
  | j :: rest =>
    if readyTest s1.clock j.next then
      let tl' := if popDropsHead then rest else j :: rest
      { s1 with tl := tl', inflight := j :: s1.inflight, log := fireOf j s1.clock :: s1.log,
                running := if popTracksRunning && j.period != 0 then j :: s1.running else s1.running,
                armed := if popRearms then rearm tl' else s1.armed }
    else if tickRearmsAlways then { s1 with armed := rearm s1.tl } else s1

/-- `Cron.reschedule`: the job object (pointer identity = `serial`) goes back on the timeline, for its next occurrence,
only if it is still in `c.running`; no `rem`, no capacity test -/
def reschedule (s : Cron) (j : Job) : Cron :=
  if s.running.any (fun x => x.serial == j.serial) then
    let tl2 := insertJob (schedJob s.clock j) s.tl
    { s with running := s.running.eraseP (fun x => x.serial == j.serial), tl := tl2,
             armed := if insertRearms then rearm tl2 else s.armed }
  else s

/-- the part of `Cron.run` after `job.Fn` returned -/
def done (s : Cron) (k : Nat) : Cron :=
  match s.inflight.find? (fun j => j.serial == k) with
  | none => s
  | some j =>
    let s1 := { s with inflight := s.inflight.eraseP (fun j => j.serial == k) }
    if (if j.period = 0 then rescheduleOnce else rescheduleRecurring) then
      (if rescheduleViaRunning && j.period != 0 then reschedule s1 j else (schedule s1 j false).1)
    else s1

def step (s : Cron) : Op → Cron
  | .advance d => { s with clock := s.clock + d }
  | .add id due period => (schedule { s with serial := s.serial + 1 } ⟨id, due, period, s.serial⟩ true).1
  | .rem id => { s with tl := remJob id s.tl, running := cancelRunning id s.running }
  | .tick => tick s
  | .done k => done s k
  | .suspend => { s with suspended := true, armed := none }
  | .resume =>
    if s.suspended then { s with suspended := false, armed := if resumeRearms then rearm s.tl else s.armed } else s
  | .pauseBegin => { s with paused := true, armed := none }
  | .pauseEnd => if s.paused then { s with paused := false, armed := rearm s.tl } else s

def run (s : Cron) (ops : List Op) : Cron := ops.foldl step s

/-- the `time.Timer` contract: an armed timer whose target time has come is delivered to the loop, unless the loop sleeps in a pause -/
def deliverable (s : Cron) : Bool :=
  !s.paused && (match s.armed with | some t => decide (t ≤ s.clock) | none => false)

/-- one delivery of the timer under that contract (`none`: no delivery is due) -/
def deliver (s : Cron) : Option Cron := if deliverable s then some (tick s) else none

/-- `n` deliveries in a row, each one due under the contract -/
def deliverN : Nat → Cron → Option Cron
  | 0, s => some s
  | n + 1, s => (deliver s).bind (deliverN n)

/-- fires of the job object created by the `k`-th `Add` -/
def firesOf (k : Nat) (s : Cron) : List Fire := s.log.filter (fun f => f.serial == k)

end CronM

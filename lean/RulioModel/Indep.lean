import RulioModel.Cache

/-! # C11 — requests to different locations do not interfere: the interleaving model

An engine serves clients; `step s i op` is client `i` performing `op` (a whole request, or one atomic step of a
request: the theorem does not care) on the global state `s`.  The *frame* hypothesis is an explicit structure: each
client has a component of the global state (for the System: the cache-table slot, the Location instance and the
storage bucket of the client's location), a step of client `i` reads and writes only `i`'s component. -/

structure Engine (Client : Type) where
  State : Type
  Op : Type
  Res : Type
  step : State → Client → Op → State × Res

structure Frame {Client : Type} (E : Engine Client) where
  Comp : Type
  view : E.State → Client → Comp
  /-- the answer depends on the client's own component only -/
  local_res : ∀ s s' i op, view s i = view s' i → (E.step s i op).2 = (E.step s' i op).2
  /-- so does the client's component afterwards -/
  local_upd : ∀ s s' i op, view s i = view s' i → view (E.step s i op).1 i = view (E.step s' i op).1 i
  /-- and nobody else's component changes -/
  frame : ∀ s i j op, i ≠ j → view (E.step s i op).1 j = view s j

variable {Client : Type} [DecidableEq Client]

/-- an interleaving: which client issues which operation, in global order (each client's subsequence is its own
request sequence in issue order) -/
def runAll (E : Engine Client) (s : E.State) : List (Client × E.Op) → E.State × List (Client × E.Res)
  | [] => (s, [])
  | (i, op) :: rest =>
    let x := E.step s i op
    let y := runAll E x.1 rest
    (y.1, (i, x.2) :: y.2)

/-- client `i`'s requests run alone, in their issue order -/
def runSolo (E : Engine Client) (s : E.State) (i : Client) : List (Client × E.Op) → E.State × List E.Res
  | [] => (s, [])
  | (j, op) :: rest =>
    if j = i then
      let x := E.step s i op
      let y := runSolo E x.1 i rest
      (y.1, x.2 :: y.2)
    else runSolo E s i rest

def resultsOf {R : Type} (i : Client) : List (Client × R) → List R
  | [] => []
  | (j, r) :: rest => if j = i then r :: resultsOf i rest else resultsOf i rest

/-! ## The System as an engine: one request = one step (the sequential semantics of `RulioModel/Cache.lean`) -/

inductive ROp (sem : LocSem) where
  | api (op : sem.Op) | create | peek

def ROp.toReq {sem : LocSem} (n : String) : ROp sem → Req sem
  | .api op => .api n op
  | .create => .create n
  | .peek => .peek n

def sysEngine (sem : LocSem) (cfg : Cfg) : Engine String where
  State := SysSt sem
  Op := ROp sem × Int × Int
  Res := Out sem
  step := fun st n op => reqE cfg st (op.1.toReq n) op.2.1 op.2.2

/-- a location's component of the System state: its cache-table slot and its storage bucket -/
def sysView {sem : LocSem} (st : SysSt sem) (n : String) : Option (CEntry sem) × sem.S :=
  (kget st.table n, storeOf st.store n)

/-! ## `ensureStorage` (system.go:700-714): check `sys.storage != nil`, then `GetStorage` and assign — no lock -/

inductive LzPC where
  | start (loc : String) (fact : Nat)      -- first request of a client: before the nil check
  | create (loc : String) (fact : Nat)     -- saw nil; before GetStorage + assignment
  | write (loc : String) (fact : Nat) (sid : Nat)   -- location bound to storage instance `sid`; before the write
  | done (sid : Nat)                       -- acknowledged
deriving DecidableEq, Repr

structure LzSt where
  storage : Option Nat := none                       -- sys.storage
  stores : List (List (String × Nat)) := []          -- every storage instance ever created, with its contents
  pcs : List LzPC := []
deriving DecidableEq, Repr

/-- `atomic = true` is the repaired protocol (check and create under one lock) -/
def lzStep (atomic : Bool) (s : LzSt) (tid : Nat) : LzSt :=
  match s.pcs[tid]? with
  | none => s
  | some pc =>
    let setPC (s : LzSt) (pc : LzPC) : LzSt := { s with pcs := setNth s.pcs tid pc }
    match pc with
    | .start loc f =>
      (match s.storage with
       | some sid => setPC s (.write loc f sid)
       | none =>
         if atomic then
           let sid := s.stores.length
           setPC { s with stores := s.stores ++ [[]], storage := some sid } (.write loc f sid)
         else setPC s (.create loc f))
    | .create loc f =>
      let sid := s.stores.length
      setPC { s with stores := s.stores ++ [[]], storage := some sid } (.write loc f sid)
    | .write loc f sid =>
      (match s.stores[sid]? with
       | some st => setPC { s with stores := setNth s.stores sid (st ++ [(loc, f)]) } (.done sid)
       | none => s)
    | .done _ => s

def lzRun (atomic : Bool) (s : LzSt) : List Nat → LzSt
  | [] => s
  | t :: rest => lzRun atomic (lzStep atomic s t) rest

/-- what a reload of `loc` sees: the contents of the storage `sys.storage` points to now -/
def lzVisible (s : LzSt) (loc : String) : List Nat :=
  match s.storage with
  | some sid => ((s.stores[sid]?).getD []).filterMap (fun p => if p.1 = loc then some p.2 else none)
  | none => []

import RulioModel.State

/-! # Location API (location.go) over the State model; a System is a finite map of locations.
Every method lists its guards in source order. -/

structure Ctx where
  rk : String := ""     -- caller's read key
  wk : String := ""     -- caller's write key

structure Loc where
  name : String
  st : St
  readOnly : Bool := false
  maxFacts : Nat := 1000
  hasProvider : Bool := true

/-- state-threading error monad: an error keeps the state reached so far -/
def LM (α : Type) := Loc → Loc × Except LErr α

namespace LM
def pure {α} (a : α) : LM α := fun l => (l, .ok a)
def bind {α β} (m : LM α) (f : α → LM β) : LM β := fun l =>
  match m l with
  | (l1, .ok a) => f a l1
  | (l1, .error e) => (l1, .error e)
def fail {α} (e : LErr) : LM α := fun l => (l, .error e)
def liftSt {α} (f : St → St × Except LErr α) : LM α := fun l =>
  let (s, r) := f l.st; ({ l with st := s }, r)
def get : LM Loc := fun l => (l, .ok l)
/-- run `m`, turning an error into a value -/
def attempt {α} (m : LM α) : LM (Except LErr α) := fun l =>
  match m l with
  | (l1, r) => (l1, .ok r)
end LM

instance : Monad LM where
  pure := LM.pure
  bind := LM.bind

def stGet (id : String) (now : Int) : LM Obj := LM.liftSt (fun s => s.get id now)
def stAdd (id : String) (x : Obj) (now : Int) : LM String := LM.liftSt (fun s => s.add id x now)
def stRem (id : String) (now : Int) : LM Bool := LM.liftSt (fun s => s.rem id now)
def stSearch (p : Obj) (now : Int) : LM (List (String × Obj × List Bs)) := LM.liftSt (fun s => s.search p now)
def stFindRules (ev : Obj) (now : Int) : LM (List (String × Obj)) := LM.liftSt (fun s => s.findRules ev now)

/-- `getPropFromFact` ∘ `genPropId`: (value, found) or an error -/
def getProp (id prop : String) (dflt : J) (now : Int) : LM (J × Bool) := do
  match ← LM.attempt (stGet (genPropId id prop) now) with
  | .error "notFound" => pure (dflt, false)
  | .error e => LM.fail e
  | .ok fact =>
    match fact.get? ("!" ++ prop) with
    | some v => pure (v, true)
    | none => LM.fail "missingProp"

/-- `GetPropString` with every error swallowed into the default, as its callers do -/
def getPropStringD (prop : String) (now : Int) : LM String := do
  match ← LM.attempt (getProp "" prop (.str "") now) with
  | .ok (.str s, _) => pure s
  | _ => pure ""

def setProp (id prop : String) (v : J) (now : Int) : LM String :=
  stAdd "" [("id", .str id), ("!" ++ prop, v), ("deleteWith", .arr [.str id])] now

def remProp (id prop : String) (now : Int) : LM Bool := stRem (genPropId id prop) now

inductive Guard where | enabled | checkRead | checkWrite | atCapacity
deriving DecidableEq, Repr

def enabled (now : Int) : LM Unit := do
  let e ← getPropStringD "enabled" now
  if e == "" || e == "yes" || e == "true" then pure () else LM.fail "disabled"

def checkWrite (c : Ctx) (now : Int) : LM Unit := do
  let l ← LM.get
  if l.readOnly then LM.fail "readOnly" else
  let k ← getPropStringD "writeKey" now
  if k == "" || c.wk == k then pure () else LM.fail "writeDenied"

def checkRead (c : Ctx) (now : Int) : LM Unit := do
  let k ← getPropStringD "readKey" now
  if k == "" || c.rk == k then pure () else LM.fail "readDenied"

def atCapacity : LM Unit := do
  let l ← LM.get
  if l.maxFacts ≤ l.st.count then LM.fail "capacity" else pure ()

def runGuard (c : Ctx) (now : Int) : Guard → LM Unit
  | .enabled => enabled now
  | .checkRead => checkRead c now
  | .checkWrite => checkWrite c now
  | .atCapacity => atCapacity

def runGuards (c : Ctx) (now : Int) : List Guard → LM Unit
  | [] => pure ()
  | g :: gs => do runGuard c now g; runGuards c now gs

/-- the guard list of every exported Location method, in source order (cross-checked against the
table extracted from location.go, see Gen/Guards.lean) -/
def guardsOf : String → List Guard
  | "AddFact" => [.checkWrite, .atCapacity, .enabled]
  | "RemFact" => [.enabled, .checkWrite]
  | "GetFact" => [.enabled, .checkRead]
  | "AddRule" => [.enabled, .checkWrite, .atCapacity]
  | "RemRule" => [.enabled, .checkWrite]
  | "EnableRule" => [.enabled, .checkWrite]
  | "RuleEnabled" => [.enabled, .checkRead]
  | "GetRule" => [.enabled, .checkRead]
  | "searchFacts" => [.enabled, .checkRead]
  | "searchRules" => [.enabled, .checkRead]
  | "SearchRules" => [.enabled, .checkRead]
  | "ListRules" => [.enabled, .checkRead]
  | "GetParents" => [.enabled, .checkRead]
  | "SetParents" => [.enabled, .checkWrite]
  | "Clear" => [.enabled, .checkWrite]
  | "Delete" => [.enabled, .checkWrite]
  | "StateSize" => [.enabled, .checkRead]
  | "Query" => [.enabled]
  | "RunJavascript" => [.enabled]
  | _ => []

/-! ## rule validation (`RuleFromMap`), restricted to what the generators produce -/

structure RuleM where
  when? : Option Obj          -- `when.pattern` (the PatternQuery's pattern; missing `pattern` key = nil map)
  schedule : String
  condition : Option J
  actions : List J
  serial : Bool
  raw : Obj

def actionOK : J → Bool
  | .obj a => match Obj.get? a "code" with
    | some (.str _) => true
    | some (.arr xs) => xs.all (fun x => match x with | .str _ => true | _ => false)
    | _ => false
  | _ => false

/-- shallow validity of a query map (`ParseQuery`'s dispatch); code terms are assumed to compile unless
they carry the marker the generators put on syntactically invalid programs -/
partial def queryOK : J → Bool
  | .obj [] => true
  | .obj q =>
    if Obj.has q "code" then !(Obj.has q "verif_bad")
    else if Obj.has q "pattern" then (match Obj.get? q "pattern" with | some (.obj _) => true | _ => false)
    else if Obj.has q "and" then (match Obj.get? q "and" with | some (.arr xs) => xs.all queryOK | _ => false)
    else if Obj.has q "or" then (match Obj.get? q "or" with | some (.arr xs) => xs.all queryOK | _ => false)
    else if Obj.has q "not" then (match Obj.get? q "not" with | some x => queryOK x | _ => false)
    else false
  | _ => false

def ruleFromMap (r : Obj) : Except LErr RuleM := do
  let when? ← (match r.get? "when" with
    | none => pure none
    | some .null => pure none
    | some (.obj w) =>
      match Obj.get? w "pattern" with
      | none => pure (some [])
      | some .null => pure (some [])
      | some (.obj p) => pure (some p)
      | some _ => .error "syntax"
    | some _ => .error "syntax" : Except LErr (Option Obj))
  let schedule ← (match r.get? "schedule" with
    | none => pure "" | some .null => pure "" | some (.str s) => pure s | some _ => .error "syntax" : Except LErr String)
  match r.get? "expires" with
  | some (.num _) | none | some .null => pure ()
  | some _ => .error "syntax"
  match r.get? "condition" with
  | none | some .null => pure ()
  | some q => if queryOK q then pure () else .error "syntax"
  if when?.isNone && schedule == "" then .error "syntax" else
  if when?.isSome && schedule != "" then .error "syntax" else
  let action? := match r.get? "action" with | some .null => none | x => x
  let actions? := match r.get? "actions" with | some .null => none | x => x
  if action?.isSome && actions?.isSome then .error "syntax" else
  let acts ← (match action?, actions? with
    | some a, _ => pure [a]
    | none, some (.arr xs) => pure xs
    | none, some _ => .error "syntax"
    | none, none => pure [] : Except LErr (List J))
  if acts.isEmpty then .error "syntax" else
  if !acts.all actionOK then .error "syntax" else
  let serial := match r.get? "policies" with
    | some (.obj p) => (match Obj.get? p "serialActions" with | some (.bool b) => b | _ => false)
    | _ => false
  pure { when? := when?, schedule := schedule, condition := (match r.get? "condition" with | some .null => none | x => x),
         actions := acts, serial := serial, raw := r }

/-! ## single-location methods -/

def locAddFact (c : Ctx) (id : String) (fact : Obj) (now : Int) : LM String := do
  runGuards c now (guardsOf "AddFact"); stAdd id fact now

def locRemFact (c : Ctx) (id : String) (now : Int) : LM String := do
  runGuards c now (guardsOf "RemFact"); let _ ← stRem id now; pure id

def locGetFact (c : Ctx) (id : String) (now : Int) : LM Obj := do
  runGuards c now (guardsOf "GetFact"); stGet id now

def locAddRule (c : Ctx) (id : String) (rule : Obj) (now : Int) : LM String := do
  runGuards c now (guardsOf "AddRule")
  match ruleFromMap rule with
  | .error e => LM.fail e
  | .ok _ =>
    match setExpires rule now with
    | .error e => LM.fail e
    | .ok (rule', expiring, expires) =>
      let w : Obj := [("rule", .obj rule')]
      let w := if expiring then w ++ [("expires", .num expires)] else w
      let w := match rule'.get? "deleteWith" with | some d => w ++ [("deleteWith", d)] | none => w
      stAdd id w now

def locRemRule (c : Ctx) (id : String) (now : Int) : LM String := do
  runGuards c now (guardsOf "RemRule")
  let _ ← stRem id now
  let (_, found) ← getProp id "disabled" (.bool false) now
  if found then do
    let _ ← remProp id "disabled" now
    pure id
  else pure id

def locEnableRule (c : Ctx) (id : String) (enable : Bool) (now : Int) : LM Unit := do
  runGuards c now (guardsOf "EnableRule")
  if enable then do
    let _ ← remProp id "disabled" now
    pure ()
  else do
    let _ ← setProp id "disabled" (.bool true) now
    pure ()

def locRuleEnabled (c : Ctx) (id : String) (now : Int) : LM Bool := do
  runGuards c now (guardsOf "RuleEnabled")
  let (v, _) ← getProp id "disabled" (.bool false) now
  match v with
  | .bool d => pure (!d)
  | _ => pure true

def locGetRule (c : Ctx) (id : String) (now : Int) : LM Obj := do
  runGuards c now (guardsOf "GetRule")
  let f ← stGet id now
  match extractRule f true with
  | .ok (some r, _) => pure r
  | .ok (none, _) => LM.fail "ruleBodyMissing"
  | .error e => LM.fail e

def locSearchFacts (c : Ctx) (p : Obj) (now : Int) : LM (List (String × Obj × List Bs)) := do
  runGuards c now (guardsOf "searchFacts"); stSearch p now

/-- `searchRules` = guards + `FindCachedRules` (every candidate body must be a valid rule) -/
def locSearchRules (c : Ctx) (ev : Obj) (now : Int) : LM (List (String × RuleM)) := do
  runGuards c now (guardsOf "searchRules")
  let cands ← stFindRules ev now
  let rec go : List (String × Obj) → Except LErr (List (String × RuleM))
    | [] => .ok []
    | (id, body) :: rest => do let r ← ruleFromMap body; let rs ← go rest; pure ((id, r) :: rs)
  match go cands with
  | .ok rs => pure rs
  | .error e => LM.fail e

def parentsOfJ : J → Except LErr (List String)
  | .arr xs => xs.mapM (fun x => match x with | .str s => .ok s | _ => .error "badParents")
  | _ => .error "badParents"

def locGetParentsRaw (now : Int) : LM (List String) := do
  let (v, found) ← getProp "" "parents" (.arr []) now
  if !found then pure [] else
  match parentsOfJ v with
  | .ok ps => pure ps
  | .error e => LM.fail e

def locGetParents (c : Ctx) (now : Int) : LM (List String) := do
  runGuards c now (guardsOf "GetParents"); locGetParentsRaw now

def locSetParents (c : Ctx) (ps : List String) (now : Int) : LM String := do
  runGuards c now (guardsOf "SetParents"); setProp "" "parents" (.arr (ps.map .str)) now

def locClear (c : Ctx) (now : Int) : LM Unit := do
  runGuards c now (guardsOf "Clear")
  fun l => ({ l with st := l.st.clear }, .ok ())

def locStateSize (c : Ctx) (now : Int) : LM Nat := do
  runGuards c now (guardsOf "StateSize")
  let l ← LM.get
  pure l.st.count

/-! ## Systems of locations and the ancestor walk -/

abbrev Sys := List (String × Loc)

def Sys.get? (sys : Sys) (n : String) : Option Loc := amGet sys n
def Sys.put (sys : Sys) (l : Loc) : Sys := amSet sys l.name l

/-- run a single-location computation at `n`, writing the location back -/
def Sys.at {α} (sys : Sys) (n : String) (m : LM α) : Sys × Except LErr α :=
  match sys.get? n with
  | none => (sys, .error "notFound")
  | some l => let (l', r) := m l; (sys.put l', r)

/-- `DoAncestors`: depth-first over the parents (each visited with its own ancestors first), then the
location itself. `fuel` stands for the Go stack; since the names on the current path are pairwise distinct, `sys.length + 2`
always suffices (C09 `ancestors_fuel_suffices`). -/
def doAncestors {α} (fuel : Nat) (sys : Sys) (n : String) (now : Int)
    (fn : String → LM α) (acc : List α) (path : List String := []) : Sys × Except LErr (List α) :=
  match fuel with
  | 0 => (sys, .error "diverge")
  | fuel + 1 =>
    -- the names on the current path: a chain of parents that comes back is the AncestorLoop error
    if path.contains n then (sys, .error "loop") else
    match sys.at n (locGetParentsRaw now) with
    | (sys1, .error e) => (sys1, .error e)
    | (sys1, .ok parents) =>
      let hasProv := match sys1.get? n with | some l => l.hasProvider | none => true
      if !parents.isEmpty && !hasProv then (sys1, .error "noProvider") else
      let rec loop (fuel' : Nat) (sys : Sys) (ps : List String) (acc : List α) : Sys × Except LErr (List α) :=
        match fuel' with
        | 0 => (sys, .error "diverge")
        | fuel' + 1 =>
        match ps with
        | [] => (sys, .ok acc)
        | p :: rest =>
          if p == n then (sys, .error "loop") else
          match sys.get? p with
          | none => (sys, .error "notFound")
          | some _ =>
            match doAncestors fuel sys p now fn acc (n :: path) with
            | (sys2, .error e) => (sys2, .error e)
            | (sys2, .ok acc2) => loop fuel' sys2 rest acc2
      match loop (parents.length + 1) sys1 parents acc with
      | (sys2, .error e) => (sys2, .error e)
      | (sys2, .ok acc2) =>
        match sys2.at n (fn n) with
        | (sys3, .error e) => (sys3, .error e)
        | (sys3, .ok a) => (sys3, .ok (acc2 ++ [a]))

def ancestorFuel (sys : Sys) : Nat := sys.length + 2

/-- tag every value with the name of the location that produced it -/
def tagged {α} (fn : String → LM α) : String → LM (String × α) :=
  fun m => LM.bind (fn m) (fun a => LM.pure (m, a))

/-- A location reached along more than one chain of parents is visited once (`done` in `doAncestors`): of the
visits the model's walk makes, the first per location counts. (A later visit of the same location during the same
request reads the same state at the same clock, so dropping its answer is dropping a copy.) -/
def firstVisits {β} : List (String × β) → List String → List β
  | [], _ => []
  | (m, b) :: rest, seen => if seen.contains m then firstVisits rest seen else b :: firstVisits rest (m :: seen)

/-- `SearchFacts(pattern, includeInherited)` -/
def sysSearchFacts (sys : Sys) (c : Ctx) (n : String) (p : Obj) (inherited : Bool) (now : Int) :
    Sys × Except LErr (List (String × Obj × List Bs)) :=
  if inherited then
    match doAncestors (ancestorFuel sys) sys n now (tagged (fun _ => locSearchFacts c p now)) [] with
    | (s, .ok ls) => (s, .ok (firstVisits ls []).flatten)
    | (s, .error e) => (s, .error e)
  else sys.at n (locSearchFacts c p now)

/-- `searchRulesAncestors`: a rule id present twice along the walk is the duplicate-id error -/
def sysSearchRulesAnc (sys : Sys) (c : Ctx) (n : String) (ev : Obj) (now : Int) :
    Sys × Except LErr (List (String × RuleM)) :=
  match doAncestors (ancestorFuel sys) sys n now (tagged (fun _ => locSearchRules c ev now)) [] with
  | (s, .error e) => (s, .error e)
  | (s, .ok ls) =>
    let all := (firstVisits ls []).flatten
    let ids := all.map (·.1)
    if ids.eraseDups.length != ids.length then (s, .error "dupId") else (s, .ok all)

def sysSearchRules (sys : Sys) (c : Ctx) (n : String) (ev : Obj) (inherited : Bool) (now : Int) :
    Sys × Except LErr (List (String × RuleM)) :=
  match sys.at n (runGuards c now (guardsOf "SearchRules")) with
  | (s, .error e) => (s, .error e)
  | (s, .ok _) =>
    if inherited then sysSearchRulesAnc s c n ev now else s.at n (locSearchRules c ev now)

/-- `ListRules`: ids of facts matching `{"rule":"?rule"}` whose binding is a string or a map; errors of the
search are swallowed (the Go code returns `acc, nil`) -/
def sysListRules (sys : Sys) (c : Ctx) (n : String) (inherited : Bool) (now : Int) : Sys × Except LErr (List String) :=
  match sys.at n (runGuards c now (guardsOf "ListRules")) with
  | (s, .error e) => (s, .error e)
  | (s, .ok _) =>
    match sysSearchFacts s c n [("rule", .str "?rule")] inherited now with
    | (s1, .error e) => if inherited then (s1, .ok []) else (s1, .error ("panic:" ++ e))
    | (s1, .ok found) =>
      (s1, .ok ((found.filter (fun (_, _, bss) => match bss.head? with
          | some b => (match b.get? "?rule" with | some (.str _) => true | some (.obj _) => true | _ => false)
          | none => false)).map (·.1)))

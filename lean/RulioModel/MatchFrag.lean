import RulioModel.MatchSpec

/-! # Semantic fragment predicates for the C05 theorems

`scalarRepeats` of `MatchSpec.lean` is defined through the brute-force `specMatch` and is what the driver
evaluates; the theorems use the explicit, decidable predicates below, which speak about the bindings `σ`
at hand instead (a *returned* binding for soundness, the *specification* binding for completeness). -/

/-- the critical variables of a call `match(p, _, bs)`: the variables of `p` that occur more than once in
`p`, or that are already bound in the incoming bindings `bs`.  Only these are ever compared with a data
value through `match(binding, fact)` (data used as a pattern). -/
def critVars (p : J) (bs : Bs) : List String :=
  (varsOf p).filter (fun v => decide (count v (varsOf p) > 1) || (bs.get? v).isSome)

/-- `σ` binds `v` to a scalar (or does not bind it) -/
def scalarAt (σ : Bs) (v : String) : Bool :=
  match σ.get? v with
  | some w => w.isScalar
  | none => true

/-- every critical variable is bound to a scalar in `σ` (decidable, explicit version of `ScalarRepeats`) -/
def scalarRepeatsIn (σ : Bs) (p : J) (bs : Bs) : Bool := (critVars p bs).all (scalarAt σ)

/-- `σ` binds nothing besides the variables bound in `bs` and the variables of `p` (it is *minimal*) -/
def minimalFor (σ : Bs) (p : J) (bs : Bs) : Bool :=
  σ.all (fun kv => (bs.get? kv.1).isSome || (varsOf p).contains kv.1)

/-- all incoming bindings are ground, well-formed data -/
def groundBs (bs : Bs) : Bool := bs.all (fun kv => kv.2.ground && dataOK kv.2)

/-- the two bindings are equal as finite maps -/
def Bs.Same (σ σ' : Bs) : Prop := ∀ k, σ.get? k = σ'.get? k

/-- `q` is obtained from `p` by permuting the key/value pairs of maps and the elements of arrays, at any
depth (what Go's randomised map iteration, or a reordering of the JSON text, can do to a pattern) -/
inductive PatPerm : J → J → Prop
  | refl (p : J) : PatPerm p p
  | obj {kvs kvs' : List (String × J)} : kvs.Perm kvs' → PatPerm (.obj kvs) (.obj kvs')
  | arr {xs xs' : List J} : xs.Perm xs' → PatPerm (.arr xs) (.arr xs')
  | objIn (k : String) {v v' : J} (pre post : List (String × J)) :
      PatPerm v v' → PatPerm (.obj (pre ++ (k, v) :: post)) (.obj (pre ++ (k, v') :: post))
  | arrIn {x x' : J} (pre post : List J) :
      PatPerm x x' → PatPerm (.arr (pre ++ x :: post)) (.arr (pre ++ x' :: post))
  | trans {p q r : J} : PatPerm p q → PatPerm q r → PatPerm p r

/-- the keys of an association list are pairwise distinct -/
def distinctKeys : List (String × J) → Bool
  | [] => true
  | (k, _) :: r => !(r.any (fun kv => kv.1 == k)) && distinctKeys r

mutual
/-- every map inside the datum has pairwise distinct keys (always true of a decoded Go map / JSON object;
the association-list model does not enforce it) -/
def dataKeysOK : J → Bool
  | .arr xs => dataKeysOKL xs
  | .obj kvs => distinctKeys kvs && dataKeysOKO kvs
  | _ => true
def dataKeysOKL : List J → Bool
  | [] => true
  | x :: xs => dataKeysOK x && dataKeysOKL xs
def dataKeysOKO : List (String × J) → Bool
  | [] => true
  | (_, v) :: r => dataKeysOK v && dataKeysOKO r
end

import RulioModel.Json

inductive Edge where
  | str (s : String) | var | map
deriving DecidableEq, Repr

inductive PI where
  | node (children : List (Edge × PI)) (ids : List String)
deriving Repr

namespace PI
def empty : PI := .node [] []
def children : PI → List (Edge × PI) | .node c _ => c
def ids : PI → List String | .node _ i => i
def child (n : PI) (e : Edge) : Option PI := (n.children.find? (·.1 == e)).map (·.2)
def setChild (n : PI) (e : Edge) (c : PI) : PI :=
  if n.children.any (·.1 == e) then
    .node (n.children.map (fun p => if p.1 == e then (e, c) else p)) n.ids
  else .node (n.children ++ [(e, c)]) n.ids
def childD (n : PI) (e : Edge) : PI := (n.child e).getD empty
end PI

inductive Cast where
  | s (x : String) | v | m (kvs : List (String × J)) | a (xs : List J)

def hasPre (s p : String) : Bool := s.startsWith p

def picast : J → Cast
  | .bool b => .s ("B_" ++ toString b)
  | .num n => .s ("F_" ++ toString n)
  | .str x => if hasPre x "?" then .v
              else if hasPre x "F_" || hasPre x "B_" || hasPre x "S_" then .s x else .s ("S_" ++ x)
  | .null => .s "null"
  | .obj kvs => .m kvs
  | .arr xs => .a xs

def insSorted (lt : α → α → Bool) (x : α) : List α → List α
  | [] => [x]
  | y :: ys => if lt x y then x :: y :: ys else y :: insSorted lt x ys
def isort (lt : α → α → Bool) : List α → List α
  | [] => []
  | x :: xs => insSorted lt x (isort lt xs)

def mapToPairs (kvs : List (String × J)) : List (String × J) := isort (fun a b => a.1 < b.1) kvs

def typeCode : J → Nat
  | .str _ => 1 | .num _ => 2 | .bool _ => 4 | _ => 0

inductive PErr where | notSortable | varKeyWithOthers | varInEvent
deriving Repr, DecidableEq

def sortValues (xs : List J) : Except PErr (List J) :=
  if xs.length ≤ 1 then .ok xs
  else
    let k := typeCode xs.head!
    if k == 0 || xs.any (fun x => typeCode x != k) then .error .notSortable
    else match k with
      | 1 => .ok (isort (fun a b => match a, b with | .str x, .str y => x < y | _, _ => false) xs)
      | 2 => .ok (isort (fun a b => match a, b with | .num x, .num y => x < y | _, _ => false) xs)
      | _ => .ok (isort (fun a b => match a, b with | .bool x, .bool y => !x && y | _, _ => false) xs)

mutual
def sz : J → Nat
  | .arr xs => 1 + szL xs
  | .obj kvs => 1 + szO kvs
  | _ => 1
def szL : List J → Nat
  | [] => 0 | x :: xs => sz x + szL xs
def szO : List (String × J) → Nat
  | [] => 0 | (_, v) :: r => sz v + szO r
end
def szP (ps : List (String × J)) : Nat := szO ps

/-- path-directed update; returns the (possibly partially extended) trie and an error if any -/
def PI.mod (fuel : Nat) (idx : PI) (pairs : List (String × J)) (id : String) (add : Bool) : PI × Option PErr :=
  match fuel with
  | 0 => (idx, none)
  | fuel + 1 =>
  match pairs with
  | [] => (.node idx.children (if add then (if idx.ids.contains id then idx.ids else idx.ids ++ [id]) else idx.ids.erase id), none)
  | (k, v) :: rest =>
    let k' := if isVar k then "?" else k
    let ki := idx.childD (.str k')
    match picast v with
    | .s x =>
      let (sub, e) := PI.mod fuel (ki.childD (.str x)) rest id add
      (idx.setChild (.str k') (ki.setChild (.str x) sub), e)
    | .v =>
      let (sub, e) := PI.mod fuel (ki.childD .var) rest id add
      (idx.setChild (.str k') (ki.setChild .var sub), e)
    | .m kvs =>
      let (sub, e) := PI.mod fuel (ki.childD .map) (mapToPairs kvs ++ rest) id add
      (idx.setChild (.str k') (ki.setChild .map sub), e)
    | .a xs =>
      let idx' := idx.setChild (.str k') ki
      match sortValues xs with
      | .error e => (idx', some e)
      | .ok sorted => PI.mod fuel idx' (sorted.map (fun x => (k, x)) ++ rest) id add

def union (a b : List String) : List String := a ++ b.filter (fun x => !a.contains x)

def PI.search (fuel : Nat) (idx : PI) (pairs : List (String × J)) : Except PErr (List String) :=
  match fuel with
  | 0 => .ok []
  | fuel + 1 =>
  match pairs with
  | [] => .ok []
  | (k, v) :: rest =>
    if isVar k && !rest.isEmpty then .error .varKeyWithOthers else
    match (idx.child (.str k)).orElse (fun _ => idx.child (.str "?")) with
    | none => PI.search fuel idx rest
    | some ki => do
      let (ids0, next0) := match ki.child .var with
        | some vi => (vi.ids, [idx, vi])
        | none => ([], [idx])
      let (ids1, next1, rest1) ← (match picast v with
        | .v => .error .varInEvent
        | .s x => match ki.child (.str x) with
          | some i => pure (union ids0 i.ids, next0 ++ [i], rest)
          | none => pure (ids0, next0, rest)
        | .m kvs => match ki.child .map with
          | some mi => do
            let more ← PI.search fuel mi (mapToPairs kvs ++ rest)
            pure (union (union ids0 more) mi.ids, next0 ++ [mi], rest)   -- ids on the Map node: patterns ending with `{}`
          | none => pure (ids0, next0, rest)
        | .a xs => do
          let sorted ← sortValues xs
          pure (ids0, next0, sorted.map (fun x => (k, x)) ++ rest) : Except PErr _)
      let mores ← next1.mapM (fun n => PI.search fuel n rest1)
      pure (mores.foldl union ids1)

import RulioModel.Events
import RulioModel.Gen.C13

/-! # C13 — no input can crash, hang or poison a location: lock-aware wrapper model

A thin model of the `State` interface *with its lock*: every call of a `State` method (Add, Rem, Get, Search,
FindRules, Count) first acquires the state's RW lock (blocking forever = `hang` when a dead request still holds
it), runs the sequential model of the method, and releases the lock — except when the body panics and the method
does not `defer` its unlock (read from the table extracted from the Go source, `C13Gen.lockUses`): then the lock
stays held by the dead request. The `Location` API is restated over these calls (same guards, same helpers as
`RulioModel/Loc.lean`), with panics and hangs propagating like in Go (an error of a guard's property read is
swallowed, a panic or a hang is not).

This file describes the tree AFTER the repair of the five defects C13-getrulepatterns-panic,
C13-getrulepatterns-scheduled, C13-addrule-null-pattern, C13-expiry-search-leaks-read-lock and
C13-linear-bad-rule-panic: `GetRulePatterns` answers "no patterns" for a `when` (or `when.pattern`) that is not a
map, `IndexedState.Add` and `IndexedState.Search` release their lock by `defer`, `LinearState.doFindRules` skips a
`rule` value that is not a map. No input-reachable panic is left inside a State method; what a panic inside one
WOULD do to the lock is still modelled, through a fault oracle (`KLoc.fault`), so that the lock discipline can be
stated for every hypothetical panic. -/

namespace C13

/-! ## 1. Panic sites and the classification of the extracted table -/

/-- the places where a public operation can panic -/
inductive PanicSite where
  | unlisted              -- hypothetical: a panic inside a State method at a place that is no row of the table (injected by `KLoc.fault`)
  | listRulesNil          -- core/location.go Location.ListRules: `sr.Found` of a nil *SearchResults (no assertion: outside the table)
deriving DecidableEq, Repr

def PanicSite.name : PanicSite → String
  | .unlisted => "(unlisted)"
  | .listRulesNil => "Location.ListRules"

/-- how a row of the extracted table is accounted for -/
inductive Cls where
  | safe (why : String)             -- guarded by construction
  | modelled (site : PanicSite)     -- reachable from public input; the model has an explicit panic branch
  | unreachable (why : String)      -- no public input reaches it under the default configuration
  | outOfScope (why : String)       -- reachable, but not by an operation of the property (admin/test endpoints, start-up configuration)
deriving Repr

def Cls.isModelled : Cls → Bool | .modelled _ => true | _ => false

private def tsw : String := "inside the `case` of a type switch on the same value that names exactly this type"

/-- every row of `C13Gen.sites`, in the extractor's order, with its classification -/
def accounted : List (C13Gen.Site × Cls) := [
  (⟨"core/actions.go", "GetCode", "assert", "x.(map[string]interface{})"⟩, .safe tsw),
  (⟨"core/actions.go", "Location.getActionFunc", "assert", "a.Code.(string)"⟩,
    .unreachable "the actions of a rule are CleanActions: CleanAction.UnmarshalJSON stores GetCode(...) (a string) in Code; only a library caller handing ExecAction a hand-built Action gets here"),
  (⟨"core/actions.go", "substituteInterface", "assert", "src.([]interface{})"⟩, .safe tsw),
  (⟨"core/actions.go", "substituteInterface", "assert", "src.([]interface{})"⟩, .safe tsw),
  (⟨"core/actions.go", "substituteInterface", "assert", "src.(map[string]interface{})"⟩, .safe tsw),
  (⟨"core/actions.go", "substituteInterface", "assert", "src.(string)"⟩, .safe tsw),
  (⟨"core/actions.go", "substituteInterface", "assert", "v.(string)"⟩, .safe tsw),
  (⟨"core/actions.go", "substituteString", "assert", "v.(string)"⟩, .safe tsw),
  (⟨"core/breaker.go", "OutboundBreaker.Do", "index", "b.counts[0]"⟩,
    .outOfScope "C20: counts is allocated with breakerTicks (> 0) elements by NewOutboundBreaker; no request data"),
  (⟨"core/cache.go", "Cache.Get", "assert", "got.(*cacheEntry)"⟩, .safe "Cache.Add is the only writer of the LRU and always stores c.newEntry(x), a *cacheEntry"),
  (⟨"core/cache.go", "NewCache", "panic", "panic(err)"⟩, .unreachable "lru.New fails only for a size <= 0, excluded by the `0 < limit` test; called from package initialisers"),
  (⟨"core/events.go", "EvalRuleCondition.Do", "index", "qr.Bss[0]"⟩, .safe "the line before allocates qr.Bss = make([]Bindings, 1)"),
  (⟨"core/javascript.go", "CachedSlurp", "assert", "v.(string)"⟩, .safe "SlurpCache.Add(url, s) is the only writer and s is a string"),
  (⟨"core/javascript.go", "RunJavascript", "panic", "panic(Halt)"⟩, .outOfScope "C14: the script watchdog; recovered by the deferred function of RunJavascript"),
  (⟨"core/javascript.go", "RunJavascript", "panic", "panic(caught)"⟩, .outOfScope "C14: re-raises a panic that came out of otto; not a source of panics"),
  (⟨"core/javascript.go", "throwJavascript", "panic", "panic(value)"⟩, .outOfScope "C14: otto's idiom for `throw` from a native function; otto recovers otto.Value panics"),
  (⟨"core/location.go", "Location.ListRules", "index", "srs.Bindingss[0]"⟩, .safe "both State.search implementations append a SearchResult only when 0 < len(bss)"),
  (⟨"core/log.go", "Log", "index", "args[1]"⟩, .safe "eight elements are appended to args a few lines above"),
  (⟨"core/log.go", "Log", "index", "args[1]"⟩, .safe "eight elements are appended to args a few lines above"),
  (⟨"core/match.go", "cast", "assert", "v.(Map)"⟩, .safe "under `case Map, map[string]interface{}` after the map[string]interface{} assertion failed"),
  (⟨"core/patternindex.go", "PatternIndex.mod", "assert", "v.(Map)"⟩, .safe tsw),
  (⟨"core/patternindex.go", "PatternIndex.mod", "assert", "vv.(map[string]interface{})"⟩, .safe tsw),
  (⟨"core/patternindex.go", "PatternIndex.searchPairs", "assert", "v.(Map)"⟩, .safe tsw),
  (⟨"core/patternindex.go", "PatternIndex.searchPairs", "assert", "vv.(map[string]interface{})"⟩, .safe tsw),
  (⟨"core/patternindex.go", "ThingSlice.Less", "assert", "a[i].(bool)"⟩, .safe tsw),
  (⟨"core/patternindex.go", "ThingSlice.Less", "assert", "a[i].(float64)"⟩, .safe tsw),
  (⟨"core/patternindex.go", "ThingSlice.Less", "assert", "a[i].(int)"⟩, .safe tsw),
  (⟨"core/patternindex.go", "ThingSlice.Less", "assert", "a[i].(string)"⟩, .safe tsw),
  (⟨"core/patternindex.go", "ThingSlice.Less", "assert", "a[j].(bool)"⟩, .safe "SortValues sorts only after AsThingSlice/IsSortable established that all elements have the type code of a[0]"),
  (⟨"core/patternindex.go", "ThingSlice.Less", "assert", "a[j].(float64)"⟩, .safe "SortValues sorts only after AsThingSlice/IsSortable established that all elements have the type code of a[0]"),
  (⟨"core/patternindex.go", "ThingSlice.Less", "assert", "a[j].(int)"⟩, .safe "SortValues sorts only after AsThingSlice/IsSortable established that all elements have the type code of a[0]"),
  (⟨"core/patternindex.go", "ThingSlice.Less", "assert", "a[j].(string)"⟩, .safe "SortValues sorts only after AsThingSlice/IsSortable established that all elements have the type code of a[0]"),
  (⟨"core/state.go", "maybeInjectId", "panic", "panic(\"overwrite\")"⟩, .unreachable "SystemParameters.IdInjectionTime is InjectIdNever in both parameter sets of vars.go (configuration, not request data)"),
  (⟨"core/state_linear.go", "LinearState.doFindRules", "assert", "when.(Map)"⟩, .safe "under `case Map, map[string]interface{}` after the map[string]interface{} assertion failed"),
  (⟨"core/util.go", "MustMap", "panic", "panic(err)"⟩, .unreachable "ParseMap always returns a nil error; MustMap is used by tests and examples"),
  (⟨"core/util.go", "Profile", "panic", "panic(err)"⟩, .outOfScope "profiling helper, called by no operation"),
  (⟨"core/util.go", "Profile", "panic", "panic(err)"⟩, .outOfScope "profiling helper, called by no operation"),
  (⟨"core/util.go", "StringSet.json", "panic", "panic(err)"⟩, .unreachable "json.Marshal of a []string cannot fail"),
  (⟨"core/util.go", "UUID", "index", "b[6]"⟩, .safe "b is a [16]byte array"),
  (⟨"core/util.go", "UUID", "index", "b[6]"⟩, .safe "b is a [16]byte array"),
  (⟨"core/util.go", "UUID", "index", "b[8]"⟩, .safe "b is a [16]byte array"),
  (⟨"core/util.go", "UUID", "index", "b[8]"⟩, .safe "b is a [16]byte array"),
  (⟨"core/vars.go", "SetParameters", "panic", "panic(err)"⟩, .outOfScope "start-up configuration hooks"),
  (⟨"service/service.go", "GetStringParam", "assert", "v.([]interface{})"⟩, .safe tsw),
  (⟨"service/service.go", "GetStringParam", "assert", "v.(string)"⟩, .safe tsw),
  (⟨"service/service.go", "GetStringParam", "assert", "x.(string)"⟩, .safe tsw),
  (⟨"service/service.go", "Service.ProcessRequest", "assert", "limit.(float64)"⟩, .outOfScope "admin endpoint /api/sys/admin/timers/get; not an operation on facts, rules, queries or events"),
  (⟨"service/service.go", "Service.ProcessRequest", "panic", "panic(message)"⟩, .outOfScope "admin endpoint /api/sys/admin/panic panics on purpose"),
  (⟨"service/service.go", "getMapParam", "assert", "v.(map[string]interface{})"⟩, .safe tsw),
  (⟨"sys/system.go", "GetStorage", "assert", "n.(string)"⟩, .outOfScope "start-up storage configuration"),
  (⟨"sys/system.go", "GetStorage", "assert", "nodes.([]string)"⟩, .safe tsw),
  (⟨"sys/system.go", "GetStorage", "assert", "nodes.(string)"⟩, .safe tsw),
  (⟨"sys/system.go", "SimpleSystem", "panic", "panic(err)"⟩, .outOfScope "start-up helper"),
  (⟨"sys/system.go", "System.RuntimeLogLoop", "index", "mem.PauseNs[0]"⟩, .safe "PauseNs is a [256]uint64 array"),
  (⟨"sys/system.go", "System.RuntimeLogLoop", "index", "mem.PauseNs[1]"⟩, .safe "PauseNs is a [256]uint64 array"),
  (⟨"sys/system.go", "System.RuntimeLogLoop", "index", "mem.PauseNs[2]"⟩, .safe "PauseNs is a [256]uint64 array"),
  (⟨"sys/system.go", "System.RuntimeLogLoop", "index", "mem.PauseNs[3]"⟩, .safe "PauseNs is a [256]uint64 array")
]

/-- the lock acquisitions the model knows, in the extractor's order: (file, function, lock call, deferred release?) -/
/- (the eight `cacheMutex` sections of the rule-cache helpers added by fix 35f4d57 release explicitly, not by `defer`:
   their bodies are one map read, write or delete on a non-nil map and cannot panic;
   `IndexedState.Add` holds its lock inside a function literal whose first statements are `s.slock` / `defer s.sunlock`:
   the extractor attributes both to the enclosing method) -/
def lockTable : List C13Gen.LockUse := [
  ⟨"core/location.go", "Location.AddFact", "loc.admission.Lock()", true⟩,
  ⟨"core/location.go", "Location.AddRule", "loc.admission.Lock()", true⟩,
  ⟨"core/location.go", "Location.Control", "loc.Lock()", false⟩,
  ⟨"core/location.go", "Location.Control", "loc.RLock()", false⟩,
  ⟨"core/location.go", "Location.IsReadOnly", "loc.RLock()", false⟩,
  ⟨"core/location.go", "Location.SetControl", "loc.Lock()", false⟩,
  ⟨"core/location.go", "Location.SetReadOnly", "loc.Lock()", false⟩,
  ⟨"core/location.go", "Location.Update", "loc.updatedMutex.Lock()", false⟩,
  ⟨"core/location.go", "Location.Updated", "loc.updatedMutex.RLock()", false⟩,
  ⟨"core/state_indexed.go", "IndexedState.Add", "s.slock(false)", true⟩,
  ⟨"core/state_indexed.go", "IndexedState.Clear", "s.slock(false)", true⟩,
  ⟨"core/state_indexed.go", "IndexedState.Count", "s.slock(true)", false⟩,
  ⟨"core/state_indexed.go", "IndexedState.Delete", "s.slock(false)", true⟩,
  ⟨"core/state_indexed.go", "IndexedState.IsLoaded", "s.slock(true)", false⟩,
  ⟨"core/state_indexed.go", "IndexedState.Load", "s.slock(false)", true⟩,
  ⟨"core/state_indexed.go", "IndexedState.Rem", "s.slock(false)", true⟩,
  ⟨"core/state_indexed.go", "IndexedState.Search", "s.slock(true)", true⟩,
  ⟨"core/state_indexed.go", "IndexedState.cacheGeneration", "s.cacheMutex.Lock()", false⟩,
  ⟨"core/state_indexed.go", "IndexedState.cacheRule", "s.cacheMutex.Lock()", false⟩,
  ⟨"core/state_indexed.go", "IndexedState.cachedRule", "s.cacheMutex.Lock()", false⟩,
  ⟨"core/state_indexed.go", "IndexedState.doFindRules", "s.slock(true)", true⟩,
  ⟨"core/state_indexed.go", "IndexedState.get", "s.slock(true)", false⟩,
  ⟨"core/state_indexed.go", "IndexedState.slock", "s.Lock()", false⟩,
  ⟨"core/state_indexed.go", "IndexedState.slock", "s.RLock()", false⟩,
  ⟨"core/state_indexed.go", "IndexedState.uncacheRule", "s.cacheMutex.Lock()", false⟩,
  ⟨"core/state_indexed.go", "IndexedState.uncacheRules", "s.cacheMutex.Lock()", false⟩,
  ⟨"core/state_linear.go", "LinearState.Add", "s.slock(false)", true⟩,
  ⟨"core/state_linear.go", "LinearState.Clear", "s.slock(false)", true⟩,
  ⟨"core/state_linear.go", "LinearState.Count", "s.slock(true)", false⟩,
  ⟨"core/state_linear.go", "LinearState.Delete", "s.slock(false)", true⟩,
  ⟨"core/state_linear.go", "LinearState.IsLoaded", "s.slock(false)", false⟩,
  ⟨"core/state_linear.go", "LinearState.Load", "s.slock(false)", true⟩,
  ⟨"core/state_linear.go", "LinearState.cacheGeneration", "s.cacheMutex.Lock()", false⟩,
  ⟨"core/state_linear.go", "LinearState.cacheRule", "s.cacheMutex.Lock()", false⟩,
  ⟨"core/state_linear.go", "LinearState.cachedRule", "s.cacheMutex.Lock()", false⟩,
  ⟨"core/state_linear.go", "LinearState.doFindRules", "s.slock(true)", true⟩,
  ⟨"core/state_linear.go", "LinearState.get", "s.slock(true)", false⟩,
  ⟨"core/state_linear.go", "LinearState.rem", "s.slock(false)", true⟩,
  ⟨"core/state_linear.go", "LinearState.search", "s.slock(true)", true⟩,
  ⟨"core/state_linear.go", "LinearState.slock", "s.Lock()", false⟩,
  ⟨"core/state_linear.go", "LinearState.slock", "s.RLock()", false⟩,
  ⟨"core/state_linear.go", "LinearState.uncacheRule", "s.cacheMutex.Lock()", false⟩,
  ⟨"core/state_linear.go", "LinearState.uncacheRules", "s.cacheMutex.Lock()", false⟩
]

/-! ## 2. The sequential State model of the repaired source

`RulioModel/State.lean` / `Fact.lean` (shared with the other properties) keep an explicit `"panic"` error where the
unrepaired `GetRulePatterns` and `LinearState.doFindRules` panicked. The functions below restate exactly the functions
on those two paths with the repaired behaviour; everything else (PrepareFact, ExtractRule, the pattern and term indexes,
the whole linear remove/search family) is the shared model. On documents and stores the old sites cannot be reached from,
the two readings coincide by construction (same text, `getRulePattern r = .ok (getRulePatternR r)`). -/

/-- `GetRulePatterns` (repaired): the rule's event pattern; `none` = "no patterns": no `when`, a `when` that is not a
map, or a `when.pattern` that is not a map (JSON `null` included) -/
def getRulePatternR (rule : Obj) : Option Obj :=
  match rule.get? "when" with
  | some (.obj w) =>
    match Obj.get? w "pattern" with
    | none => some w
    | some (.obj p) => some p
    | some _ => none
  | _ => none

/-- `unindexRule`: nothing to remove when there are no patterns -/
def unindexRuleR (s : St) (id : String) (rule : Obj) : Except LErr St :=
  match getRulePatternR rule with
  | none => .ok s
  | some pat =>
    match piRem s.ri pat id with
    | (_, some e) => .error (perr e)   -- NB: Go keeps the partially modified trie; the error aborts the op
    | (ri, none) => .ok { s with ri := ri }

/-- `indexRule`: "No 'when' in rule." (a SyntaxError) when there are no patterns.
Returns the state even on error (the trie may have been partially extended). -/
def indexRuleR (s : St) (id : String) (rule : Obj) : St × Option LErr :=
  match getRulePatternR rule with
  | none => (s, some "syntax")
  | some pat =>
    let (ri, e) := piAdd s.ri pat id
    ({ s with ri := ri }, e.map perr)

/-- what `add` does first when the id is already stored: the previous rule's pattern leaves the index -/
def unindexPreviousR (s : St) (id : String) : Except LErr (St × Option Obj) :=
  match amGet s.facts id with
  | none => .ok (s, none)
  | some prev =>
    match extractRule prev false with
    | .ok (some old, _) => (unindexRuleR s id old).map (fun s' => (s', some old))
    | _ => .ok (s, none)

/-- the index part of `IndexedState.add`: a rule body without `schedule` must be indexable; when it is rejected the rule it
would have replaced goes back into the index -/
def indexNewR (s : St) (id : String) (rule : Option Obj) (replaced : Option Obj) : St × Option LErr :=
  match rule with
  | some r =>
    if Obj.has r "schedule" then (s, none) else
    match indexRuleR s id r with
    | (s1, none) => (s1, none)
    | (s1, some e) =>
      (match replaced with
       | some old => if Obj.has old "schedule" then (s1, some e) else ((indexRuleR s1 id old).1, some e)
       | none => (s1, some e))
  | none => (s, none)

/-- `IndexedState.add` (memory only). Returns the new state even when it fails half-way. -/
def iaddR (s : St) (given : String) (x : Obj) (now : Int) : St × Except LErr (String × Obj) :=
  match prepareFact given s.freshId x now with
  | .error e => (s, .error e)
  | .ok (id, fact, x') =>
    let s := if given == "" && id == s.freshId then { s with fresh := s.fresh + 1 } else s
    match extractRule fact false with
    | .error e => (s, .error e)
    | .ok (rule, fact) =>
      match unindexPreviousR s id with
      | .error e => (s, .error e)
      | .ok (s, replaced) =>
        match indexNewR s id rule replaced with
        | (s, some e) => (s, .error e)
        | (s, none) =>
          let ti := (extractTerms fact).foldl (fun ti t => TI.add ti t id) s.ti
          ({ s with ti := ti, facts := amSet s.facts id fact }, .ok (id, x'))

/-- `IndexedState.Add`: memory first, then the prepared fact goes to storage -/
def iAddR (s : St) (given : String) (x : Obj) (now : Int) : St × Except LErr String :=
  match iaddR s given x now with
  | (s1, .error e) => (s1, .error e)
  | (s1, .ok (id, _)) =>
    ({ s1 with store := amSet s1.store id (.obj ((amGet s1.facts id).getD [])) }, .ok id)

/-- the rule part of `IndexedState.rem`: the stored rule (if any) leaves the pattern index -/
def unindexOfR (s : St) (id : String) (fact : Obj) : Except LErr St :=
  match (match extractRule fact false with | .ok (r, _) => r | .error _ => none : Option Obj) with
  | some r => unindexRuleR s id r
  | none => .ok s

/-- the memory/storage part of `IndexedState.rem` -/
def idelR (s1 : St) (id : String) (fact : Obj) : St :=
  { s1 with facts := amErase s1.facts id,
            ti := (extractTerms fact).foldl (fun ti t => TI.rem ti t id) s1.ti,
            store := amErase s1.store id }

/-- the candidate ids of an indexed search (`SearchForIDs`: no terms = every stored fact) -/
def candsR (s : St) (p : Obj) : Except LErr (List String) :=
  if (extractTerms p).isEmpty then .ok (s.facts.map (·.1)) else TI.search s.ti (extractTerms p)

mutual
/-- `IndexedState.rem` with its cascade; `fuel` bounds the recursion depth (see C08) -/
def iremR (fuel : Nat) (s : St) (id : String) (now : Int) : St × Except LErr Bool :=
  match fuel with
  | 0 => (s, .error "fuel")
  | fuel + 1 =>
    match amGet s.facts id with
    | some fact =>
      (match unindexOfR s id fact with
       | .error e => (s, .error e)
       | .ok s1 =>
         match idepsR fuel (idelR s1 id fact) id now with
         | (s3, .error e) => (s3, .error e)
         | (s3, .ok _) => (s3, .ok true))
    | none =>
      match idepsR fuel s id now with
      | (s3, .error e) => (s3, .error e)
      | (s3, .ok _) => (s3, .ok false)
/-- `deleteDependencies`: search `{deleteWith:[id]}`, then `rem` each result found -/
def idepsR (fuel : Nat) (s : St) (id : String) (now : Int) : St × Except LErr Unit :=
  match fuel with
  | 0 => (s, .error "fuel")
  | fuel + 1 =>
    if isVar id then (s, .ok ()) else   -- such an id would be a pattern variable
    match isearchR fuel s [("deleteWith", .arr [.str id])] now with
    | (s1, .error e) => (s1, .error e)
    | (s1, .ok found) => iremAllR fuel s1 (found.map (·.1)) now
def iremAllR (fuel : Nat) (s : St) (ids : List String) (now : Int) : St × Except LErr Unit :=
  match fuel with
  | 0 => (s, .error "fuel")
  | fuel + 1 =>
    match ids with
    | [] => (s, .ok ())
    | i :: rest =>
      match iremR fuel s i now with
      | (s1, .error e) => (s1, .error e)
      | (s1, .ok _) => iremAllR fuel s1 rest now
/-- `IndexedState.search`: term-index candidates, expiry (purging, cascading), re-match -/
def isearchR (fuel : Nat) (s : St) (pattern : Obj) (now : Int) : St × Except LErr (List (String × Obj × List Bs)) :=
  match fuel with
  | 0 => (s, .error "fuel")
  | fuel + 1 =>
    match candsR s pattern with
    | .error e => (s, .error e)
    | .ok ids => isearchLoopR fuel s pattern ids now []
def isearchLoopR (fuel : Nat) (s : St) (pattern : Obj) (ids : List String) (now : Int)
    (acc : List (String × Obj × List Bs)) : St × Except LErr (List (String × Obj × List Bs)) :=
  match fuel with
  | 0 => (s, .error "fuel")
  | fuel + 1 =>
    match ids with
    | [] => (s, .ok acc)
    | id :: rest =>
      match amGet s.facts id with
      | none => isearchLoopR fuel s pattern rest now acc
      | some fact =>
        match checkExpiration fact now with
        -- expire: the purge's error (and an error of checkExpiration) is logged and ignored
        | .ok true => isearchLoopR fuel (iremR fuel s id now).1 pattern rest now acc
        | _ =>
          match matchesJ (.obj pattern) (.obj fact) with
          | .error e => (s, .error e)
          | .ok bss => isearchLoopR fuel s pattern rest now (if bss.isEmpty then acc else acc ++ [(id, fact, bss)])
end

def iGetR (s : St) (id : String) (now : Int) : St × Except LErr Obj :=
  match amGet s.facts id with
  | none => (s, .error "notFound")
  | some fact =>
    match checkExpiration fact now with
    | .error e => (s, .error e)
    | .ok true =>
      (match iremR s.fuel s id now with
       | (s1, .error e) => (s1, .error e)
       | (s1, .ok _) => (s1, .error "notFound"))
    | .ok false => (s, .ok fact)

/-- the candidate loop of `IndexedState.doFindRules`: expiry → lost rule / rule body errors -/
def ifindLoopR (now : Int) (fuel : Nat) (s : St) (ids : List String) (acc : List (String × Obj)) :
    St × Except LErr (List (String × Obj)) :=
  match fuel with
  | 0 => (s, .error "fuel")
  | fuel + 1 =>
    match ids with
    | [] => (s, .ok acc)
    | id :: rest =>
      let fact? := amGet s.facts id
      match checkExpiration (fact?.getD []) now with
      | .ok true => ifindLoopR now fuel (iremR s.fuel s id now).1 rest acc
      | _ =>
        match fact? with
        | none => (s, .error "lostRule")
        | some f =>
          match extractRule f true with
          | .error e => (s, .error e)
          | .ok (some body, _) => ifindLoopR now fuel s rest (acc ++ [(id, body)])
          | .ok (none, _) => (s, .error "ruleBodyMissing")

/-- `doFindRules` (indexed): pattern-index candidates, then the loop -/
def iFindRulesR (s : St) (event : Obj) (now : Int) : St × Except LErr (List (String × Obj)) :=
  match piSearch s.ri event with
  | .error e => (s, .error (perr e))
  | .ok ids => ifindLoopR now (ids.length + 1) s ids []

/-- the scan of `LinearState.doFindRules` (repaired): a `rule` value that is not a map is logged and skipped, like a rule
body whose `when` is not a map -/
def lfindLoopR (event : Obj) (now : Int) (fuel : Nat) (s : St) (ids : List String) (acc : List (String × Obj)) :
    St × Except LErr (List (String × Obj)) :=
  match fuel with
  | 0 => (s, .error "fuel")
  | fuel + 1 =>
    match ids with
    | [] => (s, .ok acc)
    | id :: rest =>
      match amGet s.facts id with
      | none => lfindLoopR event now fuel s rest acc
      | some fact =>
        match fact.get? "rule" with
        | none => lfindLoopR event now fuel s rest acc
        | some rule =>
          match checkExpiration fact now with
          | .error e => (s, .error e)
          | .ok true =>
            (match St.lrem s.fuel s id now with
             | (s1, .error e) => (s1, .error e)
             | (s1, .ok _) => lfindLoopR event now fuel s1 rest acc)
          | .ok false =>
            match rule with
            | .obj r =>
              (match Obj.get? r "when" with
               | some (.obj w) =>
                 let pat := (Obj.get? w "pattern").getD (.obj w)
                 match matchesJ pat (.obj event) with
                 | .error e => (s, .error e)
                 | .ok bss => lfindLoopR event now fuel s rest (if bss.isEmpty then acc else acc ++ [(id, r)])
               | _ => lfindLoopR event now fuel s rest acc)
            | _ => lfindLoopR event now fuel s rest acc

def lFindRulesR (s : St) (event : Obj) (now : Int) : St × Except LErr (List (String × Obj)) :=
  lfindLoopR event now (s.facts.length + 1) s (s.facts.map (·.1)) []

/-! kind-dispatching wrappers (the `State` interface) -/

def addK (s : St) (given : String) (x : Obj) (now : Int) : St × Except LErr String :=
  match s.kind with | .indexed => iAddR s given x now | .linear => s.lAdd given x now
def remK (s : St) (id : String) (now : Int) : St × Except LErr Bool :=
  match s.kind with | .indexed => iremR s.fuel s id now | .linear => St.lrem s.fuel s id now
def getK (s : St) (id : String) (now : Int) : St × Except LErr Obj :=
  match s.kind with | .indexed => iGetR s id now | .linear => s.lGet id now
def searchK (s : St) (p : Obj) (now : Int) : St × Except LErr (List (String × Obj × List Bs)) :=
  match s.kind with | .indexed => isearchR s.fuel s p now | .linear => St.lsearch s.fuel s p now
def findRulesK (s : St) (ev : Obj) (now : Int) : St × Except LErr (List (String × Obj)) :=
  match s.kind with | .indexed => iFindRulesR s ev now | .linear => lFindRulesR s ev now

/-! ## 3. The state lock -/

/-- the methods of the `State` interface used by the Location API -/
inductive Meth where | add | rem | get | search | findRules | count
deriving DecidableEq, Repr

/-- `free`; `rdead` = a read lock is held by a request that died in a panic; `wdead` = the write lock is -/
inductive Lock where | free | rdead | wdead
deriving DecidableEq, Repr

structure KLoc where
  loc : Loc
  lock : Lock := .free
  /-- a writer is queued behind a leaked read lock: sync.RWMutex then blocks new readers as well -/
  wwait : Bool := false
  /-- the location sits in a sys.System: the cron add/rem hooks are installed on its state -/
  hooks : Bool := false
  /-- the lock discipline in force: by default the table extracted from the current Go source -/
  locks : List C13Gen.LockUse := C13Gen.lockUses
  /-- fault oracle: `some s'` = the body of this State method, started on this memory, panics (at a place that is no row
  of the extracted table: a nil dereference, a runtime error ...) and leaves the memory as `s'`. No input is known to do
  that to the repaired source, and the model driver runs with the default "never"; the theorems about the lock quantify
  over every oracle. -/
  fault : Meth → St → Option St := fun _ _ => none

/-- the location invariant of the property: nobody dead holds the state lock -/
def Serving (k : KLoc) : Prop := k.lock = .free
instance (k : KLoc) : Decidable (Serving k) := by unfold Serving; infer_instance

/-- no State method body panics (the situation of every known input on the repaired source) -/
def FaultFree (k : KLoc) : Prop := ∀ m s, k.fault m s = none

inductive Res (α : Type) where
  | ok (a : α)
  | err (e : LErr)
  | panic (site : PanicSite)
  | hang

def Res.isPanic {α} : Res α → Bool | .panic _ => true | _ => false
def Res.isHang {α} : Res α → Bool | .hang => true | _ => false
def Res.site {α} : Res α → Option PanicSite | .panic s => some s | _ => none
def Res.cls {α} : Res α → String
  | .ok _ => "ok" | .err _ => "err" | .panic _ => "panic" | .hang => "hang"

def KM (α : Type) := KLoc → KLoc × Res α

namespace KM
def pure {α} (a : α) : KM α := fun k => (k, .ok a)
def bind {α β} (m : KM α) (f : α → KM β) : KM β := fun k =>
  match m k with
  | (k1, .ok a) => f a k1
  | (k1, .err e) => (k1, .err e)
  | (k1, .panic s) => (k1, .panic s)
  | (k1, .hang) => (k1, .hang)
def fail {α} (e : LErr) : KM α := fun k => (k, .err e)
def get : KM KLoc := fun k => (k, .ok k)
/-- Go's `x, _, _ := f()`: an error becomes a value; a panic or a hang still propagates -/
def attempt {α} (m : KM α) : KM (Except LErr α) := fun k =>
  match m k with
  | (k1, .ok a) => (k1, .ok (.ok a))
  | (k1, .err e) => (k1, .ok (.error e))
  | (k1, .panic s) => (k1, .panic s)
  | (k1, .hang) => (k1, .hang)
end KM

instance : Monad KM where
  pure := KM.pure
  bind := KM.bind

/-- the Go function that holds the lock of each method -/
def methName : Kind → Meth → String
  | .indexed, .add => "IndexedState.Add"
  | .indexed, .rem => "IndexedState.Rem"
  | .indexed, .get => "IndexedState.get"
  | .indexed, .search => "IndexedState.Search"
  | .indexed, .findRules => "IndexedState.doFindRules"
  | .indexed, .count => "IndexedState.Count"
  | .linear, .add => "LinearState.Add"
  | .linear, .rem => "LinearState.rem"
  | .linear, .get => "LinearState.get"
  | .linear, .search => "LinearState.search"
  | .linear, .findRules => "LinearState.doFindRules"
  | .linear, .count => "LinearState.Count"

def Meth.isWrite : Meth → Bool | .add | .rem => true | _ => false

/-- is the code of the method that is able to panic (anything beyond one map read) executed while its lock is held?
(`get`: one map read under the lock, expiry runs after the unlock; `LinearState.Add`: PrepareFact runs before the lock, the
storage call and two map writes under it -- since the repair that moved the storage call into the section, released by
`defer`; `Count`: `len` of a map) -/
def panicUnderLock : Kind → Meth → Bool
  | .indexed, .add | .indexed, .rem | .indexed, .search | .indexed, .findRules => true
  | .linear, .add | .linear, .rem | .linear, .search | .linear, .findRules => true
  | _, _ => false

/-- from the extracted table: every lock acquisition of the Go function `fn` has a deferred release -/
def deferredIn (tbl : List C13Gen.LockUse) (fn : String) : Bool :=
  (tbl.filter (fun u => u.func == fn)).all (·.deferred)

/-- the lock a panic inside method `m` leaves behind under the lock discipline `tbl` -/
def leakIn (tbl : List C13Gen.LockUse) (kind : Kind) (m : Meth) : Option Lock :=
  if panicUnderLock kind m && !deferredIn tbl (methName kind m) then some (if m.isWrite then .wdead else .rdead) else none

/-- ... under the discipline of the current source -/
def leakOf (kind : Kind) (m : Meth) : Option Lock := leakIn C13Gen.lockUses kind m

def blocked (k : KLoc) (write : Bool) : Bool :=
  match k.lock with
  | .free => false
  | .wdead => true
  | .rdead => write || k.wwait

/-- install the state a method returned (a Go object keeps its type: the kind is the location's) -/
def withSt (k : KLoc) (s : St) : KLoc := { k with loc := { k.loc with st := { s with kind := k.loc.st.kind } } }

/-- one call of a `State` method: acquire (or block forever), run, release unless a panic skips a plain unlock.
The body `f` is the sequential model; it panics exactly when the fault oracle says so. -/
def kCall {α} (m : Meth) (f : St → St × Except LErr α) : KM α := fun k =>
  if blocked k m.isWrite then
    ({ k with wwait := k.wwait || (m.isWrite && k.lock == .rdead) }, .hang)
  else
    match k.fault m k.loc.st with
    | some s =>
      let k1 := withSt k s
      ({ k1 with lock := match leakIn k.locks k.loc.st.kind m with | some l => (if k1.lock == .free then l else k1.lock) | none => k1.lock },
       .panic .unlisted)
    | none =>
      match f k.loc.st with
      | (s, .ok a) => (withSt k s, .ok a)
      | (s, .error e) => (withSt k s, .err e)

/-! ## 3b. cron hooks of a sys.System (cron/corehooks.go) -/

/-- `getSchedule` + `ScheduleEvent`: `none` = fine, `some e` = the hook fails. Schedules other than the two constants the
generators use are reported as unsure by the driver. -/
def validSchedule : String := "0 0 1 1 *"
def getSchedule (fact : Obj) : Except LErr String :=
  match fact.get? "rule" with
  | none => .ok ""
  | some (.obj r) =>
    (match Obj.get? r "schedule" with
     | none => .ok ""
     | some (.str s) => .ok s
     | some _ => .error "hook")
  | some _ => .error "hook"
def addHookErr (fact : Obj) : Option LErr :=
  match getSchedule fact with
  | .error e => some e
  | .ok s => if s == "" || s == validSchedule then none else some "hook"

/-! ## 4. The Location API over `kCall` -/

def kGet (id : String) (now : Int) : KM Obj := kCall .get (fun s => getK s id now)
def kCount : KM Nat := kCall .count (fun s => (s, .ok s.count))
def kSearch (p : Obj) (now : Int) : KM (List (String × Obj × List Bs)) := kCall .search (fun s => searchK s p now)
def kFindRules (ev : Obj) (now : Int) : KM (List (String × Obj)) := kCall .findRules (fun s => findRulesK s ev now)

/-- the memory after an `Add` whose cron hook failed: as before the call. Indexed: the hook runs inside `add` after the rule
index was touched, and `add` puts the index back (the pattern of the refused rule leaves it again, the rule stored under
the id so far returns to it). Linear: the hook runs before the document goes to storage. (Before the repair the rule
stored so far stayed out of the index, and the linear state had already written the refused document.) -/
def hookFailedSt (s : St) (_id : String) (_m : Obj) : St := s

/-- `State.Add` (+ the add hook of a System: it sees the prepared fact; its error aborts the add) -/
def kAdd (id : String) (x : Obj) (now : Int) : KM String := fun k =>
  if !k.hooks then kCall .add (fun s => addK s id x now) k
  else
    match kCall .add (fun s => addK s id x now) k with
    | (k1, .ok a) =>
      (match prepareFact id k.loc.st.freshId x now with
       | .ok (fid, fact, _) =>
         (match addHookErr fact with
          | some e => (withSt k (hookFailedSt k.loc.st fid fact), .err e)
          | none => (k1, .ok a))
       | .error _ => (k1, .ok a))
    | r => r

/-- `State.Rem` (+ the rem hook of a System: it reads the fact first; a missing fact is its error) -/
def kRem (id : String) (now : Int) : KM Bool := fun k =>
  if !k.hooks then kCall .rem (fun s => remK s id now) k
  else
    match kCall .get (fun s => getK s id now) k with
    | (k1, .ok fact) =>
      (match getSchedule fact with
       | .error e => (k1, .err e)
       | .ok _ => kCall .rem (fun s => remK s id now) k1)
    | (k1, .err e) => (k1, .err e)
    | (k1, .panic s) => (k1, .panic s)
    | (k1, .hang) => (k1, .hang)

def kGetProp (id prop : String) (dflt : J) (now : Int) : KM (J × Bool) := do
  match ← KM.attempt (kGet (genPropId id prop) now) with
  | .error "notFound" => pure (dflt, false)
  | .error e => KM.fail e
  | .ok fact =>
    match fact.get? ("!" ++ prop) with
    | some v => pure (v, true)
    | none => KM.fail "missingProp"

def kGetPropStringD (prop : String) (now : Int) : KM String := do
  match ← KM.attempt (kGetProp "" prop (.str "") now) with
  | .ok (.str s, _) => pure s
  | _ => pure ""

def kSetProp (id prop : String) (v : J) (now : Int) : KM String :=
  kAdd "" [("id", .str id), ("!" ++ prop, v), ("deleteWith", .arr [.str id])] now

def kRemProp (id prop : String) (now : Int) : KM Bool := kRem (genPropId id prop) now

def kRunGuard (c : Ctx) (now : Int) : Guard → KM Unit
  | .enabled => do
    let e ← kGetPropStringD "enabled" now
    if e == "" || e == "yes" || e == "true" then pure () else KM.fail "disabled"
  | .checkRead => do
    let key ← kGetPropStringD "readKey" now
    if key == "" || c.rk == key then pure () else KM.fail "readDenied"
  | .checkWrite => do
    let k ← KM.get
    if k.loc.readOnly then KM.fail "readOnly" else
    let key ← kGetPropStringD "writeKey" now
    if key == "" || c.wk == key then pure () else KM.fail "writeDenied"
  | .atCapacity => do
    let k ← KM.get
    let n ← kCount
    if k.loc.maxFacts ≤ n then KM.fail "capacity" else pure ()

def kRunGuards (c : Ctx) (now : Int) : List Guard → KM Unit
  | [] => pure ()
  | g :: gs => do kRunGuard c now g; kRunGuards c now gs

def kAddFact (c : Ctx) (id : String) (fact : Obj) (now : Int) : KM String := do
  kRunGuards c now (guardsOf "AddFact"); kAdd id fact now

def kRemFact (c : Ctx) (id : String) (now : Int) : KM String := do
  kRunGuards c now (guardsOf "RemFact"); let _ ← kRem id now; pure id

def kGetFact (c : Ctx) (id : String) (now : Int) : KM Obj := do
  kRunGuards c now (guardsOf "GetFact"); kGet id now

/-- the fact `AddRule` hands to the state: the validated rule wrapped, with `expires` and `deleteWith` lifted -/
def ruleWrapper (rule' : Obj) (expiring : Bool) (expires : Int) : Obj :=
  let w : Obj := [("rule", .obj rule')]
  let w := if expiring then w ++ [("expires", .num expires)] else w
  match rule'.get? "deleteWith" with | some d => w ++ [("deleteWith", d)] | none => w

def kAddRule (c : Ctx) (id : String) (rule : Obj) (now : Int) : KM String := do
  kRunGuards c now (guardsOf "AddRule")
  match ruleFromMap rule with
  | .error e => KM.fail e
  | .ok _ =>
    match setExpires rule now with
    | .error e => KM.fail e
    | .ok (rule', expiring, expires) => kAdd id (ruleWrapper rule' expiring expires) now

def kRemRule (c : Ctx) (id : String) (now : Int) : KM String := do
  kRunGuards c now (guardsOf "RemRule")
  let _ ← kRem id now
  let (_, found) ← kGetProp id "disabled" (.bool false) now
  if found then do
    let _ ← kRemProp id "disabled" now
    pure id
  else pure id

def kEnableRule (c : Ctx) (id : String) (enable : Bool) (now : Int) : KM Unit := do
  kRunGuards c now (guardsOf "EnableRule")
  if enable then do
    let _ ← kRemProp id "disabled" now
    pure ()
  else do
    let _ ← kSetProp id "disabled" (.bool true) now
    pure ()

def kRuleEnabled (c : Ctx) (id : String) (now : Int) : KM Bool := do
  kRunGuards c now (guardsOf "RuleEnabled")
  let (v, _) ← kGetProp id "disabled" (.bool false) now
  match v with
  | .bool d => pure (!d)
  | _ => pure true

def kGetRule (c : Ctx) (id : String) (now : Int) : KM Obj := do
  kRunGuards c now (guardsOf "GetRule")
  let f ← kGet id now
  match extractRule f true with
  | .ok (some r, _) => pure r
  | .ok (none, _) => KM.fail "ruleBodyMissing"
  | .error e => KM.fail e

def kGetParentsRaw (now : Int) : KM (List String) := do
  let (v, found) ← kGetProp "" "parents" (.arr []) now
  if !found then pure [] else
  match parentsOfJ v with
  | .ok ps => pure ps
  | .error e => KM.fail e

def klocSearchFacts (c : Ctx) (p : Obj) (now : Int) : KM (List (String × Obj × List Bs)) := do
  kRunGuards c now (guardsOf "searchFacts"); kSearch p now

/-- `SearchFacts(pattern, inherited)` of a location without parents (a location with parents is outside this model:
`unmodelled`) -/
def kSearchFacts (c : Ctx) (p : Obj) (inherited : Bool) (now : Int) : KM (List (String × Obj × List Bs)) := do
  if inherited then do
    let ps ← kGetParentsRaw now
    if !ps.isEmpty then KM.fail "unmodelled" else klocSearchFacts c p now
  else klocSearchFacts c p now

def rulesFromBodies : List (String × Obj) → Except LErr (List (String × RuleM))
  | [] => .ok []
  | (id, body) :: rest => do let r ← ruleFromMap body; let rs ← rulesFromBodies rest; pure ((id, r) :: rs)

/-- `searchRules` = guards + `FindCachedRules` -/
def klocSearchRules (c : Ctx) (ev : Obj) (now : Int) : KM (List (String × RuleM)) := do
  kRunGuards c now (guardsOf "searchRules")
  let cands ← kFindRules ev now
  match rulesFromBodies cands with
  | .ok rs => pure rs
  | .error e => KM.fail e

/-- `searchRulesAncestors` of a location without parents -/
def kSearchRulesAnc (c : Ctx) (ev : Obj) (now : Int) : KM (List (String × RuleM)) := do
  let ps ← kGetParentsRaw now
  if !ps.isEmpty then KM.fail "unmodelled" else klocSearchRules c ev now

def kSearchRules (c : Ctx) (ev : Obj) (inherited : Bool) (now : Int) : KM (List (String × RuleM)) := do
  kRunGuards c now (guardsOf "SearchRules")
  if inherited then kSearchRulesAnc c ev now else klocSearchRules c ev now

/-- does the location's own (inherited) fact search, started now, end in a panic? The State calls it makes (the
property reads of the guards, then `Search`) and the memories they start on do not depend on the pattern, and neither
does the fault oracle: one probe stands for every nested search of a query or a rule condition -/
def nestedPanic (k : KLoc) (c : Ctx) (now : Int) : Option PanicSite := (kSearchFacts c [] true now k).2.site

/-- what a nested search that panicked leaves behind: the lock as that search left it -/
def leakNested (k : KLoc) (c : Ctx) (now : Int) : KLoc :=
  { k with lock := (kSearchFacts c [] true now k).1.lock, wwait := (kSearchFacts c [] true now k).1.wwait }

def KM.panicAt {α} (s : PanicSite) : KM α := fun k => (k, .panic s)

/-- run `m`; an error (not a panic, not a hang) is handed to `h` -/
def KM.handle {α} (m : KM α) (h : LErr → KM α) : KM α := fun k =>
  match m k with
  | (k1, .err e) => h e k1
  | r => r

/-- `ListRules`: a failed non-inherited search leaves a nil result that is dereferenced -/
def kListRules (c : Ctx) (inherited : Bool) (now : Int) : KM (List String) := do
  kRunGuards c now (guardsOf "ListRules")
  KM.handle
    (do let found ← kSearchFacts c [("rule", .str "?rule")] inherited now
        pure ((found.filter (fun (_, _, bss) => match bss.head? with
           | some b => (match b.get? "?rule" with | some (.str _) => true | some (.obj _) => true | _ => false)
           | none => false)).map (·.1)))
    (fun _ => if inherited then pure [] else KM.panicAt .listRulesNil)

/-- the fact search a query or a rule condition performs (inherited search of the location itself), as a pure function
of the current state; a panic or a hang travels as a reserved error and is turned back by the caller -/
def srchOfK (k : KLoc) (c : Ctx) (now : Int) : Srch := fun p =>
  match (kSearchFacts c p true now k).2 with
  | .ok found => .ok (found.flatMap (fun (_, _, bss) => bss))
  | .err e => .error e
  | .panic _ => .error "panic"
  | .hang => .error "hang"

/-- `Location.Query`: guards, parse, exec. A nested search that panics takes the query with it; one that blocks (possible
only while the lock is held by a dead request) blocks the query. -/
def kExecQuery (c : Ctx) (q : J) (now : Int) : KM (List Bs) := fun k =>
  -- `json.Unmarshal("null", &m)` leaves the nil map, which ParseQuery reads as the empty query
  let q := match q with | .null => .obj [] | q => q
  match (do let q' ← parseQuery (4 * sz q + 4) q; execQ (srchOfK k c now) q' [[]] : Except LErr (List Bs)) with
  | .ok bss => (k, .ok bss)
  | .error e =>
    match (if e == "panic" then nestedPanic k c now else none) with
    | some site => (leakNested k c now, .panic site)
    | none => if blocked k false && e == "hang" then (k, .hang) else (k, .err e)

def kQuery (c : Ctx) (q : J) (now : Int) : KM (List Bs) := do
  kRunGuards c now (guardsOf "Query"); kExecQuery c q now

/-- `RuleEnabled` as `FindRules.Do` uses it: `enabled, _ := ...` -/
def kEnabledFlags (c : Ctx) (now : Int) : List (String × RuleM) → KM (List (String × RuleM × Bool))
  | [] => pure []
  | (id, r) :: rest => do
    let e ← KM.attempt (kRuleEnabled c id now)
    let en := match e with | .ok b => b | .error "disabled" => false | .error _ => true
    let more ← kEnabledFlags c now rest
    pure ((id, r, en) :: more)

def treeErr (e : LErr) : Tree := { err := some e, rules := [], values := [], aborted := true }

def treeHasErr (t : Tree) (e : LErr) : Bool :=
  t.err == some e || t.rules.any (fun r => r.conds.any (fun cn => cn.err == some e))

/-- the rules `FindRules.Do` hands to the walk, each with its enabled flag: `trigger!` (a stored rule by id),
`evaluate!` (an embedded rule, never checked for being enabled) or the rule search -/
def kCandidates (c : Ctx) (ev : Obj) (now : Int) : KM (List (String × RuleM × Bool)) :=
  match ev.get? "trigger!" with
  | some (.str id) => do
    let body ← kGetRule c id now
    match ruleFromMap body with
    | .ok r => kEnabledFlags c now [(id, r)]
    | .error e => KM.fail e
  | some _ => KM.fail "syntax"
  | none =>
    match ev.get? "evaluate!" with
    | some (.obj m) =>
      (match ruleFromMap m with
       | .ok r => pure [("embedded", r, true)]
       | .error e => KM.fail e)
    | some _ => KM.fail "syntax"
    | none => do
      let cands ← kSearchRulesAnc c ev now
      kEnabledFlags c now cands

/-- the walk over the dispatched rules: conditions (with their nested searches) and actions -/
def kWalk (c : Ctx) (ev : Obj) (now : Int) (cands : List (String × RuleM × Bool)) : KM Tree := fun k =>
  let t := processEvent (srchOfK k c now) k.loc.name ev cands
  match (if treeHasErr t "panic" then nestedPanic k c now else none) with
  | some site => (leakNested k c now, .panic site)
  | none => if blocked k false && treeHasErr t "hang" then (k, .hang) else (k, .ok t)

/-- `ProcessEvent`. A failure of `FindRules.Do` is the tree's `err` (the Go code returns it as the walk's condition). -/
def kProcessEvent (c : Ctx) (ev : Obj) (now : Int) : KM Tree := do
  match ← KM.attempt (kCandidates c ev now) with
  | .error e => pure (treeErr e)
  | .ok cands => kWalk c ev now cands

/-! ## 5. The service front (service/httpd.go GetHTTPRequest + ServeHTTP, service/service.go ProcessRequest) -/

structure HttpReq where
  method : String
  /-- json-typed query parameters with their raw text (`parameterTypes`: fact, rule, pattern, event, query, ...) -/
  jsonParams : List (String × String) := []
  body : String := ""
  /-- the decoded body when it is a JSON object -/
  bodyObj : Option Obj := none

/-- the request map handed to `ProcessRequest` (repository commit a93a288: an empty body, an empty json-typed
parameter and a non-string "uri" are answered with an error; before, each of them hit an unchecked index/assertion) -/
def httpFront (r : HttpReq) : Res Obj :=
  -- parseQuery: a json-typed parameter goes through Unmarshal
  if r.jsonParams.any (fun p => p.2 == "") then .err "syntax" else
  if r.method == "POST" then
    if r.body == "" then .ok [] else
    match r.bodyObj with
    | some o =>
      (match o.get? "uri" with
       | some (.str _) | none => .ok o
       | some _ => .err "syntax")
    | none => .err "syntax"
  else .ok []

/-- `ProcessRequest` called as a library function: a "uri" that is not a string is an error (the unchecked assertion
`u.(string)` was repaired in /repo) -/
def serviceFront (m : Obj) : Res Unit :=
  match m.get? "uri" with
  | none => .err "nouri"
  | some (.str _) => .ok ()
  | some _ => .err "baduri"

/-! ## 6. The public operations as one type -/

inductive PubOp where
  | addFact (c : Ctx) (id : String) (fact : Obj) (now : Int)
  | remFact (c : Ctx) (id : String) (now : Int)
  | getFact (c : Ctx) (id : String) (now : Int)
  | search (c : Ctx) (pattern : Obj) (inherited : Bool) (now : Int)
  | addRule (c : Ctx) (id : String) (rule : Obj) (now : Int)
  | remRule (c : Ctx) (id : String) (now : Int)
  | getRule (c : Ctx) (id : String) (now : Int)
  | enableRule (c : Ctx) (id : String) (enable : Bool) (now : Int)
  | ruleEnabled (c : Ctx) (id : String) (now : Int)
  | listRules (c : Ctx) (inherited : Bool) (now : Int)
  | searchRules (c : Ctx) (event : Obj) (inherited : Bool) (now : Int)
  | query (c : Ctx) (q : J) (now : Int)
  | event (c : Ctx) (ev : Obj) (now : Int)

def Res.void {α} : Res α → Res Unit
  | .ok _ => .ok () | .err e => .err e | .panic s => .panic s | .hang => .hang

def KM.void {α} (m : KM α) : KM Unit := fun k => ((m k).1, (m k).2.void)

def run : PubOp → KM Unit
  | .addFact c id f now => (kAddFact c id f now).void
  | .remFact c id now => (kRemFact c id now).void
  | .getFact c id now => (kGetFact c id now).void
  | .search c p inh now => (kSearchFacts c p inh now).void
  | .addRule c id r now => (kAddRule c id r now).void
  | .remRule c id now => (kRemRule c id now).void
  | .getRule c id now => (kGetRule c id now).void
  | .enableRule c id en now => (kEnableRule c id en now).void
  | .ruleEnabled c id now => (kRuleEnabled c id now).void
  | .listRules c inh now => (kListRules c inh now).void
  | .searchRules c ev inh now => (kSearchRules c ev inh now).void
  | .query c q now => (kQuery c q now).void
  | .event c ev now => (kProcessEvent c ev now).void

/-- a history: every operation is attempted (each request has its own goroutine), whatever happened to the previous ones -/
def runAll : List PubOp → KLoc → KLoc × List (PubOp × Res Unit)
  | [], k => (k, [])
  | op :: ops, k =>
    let (k1, r) := run op k
    let (k2, rs) := runAll ops k1
    (k2, (op, r) :: rs)

/-! ## 7. Predicates used in the theorems -/

/-- the rule body has no event pattern the repaired `GetRulePatterns` would hand out (no `when`, or a `when` /
`when.pattern` that is not a map): the documents that used to reach the two unchecked assertions are among these -/
def noPattern (r : Obj) : Bool := (getRulePatternR r).isNone

/-- the documents that made the unrepaired `GetRulePatterns` panic: `when` present and not a map, or a map whose `pattern`
is present and not a map -/
def badWhen (r : Obj) : Bool :=
  match r.get? "when" with
  | none => false
  | some (.obj w) => (match Obj.get? w "pattern" with | none => false | some (.obj _) => false | some _ => true)
  | some _ => true

end C13

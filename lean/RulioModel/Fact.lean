import RulioModel.Json
import RulioModel.Match

/-! # Facts: ids, properties, expiry (state.go) — executable model, explicit `now` (UNIX seconds) -/

abbrev Obj := List (String × J)

def Obj.get? (o : Obj) (k : String) : Option J := lookupKey k o
def Obj.has (o : Obj) (k : String) : Bool := (lookupKey k o).isSome
def Obj.erase (o : Obj) (k : String) : Obj := o.filter (fun p => p.1 != k)
/-- Go map assignment: replace in place if present, else append -/
def Obj.set (o : Obj) (k : String) (v : J) : Obj :=
  if o.any (fun p => p.1 == k) then o.map (fun p => if p.1 == k then (k, v) else p) else o ++ [(k, v)]

/-- finite maps id ↦ value as key-unique association lists -/
def amGet {α} (m : List (String × α)) (k : String) : Option α :=
  match m with
  | [] => none
  | (k', v) :: r => if k == k' then some v else amGet r k
def amErase {α} (m : List (String × α)) (k : String) : List (String × α) := m.filter (fun p => p.1 != k)
def amSet {α} (m : List (String × α)) (k : String) (v : α) : List (String × α) :=
  if m.any (fun p => p.1 == k) then m.map (fun p => if p.1 == k then (k, v) else p) else m ++ [(k, v)]
def amHas {α} (m : List (String × α)) (k : String) : Bool := m.any (fun p => p.1 == k)

/-- error classes shared with the harness (the harness maps Go errors to the same names) -/
abbrev LErr := String

/-- `IdProperty`: the property name starts with '!' -/
def idProperty (p : String) : Bool := p.startsWith "!"

def genPropId (id prop : String) : String := "!" ++ id ++ "." ++ prop

/-- `parseProp`: exactly one '!'-property makes the fact a property fact; its `id` (if any) must be a string -/
def parseProp (fact : Obj) : Except LErr (Option (String × String × J)) :=
  match fact.filter (fun kv => idProperty kv.1) with
  | [] => .ok none
  | [(p, v)] =>
    match fact.get? "id" with
    | none => .ok (some ("", (p.drop 1).toString, v))
    | some (.str s) => .ok (some (s, (p.drop 1).toString, v))
    | some _ => .error "badId"
  | _ => .error "multiProp"

/-- `GenId`: canonical id for a property fact, else the given id, else a fresh one -/
def genId (fact : Obj) (given fresh : String) : Except LErr String := do
  match ← parseProp fact with
  | some (id, prop, _) => pure (genPropId id prop)
  | none =>
    let id := if given == "" then fresh else given
    if isVar id then .error "badIdVar" else pure id

/-! ## durations and RFC3339 (the closed families the generators use) -/

def digitsToNat? (s : String) : Option Nat :=
  if s.isEmpty || !s.all Char.isDigit then none else s.toNat?

/-- `time.ParseDuration` restricted to `<digits><unit>` with unit ∈ {s, m, h}; seconds -/
def parseDurationSecs (s : String) : Option Int :=
  let neg := s.startsWith "-"
  let body := if neg || s.startsWith "+" then (s.drop 1).toString else s
  let go (numS : String) (mult : Nat) : Option Int :=
    (digitsToNat? numS).map (fun n => if neg then -((n * mult : Nat) : Int) else ((n * mult : Nat) : Int))
  if body.endsWith "s" && !body.endsWith "ms" && !body.endsWith "ns" && !body.endsWith "us" then go (body.dropEnd 1).toString 1
  else if body.endsWith "m" then go (body.dropEnd 1).toString 60
  else if body.endsWith "h" then go (body.dropEnd 1).toString 3600
  else none

/-- days since 1970-01-01 of a proleptic Gregorian date (Howard Hinnant's days_from_civil) -/
def daysFromCivil (y m d : Int) : Int :=
  let y' := if m ≤ 2 then y - 1 else y
  let era := (if y' ≥ 0 then y' else y' - 399) / 400
  let yoe := y' - era * 400
  let mp := (m + 9) % 12
  let doy := (153 * mp + 2) / 5 + d - 1
  let doe := yoe * 365 + yoe / 4 - yoe / 100 + doy
  era * 146097 + doe - 719468

/-- RFC3339 restricted to `YYYY-MM-DDTHH:MM:SSZ` -/
def parseRFC3339 (s : String) : Option Int :=
  let cs := s.toList
  if cs.length != 20 then none else
  let sub (a b : Nat) : String := String.ofList ((cs.drop a).take (b - a))
  let ch (i : Nat) : Char := cs.getD i ' '
  if ch 4 != '-' || ch 7 != '-' || ch 10 != 'T' || ch 13 != ':' || ch 16 != ':' || ch 19 != 'Z' then none else
  match digitsToNat? (sub 0 4), digitsToNat? (sub 5 7), digitsToNat? (sub 8 10),
        digitsToNat? (sub 11 13), digitsToNat? (sub 14 16), digitsToNat? (sub 17 19) with
  | some y, some mo, some d, some h, some mi, some sec =>
    if mo < 1 || mo > 12 || d < 1 || d > 31 || h > 23 || mi > 59 || sec > 59 then none
    else some (daysFromCivil y mo d * 86400 + h * 3600 + mi * 60 + sec)
  | _, _, _, _, _, _ => none

/-! ## expiry -/

/-- `notAfter(secs, then)` with `then` already resolved to the current time. The comparison itself is
taken from the generated text when available (see Gen); this is the hand-written twin. -/
def notAfter (secs now : Int) : Bool := if secs == 0 then false else decide (secs ≤ now)

/-- `setExpires`: canonicalise `ttl` / `expires`; mirror `expires` into a rule body.
Returns (fact', hasExpiration, expires). -/
def setExpires (fact : Obj) (now : Int) : Except LErr (Obj × Bool × Int) := do
  let (fact, _) ← (match fact.get? "ttl" with
    | none => pure (fact, (0 : Int))
    | some ttl =>
      let fact := fact.erase "ttl"
      match ttl with
      | .num n => pure (fact.set "expires" (.num (now + n)), now + n)
      | .str s =>
        match parseDurationSecs s with
        | some d => pure (fact.set "expires" (.num (now + d)), now + d)
        | none => .error "badTTL"
      | _ => .error "badTTL" : Except LErr (Obj × Int))
  match fact.get? "expires" with
  | none => pure (fact, false, 0)
  | some exp =>
    let (fact, expires) ← (match exp with
      | .num n => pure (fact, n)
      | .str s =>
        match parseRFC3339 s with
        | some t => pure (fact.set "expires" (.num t), t)
        | none => .error "badExpires"
      | _ => .error "badExpires" : Except LErr (Obj × Int))
    match fact.get? "rule" with
    | none => pure (fact, true, expires)
    | some (.obj r) => pure (fact.set "rule" (.obj (Obj.set r "expires" (.num expires))), true, expires)
    | some _ => .error "ruleNotRule"

/-- `getExpiration`/`checkExpiration`: an in-memory fact's `expires` must be a number -/
def checkExpiration (fact : Obj) (now : Int) : Except LErr Bool :=
  match fact.get? "expires" with
  | none => .ok false
  | some (.num n) => .ok (notAfter n now)
  | some _ => .error "badExpires"

/-- `PrepareFact`: copy, id, expiry; an already expired item is rejected.
Also returns the caller's map as it looks afterwards (a nested rule body is shared and gets `expires`). -/
def prepareFact (given fresh : String) (x : Obj) (now : Int) : Except LErr (String × Obj × Obj) := do
  let id ← genId x given fresh
  let (m, expiring, expires) ← setExpires x now
  if expiring && notAfter expires now then .error "expired" else
  -- the caller's `x` shares the nested rule map with `m`
  let x' := match x.get? "rule", m.get? "rule" with
    | some (.obj _), some (.obj r') => x.set "rule" (.obj r')
    | _, _ => x
  pure (id, m, x')

/-- `ExtractRule(fact, required)`; a map rule body receives the fact's `expires` -/
def extractRule (fact : Obj) (required : Bool) : Except LErr (Option Obj × Obj) :=
  match fact.get? "rule" with
  | some (.obj r) =>
    match fact.get? "expires" with
    | some e => let r' := Obj.set r "expires" e; .ok (some r', fact.set "rule" (.obj r'))
    | none => .ok (some r, fact)
  | some _ => if required then .error "ruleBodyBadType" else .ok (none, fact)
  | none => if required then .error "ruleBodyMissing" else .ok (none, fact)

/-- `GetRulePatterns`: `none` = no `when`; a `when` (or `when.pattern`) that is not a map panics in Go -/
def getRulePattern (rule : Obj) : Except LErr (Option Obj) :=
  match rule.get? "when" with
  | none => .ok none
  | some (.obj w) =>
    match Obj.get? w "pattern" with
    | none => .ok (some w)
    | some (.obj p) => .ok (some p)
    | some _ => .error "panic"
  | some _ => .error "panic"

import RulioModel.Loc
import RulioModel.Spec

namespace LocP

/-! # Definitions used by the statements of C19 / C10 / C07 (core Lean only; nothing here changes the model) -/

deriving instance DecidableEq for Except

/-- the methods the model gives a guard list to (the domain of `guardsOf`) -/
def modelMethods : List String :=
  ["AddFact", "RemFact", "GetFact", "AddRule", "RemRule", "EnableRule", "RuleEnabled", "GetRule",
   "searchFacts", "searchRules", "SearchRules", "ListRules", "GetParents", "SetParents", "Clear", "Delete",
   "StateSize", "Query", "RunJavascript"]

/-- the methods that change facts, rules or the parent set -/
def mutatingMethods : List String :=
  ["AddFact", "RemFact", "AddRule", "RemRule", "EnableRule", "SetParents", "Clear", "Delete"]

/-- the methods that reveal facts, rules or parents -/
def revealingMethods : List String :=
  ["GetFact", "GetRule", "RuleEnabled", "searchFacts", "searchRules", "SearchRules", "ListRules", "GetParents", "StateSize"]

/-- names used by the extractor for the guards -/
def Guard.ofName : String → Option Guard
  | "enabled" => some .enabled
  | "checkRead" => some .checkRead
  | "checkWrite" => some .checkWrite
  | "atCapacity" => some .atCapacity
  | _ => none

/-- the row of a method in the generated table, as guards (`none`: no row, or an unknown guard name) -/
def genGuardsOf (table : List (String × List String)) (m : String) : Option (List Guard) :=
  match table.find? (fun r => r.1 == m) with
  | none => none
  | some r => r.2.mapM Guard.ofName

/-- the generated table, restricted to the model's methods, agrees with `guardsOf` -/
def guardsAgree (table : List (String × List String)) : Bool :=
  modelMethods.all (fun m => genGuardsOf table m == some (guardsOf m))

/-! ## protection state of a location, read off its facts -/

/-- value of the location property `prop` as the guards see it at `now`: the string stored in the property
fact `!.prop`, `""` if there is none (or it is not a string, or the fact is expired / unreadable) -/
def propStr (s : St) (prop : String) (now : Int) : String :=
  match amGet s.facts (genPropId "" prop) with
  | none => ""
  | some f =>
    match checkExpiration f now with
    | .ok false => (match f.get? ("!" ++ prop) with | some (.str v) => v | _ => "")
    | _ => ""

/-- no stored fact is expired at `now` -/
def NoneExpired (s : St) (now : Int) : Prop :=
  ∀ id f, amGet s.facts id = some f → checkExpiration f now ≠ .ok true

/-- the stored fact `id` (if any) is not expired at `now` -/
def FreshAt (s : St) (id : String) (now : Int) : Prop :=
  ∀ f, amGet s.facts id = some f → checkExpiration f now ≠ .ok true

/-- executable form of `FreshAt` -/
def freshAtB (s : St) (id : String) (now : Int) : Bool :=
  match amGet s.facts id with
  | none => true
  | some f => (match checkExpiration f now with | .ok true => false | _ => true)

/-- executable form of `GuardFresh` -/
def guardFreshB (s : St) (now : Int) : Bool :=
  freshAtB s (genPropId "" "enabled") now && freshAtB s (genPropId "" "writeKey") now && freshAtB s (genPropId "" "readKey") now

/-- the three property facts the guards read are not expired (reading an expired one purges it, which is
the only way a guard changes the state) -/
def GuardFresh (s : St) (now : Int) : Prop :=
  FreshAt s (genPropId "" "enabled") now ∧ FreshAt s (genPropId "" "writeKey") now ∧ FreshAt s (genPropId "" "readKey") now

/-- the location is disabled: its `!enabled` property is none of "", "yes", "true" -/
def Disabled (l : Loc) (now : Int) : Prop :=
  ¬ (propStr l.st "enabled" now = "" ∨ propStr l.st "enabled" now = "yes" ∨ propStr l.st "enabled" now = "true")

instance (l : Loc) (now : Int) : Decidable (Disabled l now) := by unfold Disabled; exact inferInstance

/-- the caller may not write: the location is read-only, or has a `!writeKey` the caller does not present -/
def WriteDenied (l : Loc) (c : Ctx) (now : Int) : Prop :=
  l.readOnly = true ∨ (propStr l.st "writeKey" now ≠ "" ∧ c.wk ≠ propStr l.st "writeKey" now)

/-- the caller may not read: the location has a `!readKey` the caller does not present -/
def ReadDenied (l : Loc) (c : Ctx) (now : Int) : Prop :=
  propStr l.st "readKey" now ≠ "" ∧ c.rk ≠ propStr l.st "readKey" now

instance (l : Loc) (c : Ctx) (now : Int) : Decidable (WriteDenied l c now) := by unfold WriteDenied; exact inferInstance
instance (l : Loc) (c : Ctx) (now : Int) : Decidable (ReadDenied l c now) := by unfold ReadDenied; exact inferInstance

/-- hand-written twins of the tests inside the guards (tied to the regenerated `Gen.*` by
`gen_defs_match_model`, Props/C19) -/
def enabledOK (e : String) : Bool := e == "" || e == "yes" || e == "true"
def keyOK (ctxKey key : String) : Bool := key == "" || ctxKey == key
def capFull (maxFacts count : Nat) : Bool := decide (maxFacts ≤ count)
def propEnabled : String := "enabled"
def propWriteKey : String := "writeKey"
def propReadKey : String := "readKey"

/-- the verdict of one guard, read off the location (no state change) -/
def guardVerdict (c : Ctx) (now : Int) (l : Loc) : Guard → Except LErr Unit
  | .enabled =>
    if enabledOK (propStr l.st propEnabled now) then .ok () else .error "disabled"
  | .checkWrite =>
    if l.readOnly then .error "readOnly" else
    if keyOK c.wk (propStr l.st propWriteKey now) then .ok () else .error "writeDenied"
  | .checkRead =>
    if keyOK c.rk (propStr l.st propReadKey now) then .ok () else .error "readDenied"
  | .atCapacity =>
    if capFull l.maxFacts l.st.count then .error "capacity" else .ok ()

/-- the verdict of a guard list: the first refusal -/
def guardsVerdict (c : Ctx) (now : Int) (l : Loc) : List Guard → Except LErr Unit
  | [] => .ok ()
  | g :: gs =>
    match guardVerdict c now l g with
    | .ok _ => guardsVerdict c now l gs
    | .error e => .error e

/-! ## the methods without their guards (what runs once the guards have let the caller through) -/

namespace Body
def addFact (id : String) (fact : Obj) (now : Int) : LM String := stAdd id fact now
def remFact (id : String) (now : Int) : LM String := do let _ ← stRem id now; pure id
def getFact (id : String) (now : Int) : LM Obj := stGet id now
def addRule (id : String) (rule : Obj) (now : Int) : LM String :=
  match ruleFromMap rule with
  | .error e => LM.fail e
  | .ok _ =>
    match setExpires rule now with
    | .error e => LM.fail e
    | .ok (rule', expiring, expires) =>
      let w : Obj := [("rule", .obj rule')]
      let w := if expiring then w ++ [("expires", .num expires)] else w
      let w := match rule'.get? "deleteWith" with | some d => w ++ [("deleteWith", d)] | none => w
      stAdd id w now
def remRule (id : String) (now : Int) : LM String := do
  let _ ← stRem id now
  let (_, found) ← getProp id "disabled" (.bool false) now
  if found then do
    let _ ← remProp id "disabled" now
    pure id
  else pure id
def enableRule (id : String) (enable : Bool) (now : Int) : LM Unit :=
  if enable then do
    let _ ← remProp id "disabled" now
    pure ()
  else do
    let _ ← setProp id "disabled" (.bool true) now
    pure ()
def ruleEnabled (id : String) (now : Int) : LM Bool := do
  let (v, _) ← getProp id "disabled" (.bool false) now
  match v with
  | .bool d => pure (!d)
  | _ => pure true
def getRule (id : String) (now : Int) : LM Obj := do
  let f ← stGet id now
  match extractRule f true with
  | .ok (some r, _) => pure r
  | .ok (none, _) => LM.fail "ruleBodyMissing"
  | .error e => LM.fail e
def searchFacts (p : Obj) (now : Int) : LM (List (String × Obj × List Bs)) := stSearch p now
def searchRules (ev : Obj) (now : Int) : LM (List (String × RuleM)) := do
  let cands ← stFindRules ev now
  match locSearchRules.go cands with
  | .ok rs => pure rs
  | .error e => LM.fail e
def getParents (now : Int) : LM (List String) := locGetParentsRaw now
def setParents (ps : List String) (now : Int) : LM String := setProp "" "parents" (.arr (ps.map .str)) now
def clear : LM Unit := fun l => ({ l with st := l.st.clear }, .ok ())
def stateSize : LM Nat := do let l ← LM.get; pure l.st.count
end Body

/-- what the guards answer when they do not refuse: only the capacity test can fail -/
def capacityResult (l : Loc) (gs : List Guard) : Except LErr Unit :=
  if Guard.atCapacity ∈ gs ∧ l.maxFacts ≤ l.st.count then .error "capacity" else .ok ()

/-- the flag fact written by `EnableRule id false` -/
def flagFact (id : String) : Obj := [("id", .str id), ("!disabled", .bool true), ("deleteWith", .arr [.str id])]

/-- the wrapper `Location.AddRule` hands to `State.Add` -/
def ruleWrapper (rule : Obj) (now : Int) : Except LErr Obj :=
  match setExpires rule now with
  | .error e => .error e
  | .ok (rule', expiring, expires) =>
    let w : Obj := [("rule", .obj rule')]
    let w := if expiring then w ++ [("expires", .num expires)] else w
    .ok (match rule'.get? "deleteWith" with | some d => w ++ [("deleteWith", d)] | none => w)

/-- what `State.Add` keeps under the id: the prepared fact (the indexed state passes it through `ExtractRule`,
which writes the fact's `expires` into the rule body once more) -/
def storedForm (k : Kind) (m : Obj) : Obj :=
  match k with
  | .linear => m
  | .indexed => match extractRule m false with | .ok (_, f) => f | .error _ => m

/-! ## histories at the State level (for "stays absent until re-added") -/

inductive SOp where
  | get (id : String)
  | search (p : Obj)
  | rem (id : String)
  | findRules (ev : Obj)
  | add (given : String) (x : Obj)

def SOp.step (s : St) (now : Int) : SOp → St
  | .get id => (s.get id now).1
  | .search p => (s.search p now).1
  | .rem id => (s.rem id now).1
  | .findRules ev => (s.findRules ev now).1
  | .add g x => (s.add g x now).1

/-- run a timed history -/
def runSOps (s : St) : List (SOp × Int) → St
  | [] => s
  | (op, now) :: rest => runSOps (op.step s now) rest

/-- no `add` of the history returns `id` -/
def NeverAdds (id : String) : St → List (SOp × Int) → Prop
  | _, [] => True
  | s, (op, now) :: rest =>
    (∀ g x, op = .add g x → (s.add g x now).2 ≠ .ok id) ∧ NeverAdds id (op.step s now) rest

end LocP

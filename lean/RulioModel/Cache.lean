/-! # The location cache of `sys.System` (sys/system.go), exactly as coded

`CachedLocations` = a table `name ↦ *CachedLocation` under one mutex ("table lock");
`CachedLocation{sync.Mutex, Expires, Pending bool, *Location}` ("entry", with its "entry lock").
Every System API method is `findLocation` (= `CachedLocations.Open`), the Location call, `releaseLocation`
(= `CachedLocations.Release`).  `CreateLocation` and `GetLocation` (the `LocationProvider` used for parents)
open with `check = false` and never release.

## Atomic steps (line numbers of sys/system.go)

* **O** `Open`, table section, 129-157 / 129-161: `cls.Lock()`; `expire(name, released=false)` (102-117: if the
  name has an entry: `cl.Lock()`, `cl.Pending = true`, and because `Pending` was just set the entry is always
  "live": `loc = cl.Location`, `cl.Unlock()`); if `loc != nil` → `cls.Unlock()`, return it (161-162).
  Otherwise (no entry, **or an entry whose Location is still nil**): `expires` from `LocationTTL`
  (Forever → EndOfTime, else now+ttl), a *new* entry `cl` (Pending = false), `cls.locs[name] = cl` when
  `ttl != Never || CachePending` (`NewSystem` forces `CachePending`), `cls.Unlock()` (157) and only then
  `cl.Get` (158).  `expire` never deletes here and `dead` is never set.
  While O waits for an entry lock it holds the table lock; the holder of an entry lock (step G) never needs
  the table lock before releasing it, so O is modelled as one atomic step that is simply scheduled later.
* **G** `CachedLocation.Get`, 229-272: `cl.Lock()`; if `cl.Location == nil`: `sys.OpenLocation` (= `newLocation`:
  `ensureStorage`, `New…State`, `NewLocation` → `State.Load`; then, when `checkExists`, `locationCreated`
  must hold, else `NotFoundError`); on success `cl.Location = loc` and, if the location has the property
  `!cacheTTL` (ms), `cl.Expires = now + that`; `cl.Unlock()`.  The entry lock is held for the whole step and every
  other step that touches this entry blocks on it, so G is atomic.
* **C** 275-279: `if nil == cl.Location { table lock; delete(locs, name); unlock }` (deletes *by name*).
* **X** the Location method itself (atomic here: per-location atomicity is property C12).
* **R** `Release`, 170-180: `cls.Lock()`; `expire(name, released=true)`: if the name has an entry, `Pending = false`
  and, unless `Expires.After(now)`, `delete(locs, name)`; `cls.Unlock()`.

The window between O (table unlocked at 157) and G (entry locked at 229) is real: another O for the same name
arriving there finds an entry with `Location == nil`, so it creates and installs a second entry.
`Pending` is a boolean, not a count: any `Release` clears it, whoever else still holds the location.

Time is explicit (nanoseconds).  Go maps are key-unique association lists. -/

/-- finite maps keyed by location name -/
def kget {α : Type} (m : List (String × α)) (k : String) : Option α :=
  match m with
  | [] => none
  | (k', v) :: r => if k' = k then some v else kget r k
def kdel {α : Type} (m : List (String × α)) (k : String) : List (String × α) := m.filter (fun p => decide (p.1 ≠ k))
def kset {α : Type} (m : List (String × α)) (k : String) (v : α) : List (String × α) := (k, v) :: kdel m k

inductive TTL where
  | never | finite (ns : Int) | forever
deriving DecidableEq, Repr

structure Cfg where
  ttl : TTL
  checkExistence : Bool
  cachePending : Bool := true     -- NewSystem forces it; SetControl can clear it afterwards
deriving DecidableEq, Repr

/-- `EndOfTime` = time.Unix(1<<62, 0), in ns -/
def endOfTime : Int := 4611686018427387904 * 1000000000

/-- what the cache needs to know about locations: a loader and the Location API as a state transformer that
writes through to the (shared) storage of that location -/
structure LocSem where
  L : Type
  S : Type
  Op : Type
  Res : Type
  emptyS : S
  /-- `newLocation`: build the in-memory state from storage at time `now` -/
  load : Int → S → L
  /-- one Location API call through an instance; storage is written through -/
  exec : L → S → Op → L × S × Res
  /-- `locationCreated`: the `createdAt` marker property is present -/
  created : L → Bool
  /-- `markLocationCreated` -/
  mark : L → S → L × S
  /-- the `!cacheTTL` property (already in ns), consulted once after loading -/
  cacheTTL : L → Option Int

variable {sem : LocSem}

def storeOf (store : List (String × sem.S)) (n : String) : sem.S := (kget store n).getD sem.emptyS

def newExpires (cfg : Cfg) (now : Int) : Int :=
  match cfg.ttl with
  | .forever => endOfTime
  | .never => now
  | .finite d => now + d

def installs (cfg : Cfg) : Bool := decide (cfg.ttl ≠ TTL.never) || cfg.cachePending

/-- a request through the System -/
inductive Req (sem : LocSem) where
  | api (n : String) (op : sem.Op)   -- any API method: findLocation(check=true); call; releaseLocation
  | create (n : String)              -- CreateLocation: findLocation(check=false); mark; NO release
  | peek (n : String)                -- GetLocation (LocationProvider, parents): findLocation(check=false); NO release

inductive Out (sem : LocSem) where
  | ok (r : sem.Res)
  | notFound
  | created (fresh : Bool)
  | peeked

def Req.name : Req sem → String
  | .api n _ => n
  | .create n => n
  | .peek n => n

/-! ## Sequential semantics -/

structure CEntry (sem : LocSem) where
  expires : Int
  pending : Bool
  loc : Option sem.L

structure SysSt (sem : LocSem) where
  table : List (String × CEntry sem) := []
  store : List (String × sem.S) := []
  loads : List String := []          -- one name per `OpenLocation` call

/-- `expire` (99-119) -/
def expire (st : SysSt sem) (n : String) (released : Bool) (now : Int) : SysSt sem × Option sem.L :=
  match kget st.table n with
  | none => (st, none)
  | some e =>
    let e : CEntry sem := { e with pending := !released }
    if e.pending || decide (now < e.expires) then ({ st with table := kset st.table n e }, e.loc)
    else ({ st with table := kdel st.table n }, none)

/-- `CachedLocation.Get` (227-282) for the entry `e` (installed under `n` or private) whose Location is nil -/
def getE (cfg : Cfg) (st : SysSt sem) (n : String) (e : CEntry sem) (installed : Bool) (check : Bool) (now : Int) : SysSt sem × Option sem.L :=
  let l := sem.load now (storeOf st.store n)
  let st := { st with loads := st.loads ++ [n] }
  if check && cfg.checkExistence && !sem.created l then
    -- OpenLocation failed: Location stays nil, so lines 275-279 remove the name from the table
    ({ st with table := kdel st.table n }, none)
  else
    let e : CEntry sem := { e with loc := some l, expires := (match sem.cacheTTL l with | some d => now + d | none => e.expires) }
    ((if installed then { st with table := kset st.table n e } else st), some l)

/-- `CachedLocations.Open` (127-163) -/
def openE (cfg : Cfg) (st : SysSt sem) (n : String) (check : Bool) (now : Int) : SysSt sem × Option sem.L :=
  match expire st n false now with
  | (st, some l) => (st, some l)
  | (st, none) =>
    let e : CEntry sem := { expires := newExpires cfg now, pending := false, loc := none }
    let st := if installs cfg then { st with table := kset st.table n e } else st
    getE cfg st n e (installs cfg) check now

/-- `CachedLocations.Release` (167-182) -/
def releaseE (st : SysSt sem) (n : String) (now : Int) : SysSt sem := (expire st n true now).1

/-- a Location method mutates the instance behind the pointer: the cache entry (if any) sees it -/
def updLoc (table : List (String × CEntry sem)) (n : String) (l : sem.L) : List (String × CEntry sem) :=
  match kget table n with
  | some e => kset table n { e with loc := some l }
  | none => table

/-- one request, run alone: `tOpen` is the clock read in Open/Get, `tRel` the one read in Release -/
def reqE (cfg : Cfg) (st : SysSt sem) (r : Req sem) (tOpen tRel : Int) : SysSt sem × Out sem :=
  match r with
  | .api n op =>
    match openE cfg st n true tOpen with
    | (st, none) => (releaseE st n tRel, .notFound)
    | (st, some l) =>
      let x := sem.exec l (storeOf st.store n) op
      let st := { st with store := kset st.store n x.2.1, table := updLoc st.table n x.1 }
      (releaseE st n tRel, .ok x.2.2)
  | .create n =>
    match openE cfg st n false tOpen with
    | (st, none) => (st, .notFound)   -- unreachable: check = false never fails
    | (st, some l) =>
      if sem.created l then (st, .created false)
      else
        let x := sem.mark l (storeOf st.store n)
        ({ st with store := kset st.store n x.2, table := updLoc st.table n x.1 }, .created true)
  | .peek n => ((openE cfg st n false tOpen).1, .peeked)

/-- a sequential history; every request comes with its two clock readings -/
def runE (cfg : Cfg) (st : SysSt sem) : List (Req sem × Int × Int) → SysSt sem × List (Out sem)
  | [] => (st, [])
  | (r, t1, t2) :: rest =>
    let (st1, o) := reqE cfg st r t1 t2
    let (st2, os) := runE cfg st1 rest
    (st2, o :: os)

/-! ## "Operating the location directly": every location is loaded once and never again -/

structure DSt (sem : LocSem) where
  base : List (String × sem.S)                 -- storage at start-up
  locs : List (String × (sem.L × sem.S)) := [] -- locations touched so far

def dget (d : DSt sem) (n : String) (t : Int) : sem.L × sem.S :=
  match kget d.locs n with
  | some p => p
  | none => (sem.load t (storeOf d.base n), storeOf d.base n)

def reqD (check : Bool) (d : DSt sem) (r : Req sem) (t : Int) : DSt sem × Out sem :=
  match r with
  | .api n op =>
    let p := dget d n t
    if check && !sem.created p.1 then (d, .notFound)
    else
      let x := sem.exec p.1 p.2 op
      ({ d with locs := kset d.locs n (x.1, x.2.1) }, .ok x.2.2)
  | .create n =>
    let p := dget d n t
    if sem.created p.1 then (d, .created false)
    else ({ d with locs := kset d.locs n (sem.mark p.1 p.2) }, .created true)
  | .peek _ => (d, .peeked)

def runD (check : Bool) (d : DSt sem) : List (Req sem × Int × Int) → DSt sem × List (Out sem)
  | [] => (d, [])
  | (r, t1, _) :: rest =>
    let (d1, o) := reqD check d r t1
    let (d2, os) := runD check d1 rest
    (d2, o :: os)

/-! ## Concurrent semantics: threads × atomic steps O, G, C, X, R over a heap of entries and instances -/

structure HEntry where
  expires : Int
  pending : Bool
  inst : Option Nat        -- index into `insts`
deriving Repr, DecidableEq

inductive PC (sem : LocSem) where
  | start (r : Req sem)                       -- before O
  | get (r : Req sem) (eid : Nat)             -- holds the private pointer `cl`, before G
  | cleanup (r : Req sem) (eid : Nat) (res : Option Nat)   -- before C
  | opened (r : Req sem) (res : Option Nat)   -- findLocation returned; before X
  | releasing (n : String) (inst : Option Nat) (out : Out sem)   -- before R
  | done (inst : Option Nat) (out : Out sem)

structure CSt (sem : LocSem) where
  table : List (String × Nat) := []            -- name ↦ entry id
  ents : List HEntry := []                     -- heap of entries (a pointer is an index)
  insts : List (String × sem.L) := []          -- heap of Location instances
  store : List (String × sem.S) := []          -- the shared storage
  loads : List String := []
  pcs : List (PC sem) := []

def setNth {α : Type} : List α → Nat → α → List α
  | [], _, _ => []
  | _ :: xs, 0, a => a :: xs
  | x :: xs, i + 1, a => x :: setNth xs i a

/-- lines 238-265: the entry after a successful load -/
def loadedEntry (e : HEntry) (i : Nat) (now : Int) (ttl : Option Int) : HEntry :=
  { expires := (match ttl with | some d => now + d | none => e.expires), pending := e.pending, inst := some i }

def reqCheck : Req sem → Bool
  | .api _ _ => true
  | _ => false

/-- the atomic step of thread `tid` at time `now` (a finished or unknown thread does nothing) -/
def cstep (cfg : Cfg) (c : CSt sem) (tid : Nat) (now : Int) : CSt sem :=
  match c.pcs[tid]? with
  | none => c
  | some pc =>
    let setPC (c : CSt sem) (pc : PC sem) : CSt sem := { c with pcs := setNth c.pcs tid pc }
    match pc with
    | .start r =>
      let n := r.name
      let found : Option (Nat × HEntry) := match kget c.table n with
        | some eid => (match c.ents[eid]? with | some e => some (eid, e) | none => none)
        | none => none
      let c : CSt sem := match found with
        | some (eid, e) => { c with ents := setNth c.ents eid { e with pending := true } }
        | none => c
      match found.bind (fun p => p.2.inst) with
      | some i => setPC c (.opened r (some i))
      | none =>
        let eid := c.ents.length
        let c := { c with ents := c.ents ++ [{ expires := newExpires cfg now, pending := false, inst := none }] }
        let c := if installs cfg then { c with table := kset c.table n eid } else c
        setPC c (.get r eid)
    | .get r eid =>
      let n := r.name
      match c.ents[eid]? with
      | none => c
      | some e =>
        match e.inst with
        | some i => setPC c (.cleanup r eid (some i))
        | none =>
          let l := sem.load now (storeOf c.store n)
          let c := { c with loads := c.loads ++ [n] }
          if reqCheck r && cfg.checkExistence && !sem.created l then setPC c (.cleanup r eid none)
          else
            let i := c.insts.length
            let e' : HEntry := loadedEntry e i now (sem.cacheTTL l)
            let c := { c with insts := c.insts ++ [(n, l)], ents := setNth c.ents eid e' }
            setPC c (.cleanup r eid (some i))
    | .cleanup r eid res =>
      let gone := match c.ents[eid]? with | some e => e.inst.isNone | none => false
      let c := if gone then { c with table := kdel c.table r.name } else c
      setPC c (.opened r res)
    | .opened r res =>
      match r, res with
      | .api n _, none => setPC c (.releasing n none .notFound)
      | .api n op, some i =>
        (match c.insts[i]? with
         | none => c
         | some (_, l) =>
           let x := sem.exec l (storeOf c.store n) op
           setPC { c with insts := setNth c.insts i (n, x.1), store := kset c.store n x.2.1 } (.releasing n (some i) (.ok x.2.2)))
      | .create _, none => setPC c (.done none .notFound)
      | .create n, some i =>
        (match c.insts[i]? with
         | none => c
         | some (_, l) =>
           if sem.created l then setPC c (.done (some i) (.created false))
           else
             let x := sem.mark l (storeOf c.store n)
             setPC { c with insts := setNth c.insts i (n, x.1), store := kset c.store n x.2 } (.done (some i) (.created true)))
      | .peek _, res => setPC c (.done res .peeked)
    | .releasing n inst out =>
      let c : CSt sem := match kget c.table n with
        | none => c
        | some eid =>
          match c.ents[eid]? with
          | none => c
          | some e =>
            let c := { c with ents := setNth c.ents eid { e with pending := false } }
            if decide (now < e.expires) then c else { c with table := kdel c.table n }
      setPC c (.done inst out)
    | .done _ _ => c

/-- a schedule: which thread moves, and what the clock shows -/
def crun (cfg : Cfg) (c : CSt sem) : List (Nat × Int) → CSt sem
  | [] => c
  | (tid, now) :: rest => crun cfg (cstep cfg c tid now) rest

def cinit (store : List (String × sem.S)) (reqs : List (Req sem)) : CSt sem :=
  { store := store, pcs := reqs.map PC.start }

/-- the instance a finished thread was handed (none while running or when the open failed) -/
def instOf (c : CSt sem) (tid : Nat) : Option Nat :=
  match c.pcs[tid]? with
  | some (.done i _) => i
  | _ => none

def isDone (c : CSt sem) (tid : Nat) : Bool :=
  match c.pcs[tid]? with
  | some (.done _ _) => true
  | _ => false

def inWindow (c : CSt sem) (tid : Nat) : Bool :=
  match c.pcs[tid]? with
  | some (.get _ _) => true
  | _ => false

/-- a schedule is *window-free* when a thread that has left O with a fresh entry runs G before anybody else
moves (what the code would guarantee if it took the entry lock before releasing the table lock) -/
def windowFree (cfg : Cfg) (c : CSt sem) : List (Nat × Int) → Bool
  | [] => true
  | (tid, now) :: rest =>
    (List.range c.pcs.length).all (fun u => !inWindow c u || u == tid) && windowFree cfg (cstep cfg c tid now) rest

/-! ## A small concrete location semantics (witnesses and satisfiability examples)
Facts are numbers, fact `0` is the `createdAt` marker; memory and storage are lists. -/

inductive TOp where
  | add (k : Nat) | has (k : Nat) | clear
deriving DecidableEq, Repr

def toySem : LocSem where
  L := List Nat
  S := List Nat
  Op := TOp
  Res := Bool
  emptyS := []
  load := fun _ s => s
  exec := fun l s op => match op with
    | .add k => (k :: l, k :: s, true)
    | .has k => (l, s, l.contains k)
    | .clear => ([], [], true)
  created := fun l => l.contains 0
  mark := fun l s => (0 :: l, 0 :: s)
  cacheTTL := fun _ => none

def Out.toyCode : Out toySem → Nat
  | .ok true => 1
  | .ok false => 0
  | .notFound => 2
  | .created true => 3
  | .created false => 4
  | .peeked => 5

def toyStoreOf (st : SysSt toySem) (n : String) : List Nat := storeOf st.store n

def outCodes (c : CSt toySem) : List (Option Nat) :=
  c.pcs.map (fun pc => match pc with | .done _ o => some o.toyCode | _ => none)

/-! ## Hypotheses used by the theorems of C17 (stated here so that `Props/C17.lean` holds theorems only) -/

/-- "Reloading a location from storage is the identity on observations" — what property C06 is about.
`R l s` reads: the in-memory instance `l` is faithful to the stored documents `s`. -/
structure ReloadOK (sem : LocSem) where
  R : sem.L → sem.S → Prop
  load_R : ∀ t s, R (sem.load t s) s
  exec_R : ∀ l s op, R l s → R (sem.exec l s op).1 (sem.exec l s op).2.1
  exec_eq : ∀ l l' s op, R l s → R l' s → (sem.exec l s op).2 = (sem.exec l' s op).2
  created_eq : ∀ l l' s, R l s → R l' s → sem.created l = sem.created l'
  mark_R : ∀ l s, R l s → R (sem.mark l s).1 (sem.mark l s).2
  mark_eq : ∀ l l' s, R l s → R l' s → (sem.mark l s).2 = (sem.mark l' s).2
  mark_created : ∀ l s, sem.created (sem.mark l s).1 = true

/-- the operation never erases the `createdAt` marker (false for Clear/Delete and for RemFact of the marker) -/
def KeepsMarker (sem : LocSem) (op : sem.Op) : Prop :=
  ∀ l s, sem.created l = true → sem.created (sem.exec l s op).1 = true

/-- the requests the transparency theorem covers when existence checking is on: no unchecked open that is
never released (`GetLocation`, i.e. parents) and no marker-erasing operation -/
def ReqOK (sem : LocSem) (check : Bool) : Req sem → Prop
  | .api _ op => check = true → KeepsMarker sem op
  | .create _ => True
  | .peek _ => check = false

/-- two histories issue the same requests (their clock readings may differ) -/
def SameReqs : List (Req sem × Int × Int) → List (Req sem × Int × Int) → Prop
  | [], [] => True
  | a :: r1, b :: r2 => a.1 = b.1 ∧ SameReqs r1 r2
  | _, _ => False

/-! # The location cache of `sys.System` (sys/system.go), exactly as coded

`CachedLocations` = a table `name ↦ *CachedLocation` under one mutex ("table lock");
`CachedLocation{sync.Mutex, Expires, Pending int, *Location}` ("entry", with its "entry lock").
Every System API method is `findLocation` (= `CachedLocations.Open`), the Location call, `releaseLocation`
(= `CachedLocations.Release`).  `CreateLocation` and `GetLocation` (the `LocationProvider` used for parents)
open with `check = false`; `CreateLocation` releases when it returns, `GetLocation` releases right away (a
`LocationProvider` cannot say when it is done).  Every Open — successful or not — is followed by one Release.

## Atomic steps

* **O** `Open`: `cls.Lock()`; `expire(name, released=false)`: if the name has an entry: `cl.Lock()`, `cl.Pending++`
  (`Pending` counts the holders, so the entry is "live"), `loc = cl.Location`, `cl.Unlock()`.
  - `loc != nil`: `cls.Unlock()`; when `check` (= the caller's `check && CheckExistence`) the cached instance is
    looked at again (`locationCreated(loc)`), whoever opened it first: no marker → `NotFoundError` (the hold stays
    until the caller's Release).
  - otherwise (no entry, or an entry whose Location is still nil because its load failed and a holder has not
    released it yet): the entry found is used again, else a new one (`Expires` from `LocationTTL`: Forever →
    EndOfTime, else now+ttl; `Pending = 1`) is put into the table when `ttl != Never || CachePending` (`NewSystem`
    forces `CachePending`).  The entry is locked **before** the table is unlocked, then `CachedLocation.get` loads
    under the entry lock: `sys.OpenLocation` (= `newLocation`: `ensureStorage`, `New…State`, `NewLocation` →
    `State.Load`; then, when `check`, `locationCreated` must hold, else `NotFoundError`); on success
    `cl.Location = loc` and, if the location has the property `!cacheTTL` (ms), `cl.Expires = now + that`.  On failure
    the entry keeps `Location == nil` and its hold; nothing is deleted here.
  Every other O or R for the name blocks on the entry lock (holding the table lock) until the load is over, and a
  name without a Location has no instance anybody could call: O is one atomic step.  (At this granularity the
  second look at a cached instance is part of O.)
* **X** the Location method itself (atomic here: per-location atomicity is property C12).
* **R** `Release`: `cls.Lock()`; `expire(name, released=true)`: if the name has an entry, `Pending--` (not below 0) and,
  unless `0 < Pending || (Location != nil && Expires.After(now))`, `delete(locs, name)`; `cls.Unlock()`.

Time is explicit (nanoseconds).  Go maps are key-unique association lists. -/

/-- finite maps keyed by location name -/
def kget {α : Type} (m : List (String × α)) (k : String) : Option α :=
  match m with
  | [] => none
  | (k', v) :: r => if k' = k then some v else kget r k
def kdel {α : Type} (m : List (String × α)) (k : String) : List (String × α) := m.filter (fun p => decide (p.1 ≠ k))
def kset {α : Type} (m : List (String × α)) (k : String) (v : α) : List (String × α) := (k, v) :: kdel m k

inductive TTL where
  | never | finite (ns : Int) | forever
deriving DecidableEq, Repr

structure Cfg where
  ttl : TTL
  checkExistence : Bool
  cachePending : Bool := true     -- NewSystem forces it; SetControl can clear it afterwards
deriving DecidableEq, Repr

/-- `EndOfTime` = time.Unix(1<<62, 0), in ns -/
def endOfTime : Int := 4611686018427387904 * 1000000000

/-- what the cache needs to know about locations: a loader and the Location API as a state transformer that
writes through to the (shared) storage of that location -/
structure LocSem where
  L : Type
  S : Type
  Op : Type
  Res : Type
  emptyS : S
  /-- `newLocation`: build the in-memory state from storage at time `now` -/
  load : Int → S → L
  /-- one Location API call through an instance; storage is written through -/
  exec : L → S → Op → L × S × Res
  /-- `locationCreated`: the `createdAt` marker property is present -/
  created : L → Bool
  /-- `markLocationCreated` -/
  mark : L → S → L × S
  /-- the `!cacheTTL` property (already in ns), consulted once after loading -/
  cacheTTL : L → Option Int

variable {sem : LocSem}

def storeOf (store : List (String × sem.S)) (n : String) : sem.S := (kget store n).getD sem.emptyS

def newExpires (cfg : Cfg) (now : Int) : Int :=
  match cfg.ttl with
  | .forever => endOfTime
  | .never => now
  | .finite d => now + d

def installs (cfg : Cfg) : Bool := decide (cfg.ttl ≠ TTL.never) || cfg.cachePending

/-- a request through the System -/
inductive Req (sem : LocSem) where
  | api (n : String) (op : sem.Op)   -- any API method: findLocation(check=true); call; releaseLocation
  | create (n : String)              -- CreateLocation: findLocation(check=false); mark; releaseLocation
  | peek (n : String)                -- GetLocation (LocationProvider, parents): findLocation(check=false); releaseLocation

inductive Out (sem : LocSem) where
  | ok (r : sem.Res)
  | notFound
  | created (fresh : Bool)
  | peeked

def Req.name : Req sem → String
  | .api n _ => n
  | .create n => n
  | .peek n => n

def reqCheck : Req sem → Bool
  | .api _ _ => true
  | _ => false

/-! ## Sequential semantics -/

structure CEntry (sem : LocSem) where
  expires : Int
  pending : Nat               -- number of holders: Opens that have not been Released yet
  loc : Option sem.L

structure SysSt (sem : LocSem) where
  table : List (String × CEntry sem) := []
  store : List (String × sem.S) := []
  loads : List String := []          -- one name per `OpenLocation` call

/-- `expire`: `Pending++` / `Pending--` (not below 0); the entry stays while it is held, or has a Location that has not
expired -/
def expire (st : SysSt sem) (n : String) (released : Bool) (now : Int) : SysSt sem × Option sem.L :=
  match kget st.table n with
  | none => (st, none)
  | some e =>
    let e : CEntry sem := { e with pending := if released then e.pending - 1 else e.pending + 1 }
    if decide (0 < e.pending) || (e.loc.isSome && decide (now < e.expires)) then ({ st with table := kset st.table n e }, e.loc)
    else ({ st with table := kdel st.table n }, none)

/-- `CachedLocation.get` for the entry `e` (in the table under `n`, or private) whose Location is nil.  A failed load
leaves the entry as it is: no Location, still held. -/
def getE (cfg : Cfg) (st : SysSt sem) (n : String) (e : CEntry sem) (installed : Bool) (check : Bool) (now : Int) : SysSt sem × Option sem.L :=
  let l := sem.load now (storeOf st.store n)
  let st := { st with loads := st.loads ++ [n] }
  if check && cfg.checkExistence && !sem.created l then (st, none)
  else
    let e : CEntry sem := { e with loc := some l, expires := (match sem.cacheTTL l with | some d => now + d | none => e.expires) }
    ((if installed then { st with table := kset st.table n e } else st), some l)

/-- `CachedLocations.Open` -/
def openE (cfg : Cfg) (st : SysSt sem) (n : String) (check : Bool) (now : Int) : SysSt sem × Option sem.L :=
  match expire st n false now with
  | (st, some l) =>
    -- served from the cache: a checked request looks at the marker again
    if check && cfg.checkExistence && !sem.created l then (st, none) else (st, some l)
  | (st, none) =>
    match kget st.table n with
    | some e => getE cfg st n e true check now      -- an entry without a Location (still held): used again
    | none =>
      let e : CEntry sem := { expires := newExpires cfg now, pending := 1, loc := none }
      let st := if installs cfg then { st with table := kset st.table n e } else st
      getE cfg st n e (installs cfg) check now

/-- `CachedLocations.Release` -/
def releaseE (st : SysSt sem) (n : String) (now : Int) : SysSt sem := (expire st n true now).1

/-- a Location method mutates the instance behind the pointer: the cache entry (if any) sees it -/
def updLoc (table : List (String × CEntry sem)) (n : String) (l : sem.L) : List (String × CEntry sem) :=
  match kget table n with
  | some e => kset table n { e with loc := some l }
  | none => table

/-- one request, run alone: `tOpen` is the clock read in Open/get, `tRel` the one read in Release -/
def reqE (cfg : Cfg) (st : SysSt sem) (r : Req sem) (tOpen tRel : Int) : SysSt sem × Out sem :=
  match r with
  | .api n op =>
    match openE cfg st n true tOpen with
    | (st, none) => (releaseE st n tRel, .notFound)
    | (st, some l) =>
      let x := sem.exec l (storeOf st.store n) op
      let st := { st with store := kset st.store n x.2.1, table := updLoc st.table n x.1 }
      (releaseE st n tRel, .ok x.2.2)
  | .create n =>
    match openE cfg st n false tOpen with
    | (st, none) => (releaseE st n tRel, .notFound)   -- unreachable: check = false never fails
    | (st, some l) =>
      if sem.created l then (releaseE st n tRel, .created false)
      else
        let x := sem.mark l (storeOf st.store n)
        (releaseE { st with store := kset st.store n x.2, table := updLoc st.table n x.1 } n tRel, .created true)
  | .peek n => (releaseE (openE cfg st n false tOpen).1 n tRel, .peeked)

/-- a sequential history; every request comes with its two clock readings -/
def runE (cfg : Cfg) (st : SysSt sem) : List (Req sem × Int × Int) → SysSt sem × List (Out sem)
  | [] => (st, [])
  | (r, t1, t2) :: rest =>
    let (st1, o) := reqE cfg st r t1 t2
    let (st2, os) := runE cfg st1 rest
    (st2, o :: os)

/-! ## "Operating the location directly": every location is loaded once and never again -/

structure DSt (sem : LocSem) where
  base : List (String × sem.S)                 -- storage at start-up
  locs : List (String × (sem.L × sem.S)) := [] -- locations touched so far

def dget (d : DSt sem) (n : String) (t : Int) : sem.L × sem.S :=
  match kget d.locs n with
  | some p => p
  | none => (sem.load t (storeOf d.base n), storeOf d.base n)

def reqD (check : Bool) (d : DSt sem) (r : Req sem) (t : Int) : DSt sem × Out sem :=
  match r with
  | .api n op =>
    let p := dget d n t
    if check && !sem.created p.1 then (d, .notFound)
    else
      let x := sem.exec p.1 p.2 op
      ({ d with locs := kset d.locs n (x.1, x.2.1) }, .ok x.2.2)
  | .create n =>
    let p := dget d n t
    if sem.created p.1 then (d, .created false)
    else ({ d with locs := kset d.locs n (sem.mark p.1 p.2) }, .created true)
  | .peek _ => (d, .peeked)

def runD (check : Bool) (d : DSt sem) : List (Req sem × Int × Int) → DSt sem × List (Out sem)
  | [] => (d, [])
  | (r, t1, _) :: rest =>
    let (d1, o) := reqD check d r t1
    let (d2, os) := runD check d1 rest
    (d2, o :: os)

/-! ## Concurrent semantics: threads × atomic steps O, X, R over the table and a heap of instances -/

structure HEntry where
  expires : Int
  pending : Nat
  inst : Option Nat        -- index into `insts`
deriving Repr, DecidableEq

inductive PC (sem : LocSem) where
  | start (r : Req sem)                       -- before O
  | opened (r : Req sem) (i : Nat)            -- findLocation returned instance `i`; before X
  | releasing (n : String) (inst : Option Nat) (out : Out sem)   -- before R (`inst = none`: the open failed)
  | done (inst : Option Nat) (out : Out sem)

structure CSt (sem : LocSem) where
  table : List (String × HEntry) := []         -- name ↦ entry
  insts : List (String × sem.L) := []          -- heap of Location instances (a pointer is an index)
  store : List (String × sem.S) := []          -- the shared storage
  loads : List String := []
  pcs : List (PC sem) := []
  /-- ghost: every answer, with its request, in the order in which the answers were determined (a failed open at O,
  everything else at X) -/
  log : List (Req sem × Out sem) := []

def setNth {α : Type} : List α → Nat → α → List α
  | [], _, _ => []
  | _ :: xs, 0, a => a :: xs
  | x :: xs, i + 1, a => x :: setNth xs i a

/-- the entry after a successful load -/
def loadedEntry (e : HEntry) (i : Nat) (now : Int) (ttl : Option Int) : HEntry :=
  { expires := (match ttl with | some d => now + d | none => e.expires), pending := e.pending, inst := some i }

/-- `expire(released = true)` on an entry: what is left of it -/
def releasedEntry (e : HEntry) (now : Int) : Option HEntry :=
  let e' : HEntry := { e with pending := e.pending - 1 }
  if decide (0 < e'.pending) || (e'.inst.isSome && decide (now < e'.expires)) then some e' else none

/-- O, the name is cached with instance `i` (`e` = its entry, this holder counted): a checked request looks at the
marker again.  Steps never touch `pcs`; they return the thread's next program counter. -/
def servedC (cfg : Cfg) (c : CSt sem) (r : Req sem) (e : HEntry) (i : Nat) : CSt sem × PC sem :=
  match c.insts[i]? with
  | none => (c, .start r)      -- a dangling pointer: does not happen
  | some (_, l) =>
    let c := { c with table := kset c.table r.name e }
    if reqCheck r && cfg.checkExistence && !sem.created l then
      ({ c with log := c.log ++ [(r, .notFound)] }, .releasing r.name none .notFound)
    else (c, .opened r i)

/-- O, nothing to serve: load under the entry lock into `e` (in the table when `installed`) -/
def loadC (cfg : Cfg) (c : CSt sem) (r : Req sem) (e : HEntry) (installed : Bool) (now : Int) : CSt sem × PC sem :=
  let n := r.name
  let l := sem.load now (storeOf c.store n)
  let c := { c with loads := c.loads ++ [n] }
  if reqCheck r && cfg.checkExistence && !sem.created l then
    ({ c with table := (if installed then kset c.table n e else c.table), log := c.log ++ [(r, .notFound)] },
     .releasing n none .notFound)
  else
    let i := c.insts.length
    ({ c with insts := c.insts ++ [(n, l)],
              table := (if installed then kset c.table n (loadedEntry e i now (sem.cacheTTL l)) else c.table) },
     .opened r i)

/-- O: `CachedLocations.Open` for the request `r` -/
def openC (cfg : Cfg) (c : CSt sem) (r : Req sem) (now : Int) : CSt sem × PC sem :=
  match kget c.table r.name with
  | some e0 =>
    -- expire(released = false): one more holder
    let e : HEntry := { e0 with pending := e0.pending + 1 }
    (match e0.inst with
     | some i => servedC cfg c r e i
     | none => loadC cfg c r e true now)        -- an entry without a Location (still held): used again
  | none => loadC cfg c r { expires := newExpires cfg now, pending := 1, inst := none } (installs cfg) now

/-- X: the call through the instance `i` that `Open` handed out -/
def callC (c : CSt sem) (r : Req sem) (i : Nat) : CSt sem × PC sem :=
  match c.insts[i]? with
  | none => (c, .opened r i)
  | some (_, l) =>
    match r with
    | .api n op =>
      let x := sem.exec l (storeOf c.store n) op
      ({ c with insts := setNth c.insts i (n, x.1), store := kset c.store n x.2.1, log := c.log ++ [(r, .ok x.2.2)] },
       .releasing n (some i) (.ok x.2.2))
    | .create n =>
      if sem.created l then ({ c with log := c.log ++ [(r, .created false)] }, .releasing n (some i) (.created false))
      else
        let x := sem.mark l (storeOf c.store n)
        ({ c with insts := setNth c.insts i (n, x.1), store := kset c.store n x.2, log := c.log ++ [(r, .created true)] },
         .releasing n (some i) (.created true))
    | .peek n => ({ c with log := c.log ++ [(r, .peeked)] }, .releasing n (some i) .peeked)

/-- R: `CachedLocations.Release` by name -/
def relC (c : CSt sem) (n : String) (now : Int) : CSt sem :=
  match kget c.table n with
  | none => c
  | some e =>
    match releasedEntry e now with
    | some e' => { c with table := kset c.table n e' }
    | none => { c with table := kdel c.table n }

/-- the atomic step of thread `tid` at time `now` (a finished or unknown thread does nothing) -/
def cstep (cfg : Cfg) (c : CSt sem) (tid : Nat) (now : Int) : CSt sem :=
  match c.pcs[tid]? with
  | none => c
  | some pc =>
    match pc with
    | .start r => let x := openC cfg c r now; { x.1 with pcs := setNth x.1.pcs tid x.2 }
    | .opened r i => let x := callC c r i; { x.1 with pcs := setNth x.1.pcs tid x.2 }
    | .releasing n inst out => let c' := relC c n now; { c' with pcs := setNth c'.pcs tid (.done inst out) }
    | .done _ _ => c

/-- a schedule: which thread moves, and what the clock shows -/
def crun (cfg : Cfg) (c : CSt sem) : List (Nat × Int) → CSt sem
  | [] => c
  | (tid, now) :: rest => crun cfg (cstep cfg c tid now) rest

def cinit (store : List (String × sem.S)) (reqs : List (Req sem)) : CSt sem :=
  { store := store, pcs := reqs.map PC.start }

/-- the instance a thread holds: from the moment `Open` handed it out until its `Release` -/
def holdsInst (c : CSt sem) (tid : Nat) : Option (String × Nat) :=
  match c.pcs[tid]? with
  | some (.opened r i) => some (r.name, i)
  | some (.releasing n (some i) _) => some (n, i)
  | _ => none

/-- the instance a thread was handed (none before its Open and when the open failed) -/
def instOf (c : CSt sem) (tid : Nat) : Option Nat :=
  match c.pcs[tid]? with
  | some (.opened _ i) => some i
  | some (.releasing _ i _) => i
  | some (.done i _) => i
  | _ => none

/-- the answer of a thread, from the moment it is determined -/
def answerOf (c : CSt sem) (tid : Nat) : Option (Out sem) :=
  match c.pcs[tid]? with
  | some (.releasing _ _ o) => some o
  | some (.done _ o) => some o
  | _ => none

def isDone (c : CSt sem) (tid : Nat) : Bool :=
  match c.pcs[tid]? with
  | some (.done _ _) => true
  | _ => false

/-- the requests of the log as a history (direct operation does not read the second clock) -/
def logHist (c : CSt sem) : List (Req sem × Int × Int) := c.log.map (fun p => (p.1, 0, 0))

/-! ## A small concrete location semantics (witnesses and satisfiability examples)
Facts are numbers, fact `0` is the `createdAt` marker; memory and storage are lists. -/

inductive TOp where
  | add (k : Nat) | has (k : Nat) | clear | rem (k : Nat)
deriving DecidableEq, Repr

def toySem : LocSem where
  L := List Nat
  S := List Nat
  Op := TOp
  Res := Bool
  emptyS := []
  load := fun _ s => s
  exec := fun l s op => match op with
    | .add k => (k :: l, k :: s, true)
    | .has k => (l, s, l.contains k)
    | .clear => ([], [], true)
    | .rem k => (l.filter (· != k), s.filter (· != k), true)
  created := fun l => l.contains 0
  mark := fun l s => (0 :: l, 0 :: s)
  cacheTTL := fun _ => none

def Out.toyCode : Out toySem → Nat
  | .ok true => 1
  | .ok false => 0
  | .notFound => 2
  | .created true => 3
  | .created false => 4
  | .peeked => 5

def toyStoreOf (st : SysSt toySem) (n : String) : List Nat := storeOf st.store n

def outCodes (c : CSt toySem) : List (Option Nat) :=
  c.pcs.map (fun pc => match pc with | .done _ o => some o.toyCode | _ => none)

/-! ## `System.ClearLocation` keeps the marker

`ClearLocation` reads the `createdAt` property, calls `Location.Clear` and, when the property was there, sets it again
(with the value it had): clearing a location does not turn it into one that was never created.  In terms of a location
semantics: the body of that one API method is `exec` followed, when the marker was there and is gone, by `mark`. -/

/-- the body of `System.ClearLocation` (for the operations `isClear`; any other operation is left alone) -/
def keepMarkExec (sem : LocSem) (isClear : sem.Op → Bool) (l : sem.L) (s : sem.S) (op : sem.Op) : sem.L × sem.S × sem.Res :=
  let x := sem.exec l s op
  if isClear op && sem.created l && !sem.created x.1 then
    let m := sem.mark x.1 x.2.1
    (m.1, m.2, x.2.2)
  else x

/-- the semantics whose operations `isClear` are carried out the way `System.ClearLocation` does it -/
def keepMark (sem : LocSem) (isClear : sem.Op → Bool) : LocSem where
  L := sem.L
  S := sem.S
  Op := sem.Op
  Res := sem.Res
  emptyS := sem.emptyS
  load := sem.load
  exec := keepMarkExec sem isClear
  created := sem.created
  mark := sem.mark
  cacheTTL := sem.cacheTTL

def TOp.isClear : TOp → Bool
  | .clear => true
  | _ => false

/-- the toy System: `clear` is carried out the way `ClearLocation` does it -/
def toySys : LocSem := keepMark toySem TOp.isClear

def toySysCode : Out toySys → Nat
  | .ok true => 1
  | .ok false => 0
  | .notFound => 2
  | .created true => 3
  | .created false => 4
  | .peeked => 5

/-! ## Hypotheses used by the theorems of C17 (stated here so that `Props/C17.lean` holds theorems only) -/

/-- "Reloading a location from storage is the identity on observations" — what property C06 is about.
`R l s` reads: the in-memory instance `l` is faithful to the stored documents `s`. -/
structure ReloadOK (sem : LocSem) where
  R : sem.L → sem.S → Prop
  load_R : ∀ t s, R (sem.load t s) s
  exec_R : ∀ l s op, R l s → R (sem.exec l s op).1 (sem.exec l s op).2.1
  exec_eq : ∀ l l' s op, R l s → R l' s → (sem.exec l s op).2 = (sem.exec l' s op).2
  created_eq : ∀ l l' s, R l s → R l' s → sem.created l = sem.created l'
  mark_R : ∀ l s, R l s → R (sem.mark l s).1 (sem.mark l s).2
  mark_eq : ∀ l l' s, R l s → R l' s → (sem.mark l s).2 = (sem.mark l' s).2
  mark_created : ∀ l s, sem.created (sem.mark l s).1 = true

/-- the operation never erases the `createdAt` marker (true for `ClearLocation` now; still false for `RemFact` of the
marker's own id) -/
def KeepsMarker (sem : LocSem) (op : sem.Op) : Prop :=
  ∀ l s, sem.created l = true → sem.created (sem.exec l s op).1 = true

/-- what the overlap theorem asks of the requests when existence checking is on: a request that has passed the check
in `Open` runs its call later, so no *overlapping* request may erase the marker in between (the same is true of
locations operated directly: check, then call) -/
def ReqKeeps (sem : LocSem) (check : Bool) : Req sem → Prop
  | .api _ op => check = true → KeepsMarker sem op
  | _ => True

/-- two histories issue the same requests (their clock readings may differ) -/
def SameReqs : List (Req sem × Int × Int) → List (Req sem × Int × Int) → Prop
  | [], [] => True
  | a :: r1, b :: r2 => a.1 = b.1 ∧ SameReqs r1 r2
  | _, _ => False

/-- the toy semantics (facts = numbers, memory and storage are lists, `add`/`has`/`clear`/`rem`) satisfies `ReloadOK`
with `R l s := l = s` -/
def toyReloadOK : ReloadOK toySem where
  R := fun l s => l = s
  load_R := fun _ _ => rfl
  exec_R := by intro l s op h; cases h; cases op <;> rfl
  exec_eq := by intro l l' s op h h'; cases h; cases h'; rfl
  created_eq := by intro l l' s h h'; cases h; cases h'; rfl
  mark_R := by intro l s h; cases h; rfl
  mark_eq := by intro l l' s h h'; cases h; cases h'; rfl
  mark_created := by intro l s; rfl

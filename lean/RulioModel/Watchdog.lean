/-!
# C14 — `core.RunJavascript`'s timeout protocol as an interleaving model

Source modelled: `/repo/core/javascript.go`, the block that starts at the comment
"Optionally time out the execution." and ends with `return x, err`.

```go
var timeout time.Duration
if SystemParameters.JavascriptTimeouts && ctx != nil && ctx.GetLoc() != nil {
    c := ctx.GetLoc().Control()
    if c != nil { timeout = time.Duration(c.JavascriptTimeout) }
}
if timeout == 0 { timeout = SystemParameters.DefaultJavascriptTimeout }
if SystemParameters.JavascriptTimeouts && 0 <= int64(timeout) {
    defer func() {                                  // D1 (runs LAST)
        if caught := recover(); caught != nil {
            if caught == Halt { return }            // unnamed results: the caller gets (nil, nil)
            panic(caught)
        }
    }()
    watchdogCleanup := make(chan bool)              // UNBUFFERED
    runtime.Interrupt = make(chan func(), 1)
    defer func() {                                  // D2 (runs FIRST)
        watchdogCleanup <- true
        close(watchdogCleanup)
    }()
    go func() {                                     // the watchdog
        select {
        case <-time.After(timeout):
            runtime.Interrupt <- func() { panic(Halt) }
        case <-watchdogCleanup:
        }
        close(runtime.Interrupt)
    }()
}
v, err := runtime.Run(src)    // otto polls `Interrupt` (non-blocking receive, then calls what it got)
...                           // before every statement and expression, only if Interrupt != nil
return x, err
```

Threads: the caller's goroutine (`main`), the watchdog goroutine (`wd`/`wdc`, see `Tid`), and the
runtime timer (`timer`, environment).  A schedule is a list of thread ids; every step is atomic; a
step that is blocked (or a thread that has terminated) does not advance (`step … = none`).

The same definitions also describe the proposed repair (`cleanupBuffered := true`,
`haltIsError := true`), so that its proof is ready when the fix is adopted.
-/

namespace Watchdog

/-! ## Timeout selection (pure) -/

/-- what the selection reads. Durations are nanoseconds (`time.Duration`). -/
structure TimeoutCfg where
  /-- `SystemParameters.JavascriptTimeouts` -/
  timeoutsOn : Bool
  /-- `ctx != nil && ctx.GetLoc() != nil` (`Location.Control()` never returns nil) -/
  hasLoc : Bool
  /-- `ctx.GetLoc().Control().JavascriptTimeout` -/
  control : Int
  /-- `SystemParameters.DefaultJavascriptTimeout` -/
  sysDefault : Int
deriving Repr, DecidableEq

/-- first `if`: the location's control is consulted only when timeouts are on and there is a location -/
def fromControl (c : TimeoutCfg) : Int :=
  if c.timeoutsOn && c.hasLoc then c.control else 0

/-- second `if`: zero means "use the system default" -/
def effective (c : TimeoutCfg) : Int :=
  if fromControl c == 0 then c.sysDefault else fromControl c

/-- third `if`: `none` = no watchdog is installed (the script runs unguarded);
`some t` = a watchdog with `time.After(t)` (t may be 0). -/
def chooseTimeout (c : TimeoutCfg) : Option Int :=
  if c.timeoutsOn && decide (0 ≤ effective c) then some (effective c) else none

/-! ## The protocol -/

/-- Thread ids. Go's `select` chooses pseudo-randomly among ready cases: the scheduler resolves that
choice by scheduling the watchdog as `wd` (takes the timer case when both are ready) or as `wdc`
(takes the clean-up case when both are ready). Everywhere else `wd` and `wdc` are the same thread. -/
inductive Tid | main | wd | wdc | timer
deriving Repr, DecidableEq

/-- why the caller's goroutine is unwinding through its deferred functions -/
inductive Pending
  | fin      -- `runtime.Run` returned (value or JavaScript error); normal return path
  | halt     -- the interrupt function was received and called: `panic(Halt)`
  | nilcall  -- the poll received from a closed, empty `Interrupt`: calling a nil func panics
deriving Repr, DecidableEq

/-- what `RunJavascript` hands to its caller -/
inductive Ret
  | own         -- the script's own outcome: its value, or its JavaScript error
  | nilOk       -- `(nil, nil)`: the recovered `Halt` with unnamed results, i.e. *success with value nil*
  | timeoutErr  -- (repair only) `(nil, error)`
deriving Repr, DecidableEq

/-- caller's goroutine -/
inductive MPc
  | start                  -- before the `if … JavascriptTimeouts …` block
  | run                    -- inside `runtime.Run(src)`
  | dSend (p : Pending)    -- deferred D2: `watchdogCleanup <- true`
  | dClose (p : Pending)   -- deferred D2: `close(watchdogCleanup)`
  | dRecover (p : Pending) -- deferred D1: `recover()`
  | ret (r : Ret)          -- returned to the caller
  | panicked               -- a panic other than Halt left `RunJavascript`
deriving Repr, DecidableEq

/-- watchdog goroutine -/
inductive WPc
  | idle    -- not spawned
  | sel     -- at the `select`
  | send    -- timer case taken: `runtime.Interrupt <- func(){panic(Halt)}`
  | close   -- `close(runtime.Interrupt)`
  | done    -- exited
deriving Repr, DecidableEq

/-- the finite part of a configuration -/
structure KCfg where
  /-- `chooseTimeout = some _`: the watchdog block is executed -/
  enabled : Bool
  /-- the timer expires at some point (where: the schedule decides) -/
  fires : Bool
  /-- capacity of `watchdogCleanup`: `false` = 0 (as coded), `true` = 1 (repair) -/
  cleanupBuffered : Bool
  /-- `false`: recovered Halt returns `(nil,nil)` (as coded); `true`: returns an error (repair) -/
  haltIsError : Bool
deriving Repr, DecidableEq

structure Cfg extends KCfg where
  /-- number of statement/expression boundaries (= polls of `Interrupt`) before the script ends by
  itself; `none`: it never does (`while(true){}`) -/
  polls : Option Nat
deriving Repr, DecidableEq

/-- control state: program counters and channels (finite) -/
structure Ctl where
  m : MPc
  w : WPc
  /-- the `time.After` channel has a value -/
  fired : Bool
  /-- `runtime.Interrupt` (capacity 1) holds the interrupt function -/
  intrFull : Bool
  intrClosed : Bool
  /-- `watchdogCleanup` holds a value (only possible when `cleanupBuffered`) -/
  clnFull : Bool
  clnClosed : Bool
deriving Repr, DecidableEq

structure St where
  k : Ctl
  /-- polls left before the script ends by itself (meaningless when `polls = none`) -/
  left : Nat
deriving Repr, DecidableEq

def Ctl.init : Ctl :=
  { m := .start, w := .idle, fired := false, intrFull := false, intrClosed := false, clnFull := false, clnClosed := false }

def init (c : Cfg) : St := { k := Ctl.init, left := c.polls.getD 0 }

/-- the clean-up case of the watchdog's `select` can proceed without a partner:
a buffered value is present, or the channel is closed (receive of the zero value) -/
def clnReady (s : Ctl) : Bool := s.clnFull || s.clnClosed

/-- `runtime.Run` makes one step. `z`: the script has nothing left, `Run` returns (no further poll).
Otherwise: poll (only when a watchdog is installed, i.e. `Interrupt != nil`), then go on to the next
boundary. The flag returned says whether a boundary was passed. -/
def runStep (c : KCfg) (z : Bool) (s : Ctl) : Ctl × Bool :=
  if z then
    (if c.enabled then { s with m := .dSend .fin } else { s with m := .ret .own }, false)
  else if c.enabled && s.intrFull then
    ({ s with intrFull := false, m := .dSend .halt }, false)   -- value := <-Interrupt; value()  → panic(Halt)
  else if c.enabled && s.intrClosed then
    ({ s with m := .dSend .nilcall }, false)                    -- receives nil from the closed channel; nil()
  else
    (s, true)                                                    -- `default:` — go on

/-- the caller's goroutine -/
def stepMain (c : KCfg) (z : Bool) (s : Ctl) : Option (Ctl × Bool) :=
  match s.m with
  | .start =>
    if c.enabled then some ({ s with m := .run, w := .sel }, false)   -- make channels, 2 defers, `go watchdog`
    else some ({ s with m := .run }, false)
  | .run => some (runStep c z s)
  | .dSend p =>
    if c.cleanupBuffered then
      if s.clnFull then none else some ({ s with clnFull := true, m := .dClose p }, false)
    else
      -- unbuffered: the send completes only with the watchdog waiting at its select
      if s.w == .sel then some ({ s with w := .close, m := .dClose p }, false) else none
  | .dClose p => some ({ s with clnClosed := true, m := .dRecover p }, false)
  | .dRecover .fin => some ({ s with m := .ret .own }, false)
  | .dRecover .halt => some ({ s with m := .ret (if c.haltIsError then .timeoutErr else .nilOk) }, false)
  | .dRecover .nilcall => some ({ s with m := .panicked }, false)      -- `panic(caught)`
  | .ret _ => none
  | .panicked => none

/-- the clean-up case of the `select` is ready: a buffered value / closed channel, or (unbuffered) a
sender blocked in `watchdogCleanup <- true` to rendezvous with -/
def cleanupAvail (c : KCfg) (s : Ctl) : Bool :=
  clnReady s || (!c.cleanupBuffered && (match s.m with | .dSend _ => true | _ => false))

/-- the watchdog receives from `watchdogCleanup` -/
def takeCleanup (s : Ctl) : Ctl :=
  if clnReady s then { s with clnFull := false, w := .close }
  else match s.m with
    | .dSend p => { s with m := .dClose p, w := .close }   -- rendezvous: the sender proceeds too
    | _ => s

/-- the watchdog goroutine; `preferCleanup` resolves the `select` when both cases are ready -/
def stepWd (c : KCfg) (preferCleanup : Bool) (s : Ctl) : Option Ctl :=
  match s.w with
  | .idle => none
  | .sel =>
    if s.fired && !(preferCleanup && cleanupAvail c s) then some { s with w := .send }   -- case <-time.After
    else if cleanupAvail c s then some (takeCleanup s)                                   -- case <-watchdogCleanup
    else none
  | .send => if s.intrFull then none else some { s with intrFull := true, w := .close }
  | .close => some { s with intrClosed := true, w := .done }
  | .done => none

/-- the runtime timer -/
def stepTimer (c : KCfg) (s : Ctl) : Option Ctl :=
  if c.enabled && c.fires && !s.fired && s.w != .idle then some { s with fired := true } else none

/-- one step of thread `t` on the control state; the flag says whether the script passed a boundary -/
def stepCtl (c : KCfg) (z : Bool) (t : Tid) (s : Ctl) : Option (Ctl × Bool) :=
  match t with
  | .main => stepMain c z s
  | .wd => (stepWd c false s).map (·, false)
  | .wdc => (stepWd c true s).map (·, false)
  | .timer => (stepTimer c s).map (·, false)

/-- the script has nothing left to execute: `runtime.Run` returns at its next step -/
def atEnd (c : Cfg) (s : St) : Bool := c.polls.isSome && s.left == 0

def step (c : Cfg) (t : Tid) (s : St) : Option St :=
  match stepCtl c.toKCfg (atEnd c s) t s.k with
  | none => none
  | some (k', passed) => some { k := k', left := if passed then s.left - 1 else s.left }

/-- run a schedule; blocked steps do not advance -/
def run (c : Cfg) (sched : List Tid) (s : St) : St :=
  sched.foldl (fun s t => (step c t s).getD s) s

/-- nothing can move any more -/
def stuck (c : Cfg) (s : St) : Bool :=
  (step c .main s).isNone && (step c .wd s).isNone && (step c .wdc s).isNone && (step c .timer s).isNone

/-- the caller has control back -/
def Ctl.returned (s : Ctl) : Bool :=
  match s.m with | .ret _ => true | .panicked => true | _ => false
def returned (s : St) : Bool := s.k.returned

/-- the call is over and nothing is left behind: caller returned `r`, watchdog exited,
no value sits in either channel, both channels closed -/
def Ctl.cleanFinal (s : Ctl) (r : Ret) : Bool :=
  s.m == .ret r && s.w == .done && !s.intrFull && s.intrClosed && !s.clnFull && s.clnClosed
def cleanFinal (s : St) (r : Ret) : Bool := s.k.cleanFinal r

/-- the caller returned `r` and the watchdog goroutine exited (a stale value may sit in the buffer of a
channel nobody references any more: garbage) -/
def Ctl.overFinal (s : Ctl) (r : Ret) : Bool := s.m == .ret r && s.w == .done
def overFinal (s : St) (r : Ret) : Bool := s.k.overFinal r

/-- the configurations of the unchanged tree -/
def KCfg.asCoded (c : KCfg) : Bool := !c.cleanupBuffered && !c.haltIsError
/-- the configurations of the proposed repair -/
def KCfg.repaired (c : KCfg) : Bool := c.cleanupBuffered && c.haltIsError

/-- control part of the termination measure -/
def muK (c : KCfg) (s : Ctl) : Nat :=
  (match s.m with
   | .start => 8 | .run => 7 | .dSend _ => 6 | .dClose _ => 4 | .dRecover _ => 2 | .ret _ => 0 | .panicked => 0)
  + (match s.w with | .idle => 4 | .sel => 3 | .send => 2 | .close => 1 | .done => 0)
  + (if c.enabled && c.fires && !s.fired then 1 else 0)
  + (if s.clnFull then 1 else 0)

/-- effective-step measure for termination arguments: every effective step strictly decreases it,
except the idle polls of a script that never ends by itself -/
def mu (c : Cfg) (s : St) : Nat :=
  muK c.toKCfg s.k + (match c.polls with | some _ => s.left | none => 0)

/-! ## From the protocol to the result of the call -/

/-- how a script behaves by itself -/
inductive Script (α : Type)
  | value (polls : Nat) (v : α)     -- ends with the value of its last expression
  | throws (polls : Nat)            -- ends with an uncaught JavaScript exception
  | loops                           -- never ends by itself
  | syntaxError                     -- does not compile
deriving Repr

inductive RErr | syntax | thrown | timeout
deriving Repr, DecidableEq

/-- result of the call as the caller sees it: `Except.ok none` is Go's `(nil, nil)` -/
abbrev CallRes (α : Type) := Except RErr (Option α)

def Script.polls {α} : Script α → Option Nat
  | .value n _ => some n | .throws n => some n | .loops => none | .syntaxError => some 0

/-- `Ret` read against the script -/
def resultOf {α} (sc : Script α) : Ret → CallRes α
  | .own => match sc with
    | .value _ v => .ok (some v)
    | .throws _ => .error .thrown
    | .loops => .error .thrown        -- unreachable: a looping script never produces `own`
    | .syntaxError => .error .syntax
  | .nilOk => .ok none
  | .timeoutErr => .error .timeout

/-- protocol configuration for a script that compiled -/
def cfgOf {α} (sc : Script α) (enabled fires buffered haltIsError : Bool) : Cfg :=
  { enabled, fires, cleanupBuffered := buffered, haltIsError, polls := sc.polls }

/-- outcome of `Location.RunJavascript` / `CodeQuery.Exec` / `getActionFunc`'s thunk as observed by a
bounded observer: all three compile first and return the `SyntaxError` without running anything. -/
inductive Outcome (α : Type)
  | returned (r : CallRes α)
  | panicked
  | blocked          -- the caller is blocked for ever (no thread can move)
  | running          -- still running when the observer gave up
deriving Repr

def classify {α} (sc : Script α) (c : Cfg) (s : St) : Outcome α :=
  match s.k.m with
  | .ret r => .returned (resultOf sc r)
  | .panicked => .panicked
  | _ => if stuck c s then .blocked else .running

/-- a canonical schedule for the observer: `pre` caller steps (set-up and the boundaries passed before
the timer expires), then the timer and the watchdog to completion, then the caller alone, then the
watchdog again. -/
def canonSched (pre post : Nat) : List Tid :=
  List.replicate (pre + 1) .main ++ [.timer, .wd, .wd, .wd] ++ List.replicate post .main ++ [.wdc, .wdc, .wdc] ++
    List.replicate 4 .main

def callScript {α} (sc : Script α) (enabled fires buffered haltIsError : Bool) (pre : Nat) : Outcome α :=
  match sc with
  | .syntaxError => .returned (.error .syntax)
  | _ =>
    let c := cfgOf sc enabled fires buffered haltIsError
    classify sc c (run c (canonSched pre ((sc.polls.getD 8) + 8)) (init c))

/-- `EvalRuleCondition.Do` / `ExecRuleAction.Do`: the node is `Complete` iff the call returned no error -/
def nodeComplete {α} : CallRes α → Bool
  | .ok _ => true
  | .error _ => false

end Watchdog

import RulioModel.Json
import RulioModel.Gen.C18

/-!
# Service layer model (property C18)

Models `service/service.go` (`DWIMURI`, the parameter getters, `ProcessRequest` for the `/api/loc/*`
family and the batch case) and `service/httpd.go` (`parseParameter`, `GetHTTPRequest`, the error → 400 rule).

* `DWIMURI` is a pure function on character lists.  The two regular expressions of the source are
  implemented by hand (`dropParamsL`, `dropVersionL`); the literals they implement are `implRegexps`, compared
  with the literals regenerated from the source (`Gen.C18.dwimRegexps`) by a theorem in `Props/C18.lean`.
* `ProcessRequest` is an *interpreter of the regenerated dispatch table* `Gen.C18.rows`: which parameter is
  read through which getter, required or not, whether the getter's error is tested; which `System` method is
  called with which arguments.  Nothing about an individual `case` is restated by hand here.
* The library decoders (`net/url`, `encoding/json`, `yaml.v2`) are a parameter (`Codec`); their round-trip
  contracts appear as explicit hypotheses of the theorems (trusted base).
* Go maps are association lists read with `lookupKey` (first binding wins, so `put` overrides).
-/

namespace Svc
open Gen.C18

/-! ## 1. DWIMURI -/

/-- `regexp "[?].*"`, `ReplaceAllString(uri, "")`: from every `?` up to (not including) the next newline.
The flag says "inside a match". -/
def dropParamsAux : Bool → List Char → List Char
  | _, [] => []
  | true, c :: cs => if c = '\n' then c :: dropParamsAux false cs else dropParamsAux true cs
  | false, c :: cs => if c = '?' then dropParamsAux true cs else c :: dropParamsAux false cs

def dropParamsL (cs : List Char) : List Char := dropParamsAux false cs

/-- the class `[.0-9]` -/
def isVerChar (c : Char) : Bool := c == '.' || ('0' ≤ c && c ≤ '9')

/-- `regexp "^/v?[.0-9]+"`, `ReplaceAllString(uri, "")`: only at the start of the text; `v` is optional (it is not
in the class, so backtracking over it never helps); the class run is greedy and must be non-empty. -/
def dropV : List Char → List Char
  | 'v' :: t => t
  | r => r

def dropVersionL : List Char → List Char
  | '/' :: r =>
    match dropV r with
    | c :: t => if isVerChar c then t.dropWhile isVerChar else '/' :: r
    | [] => '/' :: r
  | cs => cs

def apiL : List Char := ['/', 'a', 'p', 'i']

def dwimL (cs : List Char) : List Char :=
  let b := dropVersionL (dropParamsL cs)
  if apiL.isPrefixOf b then b else apiL ++ b

/-- `service.DWIMURI` -/
def dwimURI (s : String) : String := String.ofList (dwimL s.toList)

/-- the literals the three functions above implement; compared with the regenerated ones -/
def implSteps : List String := ["replaceAll:dropParams", "replaceAll:dropVersion", "unlessPrefixPrepend"]
def implRegexps : List (String × String × String) :=
  [("dropParams", "[?].*", ""), ("dropVersion", "^/v?[.0-9]+", "")]
def implPrefix : String := "/api"

/-! ## 2. Errors, request maps, getters -/

inductive ErrC where
  | noUri                      -- "No uri."
  | unknownUri                 -- "Unknown URI '…'"
  | missing (p : String)       -- "Parameter p missing"
  | illTyped (p : String)      -- "Parameter p type T wrong"
  | decode                     -- a library decoder (query string, JSON, YAML, int) or the envelope rules refused the input
  | panic                      -- the Go code panics (index out of range on an empty body/value; `uri` not a string)
deriving DecidableEq, Repr

abbrev ReqMap := List (String × J)

def put (m : ReqMap) (k : String) (v : J) : ReqMap := (k, v) :: m

/-- `json.Unmarshal(js, &m)` / `yaml.Unmarshal` into an existing map: decoded keys override -/
def merge (decoded : List (String × J)) (m : ReqMap) : ReqMap := decoded ++ m

/-- what the Go getters return: (value, have, err) with `have = false` and the zero value when absent -/
structure PV where
  given : Bool
  val : J
deriving Inhabited

instance : BEq PV := ⟨fun a b => a.given == b.given && a.val == b.val⟩

def asciiLower (s : String) : List Char := s.toList.map Char.toLower

def allStrs : List J → Option (List String)
  | [] => some []
  | .str s :: r => (allStrs r).map (s :: ·)
  | _ :: _ => none

def concatStrs (xs : List String) : String := xs.foldl (· ++ ·) ""

inductive GK where
  | map | bool | str | index | unknown
deriving DecidableEq, Repr

def getterKind (g : String) : GK :=
  if g = "getMapParam" then .map
  else if g = "getBoolParam" then .bool
  else if g = "GetStringParam" then .str
  else if g = "index" then .index
  else .unknown

/-- `getMapParam` (argument: the result of `m[p]`) -/
def getMapParam (o : Option J) (p : String) (required : Bool) : Except ErrC PV :=
  match o with
  | none => if required then .error (.missing p) else .ok ⟨false, .null⟩
  | some (.obj kvs) => .ok ⟨true, .obj kvs⟩
  | some _ => .error (.illTyped p)

/-- `getBoolParam`: a string is accepted and means `strings.ToLower(v) == "true"` -/
def getBoolParam (o : Option J) (p : String) (required : Bool) : Except ErrC PV :=
  match o with
  | none => if required then .error (.missing p) else .ok ⟨false, .bool false⟩
  | some (.bool b) => .ok ⟨true, .bool b⟩
  | some (.str s) => .ok ⟨true, .bool (asciiLower s == "true".toList)⟩
  | some _ => .error (.illTyped p)

/-- `GetStringParam`: an array of strings is accepted and concatenated -/
def getStringParam (o : Option J) (p : String) (required : Bool) : Except ErrC PV :=
  match o with
  | none => if required then .error (.missing p) else .ok ⟨false, .str ""⟩
  | some (.str s) => .ok ⟨true, .str s⟩
  | some (.arr xs) =>
    match allStrs xs with
    | some ss => .ok ⟨true, .str (concatStrs ss)⟩
    | none => .error (.illTyped p)
  | some _ => .error (.illTyped p)

/-- `x, given := m["p"]`.  Only presence is used, except for `libraries` (an array of strings is required). -/
def getIndex (o : Option J) (p : String) : Except ErrC PV :=
  match o with
  | none => .ok ⟨false, if p = "libraries" then .arr [] else .null⟩
  | some v =>
    if p = "libraries" then
      match v with
      | .arr xs =>
        match allStrs xs with
        | some _ => .ok ⟨true, .arr xs⟩
        | none => .error (.illTyped p)
      | _ => .error (.illTyped p)
    else .ok ⟨true, .null⟩

/-- one getter call, given the result of the map lookup -/
def evalReadV (o : Option J) (r : Read) : Except ErrC PV :=
  match getterKind r.getter with
  | .map => getMapParam o r.param r.required
  | .bool => getBoolParam o r.param r.required
  | .str => getStringParam o r.param r.required
  | .index => getIndex o r.param
  | .unknown => .error .decode

def evalRead (m : ReqMap) (r : Read) : Except ErrC PV := evalReadV (lookupKey r.param m) r

/-- what the Go variables hold after a getter whose error is *not* tested -/
def fallback (r : Read) (e : ErrC) : PV :=
  let zero : J := match getterKind r.getter with
    | .map => .null | .bool => .bool false | .str => .str "" | _ => .null
  match e with
  | .missing _ => ⟨false, zero⟩
  | _ => ⟨true, zero⟩

abbrev Env := List (String × PV)

def Env.get (env : Env) (p : String) : PV :=
  match env with
  | [] => ⟨false, .null⟩
  | (k, v) :: r => if k = p then v else Env.get r p

/-- the getter calls of one case, in source order; a tested error returns, an untested one is dropped -/
def evalReads (m : ReqMap) : List Read → Env → Except ErrC Env
  | [], env => .ok env
  | r :: rs, env =>
    match evalRead m r with
    | .ok v => evalReads m rs ((r.param, v) :: env)
    | .error e => if r.checked then .error e else evalReads m rs ((r.param, fallback r e) :: env)

/-! ## 3. System calls -/

structure Codec where
  /-- `url.ParseQuery`; `none` = error -/
  parseQuery : String → Option (List (String × List String))
  /-- `json.Unmarshal` into a `map[string]interface{}`; `none` = error -/
  jsonObj : String → Option (List (String × J))
  /-- `yaml.Unmarshal` into a map followed by `StringMaps`; `none` = error -/
  yamlObj : String → Option (List (String × J))
  /-- `json.Unmarshal` into the typed target of the call (`[]string` for `set`, `FindRules` for `work`); `none` = error -/
  jsonAny : String → Option J

structure SysCall where
  method : String
  args : List J
  /-- the error result of the call is tested and returned -/
  checked : Bool
deriving Inhabited

instance : BEq SysCall := ⟨fun a b => a.method == b.method && a.args == b.args && a.checked == b.checked⟩

structure Outcome where
  calls : List SysCall
  /-- errors of nested `ProcessRequest` calls whose result the code ignores -/
  swallowed : List ErrC
  /-- the facts found are then removed one by one (errors logged only) -/
  take : Bool
deriving Inhabited

/-- split a character list at every `c` -/
def splitL (c : Char) : List Char → List Char → List (List Char)
  | [], cur => [cur.reverse]
  | x :: r, cur => if x = c then cur.reverse :: splitL c r [] else splitL c r (x :: cur)

def splitOn (s : String) (c : Char) : List String := (splitL c s.toList []).map String.ofList

def startsW (p s : String) : Bool := p.toList.isPrefixOf s.toList
def dropS (n : Nat) (s : String) : String := String.ofList (s.toList.drop n)

/-- one atom of a call condition -/
def atomHolds (env : Env) (a : String) : Option Bool :=
  if a = "loop" then none
  else if startsW "given:" a then some (env.get (dropS 6 a)).given
  else if startsW "!given:" a then some (!(env.get (dropS 7 a)).given)
  else if a = "" then some true
  else some false

/-- `some true`: the call is made; `some false`: not made; `none`: made once per found fact (dynamic) when the guards hold -/
def condHolds (env : Env) (cond : String) : Option Bool :=
  let atoms := splitOn cond '&'
  let static := atoms.filter (· != "loop")
  let ok := static.all (fun a => atomHolds env a == some true)
  if atoms.contains "loop" then (if ok then none else some false) else some ok

/-- what `json.Unmarshal` into the typed target of the call accepts: `[]string` for `SetParents`, a struct for
`RetryEventWork` (`null` leaves the target untouched in both cases) -/
def unjsonOK (method : String) (j : J) : Bool :=
  if method = "SetParents" then
    (match j with | .arr xs => (allStrs xs).isSome | .null => true | _ => false)
  else if method = "RetryEventWork" then
    (match j with | .obj _ => true | .null => true | _ => false)
  else true

/-- the value passed for one argument; `none` = the argument is not part of the request (ctx, bindings, props) -/
def argOf (c : Codec) (env : Env) (method : String) (a : String) : Except ErrC (Option J) :=
  if startsW "p:" a then .ok (some (env.get (dropS 2 a)).val)
  else if startsW "json:" a then .ok (some (env.get (dropS 5 a)).val)
  else if startsW "unjson:" a then
    match (env.get (dropS 7 a)).val with
    | .str s =>
      match c.jsonAny s with
      | some j => if unjsonOK method j then .ok (some j) else .error .decode
      | none => .error .decode
    | _ => .error .decode
  else if a = "lit:true" then .ok (some (.bool true))
  else if a = "lit:false" then .ok (some (.bool false))
  else if a = "other:libraries" then .ok (some (env.get "libraries").val)
  else .ok none

def argsOf (c : Codec) (env : Env) (method : String) : List String → Except ErrC (List J)
  | [] => .ok []
  | a :: r =>
    match argOf c env method a with
    | .error e => .error e
    | .ok o =>
      match argsOf c env method r with
      | .error e => .error e
      | .ok js => .ok (match o with | some j => j :: js | none => js)

/-- methods that only fetch configuration and are not operations on the location -/
def incidental (method : String) : Bool := method == "LocControl"

def buildCalls (c : Codec) (env : Env) : List Call → Except ErrC (List SysCall × Bool)
  | [] => .ok ([], false)
  | k :: ks =>
    match buildCalls c env ks with
    | .error e => .error e
    | .ok (cs, take) =>
      if incidental k.method then .ok (cs, take) else
      match condHolds env k.cond with
      | some false => .ok (cs, take)
      | none => .ok (cs, true)
      | some true =>
        match argsOf c env k.method k.args with
        | .error e => .error e
        | .ok js => .ok (⟨k.method, js, k.checked⟩ :: cs, take)

/-- one `case` without nested requests -/
def runPlain (c : Codec) (row : Row) (m : ReqMap) : Except ErrC Outcome :=
  match evalReads m row.reads [] with
  | .error e => .error e
  | .ok env =>
    match buildCalls c env row.calls with
    | .error e => .error e
    | .ok (cs, take) => .ok ⟨cs, [], take⟩

def setVal (v : String) : J := if v = "true" then .bool true else if v = "false" then .bool false else .str v

def applySets (m : ReqMap) : List (String × String) → ReqMap
  | [] => m
  | (k, v) :: r => applySets (put m k (setVal v)) r

def findRow (uri : String) : Option Row := rows.find? (fun r => r.uri == uri)

/-- the `uri` entry as the dispatch sees it: absent, a string (normalised by DWIMURI) or something else -/
def uriNF (m : ReqMap) : Option (Option String) :=
  match lookupKey "uri" m with
  | none => none
  | some (.str u) => some (some (dwimURI u))
  | some _ => some none

/-- the case a nested request is dispatched to -/
def redirectTarget (m : ReqMap) : Option Row :=
  match uriNF m with
  | some (some uri) => findRow uri
  | _ => none

/-- one nested `s.ProcessRequest(ctx, m, out)` (the targets of the table have no nested requests themselves) -/
def runTarget (c : Codec) (m : ReqMap) : Except ErrC Outcome :=
  match redirectTarget m with
  | none => .error .unknownUri
  | some row => runPlain c row m

/-- nested `s.ProcessRequest(ctx, m, out)` statements: the map keeps the overwritten entries; a result that the
code ignores is dropped (`swallowed`), a tested one is returned -/
def runRedirects (c : Codec) (m : ReqMap) : List Redirect → Outcome → Except ErrC Outcome
  | [], acc => .ok acc
  | rd :: rest, acc =>
    match runTarget c (applySets m rd.sets) with
    | .ok o =>
      runRedirects c (applySets m rd.sets) rest
        { calls := acc.calls ++ o.calls, swallowed := acc.swallowed, take := acc.take || o.take }
    | .error e =>
      if rd.checked then .error e
      else runRedirects c (applySets m rd.sets) rest { acc with swallowed := acc.swallowed ++ [e] }

def runRow (c : Codec) (row : Row) (m : ReqMap) : Except ErrC Outcome :=
  match row.redirects with
  | [] => runPlain c row m
  | rds =>
    -- getters of the composite case itself (none in the unchanged source) come before the nested requests
    match evalReads m row.reads [] with
    | .error e => .error e
    | .ok _ => runRedirects c m rds ⟨[], [], false⟩

/-- `Service.ProcessRequest` restricted to what C18 is about: `/api/loc/*` is interpreted, any other known
label yields an empty outcome (out of scope), anything else is the default clause. -/
def processRequest (c : Codec) (m : ReqMap) : Except ErrC Outcome :=
  match uriNF m with
  | none => .error .noUri
  | some (some uri) =>
    match findRow uri with
    | some row => runRow c row m
    | none => if caseLabels.contains uri then .ok ⟨[], [], false⟩ else .error .unknownUri
  | some none => .error .panic

/-- `/api/sys/util/batch`: every element of `requests` that is a map is processed in order -/
def processBatch (c : Codec) (m : ReqMap) : Except ErrC (List (Except ErrC Outcome)) :=
  match lookupKey "requests" m with
  | none => .error (.missing "requests")
  | some (.arr xs) =>
    .ok (xs.map (fun x => match x with
      | .obj kvs => processRequest c kvs
      | _ => .error (.illTyped "requests")))
  | some _ => .error (.illTyped "requests")

/-! ## 4. HTTP front end (`httpd.go`) -/

/-- does the source test `len(js) == 0` before `js[0]` (GetHTTPRequest) / `len(bs) == 0` before `bs[0]` (Unmarshal)?
Read off the regenerated call skeletons, so the model follows the source. -/
def isGuard (s : String) : Bool := startsW "test:len(js)" s || startsW "test:len(bs)" s
def emptyBodyGuarded : Bool :=
  (skelGetHTTPRequest.takeWhile (fun s => s != "test:js[0] == '{'")).any isGuard
def emptyUnmarshalGuarded : Bool :=
  (skelUnmarshal.takeWhile (fun s => s != "test:bs[0] == '{'")).any isGuard
def noGuards (l : List String) : List String := l.filter (fun s => !isGuard s)

structure HttpReq where
  method : String
  /-- `r.URL.String()` -/
  urlString : String
  /-- `r.URL.Path` -/
  path : String
  /-- `r.URL.RawQuery` -/
  rawQuery : String
  body : String

def parseInt32 (v : String) : Option Int :=
  let (neg, ds) := match v.toList with
    | '-' :: r => (true, r)
    | '+' :: r => (false, r)
    | r => (false, r)
  if ds.isEmpty || !(ds.all Char.isDigit) then none
  else
    let n : Nat := ds.foldl (fun a d => a * 10 + (d.toNat - '0'.toNat)) 0
    let i : Int := if neg then -(n : Int) else (n : Int)
    if -2147483648 ≤ i ∧ i ≤ 2147483647 then some i else none

/-- `httpd.Unmarshal`: first byte `{` → JSON, a newline somewhere → YAML, else "unknown syntax"; empty input panics
(unless the source guards it) -/
def unmarshalMap (c : Codec) (v : String) : Except ErrC (List (String × J)) :=
  match v.toList with
  | [] => if emptyUnmarshalGuarded then .error .decode else .error .panic
  | ch :: _ =>
    if ch = '{' then
      match c.jsonObj v with
      | some kvs => .ok kvs
      | none => .error .decode
    else if v.toList.contains '\n' then
      match c.yamlObj v with
      | some kvs => .ok kvs
      | none => .error .decode
    else .error .decode

/-- `parseParameter` -/
def parseParameter (c : Codec) (p v : String) : Except ErrC J :=
  match parameterTypes.lookup p with
  | none => .ok (.str v)
  | some typ =>
    if typ = "json" then
      match unmarshalMap c v with
      | .ok kvs => .ok (.obj kvs)
      | .error e => .error e
    else if typ = "int" then
      match parseInt32 v with
      | some i => .ok (.num i)
      | none => .error .decode
    else .error .decode

def parsePairs (c : Codec) : List (String × List String) → ReqMap → Except ErrC ReqMap
  | [], m => .ok m
  | (p, vs) :: r, m =>
    match vs with
    | [v] =>
      match parseParameter c p v with
      | .ok j => parsePairs c r (put m p j)
      | .error e => .error e
    | _ => .error .decode

/-- the `parseQuery` closure of `GetHTTPRequest` -/
def parseQueryInto (c : Codec) (q : String) (m : ReqMap) : Except ErrC ReqMap :=
  match c.parseQuery q with
  | none => .error .decode
  | some qvs => parsePairs c qvs m

/-- `GetHTTPRequest` -/
def getHTTPRequest (c : Codec) (r : HttpReq) : Except ErrC ReqMap :=
  let uri := dwimURI r.urlString
  match parseQueryInto c r.rawQuery [] with
  | .error e => .error e
  | .ok m =>
    if uri = "/api/json" ∨ uri = "/api/yaml" then
      if r.method = "POST" then
        match (if uri = "/api/json" then c.jsonObj r.body else c.yamlObj r.body) with
        | none => .error .decode
        | some kvs =>
          let m' := merge kvs m
          match lookupKey "uri" m' with
          | some (.str _) => .ok m'
          | _ => .error .decode
      else .error .decode
    else
      let m := put m "uri" (.str r.path)
      if r.method = "POST" then
        match r.body.toList with
        | [] => if emptyBodyGuarded then .ok m else .error .panic
        | ch :: _ =>
          if ch = '{' then
            match c.jsonObj r.body with
            | some kvs => .ok (merge kvs m)
            | none => .error .decode
          else if r.body.toList.contains '\n' then
            match c.yamlObj r.body with
            | some kvs => .ok (merge kvs m)
            | none => .error .decode
          else parseQueryInto c r.body m
      else .ok m

/-- `ServeHTTP` for the location family: decode, then `ProcessRequest` -/
def serve (c : Codec) (r : HttpReq) : Except ErrC Outcome :=
  match getHTTPRequest c r with
  | .error e => .error e
  | .ok m =>
    match uriNF m with
    | some none => if uriAssertChecked then .error .decode else .error .panic   -- `m["uri"].(string)`
    | _ => processRequest c m

/-- the HTTP status: any error is written by `protest` (400); a panic kills the handler (no response, 0 here) -/
def status : Except ErrC Outcome → Nat
  | .ok _ => 200
  | .error .panic => 0
  | .error _ => 400

def implErrorStatus : String := "http.StatusBadRequest"
def implServeErrorPaths : List String :=
  ["GetHTTPRequest:protest", "s.Service.ProcessRequest:http.Redirect+protest"]

/-! ## 5. The documented API, as a table (the specification the regenerated table is compared with) -/

/-- per URI: (parameter, kind ∈ map/str/bool, required) and the `System` method with its arguments -/
structure ApiOp where
  uri : String
  params : List (String × String × Bool)
  method : String
  args : List String
deriving DecidableEq, Repr

def api : List ApiOp := [
  ⟨"/api/loc/admin/size", [("location", "str", true)], "GetSize", ["p:location"]⟩,
  ⟨"/api/loc/admin/stats", [("location", "str", true)], "GetLocationStats", ["p:location"]⟩,
  ⟨"/api/loc/util/js", [("location", "str", true), ("code", "str", true), ("encoding", "str", false), ("libraries", "index", false)],
    "RunJavascript", ["p:location", "p:code", "other:libraries", "other:bs", "other:props"]⟩,
  ⟨"/api/loc/admin/create", [("location", "str", true)], "CreateLocation", ["p:location"]⟩,
  ⟨"/api/loc/admin/clear", [("location", "str", true)], "ClearLocation", ["p:location"]⟩,
  ⟨"/api/loc/admin/updatedmem", [("location", "str", true)], "GetLastUpdatedMem", ["p:location"]⟩,
  ⟨"/api/loc/admin/delete", [("location", "str", true)], "DeleteLocation", ["p:location"]⟩,
  ⟨"/api/loc/events/ingest", [("event", "map", true), ("location", "str", true)], "ProcessEvent", ["p:location", "json:event"]⟩,
  ⟨"/api/loc/events/retry", [("work", "str", true), ("location", "str", true)], "RetryEventWork", ["p:location", "unjson:work"]⟩,
  ⟨"/api/loc/facts/add", [("fact", "map", true), ("location", "str", true), ("id", "str", false)], "AddFact", ["p:location", "p:id", "json:fact"]⟩,
  ⟨"/api/loc/facts/rem", [("id", "str", true), ("location", "str", true)], "RemFact", ["p:location", "p:id"]⟩,
  ⟨"/api/loc/facts/get", [("id", "str", true), ("location", "str", true)], "GetFact", ["p:location", "p:id"]⟩,
  ⟨"/api/loc/facts/search", [("pattern", "map", true), ("location", "str", true), ("inherited", "bool", false), ("take", "index", false)],
    "SearchFacts", ["p:location", "json:pattern", "p:inherited"]⟩,
  ⟨"/api/loc/facts/query", [("query", "map", true), ("location", "str", true)], "Query", ["p:location", "json:query"]⟩,
  ⟨"/api/loc/rules/list", [("location", "str", true), ("inherited", "bool", false)], "ListRules", ["p:location", "p:inherited"]⟩,
  ⟨"/api/loc/rules/add", [("rule", "map", true), ("location", "str", true), ("id", "str", false)], "AddRule", ["p:location", "p:id", "json:rule"]⟩,
  ⟨"/api/loc/rules/rem", [("id", "str", true), ("location", "str", true)], "RemRule", ["p:location", "p:id"]⟩,
  ⟨"/api/loc/rules/disable", [("id", "str", true), ("location", "str", true)], "EnableRule", ["p:location", "p:id", "lit:false"]⟩,
  ⟨"/api/loc/rules/enable", [("id", "str", true), ("location", "str", true)], "EnableRule", ["p:location", "p:id", "lit:true"]⟩,
  ⟨"/api/loc/rules/enabled", [("id", "str", true), ("location", "str", true)], "RuleEnabled", ["p:location", "p:id"]⟩
]

def kindName (g : String) : String :=
  match getterKind g with
  | .map => "map" | .bool => "bool" | .str => "str" | .index => "index" | .unknown => "?"

/-- the part of a regenerated row the API table talks about: parameters read, the first non-incidental, unconditional call -/
def rowApi (r : Row) : Option ApiOp :=
  match r.calls.filter (fun k => !incidental k.method && k.cond == "") with
  | k :: _ => some ⟨r.uri, r.reads.map (fun rd => (rd.param, kindName rd.getter, rd.required)), k.method, k.args⟩
  | [] => none

/-- URIs of the family that are not a single unconditional call (handled by their own theorems) -/
def compositeUris : List String := ["/api/loc/facts/take", "/api/loc/facts/replace", "/api/loc/parents"]

/-- (uri, parameter) pairs whose getter error the code does not test — the exact list is a theorem -/
def knownUncheckedReads : List (String × String) :=
  [("/api/loc/util/js", "code"), ("/api/loc/util/js", "encoding"),
   ("/api/loc/facts/add", "id"), ("/api/loc/rules/add", "id"), ("/api/loc/parents", "set")]

def uncheckedReads (rs : List Row) : List (String × String) :=
  rs.flatMap (fun r => (r.reads.filter (fun rd => !rd.checked)).map (fun rd => (r.uri, rd.param)))

def subsetOf (a b : List (String × String)) : Bool := a.all (fun x => b.contains x)

/-- the nested requests of take/replace whose result the code ignores -/
def uncheckedRedirects (rs : List Row) : List String :=
  rs.flatMap (fun r => (r.redirects.filter (fun rd => !rd.checked)).map (fun _ => r.uri))

/-- (uri, method) pairs whose error result the code does not test -/
def knownUncheckedCalls : List (String × String) :=
  [("/api/loc/events/retry", "RetryEventWork"), ("/api/loc/facts/search", "RemFact")]

def uncheckedCalls (rs : List Row) : List (String × String) :=
  rs.flatMap (fun r => (r.calls.filter (fun k => !k.checked)).map (fun k => (r.uri, k.method)))

/-- every getter call of the family -/
def allReads : List Read := rows.flatMap (·.reads)

/-- is the value acceptable to a getter of this kind? -/
def wellTypedFor : GK → J → Bool
  | .map, .obj _ => true
  | .bool, .bool _ => true
  | .bool, .str _ => true
  | .str, .str _ => true
  | .str, .arr xs => (allStrs xs).isSome
  | .index, _ => true
  | _, _ => false

/-- the read cannot succeed on this request map: a required parameter is absent, or the value has the wrong type -/
def readFails (m : ReqMap) (rd : Read) : Bool :=
  match lookupKey rd.param m with
  | none => rd.required && getterKind rd.getter != .index
  | some v => !wellTypedFor (getterKind rd.getter) v

/-- what a value looks like after a trip through a query string / form body (`parseParameter`) -/
def wireTyped : J → J
  | .bool b => .str (if b then "true" else "false")
  | j => j

/-- the text put on the wire for a value (`enc` = the JSON encoder used by the client for maps) -/
def wireStr (enc : List (String × J) → String) : J → String
  | .str s => s
  | .bool b => if b then "true" else "false"
  | .obj kvs => enc kvs
  | _ => ""

/-- a boolean may be sent for `p` in a query string: every getter that reads `p` is `getBoolParam` (or a presence test) -/
def boolOK (p : String) : Bool :=
  allReads.all (fun rd => rd.param != p || getterKind rd.getter == .bool || (getterKind rd.getter == .index && p != "libraries"))

def wirePairs (enc : List (String × J) → String) (args : List (String × J)) : List (String × List String) :=
  args.map (fun kv => (kv.1, [wireStr enc kv.2]))

def typedArgs (args : List (String × J)) : ReqMap := args.map (fun kv => (kv.1, wireTyped kv.2))

/-- the argument can travel in a query string or a form body and come out with the type the getters expect:
strings for parameters without a declared type, booleans where only `getBoolParam` reads them, maps for parameters
declared `json` (for which the JSON decoder contract must hold on the text the client sends) -/
def ArgOK (c : Codec) (enc : List (String × J) → String) (p : String) (v : J) : Prop :=
  match v with
  | .str _ => parameterTypes.lookup p = none
  | .bool _ => parameterTypes.lookup p = none ∧ boolOK p = true
  | .obj kvs => parameterTypes.lookup p = some "json" ∧ c.jsonObj (enc kvs) = some kvs ∧ (∃ r, (enc kvs).toList = '{' :: r)
  | _ => False

/-- one logical request: named arguments, each expressible in every encoding -/
structure Logical (c : Codec) (enc : List (String × J) → String) (args : List (String × J)) : Prop where
  nodup : (args.map Prod.fst).Nodup
  nouri : "uri" ∉ args.map Prod.fst
  ok : ∀ kv ∈ args, ArgOK c enc kv.1 kv.2

/-- `Plain p`: `p` is a path that `DWIMURI` only prefixes with `/api` -/
def plainL (p : List Char) : Bool :=
  !p.contains '?' && dropVersionL p == p && !apiL.isPrefixOf p && (p.isEmpty || p.head? == some '/')

/-- `ver` is matched entirely by `/v?[.0-9]+` -/
def isVersionL (ver : List Char) : Bool :=
  match ver with
  | '/' :: 'v' :: c :: r => isVerChar c && r.all isVerChar
  | '/' :: c :: r => isVerChar c && r.all isVerChar
  | _ => false

/-! ## 6. Shape of the code the hand-written parts of this model mirror

`getHTTPRequest`, `parseParameter`, `unmarshalMap`, the three getters and the batch loop are written by hand above.
The lists below are the call skeletons / decision structures they were written against; the regenerated ones
(`Gen.C18.skel*`) are compared with them by theorems, so that an edit of those Go functions is noticed even
before the differential run. -/

def impl_skelGetHTTPRequest : List String := ["DWIMURI(ctx,r.URL.String())", "url.ParseQuery(q)", "test:len(vs) != 1", "parseParameter(p,vs[0])", "set:m[p]=v", "parseQuery(r.URL.RawQuery)", "case:\"/api/json\",\"/api/yaml\"", "case:\"POST\"", "ioutil.ReadAll(r.Body)", "case:\"/api/json\"", "json.Unmarshal(js,&m)", "case:\"/api/yaml\"", "UnmarshalYAML(js,&m)", "case:default", "case:default", "set:m[\"uri\"]=r.URL.Path", "case:\"POST\"", "ioutil.ReadAll(r.Body)", "test:js[0] == '{'", "json.Unmarshal(js,&m)", "MaybeYAML(js)", "UnmarshalYAML(js,&m)", "parseQuery(string(js))"]
def impl_skelParseParameter : List String := ["case:\"json\"", "Unmarshal([]byte(v),&m)", "case:\"int\"", "strconv.ParseInt(v,10,32)", "case:default"]
def impl_skelUnmarshal : List String := ["test:bs[0] == '{'", "json.Unmarshal(bs,v)", "MaybeYAML(bs)", "UnmarshalYAML(bs,v)"]
def impl_skelUnmarshalYAML : List String := ["yaml.Unmarshal(bs,v)", "StringMaps(v)"]
def impl_skelBatch : List String := ["index:requests", "range:xs", "ProcessRequest(m)"]
def impl_skel_getMapParam : List String := ["if:!have", "if:required", "return:nil;false;ERR(Parameter %s missing)", "return:nil;false;nil", "typeswitch:v.(type)", "case:map[string]interface{}", "return:v.(map[string]interface{});true;nil", "case:default", "return:nil;true;ERR(Parameter %s type %T wrong)"]
def impl_skel_getBoolParam : List String := ["if:!have", "if:required", "return:false;false;ERR(Parameter %s missing)", "return:false;false;nil", "typeswitch:vv := v.(type)", "case:bool", "return:vv;true;nil", "case:string", "return:strings.ToLower(vv) == \"true\";true;nil", "case:default", "return:false;true;ERR(Parameter %s type %T wrong)"]
def impl_skel_GetStringParam : List String := ["if:!have", "if:required", "return:\"\";false;ERR(Parameter %s missing)", "return:\"\";false;nil", "typeswitch:v.(type)", "case:string", "return:v.(string);true;nil", "case:[]interface{}", "range:v.([]interface{})", "typeswitch:x.(type)", "case:string", "append:acc += x.(string)", "case:default", "return:\"\";true;ERR(Parameter %s type %T wrong at %v %T)", "return:acc;true;nil", "case:default", "return:\"\";true;ERR(Parameter %s type %T wrong)"]

def summary : Except ErrC Outcome → Nat × List String × List ErrC
  | .ok o => (200, o.calls.map (·.method), o.swallowed)
  | .error .panic => (0, [], [])
  | .error e => (400, [], [e])

/-- a toy codec: the only JSON text it knows is `{}` -/
def exCodec : Codec :=
  ⟨fun q => if q = "" then some [] else if q = "location=here&fact=%7B%7D&inherited=true" then
      some [("location", ["here"]), ("fact", ["{}"]), ("inherited", ["true"])] else none,
   fun s => if s = "{}" then some [] else none, fun _ => none, fun _ => none⟩


end Svc

import RulioModel.Json

inductive MErr where
  | propVarWithOthers | repeatedVar | multiVar | nonGround
deriving Repr, DecidableEq

/-! ground partial match, counted with multiplicity (port of match() on variable-free patterns) -/
mutual
def gmatch (p : J) (f : J) : Nat :=
  match p, f with
  | .null, .null => 1
  | .bool a, .bool b => if a == b then 1 else 0
  | .num a, .num b => if a == b then 1 else 0
  | .str a, .str b => if a == b then 1 else 0
  | .obj kvs, .obj f => gmatchO kvs f
  | .arr xs, .arr fs => gmatchA xs (fs.filter J.isScalar).eraseDups (fs.filter (fun y => !y.isScalar))
  | _, _ => 0
termination_by (sizeOf p, 0)
def gmatchO (kvs : List (String × J)) (f : List (String × J)) : Nat :=
  match kvs with
  | [] => 1
  | (k, v) :: r =>
    match lookupKey k f with
    | none => 0
    | some fv => gmatch v fv * gmatchO r f
termination_by (sizeOf kvs, 0)
/-- `sc` = set of scalar facts still unused, `st` = structured facts still unused -/
def gmatchA (xs : List J) (sc st : List J) : Nat :=
  match xs with
  | [] => 1
  | x :: xs =>
    if x.isScalar then (if sc.contains x then gmatchA xs (sc.erase x) st else 0)
    else gmatchPick x xs sc [] st
termination_by (sizeOf xs, 0)
def gmatchPick (x : J) (xs : List J) (sc pre post : List J) : Nat :=
  match post with
  | [] => 0
  | f :: post' => gmatch x f * gmatchA xs sc (pre ++ post') + gmatchPick x xs sc (pre ++ [f]) post'
termination_by (sizeOf x + sizeOf xs, post.length + 1)
decreasing_by
  all_goals simp_wf
  all_goals first | omega | (cases x <;> simp <;> omega) | skip
end

/-- the string case of match(): constant, anonymous, bound or fresh variable -/
def matchStr (s : String) (f : J) (bs : Bs) : Except MErr (List Bs) :=
  if !isVar s then
    (match f with | .str t => if s == t then .ok [bs] else .ok [] | _ => .ok [])
  else if s == "?" then .ok [bs]
  else match bs.get? s with
    | some b => if b.ground then .ok (List.replicate (gmatch b f) bs) else .error .nonGround
    | none => .ok [bs.set s f]

/-- getVariable: at most one variable among the direct string elements -/
def getVariable : List J → Option String → Except MErr (Option String × List J)
  | [], v => .ok (v, [])
  | .str s :: r, v =>
    if isVar s then
      match v with
      | none => getVariable r (some s)
      | some w => if w == s then .error .repeatedVar else .error .multiVar
    else do let (v', acc) ← getVariable r v; pure (v', .str s :: acc)
  | x :: r, v => do let (v', acc) ← getVariable r v; pure (v', x :: acc)

def splitNth : List α → List (α × List α)
  | [] => []
  | x :: xs => (x, xs) :: (splitNth xs).map (fun (y, r) => (y, x :: r))

mutual
def matchJ (p : J) (f : J) (bs : Bs) : Except MErr (List Bs) :=
  match p with
  | .null => (match f with | .null => .ok [bs] | _ => .ok [])
  | .bool a => (match f with | .bool b => .ok (if a == b then [bs] else []) | _ => .ok [])
  | .num a => (match f with | .num b => .ok (if a == b then [bs] else []) | _ => .ok [])
  | .str s => matchStr s f bs
  | .obj kvs =>
    match f with
    | .obj fm =>
      if kvs.isEmpty then .ok [bs]
      else if kvs.length > 1 && kvs.any (fun kv => isVar kv.1) then .error .propVarWithOthers
      else matchO kvs fm [bs]
    | _ => .ok []
  | .arr xs =>
    match getVariable xs none with
    | .error e => .error e
    | .ok (v, _) =>
      match f with
      | .arr fa =>
        let sc := (fa.filter J.isScalar).eraseDups
        let st := fa.filter (fun y => !y.isScalar)
        do
          let branches ← matchA xs st.isEmpty [([bs], sc, st)]
          match v with
          | none => pure (branches.flatMap (·.1))
          | some v =>
            -- leftover scalars are merged with leftover structured facts, then the variable is laid over each
            let ext ← branches.mapM (fun (bss, sc', st') =>
              (splitNth (st' ++ sc')).mapM (fun (fact, _) => bss.mapM (fun b => matchStr v fact b)))
            let out := ext.flatMap (fun per => per.flatMap (fun r => r.flatMap id))
            if out.isEmpty && isOptVar v then pure (branches.flatMap (·.1)) else pure out
      | _ => .ok []
termination_by (sizeOf p, 0)
/-- mapcatMatch over the remaining pattern pairs -/
def matchO (kvs : List (String × J)) (fm : List (String × J)) (bss : List Bs) : Except MErr (List Bs) :=
  match kvs with
  | [] => .ok bss
  | (k, v) :: r =>
    if isVar k then
      -- single property variable: gather over the fact's pairs
      do
        let per ← fm.mapM (fun (fk, fv) => do
          let e1 ← bss.mapM (fun b => matchStr k (.str fk) b)
          let e1 := e1.flatMap id
          if e1.isEmpty then pure [] else
          let e2 ← e1.mapM (fun b => matchJ v fv b)
          pure (e2.flatMap id))
        pure (per.flatMap id)
    else
      match lookupKey k fm with
      | none => (match v with
                 | .str s => if isOptVar s then matchO r fm bss else .ok []
                 | _ => .ok [])
      | some fv => do
        let acc ← bss.mapM (fun b => matchJ v fv b)
        let acc := acc.flatMap id
        if acc.isEmpty then pure [] else matchO r fm acc
termination_by (sizeOf kvs, 0)
/-- constants of an array pattern, in order; a branch = (bindings, unused scalars, unused structured facts) -/
def matchA (xs : List J) (noStruct : Bool) (branches : List (List Bs × List J × List J)) :
    Except MErr (List (List Bs × List J × List J)) :=
  match xs with
  | [] => .ok branches
  | x :: xs' =>
    if (match x with | .str s => isVar s | _ => false) then matchA xs' noStruct branches
    else if x.isScalar then
      -- all branches share the same scalar set
      match branches with
      | [] => .ok []
      | (_, sc, _) :: _ =>
        if sc.contains x then matchA xs' noStruct (branches.map (fun (b, sc, st) => (b, sc.erase x, st)))
        else .ok []
    else if noStruct then .ok []
    else do
      let nb ← branches.mapM (fun (bss, sc, st) =>
        (splitNth st).mapM (fun (fact, rest) => do
          let acc ← bss.mapM (fun b => matchJ x fact b)
          let acc := acc.flatMap id
          pure (if acc.isEmpty then [] else [(acc, sc, rest)])))
      let nb := nb.flatMap (fun per => per.flatMap id)
      if nb.isEmpty then pure [] else matchA xs' noStruct nb
termination_by (sizeOf xs, 0)
end

/-! # C15 — the coupling between location state and the cron registry (cron/corehooks.go)

An abstract machine over *hook-level events*. A location's state is seen as a finite map
`(location, id) ↦ AItem`, where an item keeps exactly what the hooks and the `trigger!` path look at:
the rule's `schedule` (`""` = none: plain fact, property, `when` rule) and how a `{"trigger!": id}` event
evaluates the stored item. The registry is the cron service's job table.

What is modelled is the code that exists:

* `AddHooks`' add hook: called by every top-level `State.Add` (and by `IndexedState.Load`, with `loading`);
  `schedule ≠ ""` ⇒ `ScheduleEvent{id, schedule}` in `ctx.Location()`; skipped while loading iff the cron
  is persistent. A registration **replaces** the job with the same key.
* the key of a job: the built-in `cron.Cron` keys by **id only** (`Cron.schedule` removes the job with the
  same id first; `Cron.Rem(id)`); crolt keys by (account = location, id). `CronCfg.byLoc` selects.
* the rem hook: called only by top-level `State.Rem`; it does `state.Get(id)` first (absent ⇒ the error
  aborts the `Rem`), and calls `Cronner.Rem(id)` iff the stored fact is a rule with a schedule.
* nothing calls a hook when a fact disappears by a `deleteWith` cascade or by expiry (`rem`, lower case).
* `IndexedState.Clear` runs the rem hook for every id, `LinearState.Clear` runs none.
* `IndexedState.Load` goes through `add` (hooks, `loading = true`), `LinearState.Load` does not.
* a tick: the cron pops the job, runs `ProcessEvent({"trigger!": id})` in the registered location —
  `GetRule(id)`, `RuleEnabled(id)`, the `when` test, condition and actions, then `RuleDone` removes the rule
  (through top-level `RemRule`, hooks included) iff the *stored* rule's schedule is one-shot — and re-inserts
  the job iff the *registered* schedule is recurring.

Everything is a small total function on lists; all of it reduces in the kernel (`decide`). -/

/-! ## finite maps as association lists (first match wins; `aSet` puts the binding in front) -/

section AList
variable {κ α : Type} [DecidableEq κ]

def aGet (m : List (κ × α)) (k : κ) : Option α :=
  match m with
  | [] => none
  | (k', v) :: r => if k = k' then some v else aGet r k

def aErase (m : List (κ × α)) (k : κ) : List (κ × α) := m.filter (fun p => decide (p.1 ≠ k))

def aSet (m : List (κ × α)) (k : κ) (v : α) : List (κ × α) := (k, v) :: aErase m k

end AList

/-! ## cron side -/

structure CronCfg where
  /-- `Cronner.Persistent()` -/
  persistent : Bool
  /-- jobs keyed by (location, id) (crolt: account + id) instead of id only (the built-in cron) -/
  byLoc : Bool
deriving DecidableEq, Repr

abbrev RegKey := Option String × String

structure RegEntry where
  sched : String
  /-- the location whose add hook made the registration (`ctx.Location()` captured by the job) -/
  loc : String
deriving DecidableEq, Repr

abbrev Reg := List (RegKey × RegEntry)

def keyOf (cfg : CronCfg) (loc id : String) : RegKey := if cfg.byLoc then (some loc, id) else (none, id)

/-- `core.OneShotSchedule`: the schedule starts with '+' or '!' -/
def oneShot (s : String) : Bool :=
  match s.toList with
  | c :: _ => c == '+' || c == '!'
  | [] => false

/-! ## state side -/

/-- what `FindRules.Do` makes of `{"trigger!": id}` when `id` is stored -/
inductive Trig where
  | notRule   -- `GetRule`/`RuleFromMap` fails: no rule body, not a valid rule
  | noMatch   -- a rule with a `when` pattern that does not match the trigger event: nothing is evaluated
  | runs      -- evaluated: a scheduled rule (no `when`), or a `when` rule whose pattern matches the trigger event
deriving DecidableEq, Repr

structure AItem where
  /-- `getSchedule(fact)`: `""` unless the fact is a rule with a `schedule` -/
  sched : String
  trig : Trig
deriving DecidableEq, Repr

inductive SKind where | indexed | linear
deriving DecidableEq, Repr

abbrev Items := List ((String × String) × AItem)

structure ASys where
  kind : SKind
  cfg : CronCfg
  items : Items := []
  reg : Reg := []
deriving DecidableEq, Repr

def ASys.init (kind : SKind) (cfg : CronCfg) : ASys := { kind := kind, cfg := cfg }

/-- the items of one location -/
def itemsOf (its : Items) (loc : String) : Items := its.filter (fun p => decide (p.1.1 = loc))
def itemsNotOf (its : Items) (loc : String) : Items := its.filter (fun p => decide (p.1.1 ≠ loc))

/-! ## the hooks -/

/-- the add hook -/
def hookAdd (a : ASys) (loc id : String) (it : AItem) (loading : Bool) : Reg :=
  if a.cfg.persistent && loading then a.reg
  else if it.sched = "" then a.reg
  else aSet a.reg (keyOf a.cfg loc id) ⟨it.sched, loc⟩

/-- the rem hook: `Get`, then `Cronner.Rem(id)` iff the stored fact has a schedule -/
def hookRem (a : ASys) (loc id : String) : Reg :=
  match aGet a.items (loc, id) with
  | some it => if it.sched = "" then a.reg else aErase a.reg (keyOf a.cfg loc id)
  | none => a.reg

/-! ## events -/

/-- a top-level `State.Add` that succeeded (the hook runs before the fact is stored) -/
def evAdd (a : ASys) (loc id : String) (it : AItem) (loading : Bool) : ASys :=
  { a with reg := hookAdd a loc id it loading, items := aSet a.items (loc, id) it }

/-- a top-level `State.Rem` of a stored, live id (an absent id makes the hook fail and aborts the `Rem`) -/
def evRemTop (a : ASys) (loc id : String) : ASys :=
  match aGet a.items (loc, id) with
  | none => a
  | some _ => { a with reg := hookRem a loc id, items := aErase a.items (loc, id) }

/-- facts that disappear as a side effect — a `deleteWith` cascade or expiry: lower-case `rem`, no hook -/
def evDrop (a : ASys) (loc : String) (ids : List String) : ASys :=
  { a with items := a.items.filter (fun p => !(decide (p.1.1 = loc) && ids.contains p.1.2)) }

/-- does `loc` store a rule with a schedule under `id`? (what the rem hook finds out with `Get` + `getSchedule`) -/
def schedAt (a : ASys) (loc id : String) : Bool :=
  match aGet a.items (loc, id) with
  | some it => it.sched != ""
  | none => false

/-- `State.Clear`. Both states run the rem hook for every stored id — `Cronner.Rem(id)` for every stored
scheduled rule, i.e. the registry loses exactly the keys of this location's scheduled rules —, then empty the
state (`LinearState.Clear` only emptied the state until the repair of finding C15-linear-clear). -/
def evClear (a : ASys) (loc : String) : ASys :=
  { a with
    reg := a.reg.filter (fun p => !(decide (p.1 = keyOf a.cfg loc p.1.2) && schedAt a loc p.1.2)),
    items := itemsNotOf a.items loc }

/-- a location re-created from its stored documents (`NewLocation` → `State.Load`): both states hand every
loaded document to the add hook with `loading = true` (`LinearState.Load` called no hook until the repair of finding
C15-linear-load) -/
def evLoad (a : ASys) (loc : String) (docs : List (String × AItem)) : ASys :=
  docs.foldl (fun a d => evAdd a loc d.1 d.2 true) { a with items := itemsNotOf a.items loc }

/-- the process restarts: an ephemeral cron has lost its jobs -/
def evCronReset (a : ASys) : ASys := if a.cfg.persistent then a else { a with reg := [] }

/-- the stored item that a `trigger!` event for `id` in `loc` evaluates, if any -/
def runsNow (a : ASys) (loc id : String) (enabled : Bool) : Option AItem :=
  match aGet a.items (loc, id) with
  | some it => if it.trig = .runs && enabled then some it else none
  | none => none

structure TickOut where
  /-- the key had a job -/
  fired : Bool
  /-- (location, id) of the rule whose condition and actions were evaluated -/
  ran : Option (String × String)
deriving DecidableEq, Repr

/-- the cron fires the job `key`. `enabled` = `RuleEnabled`'s answer, `completes` = the evaluation was not cut
short by a failing condition / serial action (both are inputs: universally quantified in the theorems). -/
def evTick (a : ASys) (key : RegKey) (enabled completes : Bool) : ASys × TickOut :=
  match aGet a.reg key with
  | none => (a, ⟨false, none⟩)
  | some e =>
    let a1 : ASys := { a with reg := aErase a.reg key }            -- `Cron.start` pops the job
    let r : ASys × Option (String × String) :=
      match runsNow a1 e.loc key.2 enabled with
      | some it =>
        -- `RuleDone`: a one-shot *rule* is removed through top-level `RemRule`
        (if completes && oneShot it.sched then evRemTop a1 e.loc key.2 else a1, some (e.loc, key.2))
      | none => (a1, none)
    -- `Cron.run`: a recurring *job* is re-scheduled when `Fn` returns
    let a3 : ASys := if oneShot e.sched then r.1 else { r.1 with reg := aSet r.1.reg key e }
    (a3, ⟨true, r.2⟩)

inductive AEv where
  | add (loc id : String) (it : AItem)
  | remTop (loc id : String)
  | drop (loc : String) (ids : List String)
  | clear (loc : String)
  | load (loc : String) (docs : List (String × AItem))
  | cronReset
  | tick (key : RegKey) (enabled completes : Bool)
deriving DecidableEq, Repr

def step (a : ASys) : AEv → ASys
  | .add loc id it => evAdd a loc id it false
  | .remTop loc id => evRemTop a loc id
  | .drop loc ids => evDrop a loc ids
  | .clear loc => evClear a loc
  | .load loc docs => evLoad a loc docs
  | .cronReset => evCronReset a
  | .tick key en co => (evTick a key en co).1

def run (a : ASys) (evs : List AEv) : ASys := evs.foldl step a

/-! ## the specification: "registered exactly while it exists" -/

/-- `e` is what should be registered under `k`: some location stores a scheduled rule whose key is `k` -/
def Stored (a : ASys) (k : RegKey) (e : RegEntry) : Prop :=
  ∃ loc it, aGet a.items (loc, k.2) = some it ∧ it.sched ≠ "" ∧ e = ⟨it.sched, loc⟩ ∧ k = keyOf a.cfg loc k.2

/-- the registry is exactly the set of stored scheduled rules -/
def RegOK (a : ASys) : Prop := ∀ k e, aGet a.reg k = some e ↔ Stored a k e

/-- executable twin of `RegOK` (used by the driver): the registry and the stored scheduled rules, as sorted-free
lists to be compared as sets by the caller -/
def storedList (a : ASys) : List (RegKey × RegEntry) :=
  (a.items.filter (fun p => decide (p.2.sched ≠ ""))).map (fun p => (keyOf a.cfg p.1.1 p.1.2, ⟨p.2.sched, p.1.1⟩))

/-- scheduled-rule ids are not shared between locations (only matters for the id-keyed cron) -/
def Uniq (a : ASys) : Prop :=
  a.cfg.byLoc = false → ∀ l l' id it it', aGet a.items (l, id) = some it → it.sched ≠ "" →
    aGet a.items (l', id) = some it' → it'.sched ≠ "" → l = l'

/-- the hook-visible fragment: the event, executed in `a`, changes the set of stored scheduled rules only
through a hook that sees the change -/
def Plain (a : ASys) : AEv → Bool
  | .add loc id it =>
    -- not an overwrite of a scheduled rule by something without a schedule …
    (it.sched != "" || (match aGet a.items (loc, id) with | some old => old.sched == "" | none => true)) &&
    -- … and (id-keyed cron) no other location stores a scheduled rule with this id
    (a.cfg.byLoc || it.sched == "" ||
      a.items.all (fun p => p.1.2 != id || p.1.1 == loc || p.2.sched == ""))
  | .remTop _ _ => true
  | .drop loc ids =>
    -- side-effect deletions (cascade, expiry) touch no scheduled rule
    (itemsOf a.items loc).all (fun p => !ids.contains p.1.2 || p.2.sched == "")
  | .clear _ => true
  | .load _ _ => false
  | .cronReset => a.cfg.persistent
  | .tick key en co =>
    match aGet a.reg key with
    | none => true
    | some e =>
      -- a one-shot job is consumed by the cron: the rule must be consumed as well
      !oneShot e.sched ||
        (match runsNow a e.loc key.2 en with | some it => co && oneShot it.sched | none => false)

def PlainRun (a : ASys) : List AEv → Bool
  | [] => true
  | e :: es => Plain a e && PlainRun (step a e) es

/-- no event of the list can register `key` -/
def NoRegister (cfg : CronCfg) (key : RegKey) : List AEv → Bool
  | [] => true
  | .add loc id it :: es => (it.sched == "" || keyOf cfg loc id != key) && NoRegister cfg key es
  | .load _ _ :: _ => false
  | _ :: es => NoRegister cfg key es

/-- no event of the list stores `(loc, id)` -/
def NoStore (loc id : String) : List AEv → Bool
  | [] => true
  | .add l i _ :: es => !(l == loc && i == id) && NoStore loc id es
  | .load l _ :: es => l != loc && NoStore loc id es
  | _ :: es => NoStore loc id es

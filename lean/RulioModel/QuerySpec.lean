import RulioModel.Events

/-! # Specification-side vocabulary for query evaluation (C03) and event processing (C04).
Core Lean only. Nothing here is used by the executable model; the theorems in `Props/C03.lean` and
`Props/C04.lean` relate the model's functions to these. Everything lives in the namespace `QSpec`. -/

namespace QSpec

/-- run `f` on each incoming binding, in order, and concatenate the results; the first error aborts -/
def bindEach (f : Bs → Except LErr (List Bs)) (bss : List Bs) : Except LErr (List Bs) := do
  let per ← bss.mapM f
  pure per.flatten

/-- "errors aside, `f` distributes over `++` of the incoming bindings": both parts succeed → the whole
succeeds with the concatenation; either part fails → the whole fails (with some error). -/
def Additive (f : List Bs → Except LErr (List Bs)) : Prop :=
  ∀ b₁ b₂ : List Bs,
    (∀ r₁ r₂, f b₁ = .ok r₁ → f b₂ = .ok r₂ → f (b₁ ++ b₂) = .ok (r₁ ++ r₂)) ∧
    (∀ e, f b₁ = .error e → ∃ e', f (b₁ ++ b₂) = .error e') ∧
    (∀ e, f b₂ = .error e → ∃ e', f (b₁ ++ b₂) = .error e')

/-- what `not q` does with one incoming binding: keep it iff `q` on the singleton yields nothing -/
def notOne (ev : List Bs → Except LErr (List Bs)) (bs : Bs) : Except LErr (List Bs) := do
  let more ← ev [bs]
  pure (if more.isEmpty then [bs] else [])

/-- the short-circuit reading of a list of disjunct results: the first non-empty one, else nothing -/
def orFirst (rs : List (List Bs)) : List Bs := (rs.find? (fun r => !r.isEmpty)).getD []

/-- one leading `?` removed -/
def stripKey (k : String) : String := if k.startsWith "?" then (k.drop 1).toString else k

/-- the four spellings of the `or` option, in the order `OrQueryFromMap` tries them -/
def scKeys : List String := ["shortCircuit", "ShortCircuit", "short_circuit", "shortcircuit"]

/-- the first spelling that is present decides; it must be a bool; none present = `false` -/
def scSpec (q : Obj) : Except LErr Bool :=
  match scKeys.find? (Obj.has q) with
  | none => .ok false
  | some k =>
    match Obj.get? q k with
    | some (.bool b) => .ok b
    | _ => .error "syntax"

/-- last binding of `k` in an association list (what a left-to-right sequence of map assignments leaves) -/
def Bs.getLast? (bs : Bs) (k : String) : Option J := Bs.get? bs.reverse k

/-- two lists of equal length related position by position -/
inductive Pointwise {α β} (R : α → β → Prop) : List α → List β → Prop
  | nil : Pointwise R [] []
  | cons {a b as bs} : R a b → Pointwise R as bs → Pointwise R (a :: as) (b :: bs)

/-- what a `pattern` term does with one incoming binding: substitute, search, extend by every hit -/
def patOne (srch : Srch) (p : Obj) (bs : Bs) : Except LErr (List Bs) := do
  let found ← srch (substO bs p)
  pure (found.map (extendBs bs))

/-- what a `code` term does with one incoming binding: the script sees `stripQ bs` -/
def codeOne (t : J) (bs : Bs) : Except LErr (List Bs) := do
  let v ← evalTmpl t (stripQ bs)
  pure (codeKeep bs v)

/-! ## Event processing (C04) -/

/-- the bindings a rule's condition is evaluated on: the `when` binding plus `?event`, `?location`, `?ruleId`
(each only where not already bound) -/
def condEnv (locName : String) (event : Obj) (id : String) (bs : Bs) : Bs :=
  addDefault (addDefault (addDefault bs "?event" (.obj event)) "?location" (.str locName)) "?ruleId" (.str id)

/-- the condition's result on the environment `env` (no condition = the environment itself) -/
def condResult (srch : Srch) (r : RuleM) (env : Bs) : Except LErr (List Bs) :=
  match r.condition with
  | none => .ok [env]
  | some q => do let q' ← parseQuery (4 * sz q + 4) q; execQ srch q' [env]

/-- the work-tree leaf of one action `a` executed on the condition result binding `b` -/
def actNodeOf (b : Bs) (a : J) : ActNode :=
  match execAction a b with
  | .ok v => { ok := true, value := v }
  | .error _ => { ok := false, value := .null }

/-- the leaf of a failed action -/
def failedNode : ActNode := { ok := false, value := .null }

/-- one leaf per condition result binding (outer, in order) and per action (inner, in order) -/
def actsOf (r : RuleM) (out : List Bs) : List ActNode := out.flatMap (fun b => r.actions.map (actNodeOf b))

/-- the (condition result binding, action) pairs the actions run on: bindings outer, actions inner -/
def pairsOf (r : RuleM) (out : List Bs) : List (Bs × J) := out.flatMap (fun b => r.actions.map (fun a => (b, a)))

/-- the values of the completed leaves, in order -/
def okValues (acts : List ActNode) : List J := (acts.filter (·.ok)).map (·.value)

/-- the values of all completed leaves of a tree, in walk order -/
def treeValues (t : Tree) : List J :=
  t.rules.flatMap fun rn => rn.conds.flatMap fun c => okValues c.acts

/-- number of action leaves (= action executions) in a tree -/
def actCount (t : Tree) : Nat := (t.rules.map fun rn => (rn.conds.map fun c => c.acts.length).sum).sum

/-- the bindings of a rule's `when` against the event (no `when` = one empty binding) -/
def whenBindings (event : Obj) (r : RuleM) : Except LErr (List Bs) :=
  match r.when? with
  | none => .ok [[]]
  | some pat => matchesJ (.obj pat) (.obj event)

/-- `FindRules.Do` for one candidate: dispatched iff enabled and its `when` has at least one binding -/
def dispatchOne (event : Obj) (c : String × RuleM × Bool) : Except LErr (Option (String × RuleM × List Bs)) :=
  if !c.2.2 then .ok none else
  match whenBindings event c.2.1 with
  | .error e => .error e
  | .ok bss => .ok (if bss.isEmpty then none else some (c.1, c.2.1, bss))

/-- the dispatched rules with their `when` bindings, in visiting order -/
def dispatch (event : Obj) (cands : List (String × RuleM × Bool)) : Except LErr (List (String × RuleM × List Bs)) := do
  let ds ← cands.mapM (dispatchOne event)
  pure (ds.filterMap id)

/-- a walk that stops after the first aborting step: nodes so far, values so far, aborted? -/
def runUntil {α β} (f : α → β × List J × Bool) : List α → List β × List J × Bool
  | [] => ([], [], false)
  | x :: xs =>
    if (f x).2.2 then ([(f x).1], (f x).2.1, true)
    else ((f x).1 :: (runUntil f xs).1, (f x).2.1 ++ (runUntil f xs).2.1, (runUntil f xs).2.2)

/-- serial actions: stop at the first failing one -/
def serialRun : List (Bs × J) → List ActNode × List J × Bool
  | [] => ([], [], false)
  | (b, a) :: rest =>
    match execAction a b with
    | .ok v => ({ ok := true, value := v } :: (serialRun rest).1, v :: (serialRun rest).2.1, (serialRun rest).2.2)
    | .error _ => ([failedNode], [], true)

/-- `EvalRule.Do` for one dispatched rule: its conditions, one per `when` binding, until an abort -/
def ruleStep (srch : Srch) (locName : String) (event : Obj) (d : String × RuleM × List Bs) : RuleNode × List J × Bool :=
  let c := runUntil (evalCond srch locName event d.1 d.2.1) d.2.2
  ({ id := d.1, bss := d.2.2, conds := c.1 }, c.2.1, c.2.2)

/-- the condition's result bindings (nothing if it fails) -/
def condOut (srch : Srch) (r : RuleM) (env : Bs) : List Bs :=
  match condResult srch r env with
  | .ok out => out
  | .error _ => []

/-- the condition node of a run without abort -/
def condNodeSpec (srch : Srch) (locName : String) (event : Obj) (id : String) (r : RuleM) (b : Bs) : CondNode :=
  { bs := condEnv locName event id b, err := none,
    acts := actsOf r (condOut srch r (condEnv locName event id b)) }

/-- the rule node of a run without abort -/
def ruleNodeSpec (srch : Srch) (locName : String) (event : Obj) (d : String × RuleM × List Bs) : RuleNode :=
  { id := d.1, bss := d.2.2, conds := d.2.2.map (condNodeSpec srch locName event d.1 d.2.1) }

/-- two condition nodes that differ at most in their leaves: same bindings, same error, and the leaves are
built from the same condition result `out` with the action lists of `r` and `r'` respectively -/
def CondRel (r r' : RuleM) (c c' : CondNode) : Prop :=
  c.bs = c'.bs ∧ c.err = c'.err ∧ ∃ out, c.acts = actsOf r out ∧ c'.acts = actsOf r' out

/-- two rule nodes that are equal, or are the nodes of the rule `id` whose actions were changed from `r`'s to `r'`'s -/
def NodeRel (id : String) (r r' : RuleM) (rn rn' : RuleNode) : Prop :=
  rn = rn' ∨ (rn.id = id ∧ rn'.id = id ∧ rn.bss = rn'.bss ∧ Pointwise (CondRel r r') rn.conds rn'.conds)

/-- dispatch entries: equal, or the changed rule's with the same bindings -/
def DRel (id : String) (r r' : RuleM) (d d' : String × RuleM × List Bs) : Prop :=
  d = d' ∨ ∃ bss, d = (id, r, bss) ∧ d' = (id, r', bss)

/-- an action of the `echo` family (returns its visible variables): `{"verif_tmpl": {"t": "echo", …}, …}` -/
def isEcho (a : J) : Prop :=
  ∃ o t, a = .obj o ∧ Obj.get? o "verif_tmpl" = some (.obj t) ∧ Obj.get? t "t" = some (.str "echo")

end QSpec

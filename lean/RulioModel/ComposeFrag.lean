import RulioModel.StateInv
import RulioModel.PatIndexSpec
import RulioModel.LocInv
import RulioModel.MatchFrag
import RulioModel.QuerySpec

/-! # Vocabulary for the end-to-end (composed) statements of C01 / C02 / C10

Core Lean only; nothing here changes the executable model.  The theorems that use these definitions are in
`RulioProofs/Compose*.lean` and at the end of `Props/C01.lean`, `Props/C02.lean`, `Props/C10.lean`.

* `linearPattern p`   — no variable occurs twice in the pattern (the repeated-variable condition of C05's
                        soundness theorem is then vacuous for the empty incoming bindings);
* `FactsOK s`, `FactsOKFor F p` — the stored facts are in the data fragment of C05;
* `whenFrag p`, `WhenFrag s`    — the `when` patterns of the stored rules are in the index fragment (C01), the
                        matcher fragment (C05) and linear;
* `ruleShapeOK r`, `RuleShapes s` — a stored rule body with a `when` map keeps its pattern under the key
                        `pattern` and has no `schedule` key (the shape `AddRule` documents);
* `IdxSound s`        — the converse of the rule-index invariant `StIdx`;
* `specFires`         — the dispatch specification filtered by the disabled flags;
* `locEnabledFlags`, `locProcessEvent` — an `event` op on one location without parents, composed exactly as
                        `Driver/Loc.lean` composes it (rule search → `RuleEnabled` per candidate → `processEvent`);
* `LocOp`, `Loc.run`  — histories of Location operations. -/

/-! ## fragments -/

/-- no string occurs twice in the list -/
def noRepeats : List String → Bool
  | [] => true
  | x :: xs => !xs.contains x && noRepeats xs

/-- **linear pattern**: no variable occurs twice (anonymous `?` does not count, as in `varsOf`) -/
def linearPattern (p : Obj) : Bool := noRepeats (varsOf (.obj p))

/-- every stored fact is well-formed ground data in the sense of C05 (`dataOK`: no variable-looking string,
scalars inside one array pairwise distinct) -/
def FactsOK (s : St) : Prop := ∀ e, e ∈ s.facts → dataOK (.obj e.2) = true

/-- the same relative to a pattern: a stored fact that is not ground data (a rule whose `when` holds variables,
say) is tolerated when the matcher plainly answers "no match" on it -/
def FactsOKFor (F : List (String × Obj)) (p : Obj) : Prop :=
  ∀ e, e ∈ F → dataOK (.obj e.2) = true ∨ matchesJ (.obj p) (.obj e.2) = .ok []

/-- the fragment of `when` patterns for which indexed dispatch is proved exact: index fragment (C01),
matcher fragment (C05), and linear -/
def whenFrag (p : Obj) : Bool := IdxOK p && patOK (.obj p) && linearPattern p

/-- every stored non-scheduled rule has its `when` pattern in `whenFrag` -/
def WhenFrag (s : St) : Prop := ∀ e, e ∈ s.facts → ∀ p, whenOf e.2 = some p → whenFrag p = true

/-- shape of a rule body: if `when` is a map, the pattern sits under its key `pattern` (as a map) and the body has
no `schedule` key.  (Bodies whose `when` is absent, `null` or not a map are never dispatched by either state.) -/
def ruleShapeOK (r : Obj) : Bool :=
  match Obj.get? r "when" with
  | some (.obj w) =>
    !Obj.has r "schedule" && (match Obj.get? w "pattern" with | some (.obj _) => true | _ => false)
  | _ => true

/-- every stored rule body has the shape `ruleShapeOK` -/
def RuleShapes (s : St) : Prop :=
  ∀ e, e ∈ s.facts → ∀ r, e.2.get? "rule" = some (.obj r) → ruleShapeOK r = true

/-- the rule body the state hands to `FindCachedRules` for a stored fact: the linear scan passes the stored `rule`
map, the indexed state passes it through `ExtractRule` (which writes the fact's `expires` into it once more) -/
def candBody (k : Kind) (f : Obj) : Option Obj :=
  match k with
  | .linear => (match f.get? "rule" with | some (.obj r) => some r | _ => none)
  | .indexed => (match extractRule f true with | .ok (some b, _) => some b | _ => none)

/-- every stored rule body is accepted by `RuleFromMap` (true of rules added through `AddRule`, which validates
them; a fact with a `rule` key written through `AddFact` is not validated) -/
def RulesValid (s : St) : Prop :=
  ∀ e, e ∈ s.facts → ∀ body, candBody s.kind e.2 = some body → ∃ rm, ruleFromMap body = .ok rm

/-- every stored `rule` value is a map (the linear scan panics on anything else) -/
def RuleMaps (s : St) : Prop := ∀ e, e ∈ s.facts → ∀ rv, e.2.get? "rule" = some rv → ∃ r, rv = .obj r

/-! ### executable forms of the hypotheses (for concrete instances) -/

def ruleShapesB (s : St) : Bool :=
  s.facts.all (fun e => match e.2.get? "rule" with | some (.obj r) => ruleShapeOK r | _ => true)
def whenFragB (s : St) : Bool :=
  s.facts.all (fun e => match whenOf e.2 with | some p => whenFrag p | none => true)
def rulesValidB (s : St) : Bool :=
  s.facts.all (fun e => match candBody s.kind e.2 with
    | some b => (match ruleFromMap b with | .ok _ => true | .error _ => false)
    | none => true)
def ruleMapsB (s : St) : Bool :=
  s.facts.all (fun e => match e.2.get? "rule" with | some (.obj _) => true | some _ => false | none => true)
def factsOKB (s : St) : Bool := s.facts.all (fun e => dataOK (.obj e.2))

/-- **converse of the rule-index invariant**: an id sits on a trie node only if it is currently stored as a
non-scheduled rule whose `when` pattern's path ends at that node -/
def IdxSound (s : St) : Prop :=
  ∀ π id, id ∈ s.ri.idsAt π → ∃ fact pat, amGet s.facts id = some fact ∧ whenOf fact = some pat ∧
    PI.path (mapToPairs pat) = some π

/-! ## the specification an event is compared with -/

/-- the dispatch specification of one location's own rules, filtered by the disabled flags:
stored, unexpired, non-scheduled rules whose `when` matches, not disabled, with the matcher's bindings -/
def specFires (facts : List (String × Obj)) (ev : Obj) (now : Int) : Except LErr (List (String × List Bs)) :=
  (specDispatchLocal facts ev now).map (fun out => out.filter (fun r => !ruleDisabled facts r.1 now))

/-- **live and enabled**: `id` is currently stored as a non-scheduled rule, unexpired at `now`, its `when` pattern
matches the event with exactly the bindings `bss` (at least one), and the id is not disabled -/
def LiveEnabled (facts : List (String × Obj)) (ev : Obj) (now : Int) (id : String) (bss : List Bs) : Prop :=
  ∃ f p, (id, f) ∈ facts ∧ whenOf f = some p ∧ unexpired f now = true ∧
    matchesJ (.obj p) (.obj ev) = .ok bss ∧ bss ≠ [] ∧ ruleDisabled facts id now = false

/-- the (rule id, `when` bindings) view of the rule nodes of a work tree -/
def Tree.fired (t : Tree) : List (String × List Bs) := t.rules.map (fun n => (n.id, n.bss))

/-- the (rule id, `when` bindings) view of a dispatch -/
def firedOf (disp : List (String × RuleM × List Bs)) : List (String × List Bs) := disp.map (fun d => (d.1, d.2.2))

/-! ## an `event` op on one location (no parents), composed as in `Driver/Loc.lean` -/

/-- `RuleEnabled` is asked for every candidate; an answer "disabled location" counts as not enabled, any other
error as enabled (verbatim from the driver's `event` case) -/
def locEnabledFlags (c : Ctx) (now : Int) : List (String × RuleM) → Loc → Loc × List (String × RuleM × Bool)
  | [], l => (l, [])
  | (id, r) :: rest, l =>
    match locRuleEnabled c id now l with
    | (l1, res) =>
      let en := match res with | .ok b => b | .error "disabled" => false | .error _ => true
      match locEnabledFlags c now rest l1 with
      | (l2, out) => (l2, (id, r, en) :: out)

/-- rule search, enabled flags, `processEvent` -/
def locProcessEvent (srch : Srch) (c : Ctx) (ev : Obj) (now : Int) (l : Loc) : Loc × Tree :=
  match locSearchRules c ev now l with
  | (l1, .error e) => (l1, { err := some e, rules := [], values := [], aborted := true })
  | (l1, .ok cands) =>
    match locEnabledFlags c now cands l1 with
    | (l2, withEn) => (l2, processEvent srch l.name ev withEn)

/-! ## histories of Location operations -/

/-- the operations of the lifecycle property: add / replace a rule, remove it, disable / enable it, overwrite
its id with a fact (or add any fact), clear the location; plus the reads that may purge expired facts -/
inductive LocOp where
  | addRule (c : Ctx) (id : String) (rule : Obj) (now : Int)
  | remRule (c : Ctx) (id : String) (now : Int)
  | enableRule (c : Ctx) (id : String) (enable : Bool) (now : Int)
  | addFact (c : Ctx) (id : String) (fact : Obj) (now : Int)
  | remFact (c : Ctx) (id : String) (now : Int)
  | getFact (c : Ctx) (id : String) (now : Int)
  | searchFacts (c : Ctx) (p : Obj) (now : Int)
  | searchRules (c : Ctx) (ev : Obj) (now : Int)
  | clear (c : Ctx) (now : Int)

/-- one operation (its answer is dropped; a refused or failed operation leaves whatever state it reached) -/
def LocOp.step (l : Loc) : LocOp → Loc
  | .addRule c id rule now => (locAddRule c id rule now l).1
  | .remRule c id now => (locRemRule c id now l).1
  | .enableRule c id en now => (locEnableRule c id en now l).1
  | .addFact c id fact now => (locAddFact c id fact now l).1
  | .remFact c id now => (locRemFact c id now l).1
  | .getFact c id now => (locGetFact c id now l).1
  | .searchFacts c p now => (locSearchFacts c p now l).1
  | .searchRules c ev now => (locSearchRules c ev now l).1
  | .clear c now => (locClear c now l).1

/-- run a history -/
def Loc.run (l : Loc) (ops : List LocOp) : Loc := ops.foldl LocOp.step l

/-- a fresh location of the given kind -/
def Loc.fresh (name : String) (k : Kind) : Loc := { name := name, st := { kind := k } }

import RulioModel.Events
import RulioModel.CronHooks

/-! # C15 — the cron hooks on top of the full Location/State model

`cron.AddHooks` installed on every location's state, the registry of the cron service, restart/reload, and the
delivery of a tick (`ProcessEvent({"trigger!": id})` in the registered location, then `RuleDone`).
This is the model that is compared with the real code step by step. Besides its results it emits, for every
operation, the hook-level events of `RulioModel/CronHooks.lean` (the abstract machine the theorems are about):
the driver replays them and checks after every operation that the abstract state is the abstraction of this one. -/

/-- `getSchedule` (cron/corehooks.go) -/
def getScheduleObj (fact : Obj) : Except LErr String :=
  match fact.get? "rule" with
  | none => .ok ""
  | some (.obj r) =>
    match Obj.get? r "schedule" with
    | none => .ok ""
    | some (.str s) => .ok s
    | some _ => .error "hookSchedNotString"
  | some _ => .error "hookRuleNotMap"

def trigEvent (id : String) : Obj := [("trigger!", .str id)]

/-- the abstraction of a stored fact -/
def absItem (id : String) (fact : Obj) : AItem :=
  let sched := match getScheduleObj fact with | .ok s => s | .error _ => ""
  let trig : Trig := match extractRule fact true with
    | .ok (some body, _) =>
      (match ruleFromMap body with
       | .error _ => .notRule
       | .ok r =>
         match r.when? with
         | none => .runs
         | some pat =>
           match matchesJ (.obj pat) (.obj (trigEvent id)) with
           | .ok bss => if bss.isEmpty then .noMatch else .runs
           | .error _ => .notRule)
    | _ => .notRule
  ⟨sched, trig⟩

def absLoc (l : Loc) : Items := l.st.facts.map (fun (id, f) => ((l.name, id), absItem id f))

/-- one location, the registry, the emitted events; `tags` = why facts disappeared without a hook -/
structure HS where
  loc : Loc
  reg : Reg
  log : List AEv := []
  tags : List (RegKey × String) := []
  calls : List (List String) := []   -- the Cronner calls made by the hooks: ["schedule", loc, id, schedule] / ["rem", loc, id]
  odd : Bool := false        -- left the modelled envelope (outcome depends on Go's map order)

def HM (α : Type) := HS → HS × Except LErr α

namespace HM
def pure {α} (a : α) : HM α := fun h => (h, .ok a)
def bind {α β} (m : HM α) (f : α → HM β) : HM β := fun h =>
  match m h with
  | (h1, .ok a) => f a h1
  | (h1, .error e) => (h1, .error e)
def fail {α} (e : LErr) : HM α := fun h => (h, .error e)
def attempt {α} (m : HM α) : HM (Except LErr α) := fun h =>
  match m h with
  | (h1, r) => (h1, .ok r)
end HM

instance : Monad HM where
  pure := HM.pure
  bind := HM.bind

/-- facts of `before` that are gone in `after`, split into expired ones and the rest (cascade) -/
def goneIds (before : List (String × Obj)) (after : List (String × Obj)) (except_ : String) (now : Int) :
    List (String × Obj) × List (String × Obj) :=
  let gone := before.filter (fun p => p.1 != except_ && !(amHas after p.1))
  (gone.filter (fun p => match checkExpiration p.2 now with | .ok true => true | _ => false),
   gone.filter (fun p => match checkExpiration p.2 now with | .ok true => false | _ => true))

/-- log the side-effect deletions between two fact maps of the location -/
def logGone (cfg : CronCfg) (h : HS) (before : List (String × Obj)) (except_ : String) (now : Int) : HS :=
  let (expd, casc) := goneIds before h.loc.st.facts except_ now
  let n := h.loc.name
  let tagOf (cls : String) (l : List (String × Obj)) : List (RegKey × String) :=
    (l.filter (fun p => (absItem p.1 p.2).sched != "")).map (fun p => (keyOf cfg n p.1, cls))
  let log := if expd.isEmpty then h.log else h.log ++ [.drop n (expd.map (·.1))]
  let log := if casc.isEmpty then log else log ++ [.drop n (casc.map (·.1))]
  { h with log := log, tags := h.tags ++ tagOf "expiry" expd ++ tagOf "cascade" casc }

/-- run a computation of the hook-free model that calls no top-level `Add`/`Rem` (guards, `Get`, searches):
facts can only disappear (expiry and its cascade) -/
def HM.liftL {α} (cfg : CronCfg) (now : Int) (m : LM α) : HM α := fun h =>
  let before := h.loc.st.facts
  let (l', r) := m h.loc
  (logGone cfg { h with loc := l' } before "" now, r)

/-- top-level `State.Add` with the add hook. `addFn` is `St.add` (API) or `IndexedState.add` (Load). -/
def addCore (cfg : CronCfg) (loading : Bool) (addFn : St → String → Obj → Int → St × Except LErr String)
    (given : String) (x : Obj) (now : Int) (h : HS) : HS × Except LErr String × Option (String × AItem) :=
  let l := h.loc
  let (s', r) := addFn l.st given x now
  match r with
  | .error e => ({ h with loc := { l with st := s' } }, .error e, none)     -- fails before the hook is reached
  | .ok id =>
    let fact := (amGet s'.facts id).getD []
    let hook : Except LErr (Reg × List (List String)) :=
      if cfg.persistent && loading then .ok (h.reg, []) else
      match getScheduleObj fact with
      | .error e => .error e
      | .ok s => if s == "" then .ok (h.reg, []) else
        .ok (aSet h.reg (keyOf cfg l.name id) ⟨s, l.name⟩, [["schedule", l.name, id, s]])
    match hook with
    | .error e =>
      -- the hook refuses (malformed `rule`/`schedule`): the add is aborted, memory and storage as before the call
      -- (IndexedState.add puts the rule index back, LinearState.Add asks the hook before it writes); only the id
      -- generator has moved
      ({ h with loc := { l with st := { l.st with fresh := s'.fresh } } }, .error e, none)
    | .ok (reg', cl) =>
      let it := absItem id fact
      -- a scheduled rule that carries an expiration will fall out of step when its time comes (expiry calls no hook)
      let tags := if it.sched != "" && Obj.has fact "expires" then h.tags ++ [(keyOf cfg l.name id, "expiry")] else h.tags
      ({ h with loc := { l with st := s' }, reg := reg', tags := tags, calls := h.calls ++ cl }, .ok id, some (id, it))

def hAdd (cfg : CronCfg) (given : String) (x : Obj) (now : Int) : HM String := fun h =>
  match addCore cfg false (fun s g x n => s.add g x n) given x now h with
  | (h', r, some (id, it)) => ({ h' with log := h'.log ++ [.add h.loc.name id it] }, r)
  | (h', r, none) => (h', r)

/-- top-level `State.Rem` with the rem hook; `quiet` = do not log the `remTop` event (the caller's event
accounts for it) -/
def hRemCore (cfg : CronCfg) (quiet : Bool) (id : String) (now : Int) : HM Bool := fun h =>
  let l := h.loc
  let before := l.st.facts
  -- the hook's `state.Get` (an expired fact is purged here, the hook then reports "not found")
  let (s1, g) := l.st.get id now
  let h1 := logGone cfg { h with loc := { l with st := s1 } } before "" now
  match g with
  | .error e => (h1, .error e)
  | .ok fact =>
    match getScheduleObj fact with
    | .error e => (h1, .error e)
    | .ok sched =>
      let reg1 := if sched == "" then h1.reg else aErase h1.reg (keyOf cfg l.name id)
      let (s2, r) := s1.rem id now
      let h2 : HS := { h1 with loc := { l with st := s2 }, reg := reg1,
                               calls := if sched == "" then h1.calls else h1.calls ++ [["rem", l.name, id]],
                               log := if quiet then h1.log else h1.log ++ [.remTop l.name id],
                               odd := h1.odd || amHas s2.facts id }
      (logGone cfg h2 s1.facts id now, r)

def hRem (cfg : CronCfg) (id : String) (now : Int) : HM Bool := hRemCore cfg false id now

def hSetProp (cfg : CronCfg) (id prop : String) (v : J) (now : Int) : HM String :=
  hAdd cfg "" [("id", .str id), ("!" ++ prop, v), ("deleteWith", .arr [.str id])] now

/-! ## the Location methods that write (location.go), with the hooked state underneath -/

def hAddFact (cfg : CronCfg) (c : Ctx) (id : String) (fact : Obj) (now : Int) : HM String := do
  HM.liftL cfg now (runGuards c now (guardsOf "AddFact")); hAdd cfg id fact now

def hRemFact (cfg : CronCfg) (c : Ctx) (id : String) (now : Int) : HM String := do
  HM.liftL cfg now (runGuards c now (guardsOf "RemFact")); let _ ← hRem cfg id now; pure id

def hAddRule (cfg : CronCfg) (c : Ctx) (id : String) (rule : Obj) (now : Int) : HM String := do
  HM.liftL cfg now (runGuards c now (guardsOf "AddRule"))
  match ruleFromMap rule with
  | .error e => HM.fail e
  | .ok _ =>
    match setExpires rule now with
    | .error e => HM.fail e
    | .ok (rule', expiring, expires) =>
      let w : Obj := [("rule", .obj rule')]
      let w := if expiring then w ++ [("expires", .num expires)] else w
      let w := match rule'.get? "deleteWith" with | some d => w ++ [("deleteWith", d)] | none => w
      hAdd cfg id w now

def hRemRuleCore (cfg : CronCfg) (quiet : Bool) (c : Ctx) (id : String) (now : Int) : HM String := do
  HM.liftL cfg now (runGuards c now (guardsOf "RemRule"))
  let _ ← hRemCore cfg quiet id now
  let (_, found) ← HM.liftL cfg now (getProp id "disabled" (.bool false) now)
  if found then do
    let _ ← hRem cfg (genPropId id "disabled") now
    pure id
  else pure id

def hRemRule (cfg : CronCfg) (c : Ctx) (id : String) (now : Int) : HM String := hRemRuleCore cfg false c id now

def hEnableRule (cfg : CronCfg) (c : Ctx) (id : String) (enable : Bool) (now : Int) : HM Unit := do
  HM.liftL cfg now (runGuards c now (guardsOf "EnableRule"))
  if enable then do
    let _ ← hRem cfg (genPropId id "disabled") now
    pure ()
  else do
    let _ ← hSetProp cfg id "disabled" (.bool true) now
    pure ()

/-- `State.Clear`: both states run the rem hook for every id (the first failing `Get` aborts the `Clear`);
LinearState ran no hook until the repair of finding C15-linear-clear -/
def hClearState (cfg : CronCfg) (now : Int) : HM Unit := fun h =>
  let l := h.loc
  let rec go (ids : List String) (h : HS) : HS × Except LErr Unit :=
    match ids with
    | [] => (h, .ok ())
    | id :: rest =>
      if !(amHas h.loc.st.facts id) then go rest h else
      let before := h.loc.st.facts
      let (s1, g) := h.loc.st.get id now
      let h1 := logGone cfg { h with loc := { h.loc with st := s1 } } before "" now
      match g with
      | .error e => ({ h1 with odd := true }, .error e)
      | .ok fact =>
        match getScheduleObj fact with
        | .error e => ({ h1 with odd := true }, .error e)
        | .ok sched =>
          go rest { h1 with reg := if sched == "" then h1.reg else aErase h1.reg (keyOf cfg h1.loc.name id),
                            calls := if sched == "" then h1.calls else h1.calls ++ [["rem", h1.loc.name, id]] }
  match go (l.st.facts.map (·.1)) h with
  | (h1, .error e) => (h1, .error e)
  | (h1, .ok _) =>
    -- the registry as it was is restored in the log's view by the single `clear` event
    ({ h1 with loc := { h1.loc with st := h1.loc.st.clear }, log := h1.log ++ [.clear l.name] }, .ok ())

def hClear (cfg : CronCfg) (c : Ctx) (now : Int) : HM Unit := do
  HM.liftL cfg now (runGuards c now (guardsOf "Clear")); hClearState cfg now

/-! ## systems: locations + registry -/

structure CS where
  sys : Sys
  cfg : CronCfg
  reg : Reg := []
  log : List AEv := []
  tags : List (RegKey × String) := []
  calls : List (List String) := []
  odd : Bool := false

def CS.at {α} (cs : CS) (n : String) (m : HM α) : CS × Except LErr α :=
  match cs.sys.get? n with
  | none => (cs, .error "notFound")
  | some l =>
    let (h, r) := m { loc := l, reg := cs.reg, log := cs.log, tags := cs.tags, calls := cs.calls, odd := cs.odd }
    ({ cs with sys := cs.sys.put h.loc, reg := h.reg, log := h.log, tags := h.tags, calls := h.calls, odd := h.odd }, r)

/-- `NewLocation` over the stored documents: `State.Load` with `loading = true` -/
def hReload (cs : CS) (n : String) (now : Int) : CS × Except LErr Unit :=
  match cs.sys.get? n with
  | none => (cs, .error "notFound")
  | some l =>
    match l.st.kind with
    | .linear =>
      (match St.lLoad l.st.store with
       | .error e => (cs, .error e)
       | .ok st =>
         let l' := { l with st := { st with fresh := l.st.fresh } }
         let docs := st.facts.map (fun (id, f) => (id, absItem id f))
         -- every loaded document goes to the add hook with `loading = true` (since the repair of finding C15-linear-load);
         -- the first document the hook refuses aborts the load
         let acc := st.facts.foldl (fun (acc : Reg × List (List String) × List (RegKey × String) × Option LErr) p =>
           let (reg, calls, tags, err) := acc
           if err.isSome || cs.cfg.persistent then acc else
           match getScheduleObj p.2 with
           | .error e => (reg, calls, tags, some e)
           | .ok s =>
             if s == "" then acc else
             (aSet reg (keyOf cs.cfg n p.1) ⟨s, n⟩, calls ++ [["schedule", n, p.1, s]],
              (if Obj.has p.2 "expires" then tags ++ [(keyOf cs.cfg n p.1, "expiry")] else tags), none))
           (cs.reg, cs.calls, cs.tags, none)
         match acc with
         | (reg, calls, _, some e) => ({ cs with odd := true, reg := reg, calls := calls }, .error e)
         | (reg, calls, tags, none) =>
           ({ cs with sys := cs.sys.put l', reg := reg, calls := calls, tags := tags, log := cs.log ++ [.load n docs] }, .ok ()))
    | .indexed =>
      let iaddFn : St → String → Obj → Int → St × Except LErr String := fun s g x nw =>
        match s.iadd g x nw with
        | (s1, .ok (id, _)) => (s1, .ok id)
        | (s1, .error e) => (s1, .error e)
      let rec go (docs : List (String × J)) (h : HS) (acc : List (String × AItem)) :
          HS × Except LErr (List (String × AItem)) :=
        match docs with
        | [] => (h, .ok acc)
        | (id, .obj x) :: rest =>
          (match addCore cs.cfg true iaddFn id x now h with
           | (h1, .ok _, some d) => go rest h1 (acc ++ [d])
           | (h1, .ok _, none) => go rest h1 acc
           | (h1, .error "expired", _) =>
             go rest { h1 with tags := h1.tags ++ [(keyOf cs.cfg n id, "expiry")], loc := { h1.loc with st := { h1.loc.st with store := amErase h1.loc.st.store id } } } acc
           | (h1, .error e, _) => (h1, .error e))
        | _ => (h, .error "unmarshal")
      let l0 : Loc := { l with st := { kind := .indexed, store := l.st.store, fresh := l.st.fresh } }
      match go l.st.store { loc := l0, reg := cs.reg, log := cs.log, tags := cs.tags, calls := cs.calls, odd := cs.odd } [] with
      | (h, .error e) => ({ cs with odd := true, reg := h.reg, calls := h.calls }, .error e)
      | (h, .ok docs) =>
        ({ cs with sys := cs.sys.put h.loc, reg := h.reg, tags := h.tags, calls := h.calls, log := cs.log ++ [.load n docs] }, .ok ())

/-- process restart: an ephemeral cron forgets its jobs; every location is rebuilt from storage -/
def hRestart (cs : CS) (names : List String) (now : Int) : CS × Except LErr Unit :=
  let cs := { cs with reg := if cs.cfg.persistent then cs.reg else [], log := cs.log ++ [.cronReset] }
  names.foldl (fun (acc : CS × Except LErr Unit) n =>
    match acc with
    | (cs, .error e) => (cs, .error e)
    | (cs, .ok _) => hReload cs n now) (cs, .ok ())

/-- inherited fact search as a pure function of the current system (conditions of a triggered rule) -/
def srchOfC (sys : Sys) (c : Ctx) (n : String) (now : Int) : Srch := fun p =>
  match (sysSearchFacts sys c n p true now).2 with
  | .ok found => .ok (found.flatMap (fun (_, _, bss) => bss))
  | .error e => .error e

structure TickB where
  fired : Bool
  sched : String := ""
  loc : String := ""
  tree : Option Tree := none
  done : Option LErr := none      -- `RuleDone`'s error, if any

def failTree (e : LErr) : Tree := { err := some e, rules := [], values := [], aborted := true }

/-- the cron fires job `key`: `Cron.start` pops it, `Fn` = `ProcessEvent({"trigger!": id})` in the location the
job captured, `Cron.run` re-schedules a recurring job -/
def hTick (cs : CS) (key : RegKey) (now : Int) : CS × TickB :=
  match aGet cs.reg key with
  | none => (cs, { fired := false })
  | some e =>
    let id := key.2
    let c : Ctx := {}
    let cs1 := { cs with reg := aErase cs.reg key }
    let ev := trigEvent id
    let finish (cs : CS) (en co : Bool) (t : Tree) (done : Option LErr) : CS × TickB :=
      let cs := if oneShot e.sched then cs else { cs with reg := aSet cs.reg key e }
      let _ := en; let _ := co
      (cs, { fired := true, sched := e.sched, loc := e.loc, tree := some t, done := done })
    let logTick (cs : CS) (en co : Bool) : CS := { cs with log := cs.log ++ [.tick key en co] }
    -- FindRules.Do, `trigger!` branch
    match cs1.at e.loc (HM.liftL cs.cfg now (locGetRule c id now)) with
    | (cs2, .error err) => finish (logTick cs2 true true) true true (failTree err) none
    | (cs2, .ok body) =>
      match ruleFromMap body with
      | .error err => finish (logTick cs2 true true) true true (failTree err) none
      | .ok r =>
        let (cs3, enR) := cs2.at e.loc (HM.liftL cs.cfg now (locRuleEnabled c id now))
        let en := match enR with | .ok b => b | .error "disabled" => false | .error _ => true
        let t := processEvent (srchOfC cs3.sys c e.loc now) e.loc ev [(id, r, en)]
        let ran := !t.rules.isEmpty
        let co := !t.aborted
        let cs4 := logTick cs3 en co
        if ran && co && oneShot r.schedule then
          -- RuleDone → Location.RemRule (top-level: hooks)
          match cs4.at e.loc (hRemRuleCore cs.cfg true c id now) with
          | (cs5, .ok _) => finish cs5 en co t none
          | (cs5, .error err) => finish { cs5 with odd := true } en co t (some err)
        else
          -- a tick whose one-shot job is consumed while the rule stays: the registry loses a stored rule
          let stale := oneShot e.sched && (cs4.sys.get? e.loc).any (fun l => amHas l.st.facts id)
          let cs4 := if stale then
              { cs4 with tags := cs4.tags ++ [(key, if !ran then (if en then "oneshot-not-run" else "oneshot-disabled") else "oneshot-aborted")] }
            else cs4
          finish cs4 en co t none

import RulioModel.Loc
import RulioModel.MatchSpec

/-! # Queries (query.go): AST, ParseQuery dispatch order, Exec over a list of bindings.
Fact search is a parameter (`srch`): the bindings of every stored fact — local and inherited — that matches. -/

inductive Q where
  | empty
  | pattern (p : Obj) (locs : List String)
  | code (tmpl : J)
  | and (qs : List Q)
  | or (qs : List Q) (sc : Bool)
  | not (q : Q)

/-- `ParseQuery`: code, pattern, and, or, not — in that order; `{}` is the empty query.
Structural in a fuel that any caller sets to the size of the document. -/
def parseQuery : Nat → J → Except LErr Q
  | 0, _ => .error "fuel"
  | fuel + 1, j =>
    match j with
    | .obj [] => .ok .empty
    | .obj q =>
      if Obj.has q "code" then
        (if Obj.has q "verif_bad" then .error "syntax" else .ok (.code ((Obj.get? q "verif_tmpl").getD .null)))
      else if Obj.has q "pattern" then
        (match Obj.get? q "pattern" with
         | some (.obj p) => .ok (.pattern p [])
         | _ => .error "syntax")
      else if Obj.has q "and" then
        (match Obj.get? q "and" with
         | some (.arr xs) => do let qs ← xs.mapM (parseQuery fuel); pure (.and qs)
         | _ => .error "syntax")
      else if Obj.has q "or" then
        (match Obj.get? q "or" with
         | some (.arr xs) => do
           let qs ← xs.mapM (parseQuery fuel)
           -- the first of the four spellings that is present decides; it must be a bool
           let sc ← (match (["shortCircuit", "ShortCircuit", "short_circuit", "shortcircuit"].filterMap (Obj.get? q)).head? with
             | none => pure false
             | some (.bool b) => pure b
             | some _ => .error "syntax" : Except LErr Bool)
           pure (.or qs sc)
         | _ => .error "syntax")
      else if Obj.has q "not" then
        (match Obj.get? q "not" with
         | some (.obj n) => do let q' ← parseQuery fuel (.obj n); pure (.not q')
         | _ => .error "syntax")
      else .error "syntax"
    | _ => .error "syntax"

/-- `StripQuestionMarks` -/
def stripQ (bs : Bs) : Bs :=
  (bs.filter (fun kv => !kv.1.isEmpty)).map (fun kv => (if kv.1.startsWith "?" then (kv.1.drop 1).toString else kv.1, kv.2))

/-- `ExtendBindings x y`: y's entries override x's -/
def extendBs (x y : Bs) : Bs := y.foldl (fun acc kv => acc.set kv.1 kv.2) x

/-- the closed template family for code terms and actions; otto itself is trusted base -/
def evalTmpl (t : J) (env : Bs) : Except LErr J :=
  match t with
  | .obj o =>
    match Obj.get? o "t" with
    | some (.str "lit") => .ok ((Obj.get? o "v").getD .null)
    | some (.str "eqvar") =>
      (match Obj.get? o "x" with
       | some (.str x) =>
         match env.get? x with
         | some .null => .ok (.bool false)      -- the script sees `undefined`
         | some b => .ok (.bool (b.isScalar && b == (Obj.get? o "v").getD .null))
         | none => .error "script"
       | _ => .error "script")
    | some (.str "bindvar") =>
      (match Obj.get? o "x", Obj.get? o "k" with
       | some (.str x), some (.str k) =>
         match env.get? x with
         -- a variable bound to null reaches the script as `undefined` (otto's value of a Go nil), and an undefined
         -- property is dropped when the object is exported: no binding is added
         | some .null => .ok (.obj [])
         | some b => .ok (.obj [(k, b)])
         | none => .error "script"
       | _, _ => .error "script")
    | some (.str "echo") => .ok (.obj env)
    -- `event.verifmark = 1; Env.bindings`: the script marks ITS OWN copy of the event (every action execution gets one)
    | some (.str "mutevent") =>
      -- (a pattern may have bound `?event` itself; bound to null the script sees `undefined` and the assignment throws)
      if env.get? "event" == some .null then .error "script" else
      .ok (.obj (env.map (fun kv => if kv.1 == "event" then
        (match kv.2 with | .obj e => (kv.1, J.obj (Obj.set e "verifmark" (.num 1))) | _ => kv) else kv)))
    -- `Env.AddFact(id, fact)`: the value is the id; the effect on the location is applied by the caller of the
    -- event model (Driver/Loc.lean), which turns a refused add into a failed action
    | some (.str "addfact") => .ok ((Obj.get? o "id").getD .null)
    -- `Env.AddRule(id, rule)` / `Env.RemFact(id)`: likewise, the value is the id and the effect is applied by the caller
    | some (.str "addrule") => .ok ((Obj.get? o "id").getD .null)
    | some (.str "remfact") => .ok ((Obj.get? o "id").getD .null)
    | some (.str "throw") => .error "script"
    | _ => .error "script"
  | _ => .error "script"

/-- how `CodeQuery.Exec` reads a script's value -/
def codeKeep (bs : Bs) (v : J) : List Bs :=
  match v with
  | .bool true => [bs]
  | .bool false => []
  | .null => []
  | .obj o => [o.foldl (fun acc kv => acc.set ("?" ++ kv.1) kv.2) bs]
  | _ => [bs]

abbrev Srch := Obj → Except LErr (List Bs)

mutual
def execQ (srch : Srch) : Q → List Bs → Except LErr (List Bs)
  | .empty, bss => .ok bss
  | .pattern p _, bss => do
    let per ← bss.mapM (fun bs =>
      match subst bs (.obj p) with
      | .obj bound => do
        let found ← srch bound
        pure (found.map (fun more => extendBs bs more))
      | _ => .error "notMap")
    pure per.flatten
  | .code t, bss => do
    let per ← bss.mapM (fun bs => do let v ← evalTmpl t (stripQ bs); pure (codeKeep bs v))
    pure per.flatten
  | .and qs, bss => execAnd srch qs bss
  | .or qs sc, bss => do
    let per ← bss.mapM (fun bs => execOr srch qs sc bs)
    pure per.flatten
  | .not q, bss => execNot srch q bss
def execAnd (srch : Srch) : List Q → List Bs → Except LErr (List Bs)
  | [], bss => .ok bss
  | q :: qs, bss => do let r ← execQ srch q bss; execAnd srch qs r
def execOr (srch : Srch) : List Q → Bool → Bs → Except LErr (List Bs)
  | [], _, _ => .ok []
  | q :: qs, sc, bs => do
    let more ← execQ srch q [bs]
    if sc && !more.isEmpty then pure more
    else do let rest ← execOr srch qs sc bs; pure (more ++ rest)
def execNot (srch : Srch) (q : Q) : List Bs → Except LErr (List Bs)
  | [] => .ok []
  | bs :: rest => do
    let more ← execQ srch q [bs]
    let r ← execNot srch q rest
    pure (if more.isEmpty then bs :: r else r)
end

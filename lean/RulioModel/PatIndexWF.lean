import RulioModel.PatIndex

/-! the same functions by well-founded recursion on the flattened size of the pending pairs -/

theorem szO_append (a b : List (String × J)) : szO (a ++ b) = szO a + szO b := by
  induction a with
  | nil => simp [szO]
  | cons p a ih => obtain ⟨k, v⟩ := p; simp [szO, ih]; omega

theorem szO_insSorted (lt) (x : String × J) (l : List (String × J)) :
    szO (insSorted lt x l) = sz x.2 + szO l := by
  induction l with
  | nil => obtain ⟨k, v⟩ := x; simp [insSorted, szO]
  | cons y l ih =>
    obtain ⟨k, v⟩ := x; obtain ⟨k', v'⟩ := y
    simp only [insSorted]; split
    · simp [szO]
    · simp only [szO, ih]; omega

theorem szO_isort (lt) (l : List (String × J)) : szO (isort lt l) = szO l := by
  induction l with
  | nil => simp [isort]
  | cons x l ih => obtain ⟨k, v⟩ := x; simp only [isort, szO_insSorted, ih, szO]

theorem szO_mapToPairs (l) : szO (mapToPairs l) = szO l := szO_isort _ l

theorem szL_insSorted (lt) (x : J) (l : List J) : szL (insSorted lt x l) = sz x + szL l := by
  induction l with
  | nil => simp [insSorted, szL]
  | cons y l ih => simp only [insSorted]; split <;> simp [szL, ih]; omega

theorem szL_isort (lt) (l : List J) : szL (isort lt l) = szL l := by
  induction l with
  | nil => simp [isort]
  | cons x l ih => simp only [isort, szL_insSorted, ih, szL]

theorem szL_sortValues (xs ys : List J) (h : sortValues xs = .ok ys) : szL ys = szL xs := by
  unfold sortValues at h
  split at h
  · cases h; rfl
  · dsimp only at h
    split at h
    · cases h
    · split at h
      · injection h with h; subst h; exact szL_isort _ _
      · injection h with h; subst h; exact szL_isort _ _
      · injection h with h; subst h; exact szL_isort _ _

theorem picast_str (x : String) : picast (.str x) = .v ∨ ∃ y, picast (.str x) = .s y := by
  simp only [picast]
  split
  · left; rfl
  · right; split <;> exact ⟨_, rfl⟩

theorem picast_m (v : J) (kvs) (h : picast v = .m kvs) : v = .obj kvs := by
  cases v with
  | str x => rcases picast_str x with h' | ⟨y, h'⟩ <;> rw [h'] at h <;> cases h
  | obj l => simp [picast] at h; subst h; rfl
  | _ => simp [picast] at h

theorem picast_a (v : J) (xs) (h : picast v = .a xs) : v = .arr xs := by
  cases v with
  | str x => rcases picast_str x with h' | ⟨y, h'⟩ <;> rw [h'] at h <;> cases h
  | arr l => simp [picast] at h; subst h; rfl
  | _ => simp [picast] at h

theorem szO_elems (k : String) (xs : List J) : szO (xs.map (fun x => (k, x))) = szL xs := by
  induction xs with
  | nil => simp [szO, szL]
  | cons x xs ih => simp [szO, szL, ih]

theorem sz_pos (j : J) : 0 < sz j := by cases j <;> simp [sz] <;> omega

def PI.modW (idx : PI) (pairs : List (String × J)) (id : String) (add : Bool) : PI × Option PErr :=
  match pairs with
  | [] => (.node idx.children (if add then (if idx.ids.contains id then idx.ids else idx.ids ++ [id]) else idx.ids.erase id), none)
  | (k, v) :: rest =>
    let k' := if isVar k then "?" else k
    let ki := idx.childD (.str k')
    match hv : picast v with
    | .s x =>
      let (sub, e) := PI.modW (ki.childD (.str x)) rest id add
      (idx.setChild (.str k') (ki.setChild (.str x) sub), e)
    | .v =>
      let (sub, e) := PI.modW (ki.childD .var) rest id add
      (idx.setChild (.str k') (ki.setChild .var sub), e)
    | .m kvs =>
      let (sub, e) := PI.modW (ki.childD .map) (mapToPairs kvs ++ rest) id add
      (idx.setChild (.str k') (ki.setChild .map sub), e)
    | .a xs =>
      let idx' := idx.setChild (.str k') ki
      match hs : sortValues xs with
      | .error e => (idx', some e)
      | .ok sorted => PI.modW idx' (sorted.map (fun x => (k, x)) ++ rest) id add
termination_by szO pairs
decreasing_by
  all_goals simp_wf
  · have := sz_pos v; simp [szO]; omega
  · have := sz_pos v; simp [szO]; omega
  · -- map
    have := picast_m v kvs hv
    subst this
    simp [szO, szO_append, szO_mapToPairs, sz]
  · have := picast_a v xs hv
    subst this
    simp [szO, szO_append, szO_elems, szL_sortValues _ _ hs, sz]

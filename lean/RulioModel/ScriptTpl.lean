import RulioModel.Json
import RulioModel.Watchdog

/-!
# C14 — what a script sees and returns: a closed family of script templates

otto (the JavaScript interpreter) is trusted base. The model evaluates only the closed template family below
itself, so that the correspondence run can compare "the value of the last expression is the result" and "the
script sees exactly its bindings as variables" on generated programs. Anything outside the family is reported
as `unsupported` and never compared.

Also here: `Bindings.StripQuestionMarks` (`core/query.go`), the way `CodeQuery.Exec` turns the value of a
condition script into bindings, and how `EvalRuleCondition.Do` / `ExecRuleAction.Do` turn the call's result
into the node's disposition.
-/

namespace ScriptTpl

/-! ## bindings → JavaScript variables -/

/-- `StripQuestionMarks`: the empty name is dropped, one leading `?` is removed, other names are kept -/
def stripKey (k : String) : Option String :=
  match k.toList with
  | [] => none
  | '?' :: r => some (String.ofList r)
  | _ => some k

def stripQ (bs : Bs) : Bs :=
  bs.filterMap (fun kv => (stripKey kv.1).map (fun k => (k, kv.2)))

/-- two bindings end up under one name (`?x` and `x`): Go's map iteration order decides which one wins -/
def stripCollides (bs : Bs) : Bool :=
  let names := (stripQ bs).map (·.1)
  names.length != names.eraseDups.length

/-! ## expressions -/

inductive Op | add | sub | mul | lt | le | gt | ge | eq | ne | and | or
deriving Repr, DecidableEq

inductive Ex
  | num (n : Int)
  | str (s : String)
  | bool (b : Bool)
  | null
  | var (name : String)
  | typeOf (name : String)            -- `typeof name` (never throws)
  | bin (op : Op) (a b : Ex)
  | not (a : Ex)
  | obj (kvs : List (String × Ex))    -- `({k: e, …})`
  | arr (xs : List Ex)
deriving Repr

inductive EvalErr
  | reference (name : String)   -- ReferenceError: name is not defined  (a JavaScript exception)
  | unsupported                 -- outside the template semantics: not compared
deriving Repr

def typeName : J → String
  | .null => "object"
  | .bool _ => "boolean"
  | .num _ => "number"
  | .str _ => "string"
  | .arr _ => "object"
  | .obj _ => "object"

/-- JavaScript `ToString` on the scalars the templates concatenate -/
def jsToString : J → Option String
  | .null => some "null"
  | .bool b => some (if b then "true" else "false")
  | .num n => some (toString n)
  | .str s => some s
  | _ => none

/-- numbers stay exactly representable as float64 -/
def inRange (n : Int) : Bool := decide (-9007199254740992 < n) && decide (n < 9007199254740992)

def evalBin (op : Op) (a b : J) : Except EvalErr J :=
  match op, a, b with
  | .add, .num x, .num y => if inRange (x + y) then .ok (.num (x + y)) else .error .unsupported
  | .sub, .num x, .num y => if inRange (x - y) then .ok (.num (x - y)) else .error .unsupported
  | .mul, .num x, .num y => if inRange (x * y) then .ok (.num (x * y)) else .error .unsupported
  | .add, .str x, y => match jsToString y with | some s => .ok (.str (x ++ s)) | none => .error .unsupported
  | .add, x, .str y => match jsToString x with | some s => .ok (.str (s ++ y)) | none => .error .unsupported
  | .lt, .num x, .num y => .ok (.bool (decide (x < y)))
  | .le, .num x, .num y => .ok (.bool (decide (x ≤ y)))
  | .gt, .num x, .num y => .ok (.bool (decide (x > y)))
  | .ge, .num x, .num y => .ok (.bool (decide (x ≥ y)))
  | .eq, .num x, .num y => .ok (.bool (x == y))
  | .ne, .num x, .num y => .ok (.bool (x != y))
  | .eq, .str x, .str y => .ok (.bool (x == y))
  | .ne, .str x, .str y => .ok (.bool (x != y))
  | .eq, .bool x, .bool y => .ok (.bool (x == y))
  | .ne, .bool x, .bool y => .ok (.bool (x != y))
  | .and, .bool x, .bool y => .ok (.bool (x && y))    -- both operands are evaluated first: see `eval`
  | .or, .bool x, .bool y => .ok (.bool (x || y))
  | _, _, _ => .error .unsupported

/-- the expression is a variable whose binding is Go nil: declared, value `undefined` -/
def isUndefVar (env : Bs) : Ex → Bool
  | .var x => (match lookupKey x env with | some .null => true | _ => false)
  | _ => false

mutual
/-- evaluation in an environment of visible variables; left to right, as JavaScript does -/
def eval (env : Bs) : Ex → Except EvalErr J
  | .num n => if inRange n then .ok (.num n) else .error .unsupported
  | .str s => .ok (.str s)
  | .bool b => .ok (.bool b)
  | .null => .ok .null
  -- a binding whose value is Go nil (JSON null) is set with `runtime.Set(k, nil)`: the variable exists and is
  -- `undefined`, a value outside this family
  | .var x => match lookupKey x env with
    | some .null => .error .unsupported
    | some v => .ok v
    | none => .error (.reference x)
  | .typeOf x => match lookupKey x env with
    | some .null => .ok (.str "undefined")
    | some v => .ok (.str (typeName v))
    | none => .ok (.str "undefined")
  | .bin op a b =>
    -- strict (in)equality with a variable bound to Go nil: the variable is declared and `undefined`; `undefined === v` is
    -- false and `undefined !== v` true for every value `v` of this family (both undefined: true / false)
    if (op == .eq || op == .ne) && (isUndefVar env a || isUndefVar env b) then
      if isUndefVar env a && isUndefVar env b then .ok (.bool (op == .eq))
      else if isUndefVar env a then
        match eval env b with
        | .error e => .error e
        | .ok _ => .ok (.bool (op == .ne))
      else
        match eval env a with
        | .error e => .error e
        | .ok _ => .ok (.bool (op == .ne))
    else
    match eval env a with
    | .error e => .error e
    | .ok va =>
      -- `&&` / `||` short-circuit: the right operand is evaluated only when needed
      match op, va with
      | .and, .bool false => .ok (.bool false)
      | .or, .bool true => .ok (.bool true)
      | _, _ =>
        match eval env b with
        | .error e => .error e
        | .ok vb => evalBin op va vb
  | .not a =>
    match eval env a with
    | .ok (.bool b) => .ok (.bool !b)
    | .ok _ => .error .unsupported
    | .error e => .error e
  | .obj kvs => match evalKvs env kvs with | .ok r => .ok (.obj r) | .error e => .error e
  | .arr xs => match evalList env xs with | .ok r => .ok (.arr r) | .error e => .error e
def evalKvs (env : Bs) : List (String × Ex) → Except EvalErr (List (String × J))
  | [] => .ok []
  | (k, e) :: r =>
    match eval env e with
    | .error er => .error er
    | .ok v => match evalKvs env r with
      | .error er => .error er
      -- a repeated key keeps its first position and takes its last value
      | .ok vs => .ok ((k, (lookupKey k vs).getD v) :: vs.filter (fun p => p.1 != k))
def evalList (env : Bs) : List Ex → Except EvalErr (List J)
  | [] => .ok []
  | e :: r =>
    match eval env e with
    | .error er => .error er
    | .ok v => match evalList env r with
      | .error er => .error er
      | .ok vs => .ok (v :: vs)
end

/-! ## scripts -/

inductive Tpl
  | exprs (pre : List Ex) (last : Ex)      -- `e1; e2; …; last`  → the value of the last expression
  | echo                                   -- `JSON.stringify(Env.bindings)` (compared after parsing)
  | throwE (e : Ex)                        -- `throw e`
  | syntaxErr                              -- any text that does not parse
  | loop                                   -- `while(true){…}`
  | busy (n : Nat) (last : Ex)             -- `var s=0; for(var i=0;i<n;i++){s=s+i}; [s, last]`
  | sleepThen (ms : Nat) (last : Ex)       -- `Env.sleep(ms*1e6); last`
  | sleepLast (ms : Nat)                   -- `Env.sleep(ms*1e6)`  (the native call is the last expression)
deriving Repr

/-- the script's own behaviour, as a `Watchdog.Script` over `J`, or `none` when the value is outside the
template semantics. `echo` yields the object of visible bindings (the real script yields its JSON text). -/
def behaviour (env : Bs) : Tpl → Option (Watchdog.Script J)
  | .exprs pre last =>
    match evalList env (pre ++ [last]) with
    | .ok vs => some (.value (pre.length + 1) (vs.getLast?.getD .null))
    | .error (.reference _) => some (.throws (pre.length + 1))
    | .error .unsupported => none
  -- a nil-valued binding is `undefined` in `Env.bindings`: JSON.stringify leaves it out
  | .echo => some (.value 1 (.obj (env.filter (fun kv => match kv.2 with | .null => false | _ => true))))
  | .throwE e =>
    match eval env e with
    | .ok _ => some (.throws 1)
    | .error (.reference _) => some (.throws 1)
    | .error .unsupported => none
  | .syntaxErr => some .syntaxError
  | .loop => some .loops
  | .busy n last =>
    match eval env last with
    | .ok v => some (.value (2 * n + 3) (.arr [.num ((n * (n - 1) / 2 : Nat) : Int), v]))
    | .error (.reference _) => some (.throws (2 * n + 3))
    | .error .unsupported => none
  | .sleepThen _ last =>
    match eval env last with
    | .ok v => some (.value 2 v)
    | .error (.reference _) => some (.throws 2)
    | .error .unsupported => none
  | .sleepLast ms => some (.value 1 (.num ((ms * 1000000 : Nat) : Int)))

/-! ## the callers -/

/-- `CodeQuery.Exec`: what the value of a condition script does to the bindings it was run with.
`true` keeps them, `false`/`null`/`undefined` drops them, an object extends them (`?`+key), anything else
keeps them. -/
def condBindings (bs : Bs) : Option J → List Bs
  | none => []
  | some .null => []
  | some (.bool true) => [bs]
  | some (.bool false) => []
  | some (.obj kvs) => [kvs.foldl (fun acc kv => acc.filter (fun p => p.1 != "?" ++ kv.1) ++ [("?" ++ kv.1, kv.2)]) bs]
  | some _ => [bs]

end ScriptTpl

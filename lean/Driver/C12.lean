import Driver.JsonIO
import RulioModel.ConcC12
open Lean

/-! model-side handler for kinds `c12.*`:
`c12.table` — evaluates the discipline checker over the regenerated table and reports every breach, which of
them are not in the list of known exceptions (new), which known exceptions no longer occur (stale). -/

namespace C12Drv
open Conc Conc.C12

def accStr : Acc → String
  | .lock w => s!"lock {if w then "w" else "r"}"
  | .unlock w => s!"unlock {if w then "w" else "r"}"
  | .rd f => s!"rd {reprStr f}"
  | .wr f => s!"wr {reprStr f}"
  | .call m => s!"call {m}"
  | .store o => s!"store {o}"
  | .hook h => s!"hook {h}"
  | .lock2 n => s!"lock2 {n}"
  | .unlock2 n => s!"unlock2 {n}"

def modeStr : LMode → String | .none => "none" | .r => "r" | .w => "w"

def violJ (v : Viol) : Json :=
  Json.mkObj [("impl", Json.str v.impl), ("method", Json.str v.method), ("acc", Json.str (accStr v.acc)),
              ("mode", Json.str (modeStr v.mode)), ("viaExpire", Json.bool v.viaExpire)]

def tableJ : Json :=
  let vs := violations Gen.C12.table
  let new := vs.filter (fun v => !knownExceptions.contains v)
  let stale := knownExceptions.filter (fun v => !vs.contains v)
  Json.mkObj [
    ("structureOK", Json.bool (structureOK Gen.C12.table)),
    ("disciplineOK", Json.bool (disciplineOK Gen.C12.table knownExceptions)),
    ("fragOK", Json.mkObj [("indexed", Json.bool (fragOK "indexed")), ("linear", Json.bool (fragOK "linear"))]),
    ("rows", Json.num Gen.C12.table.length),
    ("violations", Json.arr (vs.map violJ).toArray),
    ("new", Json.arr (new.map violJ).toArray),
    ("stale", Json.arr (stale.map violJ).toArray)]

end C12Drv

/-- model-side handler for cases whose "kind" starts with "c12." -/
def handleC12 (kind : String) (_c : Json) : Json :=
  match kind with
  | "c12.table" => C12Drv.tableJ
  | _ => Json.mkObj [("err", Json.str ("unknown kind " ++ kind))]

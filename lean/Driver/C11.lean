import Driver.C17
open Lean

/-- model-side handler for cases whose "kind" starts with "c11.": the sequential run of one client's request sequence
through a System (the oracle of C11) is the cache model of C17 instantiated with the Location model -/
def handleC11 (kind : String) (c : Json) : Json :=
  match kind with
  | "c11.solo" => handleC17Sys c
  | _ => Json.mkObj [("err", Json.str ("unknown kind " ++ kind))]

import Driver.JsonIO
open Lean

/-- model-side handler for cases whose "kind" starts with "c13." (stub until the property's slice lands) -/
def handleC13 (kind : String) (c : Json) : Json :=
  Json.mkObj [("err", Json.str ("unknown kind " ++ kind))]

import Driver.JsonIO
import Driver.Loc
import RulioModel.C13
open Lean C13

/-! Model side of kind "c13.run": one history on one location through the lock-aware wrapper model.
Per op: the outcome class (ok / err / panic / hang / skip), the panic site, the value (same shapes as Driver/Loc),
whether the model is sure about ok-versus-err (`sure`), and the lock state afterwards. -/

namespace C13D

def lockName : Lock → String | .free => "free" | .rdead => "rdead" | .wdead => "wdead"

def containsDigit (s : String) : Bool := s.any Char.isDigit

/-- is the model's verdict on `ttl` / `expires` the real one? (closed families of Fact.lean, or plainly invalid text) -/
def expirySure (o : Obj) : Bool :=
  (match o.get? "ttl" with
   | some (.str s) => (parseDurationSecs s).isSome || !containsDigit s
   | some (.num n) => n.natAbs < 1000000000
   | _ => true) &&
  (match o.get? "expires" with
   | some (.str s) => (parseRFC3339 s).isSome || !containsDigit s
   | some (.num n) => n.natAbs < 100000000000
   | _ => true)

def lower (s : String) : String := s.map Char.toLower

/-- encoding/json matches struct fields case-insensitively: a key that only differs in case from a field is not modelled -/
def keysExact (o : Obj) (fields : List String) : Bool :=
  o.all (fun kv => fields.contains kv.1 || !(fields.map lower).contains (lower kv.1))

partial def querySure : J → Bool
  | .obj [] => true
  | .obj q =>
    if Obj.has q "code" then Obj.has q "verif_tmpl" || Obj.has q "verif_bad"
    else if Obj.has q "pattern" then !(Obj.has q "locations" || Obj.has q "location")
    else if Obj.has q "and" then (match Obj.get? q "and" with | some (.arr xs) => xs.all querySure | _ => true)
    else if Obj.has q "or" then (match Obj.get? q "or" with | some (.arr xs) => xs.all querySure | _ => true)
    else if Obj.has q "not" then (match Obj.get? q "not" with | some x => querySure x | _ => true)
    else true
  | _ => true

def actionSure : J → Bool
  | .obj a =>
    keysExact a ["code", "endpoint", "subvars", "opts"] &&
    !(Obj.has a "endpoint" || Obj.has a "subvars" || Obj.has a "opts") &&
    (match Obj.get? a "code" with | some (.obj _) => false | _ => true)
  | _ => true

/-- is `ruleFromMap`'s verdict the real `RuleFromMap`'s? (only the fields the model looks at, spelled exactly) -/
def ruleSure (r : Obj) : Bool :=
  keysExact r ["id", "when", "schedule", "condition", "actions", "action", "policies", "once", "props", "expires"] &&
  !(Obj.has r "id" || Obj.has r "once" || Obj.has r "props") &&
  (match r.get? "when" with
   | some (.obj w) => w.all (fun kv => kv.1 == "pattern")
   | _ => true) &&
  (match r.get? "condition" with | some q => querySure q | none => true) &&
  (match r.get? "action" with | some a => actionSure a | none => true) &&
  (match r.get? "actions" with | some (.arr xs) => xs.all actionSure | _ => true) &&
  (match r.get? "policies" with
   | none | some .null => true
   | some (.obj p) => p.all (fun kv => kv.1 == "serialActions" && (match kv.2 with | .bool _ => true | _ => false))
   | some _ => false) &&
  expirySure r

/-- through a System the cron hooks look at `rule.schedule`: only the two constants of the generators are modelled -/
def hookSure (hooks : Bool) (fact : Obj) : Bool :=
  !hooks ||
  (match fact.get? "rule" with
   | some (.obj r) => (match Obj.get? r "schedule" with
     | some (.str s) => s == "" || s == validSchedule || s == "x"
     | _ => true)
   | _ => true)

def out {α} (k : KLoc) (r : Res α) (f : α → Json) (sure : Bool) : Json :=
  let base : List (String × Json) := [("cls", Json.str r.cls), ("sure", Json.bool sure), ("lock", Json.str (lockName k.lock))]
  match r with
  | .ok a => Json.mkObj (base ++ [("ok", f a)])
  | .err e => Json.mkObj (base ++ [("err", Json.str e)])
  | .panic s => Json.mkObj (base ++ [("err", Json.str "panic"), ("site", Json.str s.name)])
  | .hang => Json.mkObj base

def skip (k : KLoc) (why : String) : KLoc × Json :=
  (k, Json.mkObj [("cls", Json.str "skip"), ("why", Json.str why), ("sure", Json.bool false), ("lock", Json.str (lockName k.lock))])

/-- the document of an op as a map, depending on the way in: core skips non-maps, a System reads them as the nil map,
the HTTP service answers 400 -/
inductive Doc where | map (o : Obj) | skip (why : String) | reject

def docOf (via : String) (op : Json) (key : String) : Doc :=
  match J.ofJson (jget op key) with
  | .error e => .skip ("model cannot read the document: " ++ e)
  | .ok (.obj o) => .map o
  | .ok _ => if via == "sys" then .map [] else if via == "http" then .reject else .skip "not a map"

def treeOutJ (k : KLoc) (r : Res Tree) (sure : Bool) : Json :=
  match r with
  | .ok t =>
    let cls := if t.err.isSome then "err" else "ok"
    ((treeJ t).setObjVal! "cls" (Json.str cls)).setObjVal! "sure" (Json.bool sure) |>.setObjVal! "lock" (Json.str (lockName k.lock))
  | r => out k r (fun _ => Json.null) sure

/-- does the document put a rule body into the store whose later validation (FindCachedRules, trigger!) the model
cannot judge? -/
def storesUnsureRule (op : Json) : Bool :=
  match jstr op "op" with
  | "addFact" => (match J.ofJson (jget op "fact") with
      | .ok (.obj f) => (match Obj.get? f "rule" with | some (.obj r) => !ruleSure r | _ => false)
      | _ => false)
  | "addRule" => (match J.ofJson (jget op "rule") with | .ok (.obj r) => !ruleSure r | _ => false)
  | _ => false

def stepOp (via : String) (k : KLoc) (op : Json) : KLoc × Json :=
  let now := jint op "now"
  let c : Ctx := { rk := jstr op "rk", wk := jstr op "wk" }
  let id := jstr op "id"
  let reject : KLoc × Json := (k, Json.mkObj [("cls", Json.str "err"), ("err", Json.str "param"), ("sure", Json.bool true), ("lock", Json.str (lockName k.lock))])
  match jstr op "op" with
  | "addFact" =>
    (match docOf via op "fact" with
     | .skip w => skip k w
     | .reject => reject
     | .map fact =>
       let (k1, r) := kAddFact c id fact now k
       (k1, out k1 r Json.str (expirySure fact && hookSure k.hooks fact && !(via != "core" && Obj.has fact "!created"))))
  | "remFact" => let (k1, r) := kRemFact c id now k; (k1, out k1 r Json.str true)
  | "getFact" => let (k1, r) := kGetFact c id now k; (k1, out k1 r objJ true)
  | "search" =>
    (match docOf via op "pattern" with
     | .skip w => skip k w
     | .reject => reject
     | .map p =>
       let (k1, r) := kSearchFacts c p (jbool op "inherited") now k
       (k1, out k1 r foundJ true))
  | "addRule" =>
    (match docOf via op "rule" with
     | .skip w => skip k w
     | .reject => reject
     | .map rule =>
       let (k1, r) := kAddRule c id rule now k
       (k1, out k1 r Json.str (ruleSure rule && hookSure k.hooks [("rule", .obj rule)])))
  | "remRule" => let (k1, r) := kRemRule c id now k; (k1, out k1 r Json.str true)
  | "getRule" => let (k1, r) := kGetRule c id now k; (k1, out k1 r objJ true)
  | "enableRule" => let (k1, r) := kEnableRule c id (jbool op "enable") now k; (k1, out k1 r (fun _ => Json.bool true) true)
  | "listRules" => let (k1, r) := kListRules c (jbool op "inherited") now k; (k1, out k1 r strsJ true)
  | "searchRules" =>
    (match docOf via op "event" with
     | .skip w => skip k w
     | .reject => reject
     | .map ev =>
       let (k1, r) := kSearchRules c ev (jbool op "inherited") now k
       (k1, out k1 r (fun l => strsJ (l.map (·.1))) true))
  | "query" =>
    (match J.ofJson (jget op "query") with
     | .error e => skip k ("model cannot read the document: " ++ e)
     | .ok q =>
       match q, via with
       | .obj _, _ | _, "core" | _, "sys" =>
         let (k1, r) := kQuery c q now k
         (k1, out k1 r (fun bss => Json.arr (bss.map bsToJson).toArray) (querySure q))
       | _, _ => reject)
  | "event" =>
    (match docOf via op "event" with
     | .skip w => skip k w
     | .reject => reject
     | .map ev =>
       let (k1, r) := kProcessEvent c ev now k
       let sure := (match ev.get? "evaluate!" with | some (.obj m) => ruleSure m | _ => true)
       (k1, treeOutJ k1 r sure))
  | "sleep" => (k, Json.mkObj [("cls", Json.str "ok"), ("ok", Json.bool true), ("sure", Json.bool true), ("lock", Json.str (lockName k.lock))])
  | "svc" =>
    (match J.ofJson (jget op "m") with
     | .ok (.obj m) => (k, out k (serviceFront m) (fun _ => Json.null) false)
     | _ => skip k "not a map")
  | "http" =>
    -- the raw requests of the front-end witnesses
    let body := jstr op "body"
    let bodyObj : Option Obj := match Json.parse body with
      | .ok j => (match J.ofJson j with | .ok (.obj o) => some o | _ => none)
      | .error _ => none
    let path := jstr op "path"
    let params : List (String × String) :=
      match path.splitOn "?" with
      | [_, q] => (q.splitOn "&").filterMap (fun kv => match kv.splitOn "=" with
          | [a, b] => if ["fact", "rule", "pattern", "event", "query"].contains a then some (a, b) else none
          | _ => none)
      | _ => []
    let r := httpFront { method := jstr op "method", jsonParams := params, body := body, bodyObj := bodyObj }
    (k, out k r (fun _ => Json.null) false)
  | o => skip k ("unknown op " ++ o)

def runWith (c : Json) (tbl : List C13Gen.LockUse) : List Json :=
  let kind := if jstr c "state" == "linear" then Kind.linear else Kind.indexed
  let via := if jstr c "via" == "" then "core" else jstr c "via"
  let k0 : KLoc := { loc := { name := "a", st := { kind := kind } }, hooks := via != "core", locks := tbl }
  let (_, _, outs) := (jarr c "ops").foldl (fun (acc : KLoc × Bool × List Json) op =>
    let (k, o) := stepOp via acc.1 op
    let unsureStore := acc.2.1 || storesUnsureRule op
    -- rule bodies in the store are validated again by later events and rule searches
    let o := if acc.2.1 && ["event", "searchRules"].contains (jstr op "op") then o.setObjVal! "sure" (Json.bool false) else o
    (k, unsureStore, acc.2.2 ++ [o])) (k0, false, [])
  outs

/-- `outs`: under the lock discipline of the current source; `accCls`: the outcome classes under the accounted
(hand-written) lock table, which differ exactly when a lock acquisition or a `defer` changed -/
def handle (c : Json) : Json :=
  let outs := runWith c C13Gen.lockUses
  let acc := runWith c lockTable
  Json.mkObj [("outs", Json.arr outs.toArray), ("accCls", Json.arr (acc.map (fun o => jget o "cls")).toArray)]

/-- the classified table, for the check's diagnosis when `asserts_accounted` breaks -/
def tables : Json :=
  let clsJ : Cls → Json
    | .safe w => Json.mkObj [("cls", Json.str "safe"), ("why", Json.str w)]
    | .modelled s => Json.mkObj [("cls", Json.str "modelled"), ("site", Json.str s.name)]
    | .unreachable w => Json.mkObj [("cls", Json.str "unreachable"), ("why", Json.str w)]
    | .outOfScope w => Json.mkObj [("cls", Json.str "outOfScope"), ("why", Json.str w)]
  let siteJ (s : C13Gen.Site) : List (String × Json) :=
    [("file", Json.str s.file), ("func", Json.str s.func), ("kind", Json.str s.kind), ("expr", Json.str s.expr)]
  let lockJ (u : C13Gen.LockUse) : Json :=
    Json.mkObj [("file", Json.str u.file), ("func", Json.str u.func), ("lock", Json.str u.lock), ("deferred", Json.bool u.deferred)]
  Json.mkObj [
    ("accounted", Json.arr (accounted.map (fun (s, c) => Json.mkObj (siteJ s ++ [("class", clsJ c)]))).toArray),
    ("generated", Json.arr (C13Gen.sites.map (fun s => Json.mkObj (siteJ s))).toArray),
    ("lockTable", Json.arr (lockTable.map lockJ).toArray),
    ("lockUses", Json.arr (C13Gen.lockUses.map lockJ).toArray)]

end C13D

/-- model-side handler for cases whose "kind" starts with "c13." -/
def handleC13 (kind : String) (c : Json) : Json :=
  match kind with
  | "c13.run" => C13D.handle c
  | "c13.tables" => C13D.tables
  | _ => Json.mkObj [("err", Json.str ("unknown kind " ++ kind))]

import Lean.Data.Json
import RulioModel.Json

/-! JSON text <-> `J` (driver glue; not used by any theorem) -/
open Lean

partial def J.ofJson : Json → Except String J
  | .null => .ok .null
  | .bool b => .ok (.bool b)
  | .num n =>
    if n.exponent == 0 then .ok (.num n.mantissa)
    else
      -- accept integral values written with a fraction/exponent, reject the rest
      let p : Int := (10 : Int) ^ n.exponent
      if n.mantissa % p == 0 then .ok (.num (n.mantissa / p)) else .error "nonint"
  | .str s => .ok (.str s)
  | .arr xs => do
    let ys ← xs.toList.mapM J.ofJson
    pure (.arr ys)
  | .obj kvs => do
    let ys ← kvs.toList.mapM (fun (k, v) => do let v' ← J.ofJson v; pure (k, v'))
    pure (.obj ys)

partial def J.toJson : J → Json
  | .null => .null
  | .bool b => .bool b
  | .num n => .num (JsonNumber.fromInt n)
  | .str s => .str s
  | .arr xs => .arr (xs.map J.toJson).toArray
  | .obj kvs => Json.mkObj (kvs.map (fun (k, v) => (k, J.toJson v)))

def jget (j : Json) (k : String) : Json := (j.getObjVal? k).toOption.getD .null
def jstr (j : Json) (k : String) : String := ((jget j k).getStr?).toOption.getD ""
def jint (j : Json) (k : String) : Int := ((jget j k).getInt?).toOption.getD 0
def jbool (j : Json) (k : String) : Bool := ((jget j k).getBool?).toOption.getD false
def jarr (j : Json) (k : String) : List Json := match jget j k with | .arr a => a.toList | _ => []
def jhas (j : Json) (k : String) : Bool := (j.getObjVal? k).toOption.isSome
def jJ (j : Json) (k : String) : Except String J := J.ofJson (jget j k)

def bsToJson (bs : List (String × J)) : Json := Json.mkObj (bs.map (fun (k, v) => (k, J.toJson v)))

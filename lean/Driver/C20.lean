import Driver.JsonIO
import RulioModel.Breaker
open Lean Gen.C20

/-! model-side handler for the `c20.*` kinds (driver glue, no theorem uses it) -/

namespace C20D

def natArr (c : Json) (k : String) : List Nat := (jarr c k).map fun j => (j.getNat?).toOption.getD 0
def jnat (c : Json) (k : String) : Nat := (jint c k).toNat
def natsJ (l : List Nat) : Json := Json.arr (l.map fun n => Json.num (JsonNumber.fromNat n)).toArray
def boolsJ (l : List Bool) : Json := Json.arr (l.map Json.bool).toArray

/-- clock reading that the white-box harness gives to time 0 of a script (`time.Unix(1700000000, 0)` in ns): a fresh
breaker has `updated` = the zero time, far more than one window before it -/
def T0 : Nat := 1700000000000000000

/-- `NewOutboundBreaker(limit, interval)` as the source has it: `none` when `init` returns an error -/
def newOB (c : Json) : Option OB := OB.initE (jint c "limit") (jint c "interval")

/-- start state of a script: given counts (or zeros); `updated` = zero time unless given (then relative to `T0`) -/
def startOB (b : OB) (c : Json) : OB :=
  let b := if jhas c "counts" then { b with counts := natArr c "counts" } else b
  if jhas c "updated" then { b with updated := T0 + jnat c "updated" } else b

/-- cumulative times of a gap script -/
def cumul (t0 : Nat) : List Nat → List Nat
  | [] => []
  | g :: gs => (t0 + g) :: cumul (t0 + g) gs

structure Step where
  closed : Bool
  counts : List Nat
  updated : Nat

/-- run with the explicit panics; stops at the first error -/
def runE (b : OB) : List BEv → List Step → Except String (List Step)
  | [], acc => .ok acc.reverse
  | e :: es, acc =>
    match e with
    | .call t =>
      match b.callE t with
      | .error .divByZero => .error "divzero"
      | .error .indexRange => .error "index"
      | .ok (b', closed) => runE b' es ({ closed, counts := b'.counts, updated := b'.updated } :: acc)
    | .status t =>
      if b.ticks = 0 ∨ b.res = 0 then .error "divzero"
      else
        let r := b.status t
        runE r.1 es ({ closed := r.2, counts := r.1.counts, updated := r.1.updated } :: acc)

/-- specification, rate clause: no window `[t, t + W)` starting at an admission holds more than `limit` admissions -/
def specWindowOK (limit W : Nat) (adm : List Nat) : Bool :=
  adm.all fun a => (adm.filter fun t => a ≤ t && t < a + W).length ≤ limit

/-- the calls of a script with their decisions, in order -/
def callsOf : List BEv → List Bool → List (Nat × Nat × Bool)
  | es, cs => go 0 es cs
where
  go (i : Nat) : List BEv → List Bool → List (Nat × Nat × Bool)
    | .call t :: es, c :: cs => (i, t, c) :: go (i + 1) es cs
    | .status _ :: es, _ :: cs => go (i + 1) es cs
    | _, _ => []

/-- specification, recovery clause (theorems `breaker_recovers`, `breaker_recovers_graded`): indices of refused calls
although every earlier admission is at least one window old, or fewer than `limit` admissions are younger than their
graded window.  `strict` = the unattainable exact reading (fewer than `limit` admissions in `(now - W, now]`), reported
for the statistics only. -/
def specRecovery (limit W res : Nat) (calls : List (Nat × Nat × Bool)) : List Nat × List Nat :=
  go calls [] [] []
where
  go : List (Nat × Nat × Bool) → List Nat → List Nat → List Nat → List Nat × List Nat
    | [], _, miss, strict => (miss.reverse, strict.reverse)
    | (i, t, c) :: rest, adm, miss, strict =>
      let idle := 0 < limit && adm.all fun u => u + W ≤ t
      let graded := gradedCount W (res - 1) t 0 adm < limit
      let recent := (adm.filter fun u => t < u + W).length
      go rest (if c then t :: adm else adm)
        (if !c && (idle || graded) then i :: miss else miss)
        (if !c && recent < limit then i :: strict else strict)

/-- over-admission w.r.t. the declarative rule "admit iff fewer than limit admissions in the last W": indices admitted
although `limit` admissions already lie within `(now - W, now]` -/
def specOverAdmits (limit W : Nat) (calls : List (Nat × Nat × Bool)) : List Nat :=
  go calls []
where
  go : List (Nat × Nat × Bool) → List Nat → List Nat
    | [], _ => []
    | (i, t, c) :: rest, adm =>
      let recent := (adm.filter fun u => t < u + W).length
      let r := go rest (if c then t :: adm else adm)
      if c && limit ≤ recent then i :: r else r

def breakerSeq (c : Json) : Json :=
  match newOB c with
  | none => Json.mkObj [("err", Json.str "new")]
  | some b0 =>
  let b := startOB b0 c
  let times := (if jhas c "times" then natArr c "times" else cumul 0 (natArr c "gaps")).map (T0 + ·)
  let ops := (jarr c "ops").map fun j => (j.getStr?).toOption.getD "do"
  let evs : List BEv := (times.zip (ops ++ List.replicate (times.length - ops.length) "do")).map fun p =>
    if p.2 == "do" then .call p.1 else .status p.1
  match runE b evs [] with
  | .error e => Json.mkObj [("err", Json.str e)]
  | .ok steps =>
    let closed := steps.map (·.closed)
    let calls := callsOf evs closed
    let adm := (calls.filter (·.2.2)).map (·.2.1)
    let W := b.ticks * b.res
    let zeroStart := b.counts.all (· == 0)
    let rec_ := specRecovery b.limit W b.res calls
    Json.mkObj [
      ("closed", boolsJ closed),
      ("counts", Json.arr (steps.map fun s => natsJ s.counts).toArray),
      ("updated", natsJ (steps.map fun s => s.updated - T0)),
      ("W", Json.num (JsonNumber.fromNat W)), ("res", Json.num (JsonNumber.fromNat b.res)),
      ("zero_start", Json.bool zeroStart),
      ("spec_window_ok", Json.bool (!zeroStart || specWindowOK b.limit W adm)),
      ("spec_recovery_misses", natsJ (if zeroStart then rec_.1 else [])),
      ("spec_strict_misses", natsJ (if zeroStart then rec_.2 else [])),
      ("spec_over_admits", natsJ (if zeroStart then specOverAdmits b.limit W calls else []))]

def slideOnly (c : Json) : Json :=
  match OB.initE 1 (jint c "interval") with
  | none => Json.mkObj [("err", Json.str "new")]
  | some b0 =>
  let b := { startOB b0 c with updated := T0 }
  if b.ticks = 0 ∨ b.res = 0 then Json.mkObj [("err", Json.str "divzero")]
  else
    let b' := b.slide (T0 + jnat c "gap")
    Json.mkObj [("counts", natsJ b'.counts), ("updated", Json.num (JsonNumber.fromNat (b'.updated - T0)))]

/-- `NewOutboundBreaker(limit, interval)` / `Adjust(limit, interval)`: is it refused; does a following `Do` panic -/
def breakerNew (c : Json) : Json :=
  match newOB c with
  | none => Json.mkObj [("rejected", Json.bool true)]
  | some b =>
    let r := match b.callE T0 with
      | .error .divByZero => "divzero"
      | .error .indexRange => "index"
      | .ok _ => "ok"
    Json.mkObj [("rejected", Json.bool false), ("do", Json.str r)]

def pcName : SPc → String
  | .idle => "idle" | .waiting => "waiting" | .overflow => "overflow" | .done => "done"

def throttle (c : Json) : Json :=
  let evs : List Thr.Ev := (jarr c "evs").map fun e =>
    match jstr e "ev" with
    | "sub" => .sub (jnat e "tid")
    | "disable" => .setDisabled (jbool e "on")
    | _ => .spawn
  let t0 := Thr.start (jnat c "pendingLimit") (jbool c "disabled") (jnat c "n")
  -- trace: pending and waiting after every event
  let rec go (t : Thr) : List Thr.Ev → List (Nat × Nat) → Thr × List (Nat × Nat)
    | [], acc => (t, acc.reverse)
    | e :: es, acc => let t' := t.ev e; go t' es ((t'.pending, t'.waiting) :: acc)
  let r := go t0 evs []
  -- class predicate of the known finding: an overflowing Submit that increments `pending` because the throttle is disabled
  let rec leaks (t : Thr) : List Thr.Ev → Nat
    | [] => 0
    | e :: es =>
      let here := match e with
        | .sub tid => if t.pcs[tid]? == some .idle && t.disabled && tooMany t.pendingLimit t.pending then 1 else 0
        | _ => 0
      here + leaks (t.ev e) es
  Json.mkObj [("leaks", Json.num (JsonNumber.fromNat (leaks t0 evs))),("pending", Json.num (JsonNumber.fromNat r.1.pending)), ("waiting", Json.num (JsonNumber.fromNat r.1.waiting)),
    ("pcs", Json.arr (r.1.pcs.map fun p => Json.str (pcName p)).toArray),
    ("trace_pending", natsJ (r.2.map (·.1))), ("trace_waiting", natsJ (r.2.map (·.2))),
    ("max_waiting", Json.num (JsonNumber.fromNat (r.2.foldl (fun m p => max m p.2) 0)))]

def bkind (j : Json) : BKind :=
  match jstr j "b" with
  | "outbound" => .outbound (jbool j "closed")
  | "simple" => .simple (jbool j "closed") (jbool j "disabled")
  | "comboDisabled" => .comboDisabled
  | _ => .combo (jbool j "closed")

def submitLoopJ (c : Json) : Json :=
  let st := (jarr c "st").map bkind
  let r := submitLoop (jnat c "attempts") st
  Json.mkObj [("runs", Json.num (JsonNumber.fromNat r.1)), ("worked", Json.bool r.2),
    ("faithful", Json.bool (st.all BKind.faithful))]

def capOut : CapOut → String
  | .ok => "ok" | .capacity => "capacity" | .notFound => "notFound"

def capacity (c : Json) : Json :=
  let ops : List CapOp := (jarr c "ops").map fun o =>
    match jstr o "op" with
    | "addFact" => .addFact (jstr o "id") (jstr o "v")
    | "addRule" => .addRule (jstr o "id") (jstr o "v")
    | "rem" => .rem (jstr o "id")
    | _ => .setProp (jstr o "id") (jstr o "v")
  let c0 : Cap := { maxFacts := jint c "max", store := [] }
  let rec go (s : Cap) : List CapOp → List (String × Nat) → Cap × List (String × Nat)
    | [], acc => (s, acc.reverse)
    | o :: os, acc => let r := s.step o; go r.1 os ((capOut r.2, r.1.count) :: acc)
  let r := go c0 ops []
  Json.mkObj [("outs", Json.arr (r.2.map fun p => Json.str p.1).toArray), ("sizes", natsJ (r.2.map (·.2))),
    ("ids", Json.arr (r.1.store.map fun kv => Json.str kv.1).toArray),
    ("public", Json.bool (ops.all Cap.CapOp.public))]

end C20D

def handleC20 (kind : String) (c : Json) : Json :=
  match kind with
  | "c20.breaker_seq" => C20D.breakerSeq c
  | "c20.slide" => C20D.slideOnly c
  | "c20.breaker_new" => C20D.breakerNew c
  | "c20.throttle" => C20D.throttle c
  | "c20.submit_loop" => C20D.submitLoopJ c
  | "c20.capacity" => C20D.capacity c
  | _ => Json.mkObj [("err", Json.str ("unknown kind " ++ kind))]

import Driver.JsonIO
open Lean

/-- model-side handler for cases whose "kind" starts with "c20." (stub until the property's slice lands) -/
def handleC20 (kind : String) (c : Json) : Json :=
  Json.mkObj [("err", Json.str ("unknown kind " ++ kind))]

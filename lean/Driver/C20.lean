import Driver.JsonIO
import RulioModel.Breaker
open Lean Gen.C20

/-! model-side handler for the `c20.*` kinds (driver glue, no theorem uses it) -/

namespace C20D

def natArr (c : Json) (k : String) : List Nat := (jarr c k).map fun j => (j.getNat?).toOption.getD 0
def jnat (c : Json) (k : String) : Nat := (jint c k).toNat
def natsJ (l : List Nat) : Json := Json.arr (l.map fun n => Json.num (JsonNumber.fromNat n)).toArray
def boolsJ (l : List Bool) : Json := Json.arr (l.map Json.bool).toArray

/-- start state of a script: given counts (or zeros), `updated = 0` -/
def startOB (c : Json) : OB :=
  let b := OB.init (jnat c "limit") (jnat c "interval")
  let b := if jhas c "counts" then { b with counts := natArr c "counts" } else b
  if jhas c "updated" then { b with updated := jnat c "updated" } else b

/-- cumulative times of a gap script -/
def cumul (t0 : Nat) : List Nat → List Nat
  | [] => []
  | g :: gs => (t0 + g) :: cumul (t0 + g) gs

/-- run with the explicit panics; stops at the first error -/
def runE (fixed : Bool) (b : OB) : List Nat → List (Bool × List Nat) → Except String (List (Bool × List Nat))
  | [], acc => .ok acc.reverse
  | t :: ts, acc =>
    -- `"fixed": true` runs the proposed repair (`OB.callFixed`) instead of the current code
    match (if fixed then (if b.ticks = 0 ∨ b.res = 0 then .error .divByZero else .ok (b.callFixed t)) else b.callE t) with
    | .error .divByZero => .error "divzero"
    | .error .indexRange => .error "index"
    | .ok (b', closed) => runE fixed b' ts ((closed, b'.counts) :: acc)

/-- specification, rate clause: no window `[t, t + W)` starting at an admission holds more than `limit` admissions -/
def specWindowOK (limit W : Nat) (adm : List Nat) : Bool :=
  adm.all fun a => (adm.filter fun t => a ≤ t && t < a + W).length ≤ limit

/-- specification, recovery clause: indices of refused calls although fewer than `limit` admissions lie in `(now - W, now]` -/
def specRecoveryMisses (limit W : Nat) (times : List Nat) (closed : List Bool) : List Nat :=
  go 0 times closed []
where
  go (i : Nat) : List Nat → List Bool → List Nat → List Nat
    | t :: ts, c :: cs, adm =>
      let recent := (adm.filter fun u => t < u + W).length
      let miss := !c && recent < limit
      let rest := go (i + 1) ts cs (if c then t :: adm else adm)
      if miss then i :: rest else rest
    | _, _, _ => []

/-- over-admission w.r.t. the declarative rule "admit iff fewer than limit admissions in the last W": indices admitted
although `limit` admissions already lie within `(now - W, now]` -/
def specOverAdmits (limit W : Nat) (times : List Nat) (closed : List Bool) : List Nat :=
  go 0 times closed []
where
  go (i : Nat) : List Nat → List Bool → List Nat → List Nat
    | t :: ts, c :: cs, adm =>
      let recent := (adm.filter fun u => t < u + W).length
      let over := c && limit ≤ recent
      let rest := go (i + 1) ts cs (if c then t :: adm else adm)
      if over then i :: rest else rest
    | _, _, _ => []

def gapsFast (res : Nat) (gaps : List Nat) : Bool := gaps.all (· < res)
def gapsSlow (res : Nat) (gaps : List Nat) : Bool := gaps.all fun g => g == 0 || res ≤ g

def breakerSeq (c : Json) : Json :=
  let b := startOB c
  let times := if jhas c "times" then natArr c "times" else cumul b.updated (natArr c "gaps")
  match runE (jbool c "fixed") b times [] with
  | .error e => Json.mkObj [("err", Json.str e)]
  | .ok steps =>
    let closed := steps.map (·.1)
    let adm := ((times.zip closed).filter (·.2)).map (·.1)
    let W := b.ticks * b.res
    let zeroStart := b.counts.all (· == 0)
    let gaps := (times.zip (b.updated :: times)).map fun p => p.1 - p.2
    Json.mkObj [
      ("closed", boolsJ closed),
      ("counts", Json.arr (steps.map fun s => natsJ s.2).toArray),
      ("final", natsJ ((steps.getLast?.map (·.2)).getD b.counts)),
      ("W", Json.num (JsonNumber.fromNat W)), ("res", Json.num (JsonNumber.fromNat b.res)),
      ("zero_start", Json.bool zeroStart),
      ("spec_window_ok", Json.bool (!zeroStart || specWindowOK b.limit W adm)),
      ("spec_recovery_misses", natsJ (if zeroStart then specRecoveryMisses b.limit W times closed else [])),
      ("spec_over_admits", natsJ (if zeroStart then specOverAdmits b.limit W times closed else [])),
      ("fast", Json.bool (gapsFast b.res (gaps.drop 1))),
      ("slow", Json.bool (gapsSlow b.res gaps))]

def slideOnly (c : Json) : Json :=
  let b := startOB c
  if b.ticks = 0 ∨ b.res = 0 then Json.mkObj [("err", Json.str "divzero")]
  else
    let b' := b.slide (b.updated + jnat c "gap")
    Json.mkObj [("counts", natsJ b'.counts), ("updated_is_now", Json.bool (b'.updated == b.updated + jnat c "gap"))]

def pcName : SPc → String
  | .idle => "idle" | .waiting => "waiting" | .overflow => "overflow" | .done => "done"

def throttle (c : Json) : Json :=
  let evs : List Thr.Ev := (jarr c "evs").map fun e =>
    match jstr e "ev" with
    | "sub" => .sub (jnat e "tid")
    | "disable" => .setDisabled (jbool e "on")
    | _ => .spawn
  let t0 := Thr.start (jnat c "pendingLimit") (jbool c "disabled") (jnat c "n")
  -- trace: pending and waiting after every event
  let rec go (t : Thr) : List Thr.Ev → List (Nat × Nat) → Thr × List (Nat × Nat)
    | [], acc => (t, acc.reverse)
    | e :: es, acc => let t' := t.ev e; go t' es ((t'.pending, t'.waiting) :: acc)
  let r := go t0 evs []
  -- class predicate of the known finding: an overflowing Submit that increments `pending` because the throttle is disabled
  let rec leaks (t : Thr) : List Thr.Ev → Nat
    | [] => 0
    | e :: es =>
      let here := match e with
        | .sub tid => if t.pcs[tid]? == some .idle && t.disabled && tooMany t.pendingLimit t.pending then 1 else 0
        | _ => 0
      here + leaks (t.ev e) es
  Json.mkObj [("leaks", Json.num (JsonNumber.fromNat (leaks t0 evs))),("pending", Json.num (JsonNumber.fromNat r.1.pending)), ("waiting", Json.num (JsonNumber.fromNat r.1.waiting)),
    ("pcs", Json.arr (r.1.pcs.map fun p => Json.str (pcName p)).toArray),
    ("trace_pending", natsJ (r.2.map (·.1))), ("trace_waiting", natsJ (r.2.map (·.2))),
    ("max_waiting", Json.num (JsonNumber.fromNat (r.2.foldl (fun m p => max m p.2) 0)))]

def bkind (j : Json) : BKind :=
  match jstr j "b" with
  | "outbound" => .outbound (jbool j "closed")
  | "simple" => .simple (jbool j "closed") (jbool j "disabled")
  | "comboDisabled" => .comboDisabled
  | _ => .combo (jbool j "closed")

def submitLoopJ (c : Json) : Json :=
  let st := (jarr c "st").map bkind
  let r := submitLoop (jnat c "attempts") st
  Json.mkObj [("runs", Json.num (JsonNumber.fromNat r.1)), ("worked", Json.bool r.2),
    ("faithful", Json.bool (st.all BKind.faithful))]

def capOut : CapOut → String
  | .ok => "ok" | .capacity => "capacity" | .notFound => "notFound"

def capacity (c : Json) : Json :=
  let ops : List CapOp := (jarr c "ops").map fun o =>
    match jstr o "op" with
    | "addFact" => .addFact (jstr o "id") (jstr o "v")
    | "addRule" => .addRule (jstr o "id") (jstr o "v")
    | "rem" => .rem (jstr o "id")
    | _ => .setProp (jstr o "id") (jstr o "v")
  let c0 : Cap := { maxFacts := jint c "max", store := [] }
  let rec go (s : Cap) : List CapOp → List (String × Nat) → Cap × List (String × Nat)
    | [], acc => (s, acc.reverse)
    | o :: os, acc => let r := s.step o; go r.1 os ((capOut r.2, r.1.count) :: acc)
  let r := go c0 ops []
  Json.mkObj [("outs", Json.arr (r.2.map fun p => Json.str p.1).toArray), ("sizes", natsJ (r.2.map (·.2))),
    ("ids", Json.arr (r.1.store.map fun kv => Json.str kv.1).toArray),
    ("public", Json.bool (ops.all Cap.CapOp.public))]

end C20D

def handleC20 (kind : String) (c : Json) : Json :=
  match kind with
  | "c20.breaker_seq" => C20D.breakerSeq c
  | "c20.slide" => C20D.slideOnly c
  | "c20.throttle" => C20D.throttle c
  | "c20.submit_loop" => C20D.submitLoopJ c
  | "c20.capacity" => C20D.capacity c
  | _ => Json.mkObj [("err", Json.str ("unknown kind " ++ kind))]

import Driver.JsonIO
import Driver.Loc
import RulioModel.CronHooksLoc
open Lean

/-! Model side of the C15 correspondence (kinds `c15.*`): the hooked Location model (`CronHooksLoc`) is run over the
history; the hook-level events it emits are replayed on the abstract machine (`CronHooks`, the one the theorems are
about); after every operation the driver reports both, the abstraction of the former, the fragment predicate
`Plain` of the theorems evaluated on the events, and per registry key the class of event that may have put it out
of step with the stored scheduled rules. -/

namespace C15

def keyJ (k : RegKey) : Json := match k.1 with | some l => Json.str l | none => Json.null

def regJ (r : Reg) : Json :=
  Json.arr (r.map (fun (k, e) => Json.arr #[keyJ k, Json.str k.2, Json.str e.sched, Json.str e.loc])).toArray

def trigS : Trig → String
  | .notRule => "notRule" | .noMatch => "noMatch" | .runs => "runs"

def itemsJ (its : Items) : Json :=
  Json.arr (its.map (fun (k, it) => Json.arr #[Json.str k.1, Json.str k.2, Json.str it.sched, Json.str (trigS it.trig)])).toArray

def evS : AEv → String
  | .add l i it => s!"add {l} {i} sched={it.sched} trig={trigS it.trig}"
  | .remTop l i => s!"remTop {l} {i}"
  | .drop l ids => s!"drop {l} {ids}"
  | .clear l => s!"clear {l}"
  | .load l docs => s!"load {l} {docs.map (fun d => (d.1, d.2.sched))}"
  | .cronReset => "cronReset"
  | .tick k en co => s!"tick {k.1}/{k.2} en={en} co={co}"

def sortS (l : List String) : List String := l.mergeSort (fun a b => !(b < a))

def itemsKey (its : Items) : List String :=
  sortS (its.map (fun (k, it) => s!"{k.1}\x00{k.2}\x00{it.sched}\x00{trigS it.trig}"))
def regKeyS (r : Reg) : List String :=
  sortS (r.map (fun (k, e) => s!"{k.1}\x00{k.2}\x00{e.sched}\x00{e.loc}"))

/-- which registry keys an event may put out of step with the stored scheduled rules, by class
(the complement of `Plain`, per key; side-effect deletions, Clear, Load and lost one-shots are tagged by the
hooked model itself, which knows why a fact disappeared) -/
def blame (a : ASys) : AEv → List (RegKey × String)
  | .add loc id it =>
    (match aGet a.items (loc, id) with
     | some old => if old.sched != "" && it.sched == "" then [(keyOf a.cfg loc id, "overwrite-unscheduled")] else []
     | none => []) ++
    (if !a.cfg.byLoc && it.sched != "" && a.items.any (fun p => p.1.2 == id && p.1.1 != loc && p.2.sched != "")
     then [((none, id), "shared-id")] else [])
  | .load loc docs =>
    if a.cfg.byLoc then [] else
    (docs.filter (fun d => d.2.sched != "" && a.items.any (fun p => p.1.2 == d.1 && p.1.1 != loc && p.2.sched != ""))).map
      (fun d => ((none, d.1), "shared-id"))
  | _ => []

structure DS where
  cs : CS
  a : ASys
  names : List String
  plain : Bool := true
  blames : List (RegKey × String) := []
  nlog : Nat := 0
  ntags : Nat := 0
  ncalls : Nat := 0

def snapJ (cs : CS) (names : List String) : Json :=
  Json.mkObj (names.filterMap (fun n => (cs.sys.get? n).map (fun l => (n, snapshotJ l))))

def tagsJ (l : List (RegKey × String)) : Json :=
  Json.arr (l.map (fun (k, c) => Json.arr #[keyJ k, Json.str k.2, Json.str c])).toArray

/-- replay the events emitted since the last operation on the abstract machine; report -/
def settle (d : DS) (out : Json) : DS × Json :=
  let newEvs := d.cs.log.drop d.nlog
  let newTags := d.cs.tags.drop d.ntags
  let (a, plainStep, bl) := newEvs.foldl (fun (acc : ASys × Bool × List (RegKey × String)) ev =>
    let (a, p, bl) := acc
    (step a ev, p && Plain a ev, bl ++ blame a ev)) (d.a, true, [])
  let absB : Items := d.names.flatMap (fun n => match d.cs.sys.get? n with | some l => absLoc l | none => [])
  let absOK := itemsKey absB == itemsKey a.items
  let regOK := regKeyS d.cs.reg == regKeyS a.reg
  let specEq := regKeyS a.reg == regKeyS (storedList a)
  let plain := d.plain && plainStep
  let blames := d.blames ++ bl ++ newTags
  let aj := Json.mkObj ([
    ("absOK", Json.bool absOK), ("regOK", Json.bool regOK), ("plain", Json.bool plain), ("specEq", Json.bool specEq),
    ("events", Json.arr (newEvs.map (fun e => Json.str (evS e))).toArray),
    ("stored", regJ (storedList a))] ++
    (if absOK && regOK then [] else [("items", itemsJ a.items), ("absB", itemsJ absB), ("reg", regJ a.reg)]))
  let out := out.setObjVal! "reg" (regJ d.cs.reg) |>.setObjVal! "snap" (snapJ d.cs d.names)
    |>.setObjVal! "a" aj |>.setObjVal! "blame" (tagsJ blames) |>.setObjVal! "odd" (Json.bool d.cs.odd)
    |>.setObjVal! "calls" (Json.arr ((d.cs.calls.drop d.ncalls).map (fun c => Json.arr (c.map Json.str).toArray)).toArray)
  ({ d with a := a, plain := plain, blames := blames, nlog := d.cs.log.length, ntags := d.cs.tags.length,
             ncalls := d.cs.calls.length }, out)

def withExpires (op : Json) (o : Obj) (now : Int) : Obj :=
  if jhas op "expiresIn" then Obj.set o "expires" (.num (now + jint op "expiresIn")) else o

def stepC15 (d : DS) (op : Json) : DS × Json :=
  let n := jstr op "loc"
  let now := jint op "now"
  let c : Ctx := {}
  let id := jstr op "id"
  let cfg := d.cs.cfg
  let fin (cs : CS) (out : Json) : DS × Json := settle { d with cs := cs } out
  match jstr op "op" with
  | "addFact" =>
    if !jobjOK op "fact" then fin d.cs (errJ "input") else
    let (cs, r) := d.cs.at n (hAddFact cfg c id (withExpires op (jobj op "fact") now) now); fin cs (res r Json.str)
  | "addRule" =>
    if !jobjOK op "rule" then fin d.cs (errJ "input") else
    let (cs, r) := d.cs.at n (hAddRule cfg c id (withExpires op (jobj op "rule") now) now); fin cs (res r Json.str)
  | "remFact" => let (cs, r) := d.cs.at n (hRemFact cfg c id now); fin cs (res r Json.str)
  | "remRule" => let (cs, r) := d.cs.at n (hRemRule cfg c id now); fin cs (res r Json.str)
  | "enableRule" =>
    let (cs, r) := d.cs.at n (hEnableRule cfg c id (jbool op "enable") now); fin cs (res r (fun _ => Json.bool true))
  | "clear" => let (cs, r) := d.cs.at n (hClear cfg c now); fin cs (res r (fun _ => Json.bool true))
  -- `Location.Delete` → `State.Delete`: the guards, hooks and the emptied state of `Clear` (the storage of the location goes too,
  -- which no later operation can tell from an emptied one)
  | "deleteLoc" => let (cs, r) := d.cs.at n (hClear cfg c now); fin cs (res r (fun _ => Json.bool true))
  | "reload" => let (cs, r) := hReload d.cs n now; fin cs (res r (fun _ => Json.bool true))
  | "restart" => let (cs, r) := hRestart d.cs d.names now; fin cs (res r (fun _ => Json.bool true))
  | "sleep" => fin d.cs (okJ (Json.bool true))
  | "fireAll" =>
    -- the wall clock passes every schedule: each registered job fires (oldest registration first)
    let cs := (d.cs.reg.reverse.map (·.1)).foldl (fun cs k => (hTick cs k now).1) d.cs
    fin cs (okJ (Json.bool true))
  | "tick" =>
    let key : RegKey := if cfg.byLoc then (some n, id) else (none, id)
    let (cs, t) := hTick d.cs key now
    let out := Json.mkObj ([("fired", Json.bool t.fired)] ++
      (if t.fired then [("sched", Json.str t.sched), ("loc", Json.str t.loc)] else []) ++
      (match t.tree with | some tr => [("tree", treeJ tr)] | none => []) ++
      (match t.done with | some e => [("done", Json.str e)] | none => []))
    fin cs out
  | _ =>
    -- operations that call no top-level Add/Rem (reads, ordinary events): the hook-free model; facts may expire
    match d.cs.sys.get? n with
    | none => fin d.cs (errJ "notFound")
    | some l =>
      let (sys', out) := stepOp d.cs.sys op
      let cs1 := { d.cs with sys := sys' }
      match sys'.get? n with
      | none => fin cs1 out
      | some l' =>
        let h := logGone cfg { loc := l', reg := cs1.reg, log := cs1.log, tags := cs1.tags, calls := cs1.calls, odd := cs1.odd } l.st.facts "" now
        fin { cs1 with log := h.log, tags := h.tags } out

def handleHist (c : Json) : Json :=
  let kind := if jstr c "state" == "linear" then Kind.linear else Kind.indexed
  let names := (jarr c "locs").filterMap (fun j => j.getStr?.toOption)
  let names := if names.isEmpty then ["A"] else names
  let cj := jget c "cron"
  let cfg : CronCfg := if jstr c "mode" == "real" then ⟨false, false⟩ else ⟨jbool cj "persistent", jbool cj "byLoc"⟩
  let sys0 : Sys := names.map (fun n => (n, { name := n, st := { kind := kind }, maxFacts := 1000 }))
  let d0 : DS := { cs := { sys := sys0, cfg := cfg }, names := names,
                   a := ASys.init (match kind with | .linear => .linear | .indexed => .indexed) cfg }
  let (_, outs) := (jarr c "ops").foldl (fun (acc : DS × List Json) op =>
    let (d, o) := stepC15 acc.1 op
    (d, acc.2 ++ [o])) (d0, [])
  Json.mkObj [("outs", Json.arr outs.toArray)]

end C15

/-- model-side handler for cases whose "kind" starts with "c15." -/
def handleC15 (kind : String) (c : Json) : Json :=
  match kind with
  | "c15.hist" | "c15.sys" => C15.handleHist c
  | _ => Json.mkObj [("err", Json.str ("unknown kind " ++ kind))]

import Driver.JsonIO
import RulioModel.CronTimeline
import RulioModel.Crolt
open Lean

/-! Model-side handler for C16 (driver glue; not used by any theorem).

* `c16.tl`    — the op sequence of the harness on `CronM`, with clock 1000 (between the coded past and future due times);
                when the loop is started the timer contract is applied after every op (`settle`).
* `c16.wall`  — timed scenario: the model is run in closed loop with the timer contract ("an armed timer is delivered at
                its target") and `Fn` durations; prints the predicted fires and the event trace.
* `c16.crolt` — the service's transactions with the due times the implementation chose. -/

namespace C16D
open CronM

def idOf (ids : List String) (s : String) : Nat := (ids.findIdx? (· == s)).getD ids.length
def idName (ids : List String) (n : Nat) : String := ids.getD n ("#" ++ toString n)

def collectIds (ops : List Json) : List String :=
  ops.foldl (fun acc o => let i := jstr o "id"; if i != "" && !acc.contains i then acc ++ [i] else acc) []

def jnat (j : Json) (k : String) : Nat := (jint j k).toNat

/-- timer contract + immediate `Fn`s: deliver the armed timer while its target has come, complete in-flight jobs at once -/
def settle : Nat → Cron → Cron
  | 0, s => s
  | fuel + 1, s =>
    match s.inflight with
    | j :: _ => settle fuel (step s (.done j.serial))
    | [] =>
      if s.paused then s else
      match s.armed with
      | some t => if t ≤ s.clock then settle fuel (step s .tick) else s
      | none => s

def tlJson (ids : List String) (tl : List Job) : Json :=
  Json.arr (tl.map (fun j => Json.arr #[Json.str (idName ids j.id), Json.num (JsonNumber.fromNat j.next)])).toArray

def firedJson (ids : List String) (log : List Fire) : Json :=
  Json.arr (log.reverse.map (fun f => Json.arr #[Json.str (idName ids f.id), Json.num (JsonNumber.fromNat f.serial)])).toArray

def sortedB (tl : List Job) : Bool :=
  match tl with
  | [] => true
  | j :: rest => rest.all (fun x => j.next ≤ x.next) && sortedB rest

def uniqueB (tl : List Job) : Bool :=
  match tl with
  | [] => true
  | j :: rest => rest.all (fun x => x.id != j.id) && uniqueB rest

def doTl (c : Json) : Json :=
  let ops := jarr c "ops"
  let ids := collectIds ops
  let started := jbool c "started"
  let s0 : Cron := { init (jnat c "limit") with clock := 1000 }
  let s0 := if started then settle 100 s0 else s0
  let (_, outs) := ops.foldl (fun (acc : Cron × List Json) o =>
    let (s, outs) := acc
    let id := idOf ids (jstr o "id")
    let (s', extra) : Cron × List (String × Json) := match jstr o "op" with
      | "add" =>
        let j : Job := ⟨id, jnat o "due", jnat o "period", s.serial⟩
        let r := schedule { s with serial := s.serial + 1 } j true
        (r.1, if r.2 then [] else [("adderr", Json.bool true)])
      | "rem" => (step s (.rem id), [("found", Json.bool (remFound s id))])
      | "suspend" | "bsuspend" => (if started then step s .suspend else s, [])
      | "resume" | "bresume" => (if started then step s .resume else s, [])
      | "pause" => (if started then step (settle 100 (step s .pauseBegin)) .pauseEnd else s, [])
      | _ => (s, [("err", Json.str "op")])
    let s' := if started then settle 100 s' else s'
    let out := Json.mkObj ([("tl", tlJson ids s'.tl), ("pending", Json.num (JsonNumber.fromNat s'.tl.length)),
      ("fired", firedJson ids s'.log), ("sorted", Json.bool (sortedB s'.tl)), ("unique", Json.bool (uniqueB s'.tl))] ++ extra)
    (s', outs ++ [out])) (s0, [])
  Json.mkObj [("outs", Json.arr outs.toArray)]

/-! ### timed simulation -/

structure Sim where
  s : Cron
  /-- serial ↦ duration of `Fn` -/
  durs : List (Nat × Nat) := []
  /-- (serial, time at which `Fn` returns) -/
  running : List (Nat × Nat) := []
  pauseEnd : Option Nat := none
  near : Nat := 0
  events : List (Nat × String) := []
  found : List Json := []

def advanceTo (s : Cron) (t : Nat) : Cron := if s.clock < t then step s (.advance (t - s.clock)) else s

def minBy (l : List (Nat × Nat)) : Option (Nat × Nat) :=
  l.foldl (fun acc e => match acc with | none => some e | some a => if e.2 < a.2 then some e else some a) none

/-- internal events (done / pause end / timer) up to time `limit` (exclusive when `strict`) -/
def internal (pauseMs : Nat) : Nat → Sim → Nat → Sim
  | 0, sim, _ => sim
  | fuel + 1, sim, limit =>
    let tD := minBy sim.running
    let tT : Option Nat := if sim.s.paused then none else sim.s.armed.map (fun t => max t sim.s.clock)
    -- choose the earliest; order at equal times: done, pause end, timer
    let cand : List (Nat × Nat) := (match tD with | some (_, t) => [(0, t)] | none => []) ++
      (match sim.pauseEnd with | some t => [(1, t)] | none => []) ++ (match tT with | some t => [(2, t)] | none => [])
    match minBy cand with
    | none => sim
    | some (kind, t) =>
      if t ≥ limit then sim else
      let s := advanceTo sim.s t
      if kind == 0 then
        match tD with
        | some (k, _) =>
          internal pauseMs fuel { sim with s := step s (.done k), running := sim.running.filter (fun e => e.1 != k),
                                           events := sim.events ++ [(t, "done")] } limit
        | none => sim
      else if kind == 1 then
        internal pauseMs fuel { sim with s := step s .pauseEnd, pauseEnd := none, events := sim.events ++ [(t, "pauseEnd")] } limit
      else
        let n0 := s.log.length
        let s' := step s .tick
        -- a delivery that finds the head not ready, but due within `near`: the real outcome depends on the timer latency
        let miss := match s'.tl.head? with
          | some h => s'.log.length == n0 && s.clock < h.next && h.next - s.clock < sim.near
          | none => false
        let sim' := { sim with s := s', events := sim.events ++ [(t, if s'.log.length > n0 then "fire" else if miss then "nearmiss" else "tick")] }
        -- a popped job starts running
        let sim' := if s'.log.length > n0 then
            match s'.log.head? with
            | some f => { sim' with running := sim'.running ++ [(f.serial, t + ((sim.durs.lookup f.serial).getD 0))] }
            | none => sim'
          else sim'
        internal pauseMs fuel sim' limit

/-- The specification the faithful model is compared with, independent of the regenerated flags. `fa`: the timer is armed for
the head whenever the loop is neither suspended nor paused (Rem re-arms; a delivery that finds nothing ready re-arms) — what the
property demands; the code before the repair of rem-head-disarms did not. `fb`: Rem/replace also cancels the re-scheduling of a
running job with that id and reports it as found (rem-in-flight). With both off this is the faithful model (the code as
extracted); on the repaired code all three predict the same fires. -/
def fixArm (fa : Bool) (s : Cron) : Cron :=
  if fa && !s.suspended && !s.paused then { s with armed := rearm s.tl } else s

def dropRunning (fb : Bool) (id : Nat) (s : Cron) : Cron :=
  if fb then { s with inflight := s.inflight.filter (fun j => j.id != id), running := s.running.filter (fun j => j.id != id) } else s

/-- the `found` result of `Rem`: in the specification a recurring job whose `Fn` is running counts as found -/
def foundB (fb : Bool) (id : Nat) (s : Cron) : Bool :=
  if fb then hasJob id s.tl || s.inflight.any (fun j => j.id == id && j.period != 0) else remFound s id

/-- internal events with the optional repair of the timer -/
def internalF (fa : Bool) (pauseMs : Nat) : Nat → Sim → Nat → Sim
  | 0, sim, _ => sim
  | fuel + 1, sim, limit =>
    let sim1 := internal pauseMs 1 sim limit
    if sim1.events.length == sim.events.length then sim1
    else
      let last := sim1.events.getLast?.map (·.2)
      let sim1 := if last == some "tick" || last == some "nearmiss" then { sim1 with s := fixArm fa sim1.s } else sim1
      internalF fa pauseMs fuel sim1 limit

def simulate (c : Json) (fa fb : Bool) : Sim × List String :=
  let ops := jarr c "ops"
  let ids := collectIds ops
  let pauseMs := jnat c "pause_ms"
  let clock0 := jnat c "clock0"
  let horizon := jnat c "horizon"
  let s0 : Cron := { init (jnat c "limit") with clock := clock0 }
  let sim0 : Sim := { s := s0, near := jnat c "near" }
  let sim0 := internalF fa pauseMs 50 sim0 (clock0 + 1)   -- the initial 0 s timer
  let sim := ops.foldl (fun (sim : Sim) o =>
    let t := clock0 + jnat o "t"
    let sim := internalF fa pauseMs 1000 sim t
    let s := advanceTo sim.s t
    let id := idOf ids (jstr o "id")
    let sim := { sim with s := s, events := sim.events ++ [(t, "op:" ++ jstr o "op")] }
    let sim := match jstr o "op" with
    | "add" =>
      let period := jnat o "period"
      let due := if period == 0 then t + jnat o "delay" else 0
      let j : Job := ⟨id, due, period, s.serial⟩
      let r := schedule { (dropRunning fb id s) with serial := s.serial + 1 } j true
      { sim with s := r.1, durs := (s.serial, jnat o "dur") :: sim.durs,
                 found := sim.found ++ [Json.mkObj [("adderr", Json.bool (!r.2)), ("inflight", Json.bool (s.inflight.any (fun j => j.id == id)))]] }
    | "rem" =>
      { sim with s := fixArm fa (dropRunning fb id (step s (.rem id))),
                 found := sim.found ++ [Json.mkObj [("found", Json.bool (foundB fb id s)), ("inflight", Json.bool (s.inflight.any (fun j => j.id == id))),
                   ("serial", Json.num (JsonNumber.fromNat s.serial))]] }
    | "suspend" | "bsuspend" => { sim with s := step s .suspend, found := sim.found ++ [Json.mkObj []] }
    | "resume" | "bresume" => { sim with s := step s .resume, found := sim.found ++ [Json.mkObj []] }
    | "pause" => { sim with s := step s .pauseBegin, pauseEnd := some (t + pauseMs), found := sim.found ++ [Json.mkObj []] }
    | _ => sim
    -- what the operation triggers at once (a timer armed for a time already past, an instantaneous Fn) happens before the next operation
    internalF fa pauseMs 1000 sim (t + 1)) sim0
  (internalF fa pauseMs 1000 sim (clock0 + horizon), ids)

def firesJson (ids : List String) (clock0 : Nat) (log : List Fire) : Json :=
  Json.arr (log.reverse.map (fun f => Json.mkObj [("id", Json.str (idName ids f.id)), ("serial", Json.num (JsonNumber.fromNat f.serial)),
      ("t", Json.num (JsonNumber.fromInt ((f.time : Int) - clock0))), ("due", Json.num (JsonNumber.fromInt ((f.due : Int) - clock0))),
      ("period", Json.num (JsonNumber.fromNat f.period))])).toArray

def doWall (c : Json) : Json :=
  let clock0 := jnat c "clock0"
  let (sim, ids) := simulate c false false
  let (simA, _) := simulate c true false
  let (simAB, _) := simulate c true true
  let key (s : Sim) := s.s.log.map (fun f => (f.id, f.serial, f.time))
  Json.mkObj [("fires", firesJson ids clock0 sim.s.log), ("ops", Json.arr sim.found.toArray),
    ("pending", Json.num (JsonNumber.fromNat sim.s.tl.length)),
    ("tl", Json.arr (sim.s.tl.map (fun j => Json.arr #[Json.str (idName ids j.id), Json.num (JsonNumber.fromInt ((j.next : Int) - clock0))])).toArray),
    ("armed", match sim.s.armed with | some t => Json.num (JsonNumber.fromInt ((t : Int) - clock0)) | none => Json.null),
    ("suspended", Json.bool sim.s.suspended),
    ("stuck", Json.bool (sim.s.armed.isNone && !sim.s.tl.isEmpty && !sim.s.suspended && !sim.s.paused)),
    ("spec_fires", firesJson ids clock0 simAB.s.log), ("spec_ops", Json.arr simAB.found.toArray),
    ("spec_pending", Json.num (JsonNumber.fromNat simAB.s.tl.length)),
    ("class_disarm", Json.bool (key sim != key simA || sim.s.tl.length != simA.s.tl.length)),
    ("class_inflight", Json.bool (key simA != key simAB || simA.s.tl.length != simAB.s.tl.length ||
        simA.found.map (fun j => jbool j "found") != simAB.found.map (fun j => jbool j "found"))),
    ("events", Json.arr (sim.events.map (fun e => Json.arr #[Json.num (JsonNumber.fromInt ((e.1 : Int) - clock0)), Json.str e.2])).toArray)]

/-! ### crolt -/

open Crolt in
def jobOfJson (o : Json) : Crolt.Job :=
  let tid : Option TId := match jget o "tid" with
    | .arr a => if a.size == 2 then some ⟨(a[0]!.getNat?).toOption.getD 0, (a[1]!.getNat?).toOption.getD 0⟩ else none
    | _ => none
  ⟨jnat o "aid", tid, jbool o "isDur", jbool o "once", jbool o "evict"⟩

open Crolt in
def jobJson (j : Crolt.Job) : Json :=
  Json.mkObj [("aid", Json.num (JsonNumber.fromNat j.aid)),
    ("tid", match j.tid with | some t => Json.arr #[Json.num (JsonNumber.fromNat t.ts), Json.num (JsonNumber.fromNat t.aid)] | none => Json.null),
    ("once", Json.bool j.once), ("evict", Json.bool j.evict)]

open Crolt in
def binvB (db : DB) : Bool :=
  db.jobs.all (fun (a, j) => j.aid == a && (match j.tid with | some t => t.aid == a && get t db.time == some j | none => false)) &&
  db.time.all (fun (t, j) => j.tid == some t && t.aid == j.aid && get j.aid db.jobs == some j)

open Crolt in
def doCrolt (c : Json) : Json :=
  let ops := jarr c "ops"
  let (_, outs) := ops.foldl (fun (acc : DB × List Json) o =>
    let (db, outs) := acc
    let (db', extra) : DB × List (String × Json) := match jstr o "op" with
      | "add" => let r := add db (jobOfJson o) (jnat o "ts"); (r.1, [("ok", Json.bool r.2)])
      | "addCommit" => (addCommit db (jobOfJson o) (jnat o "ts"), [])
      | "delete" => (delete db (jnat o "aid"), [])
      | "work" =>
        let sel := (jarr o "sel").map (fun e => ((⟨jnat e "ts", jnat e "aid"⟩ : TId), jnat e "newts"))
        (work db (jnat o "now") sel, [])
      | _ => (db, [])
    let jobs := db'.jobs.map (fun (a, j) => Json.arr #[Json.num (JsonNumber.fromNat a), jobJson j])
    let time := db'.time.map (fun (t, j) => Json.arr #[Json.num (JsonNumber.fromNat t.ts), Json.num (JsonNumber.fromNat t.aid), jobJson j])
    let nfired := db'.log.length - db.log.length
    let fired := (db'.log.take nfired).reverse.map (fun f => Json.arr #[Json.num (JsonNumber.fromNat f.aid), Json.num (JsonNumber.fromNat f.due)])
    let out := Json.mkObj ([("jobs", Json.arr jobs.toArray), ("time", Json.arr time.toArray), ("fired", Json.arr fired.toArray),
      ("binv", Json.bool (binvB db'))] ++ extra)
    (db', outs ++ [out])) (({} : DB), [])
  Json.mkObj [("outs", Json.arr outs.toArray)]

end C16D

/-- model-side handler for cases whose "kind" starts with "c16." -/
def handleC16 (kind : String) (c : Json) : Json :=
  match kind with
  | "c16.tl" => C16D.doTl c
  | "c16.wall" => C16D.doWall c
  | "c16.crolt" => C16D.doCrolt c
  | "c16.crolt.jitter" =>
    -- `Cron.Jitter` as extracted: the result lies in [-sub, max - sub)
    Json.mkObj [("sub", Json.num (JsonNumber.fromNat (C16Gen.jitterSub (C16D.jnat c "max"))))]
  | _ => Json.mkObj [("err", Json.str ("unknown kind " ++ kind))]

import Driver.JsonIO
open Lean

/-- model-side handler for cases whose "kind" starts with "c19." (stub until the property's slice lands) -/
def handleC19 (kind : String) (c : Json) : Json :=
  Json.mkObj [("err", Json.str ("unknown kind " ++ kind))]

import Driver.JsonIO
import RulioModel.Match
import RulioModel.MatchIneq
import RulioModel.MatchSpec
import Driver.Loc
import Driver.Pidx
import Driver.C01
import Driver.C02
import Driver.C03
import Driver.C04
import Driver.C06
import Driver.C07
import Driver.C08
import Driver.C09
import Driver.C10
import Driver.C11
import Driver.C12
import Driver.C13
import Driver.C14
import Driver.C15
import Driver.C16
import Driver.C17
import Driver.C18
import Driver.C19
import Driver.C20
open Lean

def errName : MErr → String
  | .propVarWithOthers => "propVarWithOthers"
  | .repeatedVar => "repeatedVar"
  | .multiVar => "multiVar"
  | .nonGround => "nonGround"

/-- C05: a pattern whose maps are written as `{"o":[[k,v],…]}` (arrays as `{"a":[…]}`), so that the caller
chooses the order of the key/value pairs the model walks through (Lean's `Json.obj` is sorted by key) -/
partial def ofOrdered : Json → Except String J
  | .obj kvs =>
    match kvs.toList with
    | [("o", .arr ps)] => do
      let ys ← ps.toList.mapM (fun kv => match kv with
        | .arr #[.str k, v] => do let v' ← ofOrdered v; pure (k, v')
        | _ => .error "ordered:pair")
      pure (.obj ys)
    | [("a", .arr xs)] => do let ys ← xs.toList.mapM ofOrdered; pure (.arr ys)
    | _ => .error "ordered:obj"
  | .arr _ => .error "ordered:arr"
  | j => J.ofJson j

def doMatch (c : Json) : Json :=
  match (do
    let p ← if jhas c "po" then ofOrdered (jget c "po") else jJ c "p"
    let d ← jJ c "d"; let b ← jJ c "bs"
    let bs : Bs := match b with | .obj kvs => kvs | _ => []
    pure (p, d, bs) : Except String (J × J × Bs)) with
  | .error e => Json.mkObj [("err", Json.str ("input:" ++ e))]
  | .ok (p, d, bs) =>
    -- inequality variables (`RulioModel/MatchIneq.lean`) are unknown to the specification: outside the fragment
    let ineq := !noIneqVars p
    let frag := patOK p && dataOK d && bs.all (fun kv => kv.2.ground) && !ineq
    let nvars := (varsOf p).length   -- occurrences: scalarRepeats renames them apart
    -- the brute-force spec is exponential in the number of variables: only evaluated on small cases
    let small := nvars ≤ 4 && ((dedupJ (subvalues d)).length + 1) ^ nvars ≤ 20000
    let rep := if small then scalarRepeats p d bs else false
    let extra := [("frag", Json.bool frag), ("small", Json.bool small), ("rep", Json.bool rep), ("ineq", Json.bool ineq)] ++
      (if small && frag then [("spec", Json.arr ((specMatch p d bs).map bsToJson).toArray)] else [])
    -- the model output is the faithful matcher `matchJI` (= `matchJ` when `ineq` is false: `ineq_conservative`)
    match matchJI p d bs with
    | .error e => Json.mkObj ([("err", Json.str (errName e))] ++ extra)
    | .ok bss => Json.mkObj ([("bss", Json.arr (bss.map bsToJson).toArray)] ++ extra)

def handle (line : String) : String :=
  match Json.parse line with
  | .error e => (Json.mkObj [("err", Json.str ("parse:" ++ e))]).compress
  | .ok c =>
    let out := match jstr c "kind" with
      | "match" => doMatch c
      | "bind" =>
        (match (do let p ← jJ c "p"; let b ← jJ c "bs"; pure (p, b) : Except String (J × J)) with
         | .ok (p, .obj bs) => Json.mkObj [("ok", J.toJson (subst bs p))]
         | .ok (p, _) => Json.mkObj [("ok", J.toJson p)]
         | .error e => Json.mkObj [("err", Json.str ("input:" ++ e))])
      | "loc" => handleLoc c
      | "pidx" => handlePidx c
      | "terms" => handleTerms c
      | "tidx" => handleTidx c
      | k =>
        let tbl : List (String × (String → Json → Json)) := [("c01", handleC01), ("c02", handleC02), ("c03", handleC03), ("c04", handleC04), ("c06", handleC06), ("c07", handleC07), ("c08", handleC08), ("c09", handleC09), ("c10", handleC10), ("c11", handleC11), ("c12", handleC12), ("c13", handleC13), ("c14", handleC14), ("c15", handleC15), ("c16", handleC16), ("c17", handleC17), ("c18", handleC18), ("c19", handleC19), ("c20", handleC20)]
        match tbl.find? (fun (e : String × (String → Json → Json)) => k.startsWith (e.1 ++ ".")) with
        | some e => e.2 k c
        | none => Json.mkObj [("err", Json.str ("unknown kind " ++ k))]
    out.compress

partial def loop (h : IO.FS.Stream) (out : IO.FS.Stream) : IO Unit := do
  let line ← h.getLine
  if line.isEmpty then return ()
  out.putStrLn (handle line)
  loop h out

def main : IO Unit := do
  let i ← IO.getStdin
  let o ← IO.getStdout
  loop i o

import Driver.JsonIO
import RulioModel.Spec
import RulioModel.Subst
open Lean

/-! Model-side execution of location histories (kind "loc"). One case = one history; one result per op. -/

def okJ (j : Json) : Json := Json.mkObj [("ok", j)]
def errJ (e : String) : Json := Json.mkObj [("err", Json.str e)]
def objJ (o : Obj) : Json := J.toJson (.obj o)
def strsJ (l : List String) : Json := Json.arr (l.map Json.str).toArray

def foundJ (l : List (String × Obj × List Bs)) : Json :=
  Json.arr (l.map (fun (id, _, bss) => Json.mkObj [("id", Json.str id), ("bss", Json.arr (bss.map bsToJson).toArray)])).toArray
def found2J (l : List (String × List Bs)) : Json :=
  Json.arr (l.map (fun (id, bss) => Json.mkObj [("id", Json.str id), ("bss", Json.arr (bss.map bsToJson).toArray)])).toArray

def jobj (j : Json) (k : String) : Obj :=
  match J.ofJson (jget j k) with | .ok (.obj o) => o | _ => []
def jobjOK (j : Json) (k : String) : Bool :=
  match J.ofJson (jget j k) with | .ok (.obj _) => true | _ => false

def res {α} (r : Except LErr α) (f : α → Json) : Json :=
  match r with | .ok a => okJ (f a) | .error e => errJ e

def treeJ (t : Tree) : Json :=
  Json.mkObj [
    ("err", match t.err with | some e => Json.str e | none => Json.null),
    ("aborted", Json.bool t.aborted),
    ("rules", Json.arr (t.rules.map (fun r => Json.mkObj [
      ("id", Json.str r.id),
      ("bss", Json.arr (r.bss.map bsToJson).toArray),
      ("conds", Json.arr (r.conds.map (fun c => Json.mkObj [
        ("bs", bsToJson c.bs),
        ("err", match c.err with | some e => Json.str e | none => Json.null),
        ("acts", Json.arr (c.acts.map (fun a => Json.mkObj [("ok", Json.bool a.ok), ("value", J.toJson a.value)])).toArray)])).toArray)])).toArray),
    ("values", Json.arr (t.values.map J.toJson).toArray)]

/-- inherited fact search as a pure function of the current system (used by queries) -/
def srchOf (sys : Sys) (c : Ctx) (n : String) (now : Int) : Srch := fun p =>
  match (sysSearchFacts sys c n p true now).2 with
  | .ok found => .ok (found.flatMap (fun (_, _, bss) => bss))
  | .error e => .error e

def snapshotJ (l : Loc) : Json :=
  Json.mkObj [
    ("facts", Json.mkObj (l.st.facts.map (fun (id, f) => (id, objJ f)))),
    ("store", Json.mkObj (l.st.store.map (fun (id, d) => (id, J.toJson d))))]

/-- all ancestors' (and own) facts, for the dispatch specification -/
def specDispatch (sys : Sys) (n : String) (ev : Obj) (now : Int) : Json :=
  match doAncestors (ancestorFuel sys) sys n now (fun _ => do let l ← LM.get; pure (l.name, l.st.facts)) [] with
  | (_, .error e) => errJ e
  | (_, .ok locs) =>
    let ownFacts := match sys.get? n with | some l => l.st.facts | none => []
    let r : Except LErr (List (String × List Bs)) := do
      -- the SET of ancestors: a location reached along two chains of parents is one location
      let each := locs.foldl (fun acc x => if acc.any (fun y => y.1 == x.1) then acc else acc ++ [x]) []
      let per ← each.mapM (fun (_, facts) => specDispatchLocal facts ev now)
      pure (per.flatten.filter (fun (id, _) => !ruleDisabled ownFacts id now))
    match r with
    | .ok l => okJ (found2J l)
    | .error e => errJ e

/-- Effects of `Env.AddFact` / `Env.AddRule` / `Env.RemFact` actions (templates "addfact", "addrule", "remfact"), applied in walk order after the pure event model ran:
a refused add (write key, capacity, disabled …) makes the script throw, i.e. the action node fails. -/
def applyEffects (sys : Sys) (c : Ctx) (n : String) (now : Int) (cands : List (String × RuleM × Bool)) (t : Tree) : Sys × Tree :=
  let actionsOf (id : String) : List J := match cands.find? (fun x => x.1 == id) with | some (_, r, _) => r.actions | none => []
  let stepAct (acc : Sys × List ActNode) (pa : ActNode × J) : Sys × List ActNode :=
    let (a, act) := pa
    let tmpl := match act with | .obj o => (Obj.get? o "verif_tmpl").getD .null | _ => .null
    match tmpl with
    | .obj o =>
      if a.ok && Obj.get? o "t" == some (.str "addfact") then
        let id := match Obj.get? o "id" with | some (.str i) => i | _ => ""
        let fact := match Obj.get? o "fact" with | some (.obj f) => f | _ => []
        match acc.1.at n (locAddFact c id fact now) with
        -- the script's value is the id AddFact answers with (a property fact answers with its derived id, whatever id was given)
        | (s1, .ok rid) => (s1, acc.2 ++ [{ a with value := .str rid }])
        | (s1, .error _) => (s1, acc.2 ++ [{ ok := false, value := .null }])
      else if a.ok && Obj.get? o "t" == some (.str "addrule") then
        let id := match Obj.get? o "id" with | some (.str i) => i | _ => ""
        let rule := match Obj.get? o "rule" with | some (.obj f) => f | _ => []
        match acc.1.at n (locAddRule c id rule now) with
        | (s1, .ok rid) => (s1, acc.2 ++ [{ a with value := .str rid }])
        | (s1, .error _) => (s1, acc.2 ++ [{ ok := false, value := .null }])
      else if a.ok && Obj.get? o "t" == some (.str "remfact") then
        let id := match Obj.get? o "id" with | some (.str i) => i | _ => ""
        match acc.1.at n (locRemFact c id now) with
        | (s1, .ok _) => (s1, acc.2 ++ [a])
        | (s1, .error _) => (s1, acc.2 ++ [{ ok := false, value := .null }])
      else (acc.1, acc.2 ++ [a])
    | _ => (acc.1, acc.2 ++ [a])
  let (sys', rules') := t.rules.foldl (fun (acc : Sys × List RuleNode) r =>
    let acts := actionsOf r.id
    let (s1, conds') := r.conds.foldl (fun (acc2 : Sys × List CondNode) cn =>
      let paired := cn.acts.zipIdx.map (fun (a, i) => (a, acts.getD (if acts.length == 0 then 0 else i % acts.length) .null))
      let (s2, acts') := paired.foldl stepAct (acc2.1, [])
      (s2, acc2.2 ++ [{ cn with acts := acts' }])) (acc.1, [])
    (s1, acc.2 ++ [{ r with conds := conds' }])) (sys, [])
  let vals := rules'.flatMap (fun r => r.conds.flatMap (fun cn => (cn.acts.filter (·.ok)).map (·.value)))
  (sys', { t with rules := rules', values := vals })

/-! ### actions with an HTTP endpoint (template "post")

`getActionFunc` POSTs `{"bindings": bs, "opts": a.Opts, "code": C}`: `bs` are the bindings of that execution with their `?`
prefixes (`?event`, `?location`, `?ruleId` included), absent opts are `null`, `C` is the action's code string as is, or with
`subvars` (the default of a rule's action) the code parsed as JSON and substituted (`substD`, RulioModel/Subst.lean). The
value of a completed post action is the response body (the recording server answers "posted"); a code that is not JSON or
whose substitution fails makes the action fail before anything is sent. -/

/-- the `verif_tmpl` of a post action -/
def postTmpl? (act : J) : Option Obj :=
  match act with
  | .obj o =>
    (match Obj.get? o "verif_tmpl" with
     | some (.obj t) => if Obj.get? t "t" == some (.str "post") then some t else none
     | _ => none)
  | _ => none

/-- For the pure event model (`processEvent`) a post action is an `echo`: it completes, and its value is the stripped
bindings of that execution — from which `applyPosts` computes the body and the real outcome. -/
def hidePosts (cands : List (String × RuleM × Bool)) : List (String × RuleM × Bool) :=
  cands.map (fun (id, r, en) => (id, { r with actions := r.actions.map (fun a =>
    if (postTmpl? a).isSome then J.obj [("verif_tmpl", .obj [("t", .str "echo")])] else a) }, en))

/-- Outcome of the post actions, in walk order, on the tree computed with `hidePosts`: the node of a completed post has the
value "posted" and contributes one body to `posts`; a failed substitution is a failed node, which under `serialActions`
stops the walk there (the rest of the tree is dropped, `aborted` is set). `noDef`: the location's control does not set
`UseDefaultVariableValue` (DefaultControl sets it, with the value "undefined"). -/
def applyPosts (noDef : Bool) (cands : List (String × RuleM × Bool)) (t : Tree) : Tree × List Json :=
  let dflt : Option J := if noDef then none else some (.str "undefined")
  let ruleOf (id : String) : Option RuleM := (cands.find? (fun x => x.1 == id)).map (·.2.1)
  let stepAct (serial : Bool) (acc : Bool × List Json × List ActNode) (pa : ActNode × J) : Bool × List Json × List ActNode :=
    let (stopped, posts, done) := acc
    let (a, act) := pa
    if stopped then acc else
    match postTmpl? act, act with
    | some tm, .obj ao =>
      if !a.ok then (stopped, posts, done ++ [a]) else
      let b : Bs := match a.value with | .obj env => env.map (fun kv => ("?" ++ kv.1, kv.2)) | _ => []
      let subvars := Obj.get? ao "subvars" != some (.bool false)
      let code : Except String J :=
        if !subvars then .ok ((Obj.get? ao "code").getD .null)
        else if Obj.get? tm "badjson" == some (.bool true) then .error "code is not JSON"
        else substDX dflt b ((Obj.get? tm "code").getD .null)
      (match code with
       | .ok cj =>
         let body := Json.mkObj [("bindings", bsToJson b), ("opts", J.toJson ((Obj.get? ao "opts").getD .null)), ("code", J.toJson cj)]
         (false, posts ++ [body], done ++ [{ ok := true, value := .str "posted" }])
       | .error _ => (serial, posts, done ++ [{ ok := false, value := .null }]))
    | _, _ => (stopped, posts, done ++ [a])
  let (stopped, posts, rules') := t.rules.foldl (fun (acc : Bool × List Json × List RuleNode) r =>
    if acc.1 then acc else
    let (acts, serial) := match ruleOf r.id with | some rm => (rm.actions, rm.serial) | none => ([], false)
    let (st1, ps1, conds') := r.conds.foldl (fun (acc2 : Bool × List Json × List CondNode) cn =>
      if acc2.1 then acc2 else
      let paired := cn.acts.zipIdx.map (fun (a, i) => (a, acts.getD (if acts.length == 0 then 0 else i % acts.length) .null))
      let (st2, ps2, acts') := paired.foldl (stepAct serial) (false, acc2.2.1, [])
      (st2, ps2, acc2.2.2 ++ [{ cn with acts := acts' }])) (false, acc.2.1, [])
    (st1, ps1, acc.2.2 ++ [{ r with conds := conds' }])) (false, [], [])
  let vals := rules'.flatMap (fun r => r.conds.flatMap (fun cn => (cn.acts.filter (·.ok)).map (·.value)))
  ({ t with rules := rules', values := vals, aborted := t.aborted || stopped }, posts)

/-- the event's output: the tree, plus `posts` when the event's candidates have a post action -/
def withPosts (noDef : Bool) (cands : List (String × RuleM × Bool)) (t : Tree) : Json :=
  if cands.any (fun x => x.2.1.actions.any (fun a => (postTmpl? a).isSome)) then
    let (t', posts) := applyPosts noDef cands t
    (treeJ t').setObjVal! "posts" (Json.arr posts.toArray)
  else treeJ t

def stepOp (sys : Sys) (op : Json) : Sys × Json :=
  let n := jstr op "loc"
  let now := jint op "now"
  let c : Ctx := { rk := jstr op "rk", wk := jstr op "wk" }
  let id := jstr op "id"
  match jstr op "op" with
  | "addFact" =>
    if !jobjOK op "fact" then (sys, errJ "input") else
    let (s, r) := sys.at n (locAddFact c id (jobj op "fact") now); (s, res r Json.str)
  | "remFact" =>
    let before := match sys.get? n with | some l => l.st.facts | none => []
    let (s, r) := sys.at n (locRemFact c id now)
    let after := match s.get? n with | some l => l.st.facts.map (·.1) | none => []
    -- the cascade specification: what the deleteWith closure of `id` leaves
    ((s, (res r Json.str).setObjVal! "spec_left" (strsJ ((specRem before id).map (·.1))) |>.setObjVal! "left" (strsJ after)))
  | "getFact" => let (s, r) := sys.at n (locGetFact c id now); (s, res r objJ)
  | "search" =>
    let p := jobj op "pattern"
    let (s, r) := sysSearchFacts sys c n p (jbool op "inherited") now
    let spec : Json := match sys.get? n with
      | some l => (match specSearch l.st.facts p now with | .ok f => okJ (found2J f) | .error e => errJ e)
      | none => Json.null
    let out := res r foundJ
    (s, out.setObjVal! "spec" spec |>.setObjVal! "terms" (Json.num (extractTerms p).length))
  | "addRule" =>
    if !jobjOK op "rule" then (sys, errJ "input") else
    let (s, r) := sys.at n (locAddRule c id (jobj op "rule") now); (s, res r Json.str)
  | "remRule" => let (s, r) := sys.at n (locRemRule c id now); (s, res r Json.str)
  | "enableRule" => let (s, r) := sys.at n (locEnableRule c id (jbool op "enable") now); (s, res r (fun _ => Json.bool true))
  | "ruleEnabled" => let (s, r) := sys.at n (locRuleEnabled c id now); (s, res r Json.bool)
  | "getRule" => let (s, r) := sys.at n (locGetRule c id now); (s, res r objJ)
  | "searchRules" =>
    let ev := jobj op "event"
    let spec := if jbool op "inherited" then specDispatch sys n ev now else
      (match sys.get? n with
       | some l => (match specDispatchLocal l.st.facts ev now with | .ok f => okJ (found2J f) | .error e => errJ e)
       | none => Json.null)
    let (s, r) := sysSearchRules sys c n ev (jbool op "inherited") now
    (s, (res r (fun l => strsJ (l.map (·.1)))).setObjVal! "spec" spec)
  | "listRules" => let (s, r) := sysListRules sys c n (jbool op "inherited") now; (s, res r strsJ)
  | "getParents" => let (s, r) := sys.at n (locGetParents c now); (s, res r strsJ)
  | "setParents" =>
    let ps := (jarr op "parents").filterMap (fun j => j.getStr?.toOption)
    let (s, r) := sys.at n (locSetParents c ps now); (s, res r Json.str)
  | "clear" => let (s, r) := sys.at n (locClear c now); (s, res r (fun _ => Json.bool true))
  | "size" => let (s, r) := sys.at n (locStateSize c now); (s, res r (fun k => Json.num k))
  | "setReadOnly" =>
    (match sys.get? n with
     | some l => (sys.put { l with readOnly := jbool op "v" }, okJ (Json.bool true))
     | none => (sys, errJ "notFound"))
  | "setMaxFacts" =>
    (match sys.get? n with
     | some l => (sys.put { l with maxFacts := (jint op "n").toNat }, okJ (Json.bool true))
     | none => (sys, errJ "notFound"))
  | "reload" =>
    (match sys.get? n with
     | some l =>
       (match l.st.reload now with
        | .ok st => (sys.put { l with st := st }, okJ (Json.bool true))
        | .error e => (sys, errJ e))
     | none => (sys, errJ "notFound"))
  | "snapshot" =>
    (match sys.get? n with
     | some l => (sys, okJ (snapshotJ l))
     | none => (sys, errJ "notFound"))
  | "query" =>
    let q := J.ofJson (jget op "query")
    (match q with
     | .error e => (sys, errJ ("input:" ++ e))
     | .ok qj =>
       match sys.at n (runGuards c now (guardsOf "Query")) with
       | (s, .error e) => (s, errJ e)
       | (s, .ok _) =>
         match (do let q' ← parseQuery (4 * sz qj + 4) qj; execQ (srchOf s c n now) q' [[]] : Except LErr (List Bs)) with
         | .ok bss => (s, okJ (Json.arr (bss.map bsToJson).toArray))
         | .error e => (s, errJ e))
  | "event" =>
    let ev := jobj op "event"
    if Obj.has ev "trigger!" then
      -- the cron path of FindRules.Do: the named rule of this location, whatever its `when`
      let fail (s : Sys) (e : String) : Sys × Json := (s, treeJ { err := some e, rules := [], values := [], aborted := true })
      match Obj.get? ev "trigger!" with
      | some (.str rid) =>
        (match sys.at n (locGetRule c rid now) with
         | (s, .error e) => fail s e
         | (s, .ok body) =>
           match ruleFromMap body with
           | .error e => fail s e
           | .ok r =>
             let (s1, en) := match s.at n (locRuleEnabled c rid now) with
               | (s1, .ok b) => (s1, b) | (s1, .error "disabled") => (s1, false) | (s1, .error "readDenied") => (s1, false) | (s1, .error _) => (s1, true)
             let cands := [(rid, r, en)]
             let t := processEvent (srchOf s1 c n now) n ev (hidePosts cands)
             let (s2, t') := applyEffects s1 c n now cands t
             -- RuleDone: a one-shot schedule ('+…' or '!…') removes the rule once it has been evaluated
             let s3 := if !t'.aborted && !t'.rules.isEmpty && (r.schedule.startsWith "+" || r.schedule.startsWith "!")
               then (s2.at n (locRemRule c rid now)).1 else s2
             (s3, withPosts (jbool op "noDefaultVar") cands t'))
      | _ => fail sys "badTrigger"
    else
    let spec := specDispatch sys n ev now
    (match sysSearchRulesAnc sys c n ev now with
     | (s, .error e) => (s, (treeJ { err := some e, rules := [], values := [], aborted := true }).setObjVal! "spec" spec)
     | (s, .ok cands) =>
       -- RuleEnabled is asked of the *event's* location for every candidate (inherited ones included)
       let (s', withEn) := cands.foldl (fun (acc : Sys × List (String × RuleM × Bool)) (idr : String × RuleM) =>
         let (s1, r) := acc.1.at n (locRuleEnabled c idr.1 now)
         let en := match r with | .ok b => b | .error "disabled" => false | .error _ => true
         (s1, acc.2 ++ [(idr.1, idr.2, en)])) (s, [])
       let t := processEvent (srchOf s' c n now) n ev (hidePosts withEn)
       let (s'', t') := applyEffects s' c n now withEn t
       (s'', (withPosts (jbool op "noDefaultVar") withEn t').setObjVal! "spec" spec))
  | "sleep" => (sys, okJ (Json.bool true))
  | o => (sys, errJ ("unknown op " ++ o))

def handleLoc (c : Json) : Json :=
  let kind := if jstr c "state" == "linear" then Kind.linear else Kind.indexed
  let names := (jarr c "locs").filterMap (fun j => j.getStr?.toOption)
  let names := if names.isEmpty then ["a"] else names
  let maxFacts := if jhas c "maxFacts" then (jint c "maxFacts").toNat else 1000
  let sys0 : Sys := names.map (fun n => (n, { name := n, st := { kind := kind }, maxFacts := maxFacts }))
  let (_, outs) := (jarr c "ops").foldl (fun (acc : Sys × List Json) op =>
    let (s, o) := stepOp acc.1 op
    (s, acc.2 ++ [o])) (sys0, [])
  Json.mkObj [("outs", Json.arr outs.toArray)]

import Driver.JsonIO
import RulioModel.Watchdog
import RulioModel.ScriptTpl
open Lean

/-! model-side handler for the C14 correspondence (kinds `c14.*`) -/

namespace C14Drv
open ScriptTpl Watchdog

def opOf : String → Option Op
  | "+" => some .add | "-" => some .sub | "*" => some .mul
  | "<" => some .lt | "<=" => some .le | ">" => some .gt | ">=" => some .ge
  | "===" => some .eq | "!==" => some .ne | "&&" => some .and | "||" => some .or
  | _ => none

partial def exOf (j : Json) : Except String Ex := do
  if jhas j "op" then
    match opOf (jstr j "op") with
    | none => throw ("bad op " ++ jstr j "op")
    | some op => do
      let a ← exOf (jget j "l"); let b ← exOf (jget j "r")
      pure (.bin op a b)
  else if jhas j "n" then
    match (jget j "n").getInt? with
    | .ok n => pure (.num n)
    | .error _ => throw "bad n"
  else if jhas j "s" then pure (.str (jstr j "s"))
  else if jhas j "bool" then pure (.bool (jbool j "bool"))
  else if jhas j "null" then pure .null
  else if jhas j "v" then pure (.var (jstr j "v"))
  else if jhas j "typeof" then pure (.typeOf (jstr j "typeof"))
  else if jhas j "op" then
    match opOf (jstr j "op") with
    | none => throw ("bad op " ++ jstr j "op")
    | some op => do
      let a ← exOf (jget j "l"); let b ← exOf (jget j "r")
      pure (.bin op a b)
  else if jhas j "not" then do
    let a ← exOf (jget j "not"); pure (.not a)
  else if jhas j "obj" then do
    let kvs ← (jarr j "obj").mapM (fun kv => do
      match kv with
      | .arr #[k, e] => do
        let e' ← exOf e
        pure ((k.getStr?).toOption.getD "", e')
      | _ => throw "bad obj entry")
    pure (.obj kvs)
  else if jhas j "arr" then do
    let xs ← (jarr j "arr").mapM exOf
    pure (.arr xs)
  else throw "bad expression"

def natOf (j : Json) (k : String) : Nat := (jint j k).toNat

def tplOf (j : Json) : Except String Tpl := do
  match jstr j "t" with
  | "exprs" => do
    let pre ← (jarr j "pre").mapM exOf
    let last ← exOf (jget j "last")
    pure (.exprs pre last)
  | "echo" => pure .echo
  | "throw" => do let e ← exOf (jget j "e"); pure (.throwE e)
  | "syntax" => pure .syntaxErr
  | "loop" => pure .loop
  | "busy" => do let e ← exOf (jget j "last"); pure (.busy (natOf j "n") e)
  | "sleepThen" => do let e ← exOf (jget j "last"); pure (.sleepThen (natOf j "ms") e)
  | "sleepLast" => pure (.sleepLast (natOf j "ms"))
  | t => throw ("bad template " ++ t)

def bsOf (j : Json) : Except String Bs := do
  match ← J.ofJson j with
  | .obj kvs => pure kvs
  | .null => pure []
  | _ => throw "bindings must be an object"

def errName : RErr → String
  | .syntax => "syntax" | .thrown => "thrown" | .timeout => "timeout"

def outcomeName : Outcome J → String
  | .returned (.ok (some _)) => "value"
  | .returned (.ok none) => "nil"
  | .returned (.error e) => "error:" ++ errName e
  | .panicked => "panicked"
  | .blocked => "blocked"
  | .running => "running"

def tcOf (j : Json) : TimeoutCfg :=
  { timeoutsOn := jbool j "on", hasLoc := jbool j "hasLoc", control := jint j "control", sysDefault := jint j "sysDefault" }

def optInt : Option Int → Json
  | some n => Json.num (JsonNumber.fromInt n)
  | none => Json.null

def doChoose (c : Json) : Json :=
  Json.mkObj [("timeout", optInt (chooseTimeout (tcOf (jget c "tc"))))]

def doStrip (c : Json) : Json :=
  match bsOf (jget c "bs") with
  | .error e => Json.mkObj [("err", Json.str ("input:" ++ e))]
  | .ok bs => Json.mkObj [("stripped", bsToJson (stripQ bs)), ("collides", Json.bool (stripCollides bs))]

/-- one run: template + the bindings the caller passes + timeout settings + designed duration -/
def doRun (c : Json) : Json :=
  match (do
    let tpl ← tplOf (jget c "tpl")
    let bs ← bsOf (jget c "bs")
    pure (tpl, bs) : Except String (Tpl × Bs)) with
  | .error e => Json.mkObj [("err", Json.str ("input:" ++ e))]
  | .ok (tpl, bs) =>
    let strip := jbool c "strip"
    let env := if strip then stripQ bs else bs
    let collides := strip && stripCollides bs
    let timeout := chooseTimeout (tcOf (jget c "tc"))
    let dur := jint c "dur_ms"          -- designed natural duration; negative: never ends
    let fires := match timeout with
      | none => false
      | some t => dur < 0 || dur * 1000000 > t
    let pre := natOf c "pre"
    match behaviour env tpl with
    | none => Json.mkObj [("unsupported", Json.bool true), ("timeout", optInt timeout)]
    | some sc =>
      let en := timeout.isSome
      let coded := callScript sc en fires false false pre
      let fixed := callScript sc en fires true true pre
      let half := callScript sc en fires true false pre
      let scName := match sc with
        | .value _ _ => "value" | .throws _ => "throws" | .loops => "loops" | .syntaxError => "syntax"
      let valueFields : List (String × Json) := match sc with
        | .value _ v => [("value", J.toJson v),
                         ("cond_bss", Json.arr ((condBindings bs (some v)).map bsToJson).toArray)]
        | _ => []
      Json.mkObj ([("timeout", optInt timeout), ("enabled", Json.bool en), ("fires", Json.bool fires),
        ("script", Json.str scName), ("collides", Json.bool collides),
        ("pred_coded", Json.str (outcomeName coded)), ("pred_fixed", Json.str (outcomeName fixed)),
        ("pred_half", Json.str (outcomeName half)),
        ("env", bsToJson env)] ++ valueFields)

end C14Drv

/-- model-side handler for cases whose "kind" starts with "c14." -/
def handleC14 (kind : String) (c : Json) : Json :=
  match kind with
  | "c14.run" => C14Drv.doRun c
  | "c14.strip" => C14Drv.doStrip c
  | "c14.choose" => C14Drv.doChoose c
  | _ => Json.mkObj [("err", Json.str ("unknown kind " ++ kind))]

import Driver.JsonIO
import RulioModel.Service
open Lean

/-! Model-side driver for property C18 (kinds `c18.*`): predicts, per HTTP request, the System call(s)
(method + arguments) or the error class, from the request text and the decoder outputs supplied by the
orchestrator for the texts it encoded (query strings, YAML); JSON texts are decoded with Lean's own parser. -/

namespace C18Driver
open Svc

def errJson : ErrC → Json
  | .noUri => Json.mkObj [("class", "noUri")]
  | .unknownUri => Json.mkObj [("class", "unknownUri")]
  | .missing p => Json.mkObj [("class", "missing"), ("param", p)]
  | .illTyped p => Json.mkObj [("class", "illTyped"), ("param", p)]
  | .decode => Json.mkObj [("class", "decode")]
  | .panic => Json.mkObj [("class", "panic")]

def objOfJson (j : Json) : Option (List (String × J)) :=
  match j with
  | .obj _ =>
    match J.ofJson j with
    | .ok (.obj kvs) => some kvs
    | _ => none
  | .null => some []      -- json.Unmarshal of `null` into a map leaves it untouched
  | _ => none

def tableLookup (tbl : Json) (s : String) : Option Json :=
  match tbl with
  | .arr xs => (xs.toList.find? (fun e => jstr e "in" == s)).map (fun e => jget e "out")
  | _ => none

def pairsOfJson (j : Json) : Option (List (String × List String)) :=
  match j with
  | .arr xs => xs.toList.mapM (fun e => match e with
      | .arr kv =>
        match kv.toList with
        | [Json.str k, Json.arr vs] => (vs.toList.mapM (fun (v : Json) => v.getStr?.toOption)).map (fun l => (k, l))
        | _ => none
      | _ => none)
  | _ => none

def codecOf (dec : Json) : Codec :=
  { parseQuery := fun s => (tableLookup (jget dec "query") s).bind pairsOfJson
    jsonObj := fun s => match Json.parse s with | .ok j => objOfJson j | .error _ => none
    yamlObj := fun s => (tableLookup (jget dec "yaml") s).bind (fun j => match j with | .null => none | _ => objOfJson j)
    jsonAny := fun s => match Json.parse s with
      | .ok j => (J.ofJson j).toOption
      | .error _ => none }

def callJson (k : SysCall) : Json :=
  Json.mkObj [("method", k.method), ("args", Json.arr (k.args.map J.toJson).toArray), ("checked", k.checked)]

def outcomeJson : Except ErrC Outcome → Json
  | .ok o => Json.mkObj [("outcome", "ok"), ("status", (200 : Nat)),
      ("calls", Json.arr (o.calls.map callJson).toArray),
      ("swallowed", Json.arr (o.swallowed.map errJson).toArray), ("take", o.take)]
  | .error .panic => Json.mkObj [("outcome", "panic"), ("status", (0 : Nat)), ("err", errJson .panic)]
  | .error e => Json.mkObj [("outcome", "err"), ("status", (400 : Nat)), ("err", errJson e)]

def doHttp (c : Json) : Json :=
  let codec := codecOf (jget c "dec")
  let r : HttpReq := ⟨jstr c "method", jstr c "url", jstr c "path", jstr c "rawQuery", jstr c "body"⟩
  let dw := dwimURI r.urlString
  match getHTTPRequest codec r with
  | .error e => (outcomeJson (.error e)).mergeObj (Json.mkObj [("stage", "decode"), ("dwim", dw)])
  | .ok m =>
    let nf : Json := match uriNF m with
      | some (some u) => Json.str u
      | _ => Json.null
    if uriNF m == some (some "/api/sys/util/batch") then
      match processBatch codec m with
      | .error e => (outcomeJson (.error e)).mergeObj (Json.mkObj [("stage", "process"), ("dwim", dw), ("uri", nf)])
      | .ok items => Json.mkObj [("outcome", "batch"), ("status", (200 : Nat)), ("stage", "process"), ("dwim", dw), ("uri", nf),
          ("items", Json.arr (items.map outcomeJson).toArray)]
    else if uriNF m == some none then
      (outcomeJson (.error (if Gen.C18.uriAssertChecked then ErrC.decode else ErrC.panic))).mergeObj
        (Json.mkObj [("stage", "process"), ("dwim", dw), ("uri", nf)])
    else
      (outcomeJson (processRequest codec m)).mergeObj (Json.mkObj [("stage", "process"), ("dwim", dw), ("uri", nf),
        ("inTable", (findRow (match uriNF m with | some (some u) => u | _ => "")).isSome)])

end C18Driver

/-- model-side handler for cases whose "kind" starts with "c18." -/
def handleC18 (kind : String) (c : Json) : Json :=
  match kind with
  | "c18.dwim" => Json.mkObj [("out", Json.str (Svc.dwimURI (jstr c "s")))]
  | "c18.http" => C18Driver.doHttp c
  | _ => Json.mkObj [("err", Json.str ("unknown kind " ++ kind))]

import Driver.Loc
import RulioModel.Cache
open Lean

/-! Model-side handlers for C17: the cache model of `RulioModel/Cache.lean` instantiated with the Location model
of `RulioModel/Loc.lean` (an API call = `stepOp` of Driver/Loc.lean on a one-location system whose storage and
UUID counter are the shared ones). -/

/-- the shared storage of one location: stored documents and the (global) id counter standing in for UUIDs -/
structure DStore where
  docs : List (String × J) := []
  fresh : Nat := 0

def markerId : String := genPropId "" "createdAt"

def withStore (loc : Loc) (n : String) (s : DStore) : Loc :=
  { loc with name := n, st := { loc.st with store := s.docs, fresh := s.fresh } }

def storeJ (s : DStore) : Json := Json.mkObj (s.docs.map (fun (id, d) => (id, J.toJson d)))

/-! The System builds every location with the cron hooks (`cron.AddHooks`, system.go:757). The remove hook runs
before every top-level `State.Rem` and starts with `state.Get(id)`: removing an id that is not there is an error
through the System (it is not on a bare `core.Location`). Facts carry no schedule here, so the hooks do nothing else. -/
def c17HookRem (id : String) (now : Int) : LM Bool := do
  let _ ← stGet id now
  stRem id now

def locRemFactH (c : Ctx) (id : String) (now : Int) : LM String := do
  runGuards c now (guardsOf "RemFact"); let _ ← c17HookRem id now; pure id

def locRemRuleH (c : Ctx) (id : String) (now : Int) : LM String := do
  runGuards c now (guardsOf "RemRule")
  let _ ← c17HookRem id now
  let (_, found) ← getProp id "disabled" (.bool false) now
  if found then do
    let _ ← c17HookRem (genPropId id "disabled") now
    pure id
  else pure id

def locEnableRuleH (c : Ctx) (id : String) (enable : Bool) (now : Int) : LM Unit := do
  runGuards c now (guardsOf "EnableRule")
  if enable then do
    let _ ← c17HookRem (genPropId id "disabled") now
    pure ()
  else do
    let _ ← setProp id "disabled" (.bool true) now
    pure ()

/-- `stepOp` for a location built by the System (cron hooks installed) -/
def stepOpH (sys : Sys) (op : Json) : Sys × Json :=
  let n := jstr op "loc"
  let now := jint op "now"
  let c : Ctx := { rk := jstr op "rk", wk := jstr op "wk" }
  let id := jstr op "id"
  match jstr op "op" with
  | "remFact" => let (s, r) := sys.at n (locRemFactH c id now); (s, res r Json.str)
  | "remRule" => let (s, r) := sys.at n (locRemRuleH c id now); (s, res r Json.str)
  | "enableRule" => let (s, r) := sys.at n (locEnableRuleH c id (jbool op "enable") now); (s, res r (fun _ => Json.bool true))
  -- requests that only look at the Location object the cache hands out (GetLastUpdatedMem, GetLocationStats,
  -- ClearLocationStats): one Open, no state access, one Release
  | "noop" | "lastUpdated" | "locStats" | "clearLocStats" => (sys, okJ (Json.bool true))
  | _ => stepOp sys op

def drvSemBase (kind : Kind) : LocSem where
  L := Except String Loc
  S := DStore
  Op := Json
  Res := Json
  emptyS := {}
  load := fun tns s =>
    match St.reload { kind := kind, store := s.docs, fresh := s.fresh } (tns / 1000000000) with
    | .ok st => .ok { name := "", st := st }
    | .error e => .error e
  exec := fun l s op =>
    match l with
    | .error e => (l, s, errJ ("load:" ++ e))
    | .ok loc =>
      let n := jstr op "loc"
      let loc := withStore loc n s
      let (sys', out) := stepOpH [(n, loc)] op
      match sys'.get? n with
      | some loc' => (.ok loc', { docs := loc'.st.store, fresh := loc'.st.fresh }, out)
      | none => (.ok loc, s, out)
  created := fun l => match l with
    | .ok loc => (match (getProp "" "createdAt" (.str "") 0 loc).2 with | .ok (_, found) => found | .error _ => false)
    | .error _ => false
  mark := fun l s => match l with
    | .ok loc =>
      let loc := withStore loc loc.name s
      let (loc', _) := setProp "" "createdAt" (.str "T") 0 loc
      (.ok loc', { docs := loc'.st.store, fresh := loc'.st.fresh })
    | .error _ => (l, s)
  cacheTTL := fun l => match l with
    | .ok loc => (match (getProp "" "cacheTTL" .null 0 loc).2 with
        | .ok (.num ms, true) => some (ms * 1000000)
        | _ => none)
    | .error _ => none

/-- the body of `System.ClearLocation` = `Location.Clear`, then the `createdAt` marker is set again if it was there -/
def isClearOp (op : Json) : Bool := jstr op "op" == "clear"

/-- the location semantics of the requests the harness issues through the System -/
def drvSem (kind : Kind) : LocSem := keepMark (drvSemBase kind) isClearOp

def parseCfg (c : Json) : Cfg :=
  let ttl := match jget c "ttl" with
    | .str "never" => TTL.never
    | .str "forever" => TTL.forever
    | .str "1ms" => TTL.finite 1000000
    | .str _ => TTL.forever
    | j => (match j.getInt? with | .ok n => if n == 0 then TTL.never else if n < 0 then TTL.forever else TTL.finite n | .error _ => TTL.forever)
  { ttl := ttl, checkExistence := jbool c "check", cachePending := !(jbool c "noCachePending") }

def kindOf (c : Json) : Kind := if jstr c "state" == "linear" then Kind.linear else Kind.indexed

def outJ {k : Kind} : Out (drvSem k) → Json
  | .ok r => r
  | .notFound => Json.mkObj [("err", Json.str "notFound"), ("rules", Json.arr #[]), ("values", Json.arr #[])]
  | .created b => okJ (Json.bool b)
  | .peeked => okJ (Json.bool true)

def reqOf (k : Kind) (op : Json) : Req (drvSem k) :=
  let n := jstr op "loc"
  match jstr op "op" with
  | "create" => .create n
  | "peek" => .peek n
  | _ => .api n op

/-- Clock reconstruction. The harness brackets every request by two clock readings `t0 ≤ t1`; the code reads the
clock somewhere in between, once when the entry is created (`Expires`) and once in `Release`. The model is run with
`tOpen = t0`; the unknown offset δ ∈ [0, t1-t0] of the creating request is tracked as an interval per cache entry
lifetime and every later `Release` is given the clock value (inside its own bracket, shifted by an admissible δ)
that reproduces the observed outcome *if one exists*; otherwise the bracket end is used and the model's answer
differs from the observation. -/
structure Life where
  dLo : Int
  dHi : Int
  openIdx : Nat

/-- choose the model's release time; `e` = the entry's `Expires` in the model, `obs` = entry observed in the table
after the request -/
def chooseRel (life : Life) (idx : Nat) (e t0 t1 : Int) (obs : Bool) : Int × Life :=
  if obs then
    -- kept needs (r - δ) < e for some r ∈ [t0,t1], δ ∈ [dLo,dHi] (and r - δ ≥ tOpen = t0 for the creating request)
    let lo := if idx == life.openIdx then t0 else t0 - life.dHi
    if lo < e then
      let life' := if idx == life.openIdx then life else { life with dLo := max life.dLo (t0 - e + 1) }
      (min (e - 1) t1, life')
    else (t1, life)
  else
    if t1 - life.dLo ≥ e then (max e t0, { life with dHi := min life.dHi (t1 - e) })
    else (t1, life)

/-- kind "c17.sys": sequential history; per op the model's answer, the direct-operation answer (`spec`), the number
of loads and whether the name is in the cache table afterwards -/
def handleC17Sys (c : Json) : Json :=
  let k := kindOf c
  let cfg := parseCfg c
  let step := fun (acc : SysSt (drvSem k) × DSt (drvSem k) × List Json × List (String × Life) × Nat) (op : Json) =>
    let (st, d, outs, lives, idx) := acc
    let n := jstr op "loc"
    match jstr op "op" with
    | "store" => (st, d, outs ++ [(okJ (storeJ (storeOf st.store n))).setObjVal! "loads" (Json.num 0)
                    |>.setObjVal! "cached" (Json.bool (kget st.table n).isSome)
                    |>.setObjVal! "spec" (okJ (storeJ (dget d n 0).2))], lives, idx + 1)
    | "sleep" => (st, d, outs ++ [(okJ (Json.bool true)).setObjVal! "loads" (Json.num 0)
                    |>.setObjVal! "cached" (Json.bool (kget st.table n).isSome) |>.setObjVal! "spec" (okJ (Json.bool true))], lives, idx + 1)
    | _ =>
      let r := reqOf k op
      let t0 := jint op "t0"
      let t1 := jint op "t1"
      -- look at the entry right after Open to learn its Expires and whether this request created it
      let stO := (openE cfg st n (reqCheck r) t0).1
      let loaded := stO.loads.length > st.loads.length
      let lives := if loaded then kset lives n { dLo := 0, dHi := t1 - t0, openIdx := idx } else lives
      let (trel, lives) := match kget stO.table n, kget lives n, (jget op "obs").getBool? with
        | some e, some life, .ok obs =>
          -- an entry without a Location (the load failed) goes away with its last holder, whatever the clock shows
          if e.loc.isSome then let (t, life') := chooseRel life idx e.expires t0 t1 obs; (t, kset lives n life') else (t1, lives)
        | _, _, _ => (t1, lives)
      let (st', out) := reqE cfg st r t0 trel
      let (d', sout) := reqD cfg.checkExistence d r t0
      let j := (outJ out).setObjVal! "loads" (Json.num (st'.loads.length - st.loads.length))
                |>.setObjVal! "cached" (Json.bool (kget st'.table n).isSome)
                |>.setObjVal! "spec" (outJ sout)
      (st', d', outs ++ [j], lives, idx + 1)
  let (_, _, outs, _, _) := (jarr c "ops").foldl step ({}, { base := [] }, [], [], 0)
  -- every history lies inside the fragment of `cache_transparent_seq` (the theorem has no side condition any more)
  Json.mkObj [("outs", Json.arr outs.toArray), ("frag", Json.bool true)]

/-! kind "c17.proto": the exported protocol driven step by step (Open / Location call / Release per handle) -/

structure PSt (k : Kind) where
  c : CSt (drvSem k) := {}
  handles : List (String × Nat) := []     -- handle ↦ thread id
  d : DSt (drvSem k) := { base := [] }    -- direct operation (specification)
  multiLive : Bool := false               -- an instance was loaded while another one of the same name was held

def stepsUntil {k : Kind} (cfg : Cfg) (c : CSt (drvSem k)) (tid : Nat) (now : Int) (stop : PC (drvSem k) → Bool) : Nat → CSt (drvSem k)
  | 0 => c
  | fuel + 1 =>
    match c.pcs[tid]? with
    | some pc => if stop pc then c else stepsUntil cfg (cstep cfg c tid now) tid now stop fuel
    | none => c

def isReleasing {k : Kind} : PC (drvSem k) → Bool
  | .releasing _ _ _ => true
  | .done _ _ => true
  | _ => false

def isFinished {k : Kind} : PC (drvSem k) → Bool
  | .done _ _ => true
  | _ => false

/-- some thread other than `tid` currently holds an instance of `n` -/
def heldElsewhere {k : Kind} (c : CSt (drvSem k)) (tid : Nat) (n : String) : Bool :=
  (List.range c.pcs.length).any (fun t => t != tid && (match holdsInst c t with
    | some (m, _) => m == n
    | none => false))

def handleC17Proto (cj : Json) : Json :=
  let k := kindOf cj
  let cfg := parseCfg cj
  let step := fun (acc : PSt k × List Json) (s : Json) =>
    let (p, outs) := acc
    let h := jstr s "h"
    let t0 := jint s "t0"
    let t1 := jint s "t1"
    let nameOfH : String := match kget p.handles h with
      | some tid => (match p.c.pcs[tid]? with
          | some (.opened r _) => r.name
          | some (.releasing m _ _) => m
          | _ => jstr s "loc")
      | none => jstr s "loc"
    let n := if jstr s "loc" == "" then nameOfH else jstr s "loc"
    let loads0 := p.c.loads.length
    let fin := fun (p' : PSt k) (j : Json) =>
      let j := j.setObjVal! "loads" (Json.num (p'.c.loads.length - loads0))
            |>.setObjVal! "cached" (Json.bool (kget p'.c.table n).isSome)
      (p', outs ++ [j])
    match jstr s "t" with
    | "open" =>
      let tid := p.c.pcs.length
      let chk := jbool s "check"
      let r : Req (drvSem k) := if chk then .api n (Json.mkObj [("loc", Json.str n), ("op", Json.str "noop")]) else .peek n
      let c0 := { p.c with pcs := p.c.pcs ++ [PC.start r] }
      let c1 := cstep cfg c0 tid t0
      let newLoad := c1.loads.length > loads0
      let ml := p.multiLive || (newLoad && heldElsewhere c1 tid n)
      -- operating the location directly: a checked open of a location that does not carry the marker fails
      let specOK := !(chk && cfg.checkExistence && !(drvSem k).created (dget p.d n t0).1)
      let spec := if specOK then okJ (Json.bool true) else errJ "notFound"
      -- the handle is kept when the open failed: the hold it left behind is dropped by the handle's release
      (match c1.pcs[tid]? with
       | some (.opened _ i) => fin { p with c := c1, handles := kset p.handles h tid, multiLive := ml } ((okJ (Json.num i)).setObjVal! "spec" spec)
       | _ => fin { p with c := c1, handles := kset p.handles h tid, multiLive := ml } ((errJ "notFound").setObjVal! "spec" spec))
    | "op" =>
      (match kget p.handles h with
       | none => fin p (errJ "nohandle")
       | some tid =>
         match p.c.pcs[tid]? with
         | some (.opened _ i) =>
           let op := (jget s "op").setObjVal! "loc" (Json.str n) |>.setObjVal! "now" (jget s "now")
           let c0 := { p.c with pcs := setNth p.c.pcs tid (.opened (.api n op) i) }
           let c1 := cstep cfg c0 tid t0
           let out := match c1.pcs[tid]? with | some (.releasing _ _ o) => outJ o | _ => errJ "model:pc"
           -- a holder may call again: go back to `opened`
           let c2 := { c1 with pcs := setNth c1.pcs tid (.opened (.peek n) i) }
           let (d', so) := reqD false p.d (.api n op) t0
           fin { p with c := c2, d := d' } (out.setObjVal! "spec" (outJ so))
         | _ => fin p (errJ "nohandle"))
    | "release" =>
      (match kget p.handles h with
       | none =>
         -- Release by name without a holder: still a table step
         let tid := p.c.pcs.length
         let c0 := { p.c with pcs := p.c.pcs ++ [PC.releasing n none .peeked] }
         fin { p with c := cstep cfg c0 tid t1 } (okJ (Json.bool true))
       | some tid =>
         let c0 := match p.c.pcs[tid]? with
           | some (.opened _ i) => { p.c with pcs := setNth p.c.pcs tid (.releasing n (some i) .peeked) }
           | _ => p.c
         fin { p with c := cstep cfg c0 tid t1, handles := kdel p.handles h } (okJ (Json.bool true)))
    | "req" =>
      let tid := p.c.pcs.length
      let op := (jget s "op").setObjVal! "loc" (Json.str n) |>.setObjVal! "now" (jget s "now")
      let r := reqOf k op
      let c0 := { p.c with pcs := p.c.pcs ++ [PC.start r] }
      let c1 := stepsUntil cfg c0 tid t0 isReleasing 3
      let newLoad := c1.loads.length > loads0
      let ml := p.multiLive || (newLoad && heldElsewhere c1 tid n)
      let c2 := stepsUntil cfg c1 tid t1 isFinished 2
      let out := match c2.pcs[tid]? with | some (.done _ o) => outJ o | _ => errJ "model:pc"
      let (d', so) := reqD cfg.checkExistence p.d r t0
      fin { p with c := c2, d := d', multiLive := ml } (out.setObjVal! "spec" (outJ so))
    | "sleep" => fin p (okJ (Json.bool true))
    | t => fin p (errJ ("unknown step " ++ t))
  let (p, outs) := (jarr cj "steps").foldl step (({} : PSt k), [])
  Json.mkObj [("outs", Json.arr outs.toArray), ("multiLive", Json.bool p.multiLive)]

/-- model-side handler for cases whose "kind" starts with "c17." -/
def handleC17 (kind : String) (c : Json) : Json :=
  match kind with
  | "c17.sys" => handleC17Sys c
  | "c17.proto" => handleC17Proto c
  | _ => Json.mkObj [("err", Json.str ("unknown kind " ++ kind))]

import Driver.JsonIO
open Lean

/-- model-side handler for cases whose "kind" starts with "c02." (stub until the property's slice lands) -/
def handleC02 (kind : String) (c : Json) : Json :=
  Json.mkObj [("err", Json.str ("unknown kind " ++ kind))]

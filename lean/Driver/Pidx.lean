import Driver.Loc
open Lean

/-! unit-level model of the pattern index and the term index (kinds "pidx", "terms", "tidx") -/

def sortStrs (l : List String) : List String := (l.toArray.qsort (· < ·)).toList

def handlePidx (c : Json) : Json :=
  let (_, outs) := (jarr c "ops").foldl (fun (acc : PI × List Json) op =>
    let ri := acc.1
    let m := jobj op "m"
    let id := jstr op "id"
    match jstr op "op" with
    | "add" =>
      let (ri', e) := piAdd ri m id
      (ri', acc.2 ++ [match e with | some e => errJ (perr e) | none => okJ (Json.bool true)])
    | "rem" =>
      let (ri', e) := piRem ri m id
      (ri', acc.2 ++ [match e with | some e => errJ (perr e) | none => okJ (Json.bool true)])
    | "search" =>
      (ri, acc.2 ++ [match piSearch ri m with | .ok ids => okJ (strsJ (sortStrs ids)) | .error e => errJ (perr e)])
    | _ => (ri, acc.2 ++ [errJ "unknown op"])) (PI.empty, [])
  Json.mkObj [("outs", Json.arr outs.toArray)]

def handleTerms (c : Json) : Json := okJ (strsJ (sortStrs (extractTerms (jobj c "doc"))))

def handleTidx (c : Json) : Json :=
  let (_, outs) := (jarr c "ops").foldl (fun (acc : TI × List Json) op =>
    let ti := acc.1
    match jstr op "op" with
    | "add" => (TI.add ti (jstr op "term") (jstr op "id"), acc.2 ++ [okJ (Json.bool true)])
    | "rem" => (TI.rem ti (jstr op "term") (jstr op "id"), acc.2 ++ [okJ (Json.bool true)])
    | "search" =>
      let terms := (jarr op "terms").filterMap (fun j => j.getStr?.toOption)
      (ti, acc.2 ++ [match TI.search ti terms with | .ok ids => okJ (strsJ (sortStrs ids.eraseDups)) | .error e => errJ e])
    | _ => (ti, acc.2 ++ [errJ "unknown op"])) (([] : TI), [])
  Json.mkObj [("outs", Json.arr outs.toArray)]

import Driver.Loc
import RulioModel.PatIndexSpec
open Lean

/-! unit-level model of the pattern index and the term index (kinds "pidx", "terms", "tidx") -/

def sortStrs (l : List String) : List String := (l.toArray.qsort (· < ·)).toList

/-- also tracks which (id, pattern) pairs are currently indexed (a `rem` with the same pattern removes the pair) and
prints, for every search, the ids that the theorem `index_complete` says must be among the candidates:
`IdxOK pattern`, `EvOK event`, pattern matches the event -/
def handlePidx (c : Json) : Json :=
  let (_, outs) := (jarr c "ops").foldl (fun (acc : (PI × List (String × Obj)) × List Json) op =>
    let ri := acc.1.1
    let live := acc.1.2
    let m := jobj op "m"
    let id := jstr op "id"
    match jstr op "op" with
    | "add" =>
      let (ri', e) := piAdd ri m id
      ((ri', if e.isNone then live ++ [(id, m)] else live), acc.2 ++ [match e with | some e => errJ (perr e) | none => okJ (Json.bool true)])
    | "rem" =>
      let (ri', e) := piRem ri m id
      let same := fun (q : String × Obj) => q.1 == id && (J.obj q.2) == (J.obj m)
      -- removing any pattern that walks the same path also removes the id there; be conservative: drop every pair of this id
      let _ := same
      ((ri', live.filter (fun q => q.1 != id)), acc.2 ++ [match e with | some e => errJ (perr e) | none => okJ (Json.bool true)])
    | "search" =>
      let must := if EvOK m then
          (live.filter (fun q => IdxOK q.2 && (match matchesJ (.obj q.2) (.obj m) with | .ok bss => !bss.isEmpty | .error _ => false))).map (·.1)
        else []
      let out := match piSearch ri m with | .ok ids => okJ (strsJ (sortStrs ids)) | .error e => errJ (perr e)
      ((ri, live), acc.2 ++ [(out.setObjVal! "must" (strsJ (sortStrs must.eraseDups))).setObjVal! "evok" (Json.bool (EvOK m))])
    | _ => ((ri, live), acc.2 ++ [errJ "unknown op"])) ((PI.empty, []), [])
  Json.mkObj [("outs", Json.arr outs.toArray)]

def handleTerms (c : Json) : Json := okJ (strsJ (sortStrs (extractTerms (jobj c "doc"))))

def handleTidx (c : Json) : Json :=
  let (_, outs) := (jarr c "ops").foldl (fun (acc : TI × List Json) op =>
    let ti := acc.1
    match jstr op "op" with
    | "add" => (TI.add ti (jstr op "term") (jstr op "id"), acc.2 ++ [okJ (Json.bool true)])
    | "rem" => (TI.rem ti (jstr op "term") (jstr op "id"), acc.2 ++ [okJ (Json.bool true)])
    | "search" =>
      let terms := (jarr op "terms").filterMap (fun j => j.getStr?.toOption)
      (ti, acc.2 ++ [match TI.search ti terms with | .ok ids => okJ (strsJ (sortStrs ids.eraseDups)) | .error e => errJ e])
    | _ => (ti, acc.2 ++ [errJ "unknown op"])) (([] : TI), [])
  Json.mkObj [("outs", Json.arr outs.toArray)]

import RulioModel.Json
import RulioModel.Match
import RulioModel.MatchSpec
import RulioModel.PatIndex
import RulioModel.PatIndexWF
import RulioModel.BreakerGhost
